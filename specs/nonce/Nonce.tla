------------------------------- MODULE Nonce -------------------------------
(***************************************************************************)
(* C26 -- nonce-protected cluster requests cannot be replayed.             *)
(*                                                                         *)
(* Implementation-shaped model of one validate-then-track site            *)
(* (security.Validate*HMAC followed by security.NonceCache.Track) on an    *)
(* integer clock counted in HALF SECONDS: the signed timestamp is whole    *)
(* seconds (time.Now().Unix()), the nonce expiry is nanosecond-precise, so *)
(* truncation matters and half seconds are the coarsest unit that shows it.*)
(*                                                                         *)
(*   Validate:  drift = |Unix(now) - ts| ; reject when drift > TolS        *)
(*   Track   :  e = entries[key]; if present and now < e -> replay reject  *)
(*              entries[key] := now + Ttl                                  *)
(*              if now - lastEvict > Evict: delete every entry with        *)
(*                 now >= expiry ; lastEvict := now                        *)
(*                                                                         *)
(* One message m (sender, nonce, ts) is delivered up to MaxDeliver times;  *)
(* unrelated fresh messages ("other") only exist to drive the lazy sweep.  *)
(* The constants are the REAL configured values of a site (tolerance 300 s,  *)
(* retention 1202 half seconds = 2*tolerance + 1 s since arc 8359fcc; the   *)
(* check measures them on the working tree); TLC stays finite because the   *)
(* clock only visits the boundary grid  t1 + a*2*TolS + b*TtlH + e.         *)
(* Negative controls TLC must reject: TtlH = 2*TolS (retention = tolerance, *)
(* the code before 8359fcc) and TtlH = 4*TolS + 1 (half a second short).    *)
(***************************************************************************)
EXTENDS Integers, Sequences, FiniteSets, TLC, Json

CONSTANTS TolS,        \* tolerance in whole seconds: int64(tolerance.Seconds())
          TtlH,        \* nonce retention in half seconds
          EvictH,      \* sweep interval in half seconds (nonceCacheEvictInterval)
          MaxDeliver,  \* deliveries of m (original + replays)
          MaxOther,    \* bursts of unrelated messages
          Bursts,      \* sizes k of a burst of unrelated messages sent through the same transport at one instant
          MaxA, MaxB,  \* anchor multipliers
          EpsMax,      \* half-second offsets -EpsMax..EpsMax around every anchor
          Emit

VARIABLES now,        \* half seconds since the (whole-second) epoch of the scenario
          ts,         \* signed timestamp of m, whole seconds relative to the epoch; NoTs before the first delivery
          t1,         \* time of the first delivery (-1 before)
          entries,    \* key -> expiry (half seconds) ; -1 = absent
          lastEvict,
          nDel, nOther,
          accepts,    \* number of accepted deliveries of m
          inWin,      \* every accepted delivery of m had |Unix(now)-ts| <= TolS
          hist        \* <<[k, t, acc]>>

vars == <<now, ts, t1, entries, lastEvict, nDel, nOther, accepts, inWin, hist>>

NoTs == -1000000
Eps  == (0-EpsMax)..EpsMax
Keys == {"m"} \cup {"o" \o ToString(i) : i \in 1..MaxOther}
Sec(t) == t \div 2
Abs(x) == IF x < 0 THEN -x ELSE x

Offsets == {-TolS-1, -TolS, -TolS+1, -1, 0, 1, TolS-1, TolS, TolS+1}
Anchors == {a*2*TolS + b*TtlH : <<a, b>> \in (0..MaxA) \X (0..MaxB)}
Grid    == {g \in {x + e : <<x, e>> \in Anchors \X Eps} : g >= 0}

Init == /\ now = 0 /\ ts = NoTs /\ t1 = -1
        /\ entries = [k \in Keys |-> -1]
        /\ lastEvict = 0            \* NewNonceCache: lastEvict = time.Now()
        /\ nDel = 0 /\ nOther = 0 /\ accepts = 0 /\ inWin = TRUE /\ hist = <<>>

\* NonceCache.Track(key) at time t on map e; result <<accepted, newMap, newLastEvict>>
Track(e, le, key, t) ==
    IF e[key] # -1 /\ t < e[key] THEN <<FALSE, e, le>>
    ELSE LET e1 == [e EXCEPT ![key] = t + TtlH] IN
         IF t - le > EvictH
           THEN <<TRUE, [k \in Keys |-> IF e1[k] # -1 /\ t >= e1[k] THEN -1 ELSE e1[k]], t>>
           ELSE <<TRUE, e1, le>>

Times == IF t1 = -1 THEN {0, 1} ELSE {t \in {t1 + g : g \in Grid} : t >= now}

\* first delivery fixes the signed timestamp relative to the receiver's clock
Deliver ==
    /\ nDel < MaxDeliver
    /\ \E t \in Times :
       \E s \in (IF ts = NoTs THEN {Sec(t) + o : o \in Offsets} ELSE {ts}) :
         LET fresh == Abs(Sec(t) - s) <= TolS              \* Validate*HMAC freshness
             r     == Track(entries, lastEvict, "m", t)     \* only reached when fresh
             acc   == fresh /\ r[1]
         IN /\ now' = t /\ ts' = s
            /\ t1' = IF t1 = -1 THEN t ELSE t1
            /\ entries'   = IF fresh THEN r[2] ELSE entries
            /\ lastEvict' = IF fresh THEN r[3] ELSE lastEvict
            /\ nDel' = nDel + 1
            /\ accepts' = accepts + (IF acc THEN 1 ELSE 0)
            /\ inWin' = (inWin /\ (acc => fresh))
            /\ hist' = Append(hist, [k |-> "m", t |-> t, acc |-> acc, n |-> 0])
            /\ UNCHANGED nOther

\* a burst of n unrelated, correctly timestamped messages with nonces of their own, all at one
\* instant (same expiry, so one entry stands for the burst); on the wire they reuse the
\* transport's pooled request buffers between the original and a replay
Other ==
    /\ t1 # -1 /\ nOther < MaxOther /\ nDel < MaxDeliver
    /\ \E t \in Times, n \in Bursts :
         LET r == Track(entries, lastEvict, "o" \o ToString(nOther + 1), t) IN
         /\ now' = t /\ entries' = r[2] /\ lastEvict' = r[3]
         /\ nOther' = nOther + 1
         /\ hist' = Append(hist, [k |-> "o", t |-> t, acc |-> r[1], n |-> n])
         /\ UNCHANGED <<ts, t1, nDel, accepts, inWin>>

Done == nDel = MaxDeliver /\ UNCHANGED vars
Next == Deliver \/ Other \/ Done
Spec == Init /\ [][Next]_vars

-----------------------------------------------------------------------------
\* the property
AtMostOnce    == accepts <= 1
RejectOutside == inWin
\* vacuity witnesses (checked by the runner through coverage / NeverX probes)
SomeReplayRejected == \E i \in 1..Len(hist) : hist[i].k = "m" /\ ~hist[i].acc

EmitInv == (Emit /\ nDel = MaxDeliver) =>
             PrintT(<<"TRACE", ToJson([ts |-> ts, ev |-> hist, accepts |-> accepts])>>)
=============================================================================

SPECIFICATION Spec
CONSTANTS
  TolS = 300
  TtlH = 1201
  EvictH = 120
  MaxDeliver = 3
  MaxOther = 1
  Bursts = {1, 8}
  MaxA = 2
  MaxB = 2
  EpsMax = 2
  Emit = FALSE
INVARIANTS AtMostOnce RejectOutside
CHECK_DEADLOCK FALSE

---------------------------- MODULE TieringProp ----------------------------
(***************************************************************************)
(* C12, property level.  Only what can be observed from outside: for each  *)
(* migrating file whether each tier holds its complete contents ("full"),  *)
(* nothing ("none") or something else ("other"), whether the last          *)
(* migration cycle ran to its end reporting no error, and what a query     *)
(* through the real multi-tier path list sees.  Every behaviour of this    *)
(* module satisfies the property; the mechanism is left open.              *)
(***************************************************************************)
EXTENDS Naturals, Sequences
CONSTANT NFiles
Files == 1..NFiles
VARIABLES hot, cold,   \* [Files -> {"full","none","other"}]
          clean,       \* no crash and no reported error since the cycle began
          settled      \* the last cycle finished with clean = TRUE

pvars == <<hot, cold, clean, settled>>

PInit == /\ hot = [f \in Files |-> "full"] /\ cold = [f \in Files |-> "none"]
         /\ clean = FALSE /\ settled = FALSE

Readable(h, c) == \A f \in Files : h[f] = "full" \/ c[f] = "full"

CycleBegin == clean' = TRUE /\ settled' = FALSE /\ UNCHANGED <<hot, cold>>
\* a crash, or a step failure that the cycle reports as an error
Fault      == clean' = FALSE /\ UNCHANGED <<hot, cold, settled>>
\* a step failure that the cycle does not report (the source delete)
SoftFault  == UNCHANGED pvars
CycleEnd(errors) == settled' = (clean /\ errors = 0) /\ UNCHANGED <<hot, cold, clean>>

\* a storage mutation observed at the Backend interface, with the state of the file afterwards:
\* allowed only if the file's complete contents stay readable somewhere
Op(tier, f, post) ==
    /\ hot'  = IF tier = "hot"  THEN [hot  EXCEPT ![f] = post] ELSE hot
    /\ cold' = IF tier = "cold" THEN [cold EXCEPT ![f] = post] ELSE cold
    /\ Readable(hot', cold')
    /\ UNCHANGED <<clean, settled>>

\* the bytes actually found in both tiers (after a crash, after a cycle)
Observe(h, c) == /\ hot' = h /\ cold' = c /\ Readable(h, c) /\ UNCHANGED <<clean, settled>>

\* rows of each file seen by a query: never lost, and exactly once when the last cycle finished cleanly
Query(ok, seen) == /\ ok /\ \A f \in Files : seen[f] >= 1
                   /\ settled => \A f \in Files : seen[f] = 1
                   /\ UNCHANGED pvars
=============================================================================

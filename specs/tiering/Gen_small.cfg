SPECIFICATION Spec
CONSTANTS
  NFiles = 2
  MaxFaults = 1
  Concurrent = FALSE
  ScanAtomic = TRUE
  StopWhenSettled = TRUE
  Overlap = "never"
  AllowAging = FALSE
  Emit = TRUE
INVARIANTS Safety EmitInv
CHECK_DEADLOCK FALSE

SPECIFICATION Spec
CONSTANTS
  NFiles = 2
  MaxFaults = 2
  Concurrent = TRUE
  ScanAtomic = FALSE
  StopWhenSettled = FALSE
  Overlap = "any"
  AllowAging = TRUE
  Emit = FALSE
INVARIANTS Safety
VIEW MCView
CHECK_DEADLOCK FALSE

---------------------------- MODULE TieringTrace ----------------------------
(* Replays recorded runs of the real tiering.Manager (trace.ndjson) against TieringProp. *)
EXTENDS Naturals, Sequences, TLC, Json
NFiles == 2
VARIABLES hot, cold, clean, settled, l
INSTANCE TieringProp

Trace == ndJsonDeserialize("trace.ndjson")
tvars == <<hot, cold, clean, settled, l>>

TraceInit == PInit /\ l = 1 /\ TLCSet(1, 0)
IsEvent(e) == l <= Len(Trace) /\ Trace[l].ev = e /\ l' = l + 1

ToFn(s) == [f \in Files |-> s[f]]

TBegin  == IsEvent("begin") /\ hot' = [f \in Files |-> "full"] /\ cold' = [f \in Files |-> "none"]
                            /\ clean' = FALSE /\ settled' = FALSE
TCycle  == IsEvent("cycle_begin") /\ CycleBegin
TFault  == IsEvent("fault") /\ (IF Trace[l].soft THEN SoftFault ELSE Fault)
TOp     == IsEvent("op") /\ Op(Trace[l].tier, Trace[l].f, Trace[l].post)
TEnd    == IsEvent("cycle_end") /\ CycleEnd(Trace[l].errors)
TObs    == IsEvent("obs") /\ Observe(ToFn(Trace[l].hot), ToFn(Trace[l].cold))
TQuery  == IsEvent("query") /\ Query(Trace[l].ok, ToFn(Trace[l].seen))

TraceNext == TBegin \/ TCycle \/ TFault \/ TOp \/ TEnd \/ TObs \/ TQuery
TraceSpec == TraceInit /\ [][TraceNext]_tvars

HW == TLCSet(1, IF l > TLCGet(1) THEN l ELSE TLCGet(1))
TraceAccepted == IF TLCGet(1) = Len(Trace) + 1 THEN TRUE
                 ELSE PrintT(<<"REJECTED_AT", TLCGet(1)>>) /\ FALSE
=============================================================================

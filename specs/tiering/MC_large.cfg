SPECIFICATION Spec
CONSTANTS
  NFiles = 3
  MaxFaults = 3
  Concurrent = TRUE
  ScanAtomic = FALSE
  StopWhenSettled = FALSE
  Overlap = "never"
  AllowAging = TRUE
  Emit = FALSE
INVARIANTS Safety
VIEW MCView
CHECK_DEADLOCK FALSE

------------------------------ MODULE Tiering ------------------------------
(***************************************************************************)
(* C12 -- tier migration never makes data unreadable or visible twice.     *)
(*                                                                         *)
(* Implementation-shaped model of internal/tiering as written:             *)
(*   Manager.RunMigrationCycle =                                           *)
(*     ScanAndRegisterFiles   every parquet file found in the hot backend  *)
(*                            is upserted with tier = hot (this flips a    *)
(*                            "cold" row back to hot when the hot copy     *)
(*                            still exists)                                *)
(*     Migrator.MigrateTier   candidates = rows with tier = hot (old       *)
(*                            enough, *_daily.parquet); per candidate      *)
(*                            MigrateFile = copyFileStreaming (LocalBackend*)
(*                            writes <path>.part, then renames) ->         *)
(*                            metadata.UpdateTier(cold) (on failure: delete*)
(*                            the cold copy again) -> hot.Delete (failure  *)
(*                            is only logged) -> CleanupEmptyDirectories   *)
(*     ReconcileOrphanedFiles rows with tier = cold migrated in the last   *)
(*                            48 h: hot.Exists -> hot.Delete               *)
(*   Query side (internal/api/query.go buildMultiTierReadParquet): the     *)
(*   path list holds the hot glob iff some row of the measurement has      *)
(*   tier = hot and the cold glob iff some row has tier = cold; the globs  *)
(*   match <dir>/**/*.parquet, so a .part staging file is never read.      *)
(*                                                                         *)
(* Faults: a process crash between any two steps (volatile state is lost,  *)
(* both backends and the SQLite metadata survive) and a failure of any     *)
(* single step.  hotRes / coldRes say whether the measurement also has a   *)
(* file that stays hot (too recent) / a file that has been cold for long:  *)
(* they decide which globs a query uses besides the migrating files' rows. *)
(***************************************************************************)
EXTENDS Naturals, Sequences, FiniteSets, TLC, Json

CONSTANTS NFiles,      \* migrating files are 1..NFiles, visited in this order
          MaxFaults,   \* crashes + step failures in one behaviour
          Concurrent,  \* TRUE: MigrateBatch overlaps files (semaphore > 1); FALSE: one at a time
          ScanAtomic,  \* TRUE: the scan is one step (generation: a crash inside it cannot be placed)
          StopWhenSettled, \* TRUE: no further cycle after a clean one (generation)
          Overlap,     \* "never" | "always" | "any": a second MigrateBatch over the *same* candidate list before
                       \* reconciliation (two overlapping cycles -- cron + manual trigger -- or a retry holding
                       \* a stale list).  The second pass meets files whose row already says cold.
          AllowAging,  \* TRUE: once per behaviour, while no cycle runs, more than the 48 h reconciliation window may pass
          Emit

Files == 1..NFiles

VARIABLES hotRes, coldRes,
          hot,        \* [Files -> BOOLEAN]   complete copy in the hot backend
          coldFinal,  \* [Files -> BOOLEAN]   complete copy at the final path in the cold backend
          coldPart,   \* [Files -> BOOLEAN]   <path>.part staging file in the cold backend
          meta,       \* [Files -> {"hot","cold"}]  tier_files.tier
          pc,         \* [Files -> {"idle","copying","copied","metaDone","finished","failed"}]
          phase,      \* "down" | "scan" | "migrate" | "reconcile" | "end"
          stodo, cands, rtodo,
          pass,       \* 1 | 2: which pass over the candidate list
          recent,     \* files whose migrated_at lies inside ReconcileOrphanedFiles' 48 h window
          aged,       \* the window has been let elapse once already
          nW, nD, nU, \* [Files -> Nat]: WriteReader(cold,f) / Delete(hot,f) / UpdateTier(f) calls so far in this cycle
          clean,      \* no crash and no error reported (errors = 0) since the cycle began
          settled,    \* the last cycle ran to its end and reported errors = 0
          faults,
          cyc, hist   \* history (generation only; hidden by VIEW in the MC configs)

state == <<hotRes, coldRes, hot, coldFinal, coldPart, meta, pc, phase, stodo, cands, rtodo, pass, nW, nD, nU, recent, aged, clean, settled, faults>>
vars  == <<hotRes, coldRes, hot, coldFinal, coldPart, meta, pc, phase, stodo, cands, rtodo, pass, nW, nD, nU, recent, aged, clean, settled, faults, cyc, hist>>
MCView == state

Init == /\ hotRes \in BOOLEAN /\ coldRes \in BOOLEAN
        /\ hot = [f \in Files |-> TRUE]
        /\ coldFinal = [f \in Files |-> FALSE] /\ coldPart = [f \in Files |-> FALSE]
        /\ meta = [f \in Files |-> "hot"]
        /\ pc = [f \in Files |-> "idle"]
        /\ phase = "down" /\ stodo = {} /\ cands = {} /\ rtodo = {}
        /\ pass = 1 /\ nW = [f \in Files |-> 0] /\ nD = [f \in Files |-> 0] /\ nU = [f \in Files |-> 0]
        /\ recent = {} /\ aged = FALSE
        /\ clean = FALSE /\ settled = FALSE /\ faults = 0
        /\ cyc = <<>> /\ hist = <<>>

Snap(ended, h, cf, cp, m) == [faults |-> cyc, ended |-> ended, hot |-> h, coldFinal |-> cf, coldPart |-> cp, meta |-> m]
Fault(f, at, kind, n) == [file |-> f, at |-> at, kind |-> kind, nth |-> n]
NoHist == UNCHANGED <<cyc, hist>>
CanFault(n) == faults + n <= MaxFaults

-----------------------------------------------------------------------------
StartCycle ==
    /\ phase \in {"down", "end"}
    /\ ~(StopWhenSettled /\ settled)
    /\ phase' = "scan" /\ stodo' = Files /\ clean' = TRUE /\ settled' = FALSE
    /\ pc' = [f \in Files |-> "idle"] /\ cands' = {} /\ rtodo' = {}
    /\ pass' = 1 /\ nW' = [f \in Files |-> 0] /\ nD' = [f \in Files |-> 0] /\ nU' = [f \in Files |-> 0]
    /\ UNCHANGED <<hotRes, coldRes, hot, coldFinal, coldPart, meta, faults, recent, aged>> /\ NoHist

\* RecordFile upsert for a file listed in the hot backend: tier := hot
ScanFile(f) ==
    /\ phase = "scan" /\ ~ScanAtomic /\ f \in stodo
    /\ meta' = IF hot[f] THEN [meta EXCEPT ![f] = "hot"] ELSE meta
    /\ stodo' = stodo \ {f}
    /\ UNCHANGED <<hotRes, coldRes, hot, coldFinal, coldPart, pc, phase, cands, rtodo, clean, settled, faults, pass, nW, nD, nU, recent, aged>> /\ NoHist

ScanAll ==
    /\ phase = "scan" /\ ScanAtomic /\ stodo # {}
    /\ meta' = [f \in Files |-> IF hot[f] THEN "hot" ELSE meta[f]]
    /\ stodo' = {}
    /\ UNCHANGED <<hotRes, coldRes, hot, coldFinal, coldPart, pc, phase, cands, rtodo, clean, settled, faults, pass, nW, nD, nU, recent, aged>> /\ NoHist

\* FindCandidates: rows with tier = hot
ScanEnd ==
    /\ phase = "scan" /\ stodo = {}
    /\ phase' = "migrate" /\ cands' = {f \in Files : meta[f] = "hot"}
    /\ UNCHANGED <<hotRes, coldRes, hot, coldFinal, coldPart, meta, pc, stodo, rtodo, clean, settled, faults, pass, nW, nD, nU, recent, aged>> /\ NoHist

Busy(f)   == pc[f] \in {"copying", "copied", "metaDone"}
MayRun(f) == /\ phase = "migrate" /\ f \in cands
             /\ (Concurrent \/ (/\ \A g \in Files : g # f => ~Busy(g)
                                /\ \A g \in cands : g < f => pc[g] \in {"finished", "failed"}))

\* WriteReader opens <path>.part with O_TRUNC
CopyBegin(f) ==
    /\ MayRun(f) /\ pc[f] = "idle"
    /\ pc' = [pc EXCEPT ![f] = "copying"] /\ coldPart' = [coldPart EXCEPT ![f] = TRUE]
    /\ nW' = [nW EXCEPT ![f] = @ + 1]
    /\ UNCHANGED <<hotRes, coldRes, hot, coldFinal, meta, phase, stodo, cands, rtodo, clean, settled, faults, pass, nD, nU, recent, aged>> /\ NoHist

\* ... and renames it over the final path once the stream is complete
CopyEnd(f) ==
    /\ MayRun(f) /\ pc[f] = "copying" /\ hot[f]
    /\ pc' = [pc EXCEPT ![f] = "copied"]
    /\ coldPart' = [coldPart EXCEPT ![f] = FALSE] /\ coldFinal' = [coldFinal EXCEPT ![f] = TRUE]
    /\ UNCHANGED <<hotRes, coldRes, hot, meta, phase, stodo, cands, rtodo, clean, settled, faults, pass, nW, nD, nU, recent, aged>> /\ NoHist

\* the source read or the destination write fails: MigrateFile returns the error.
\* part = TRUE: the failure came after WriteReader had created the staging file.
CopyFail(f, part) ==
    /\ MayRun(f) /\ CanFault(1)
    /\ \/ pc[f] = "idle" /\ ~part            \* the write fails before anything is created
       \/ pc[f] = "copying" /\ part /\ hot[f]   \* (without a source the copy fails by itself: CopyNoSource)
    /\ pc' = [pc EXCEPT ![f] = "failed"]
    /\ coldPart' = IF part THEN [coldPart EXCEPT ![f] = TRUE] ELSE coldPart   \* an older staging file stays
    /\ faults' = faults + 1 /\ clean' = FALSE
    /\ nW' = IF part THEN nW ELSE [nW EXCEPT ![f] = @ + 1]
    /\ cyc' = Append(cyc, Fault(f, IF part THEN "copy_mid" ELSE "copy_begin", "fail", nW'[f])) /\ UNCHANGED hist
    /\ UNCHANGED <<hotRes, coldRes, hot, coldFinal, meta, phase, stodo, cands, rtodo, settled, pass, nD, nU, recent, aged>>

\* the source is gone (second pass over a file the first pass migrated): ReadTo fails, the copy fails,
\* the empty staging file stays
CopyNoSource(f) ==
    /\ MayRun(f) /\ pc[f] = "copying" /\ ~hot[f]
    /\ pc' = [pc EXCEPT ![f] = "failed"] /\ clean' = FALSE
    /\ UNCHANGED <<hotRes, coldRes, hot, coldFinal, coldPart, meta, phase, stodo, cands, rtodo, settled, faults, pass, nW, nD, nU, recent, aged>> /\ NoHist

MetaUpdate(f) ==
    /\ MayRun(f) /\ pc[f] = "copied"
    /\ pc' = [pc EXCEPT ![f] = "metaDone"] /\ meta' = [meta EXCEPT ![f] = "cold"]
    /\ nU' = [nU EXCEPT ![f] = @ + 1]
    /\ recent' = recent \cup {f}                       \* migrated_at = CURRENT_TIMESTAMP
    /\ UNCHANGED <<hotRes, coldRes, hot, coldFinal, coldPart, phase, stodo, cands, rtodo, clean, settled, faults, pass, nW, nD, aged>> /\ NoHist

\* UpdateTier fails: roll back by deleting the destination copy (which may fail as well)
MetaFail(f, rollbackOK) ==
    /\ MayRun(f) /\ pc[f] = "copied"
    /\ CanFault(IF rollbackOK THEN 1 ELSE 2)
    /\ pc' = [pc EXCEPT ![f] = "failed"]
    /\ coldFinal' = IF rollbackOK THEN [coldFinal EXCEPT ![f] = FALSE] ELSE coldFinal
    /\ faults' = faults + (IF rollbackOK THEN 1 ELSE 2) /\ clean' = FALSE
    /\ nU' = [nU EXCEPT ![f] = @ + 1]
    /\ cyc' = (IF rollbackOK THEN Append(cyc, Fault(f, "meta", "fail", nU'[f]))
               ELSE Append(Append(cyc, Fault(f, "meta", "fail", nU'[f])), Fault(f, "rollback", "fail", 1)))
    /\ UNCHANGED hist
    /\ UNCHANGED <<hotRes, coldRes, hot, coldPart, meta, phase, stodo, cands, rtodo, settled, pass, nW, nD, recent, aged>>

SrcDelete(f) ==
    /\ MayRun(f) /\ pc[f] = "metaDone"
    /\ pc' = [pc EXCEPT ![f] = "finished"] /\ hot' = [hot EXCEPT ![f] = FALSE]
    /\ nD' = [nD EXCEPT ![f] = @ + 1]
    /\ UNCHANGED <<hotRes, coldRes, coldFinal, coldPart, meta, phase, stodo, cands, rtodo, clean, settled, faults, pass, nW, nU, recent, aged>> /\ NoHist

\* "Don't fail the migration - file is in destination, just source cleanup failed"
SrcDeleteFail(f) ==
    /\ MayRun(f) /\ pc[f] = "metaDone" /\ CanFault(1)
    /\ pc' = [pc EXCEPT ![f] = "finished"]
    /\ faults' = faults + 1          \* MigrateFile still returns nil: the cycle reports no error for it
    /\ nD' = [nD EXCEPT ![f] = @ + 1]
    /\ cyc' = Append(cyc, Fault(f, "src_delete", "fail", nD'[f])) /\ UNCHANGED hist
    /\ UNCHANGED <<hotRes, coldRes, hot, coldFinal, coldPart, meta, phase, stodo, cands, rtodo, clean, settled, pass, nW, nU, recent, aged>>

\* the same candidate list is worked through a second time (overlapping cycle / retry with a stale list)
SecondPass ==
    /\ phase = "migrate" /\ \A f \in cands : pc[f] \in {"finished", "failed"}
    /\ Overlap # "never" /\ pass = 1 /\ cands # {}
    /\ pass' = 2 /\ pc' = [f \in Files |-> "idle"]
    /\ UNCHANGED <<hotRes, coldRes, hot, coldFinal, coldPart, meta, phase, stodo, cands, rtodo, clean, settled, faults, nW, nD, nU, recent, aged>> /\ NoHist

MigrateEnd ==
    /\ phase = "migrate" /\ \A f \in cands : pc[f] \in {"finished", "failed"}
    /\ (Overlap = "always" /\ cands # {}) => pass = 2
    /\ phase' = "reconcile" /\ rtodo' = {f \in Files : meta[f] = "cold" /\ f \in recent}   \* GetRecentlyMigratedFiles(cold, 48h)
    /\ UNCHANGED <<hotRes, coldRes, hot, coldFinal, coldPart, meta, pc, stodo, cands, clean, settled, faults, pass, nW, nD, nU, recent, aged>> /\ NoHist

\* ReconcileOrphanedFiles, one row: Exists(hot) -> Delete(hot)
Reconcile(f) ==
    /\ phase = "reconcile" /\ f \in rtodo
    /\ rtodo' = rtodo \ {f}
    /\ hot' = [hot EXCEPT ![f] = FALSE]
    /\ nD' = IF hot[f] THEN [nD EXCEPT ![f] = @ + 1] ELSE nD
    /\ UNCHANGED <<hotRes, coldRes, coldFinal, coldPart, meta, pc, phase, stodo, cands, clean, settled, faults, pass, nW, nU, recent, aged>> /\ NoHist

\* Exists or Delete fails for an orphan: counted, skipped
ReconcileFail(f, at) ==
    /\ phase = "reconcile" /\ f \in rtodo /\ hot[f] /\ CanFault(1)
    /\ rtodo' = rtodo \ {f}
    /\ faults' = faults + 1 /\ clean' = FALSE
    /\ nD' = IF at = "rec_delete" THEN [nD EXCEPT ![f] = @ + 1] ELSE nD
    /\ cyc' = Append(cyc, Fault(f, at, "fail", IF at = "rec_delete" THEN nD'[f] ELSE 1)) /\ UNCHANGED hist
    /\ UNCHANGED <<hotRes, coldRes, hot, coldFinal, coldPart, meta, pc, phase, stodo, cands, settled, pass, nW, nU, recent, aged>>

EndCycle ==
    /\ phase = "reconcile" /\ rtodo = {}
    /\ phase' = "end" /\ settled' = clean
    /\ hist' = Append(hist, Snap("end", hot, coldFinal, coldPart, meta)) /\ cyc' = <<>>
    /\ UNCHANGED <<hotRes, coldRes, hot, coldFinal, coldPart, meta, pc, stodo, cands, rtodo, clean, faults, pass, nW, nD, nU, recent, aged>>

\* where the process dies, named by the next step of the file being worked on
CrashPoint ==
    IF phase = "scan" /\ stodo = Files THEN {Fault(0, "scan", "crash", 1)}
    ELSE IF phase = "scan" THEN (IF ScanAtomic THEN {} ELSE {Fault(0, "scan_mid", "crash", 1)})
    ELSE IF phase = "migrate" THEN
        { Fault(f, CASE pc[f] = "idle"     -> "copy_begin"
                     [] pc[f] = "copying"  -> "copy_mid"
                     [] pc[f] = "copied"   -> "copy_end"
                     [] pc[f] = "metaDone" -> "src_delete"
                     [] pc[f] = "finished" -> "src_deleted"
                     [] OTHER              -> "none", "crash",
                   CASE pc[f] = "idle"     -> nW[f] + 1
                     [] pc[f] \in {"copying", "copied"} -> nW[f]
                     [] pc[f] = "metaDone" -> nD[f] + 1
                     [] OTHER              -> nD[f])
          : f \in {g \in cands : pc[g] # "failed" /\ (pc[g] = "copying" => hot[g]) /\
                     (Concurrent \/ pc[g] # "idle" \/ \A k \in cands : k < g => pc[k] \in {"finished", "failed"}) /\
                     (pc[g] = "finished" => ~hot[g]) /\
                     (Concurrent \/ pc[g] # "finished" \/ \A k \in cands : k > g => pc[k] = "idle")} }
        \* inside the copy there are two distinguishable points: some chunks written / every chunk written to
        \* the staging file but not yet renamed (LocalBackend.StatFile and ReadToAt fall back to <path>.part)
        \cup { Fault(f, "copy_full", "crash", nW[f]) : f \in {g \in cands : pc[g] = "copying" /\ hot[g] /\
                     (Concurrent \/ \A k \in cands : k < g => pc[k] \in {"finished", "failed"})} }
    ELSE IF phase = "reconcile" THEN {Fault(f, "rec_delete", "crash", nD[f] + 1) : f \in {g \in rtodo : hot[g]}}
    ELSE {}

Crash ==
    /\ CanFault(1)
    /\ \E c \in CrashPoint :
         /\ cyc' = <<>>
         /\ hist' = Append(hist, [Snap("crash", hot, coldFinal, coldPart, meta) EXCEPT !.faults = Append(cyc, c)])
    /\ phase' = "down" /\ faults' = faults + 1 /\ clean' = FALSE /\ settled' = FALSE
    /\ pc' = [f \in Files |-> "idle"] /\ stodo' = {} /\ cands' = {} /\ rtodo' = {}
    /\ pass' = 1 /\ nW' = [f \in Files |-> 0] /\ nD' = [f \in Files |-> 0] /\ nU' = [f \in Files |-> 0]
    /\ UNCHANGED <<hotRes, coldRes, hot, coldFinal, coldPart, meta, recent, aged>>

\* the node is down / idle for longer than the reconciliation window: nothing changes but the age of migrated_at
TimePasses ==
    /\ AllowAging /\ ~aged /\ ~settled /\ phase \in {"down", "end"} /\ recent # {}
    /\ recent' = {} /\ aged' = TRUE
    /\ hist' = Append(hist, Snap("aged", hot, coldFinal, coldPart, meta)) /\ UNCHANGED cyc
    /\ UNCHANGED <<hotRes, coldRes, hot, coldFinal, coldPart, meta, pc, phase, stodo, cands, rtodo, clean, settled, faults, pass, nW, nD, nU>>

Next == \/ TimePasses \/ StartCycle \/ ScanAll \/ ScanEnd \/ SecondPass \/ MigrateEnd \/ EndCycle \/ Crash
        \/ \E f \in Files : \/ ScanFile(f) \/ CopyBegin(f) \/ CopyEnd(f) \/ CopyNoSource(f)
                            \/ \E b \in BOOLEAN : CopyFail(f, b) \/ MetaFail(f, b)
                            \/ MetaUpdate(f) \/ SrcDelete(f) \/ SrcDeleteFail(f)
                            \/ Reconcile(f) \/ \E at \in {"rec_exists", "rec_delete"} : ReconcileFail(f, at)
Spec == Init /\ [][Next]_vars

-----------------------------------------------------------------------------
\* --- the property ---
\* at every point each file's complete contents are readable from at least one tier
Readable == \A f \in Files : hot[f] \/ coldFinal[f]

HotGlob  == hotRes  \/ \E f \in Files : meta[f] = "hot"
ColdGlob == coldRes \/ \E f \in Files : meta[f] = "cold"
Seen(f)  == (IF HotGlob /\ hot[f] THEN 1 ELSE 0) + (IF ColdGlob /\ coldFinal[f] THEN 1 ELSE 0)
\* once a migration cycle (migration + orphan reconciliation) has finished without reporting an
\* error, a query sees each row once
ExactlyOnce == settled => \A f \in Files : Seen(f) = 1
\* "readable" judged through the query path list as well: at no point do a file's rows vanish from queries
NeverInvisible == \A f \in Files : Seen(f) >= 1

\* mechanism invariants that carry the property in this implementation
SourceKeptUntilMetaCold == \A f \in Files : meta[f] = "hot" => hot[f]
MetaColdImpliesColdCopy == \A f \in Files : meta[f] = "cold" => coldFinal[f]
Settles == settled => \A f \in Files : meta[f] = "cold" /\ ~hot[f] /\ coldFinal[f]

TypeOK == /\ faults \in 0..MaxFaults
          /\ phase \in {"down", "scan", "migrate", "reconcile", "end"}

Safety == TypeOK /\ Readable /\ ExactlyOnce /\ NeverInvisible /\ SourceKeptUntilMetaCold /\ MetaColdImpliesColdCopy /\ Settles

\* generation: one line per behaviour that ends in a clean cycle
EmitInv ==
    (Emit /\ phase = "end" /\ settled) =>
        PrintT(<<"TRACE", ToJson([hotRes |-> hotRes, coldRes |-> coldRes, overlap |-> (Overlap = "always"), cycles |-> hist])>>)
=============================================================================

SPECIFICATION Spec
CONSTANTS
  N = 60
  Extra = 1
  ResetAtBoundary = TRUE
  D = 4
  HourU = 14400
  DayU = 345600
  Times = {0,1,3,4,5,7,236,237,239,240,241,243,244,245,247}
  RLimits = {1,2}
  HLimits = {0}
  DLimits = {0}
  MaxReq = 4
  MaxUpd = 1
  Emit = TRUE
INVARIANTS EmitInv
CHECK_DEADLOCK FALSE

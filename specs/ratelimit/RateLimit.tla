----------------------------- MODULE RateLimit -----------------------------
(***************************************************************************)
(* C28 -- query rate limits and quotas are never exceeded.                 *)
(*                                                                         *)
(* Implementation-shaped model of internal/governance for ONE token on an  *)
(* integer clock:                                                          *)
(*   slidingWindowCounter (sliding_window.go): ring of R = N + Extra slots *)
(*     of D clock units (Extra = 1 since arc 5869152: one slot more than   *)
(*     the window W = N*D needs; Extra = 0, the code before that commit,   *)
(*     is the negative control); advance() truncates to the slot, rotates  *)
(*     floor(elapsed/D) slots clearing them (or wipes the ring when that   *)
(*     is >= R); Allow() rejects when limit > 0 /\ total >= limit, else    *)
(*     counts the request in the current slot.                             *)
(*   quotaTracker (quota_tracker.go): hour/day counters, reset when        *)
(*     !now.Before(resetAt) (ResetAtBoundary = TRUE since 5869152; FALSE = *)
(*     now.After(resetAt), strictly after, is the negative control).       *)
(*   Manager.CheckRateLimit then Manager.CheckQuota (api/query.go order):  *)
(*     a rate-limited request never reaches the quota tracker; a request   *)
(*     refused by the quota has already been counted by the limiter.       *)
(*   Trackers are created lazily by the first request that needs them.     *)
(*   UpdatePolicy -> UpdateLimit / UpdateLimits on existing trackers.      *)
(*                                                                         *)
(* The clock only visits the set Times (dense 0..T in the small configs,   *)
(* the slot/hour/day boundary grid with the real 60-slot ring otherwise).  *)
(***************************************************************************)
EXTENDS Integers, Sequences, FiniteSets, TLC, Json

CONSTANTS N,          \* slots per window (60)
          Extra,      \* additional ring slots (1 in the code; 0 = negative control)
          ResetAtBoundary, \* TRUE in the code: counters reset when !now.Before(resetAt); FALSE: when now.After(resetAt)
          D,          \* clock units per slot
          HourU, DayU,\* clock units per clock hour / UTC day
          Times,      \* instants the clock may visit
          RLimits,    \* rate limits (per window) a policy may carry; 0 = unlimited
          HLimits,    \* hourly quotas; 0 = unlimited
          DLimits,    \* daily quotas; 0 = unlimited
          MaxReq, MaxUpd,
          Emit

R == N + Extra
W == N * D

VARIABLES now,
          lim, maxH, maxD,                 \* the policy (cached in Manager.policies)
          lc, slots, cur, last, total, slim, \* limiter: created?, ring, current slot, lastSlotTime, total, its own limit
          qc, qh, qd, hReset, dReset, qmaxH, qmaxD, \* quota tracker: created?, counters, reset instants, its own limits
          nReq, nUpd, pol0,
          adm,        \* admitted requests: <<[t, lim, maxH, maxD]>>  (history, property level)
          hist        \* every step with its outcome

vars == <<now, lim, maxH, maxD, lc, slots, cur, last, total, slim, qc, qh, qd, hReset, dReset, qmaxH, qmaxD, nReq, nUpd, pol0, adm, hist>>

Trunc(t, u) == (t \div u) * u
Past(t, r)  == IF ResetAtBoundary THEN t >= r ELSE t > r
ZeroRing    == [i \in 0..(R-1) |-> 0]

Init == /\ now = 0
        /\ lim \in RLimits /\ maxH \in HLimits /\ maxD \in DLimits
        /\ lim + maxH + maxD > 0
        /\ lc = FALSE /\ slots = ZeroRing /\ cur = 0 /\ last = 0 /\ total = 0 /\ slim = 0
        /\ qc = FALSE /\ qh = 0 /\ qd = 0 /\ hReset = 0 /\ dReset = 0 /\ qmaxH = 0 /\ qmaxD = 0
        /\ nReq = 0 /\ nUpd = 0 /\ adm = <<>> /\ hist = <<>>
        /\ pol0 = [lim |-> lim, maxH |-> maxH, maxD |-> maxD]

\* sum of the k slots after cur (the ones advance() clears), k < R so they are distinct
RECURSIVE SumNext(_)
SumNext(j) == IF j = 0 THEN 0 ELSE slots[(cur + j) % R] + SumNext(j - 1)

\* slidingWindowCounter.advance() at time t : <<slots, cur, last, total>>
Advance(t) ==
    LET nt == Trunc(t, D)
        el == nt - last
        k  == el \div D
    IN IF el <= 0 THEN <<slots, cur, last, total>>
       ELSE IF k >= R THEN <<ZeroRing, 0, nt, 0>>
       ELSE LET cleared == {(cur + j) % R : j \in 1..k}
            IN <<[i \in 0..(R-1) |-> IF i \in cleared THEN 0 ELSE slots[i]], (cur + k) % R, nt, total - SumNext(k)>>

Request ==
    /\ nReq < MaxReq
    /\ \E t \in Times : t >= now /\
       LET \* ---- Manager.CheckRateLimit
           useL  == lim > 0
           mk    == useL /\ ~lc                       \* newSlidingWindowCounter(.., policy limit)
           a     == IF mk THEN <<ZeroRing, 0, Trunc(t, D), 0>> ELSE Advance(t)
           l     == IF mk THEN lim ELSE slim
           rlRej == useL /\ l > 0 /\ a[4] >= l
           \* ---- Manager.CheckQuota (only reached when not rate limited)
           useQ  == ~rlRej /\ (maxH > 0 \/ maxD > 0)
           mkq   == useQ /\ ~qc                        \* newQuotaTracker(policy quotas)
           h0    == IF mkq THEN 0 ELSE qh
           d0    == IF mkq THEN 0 ELSE qd
           hr0   == IF mkq THEN Trunc(t, HourU) + HourU ELSE hReset
           dr0   == IF mkq THEN Trunc(t, DayU) + DayU ELSE dReset
           mh    == IF mkq THEN maxH ELSE qmaxH
           md    == IF mkq THEN maxD ELSE qmaxD
           h1    == IF Past(t, hr0) THEN 0 ELSE h0                \* maybeReset: now.After(resetAt)
           hr1   == IF Past(t, hr0) THEN Trunc(t, HourU) + HourU ELSE hr0
           d1    == IF Past(t, dr0) THEN 0 ELSE d0
           dr1   == IF Past(t, dr0) THEN Trunc(t, DayU) + DayU ELSE dr0
           qRej  == useQ /\ ((mh > 0 /\ h1 >= mh) \/ (md > 0 /\ d1 >= md))
           out   == IF rlRej THEN "rate" ELSE IF qRej THEN "quota" ELSE "ok"
       IN /\ now' = t
          /\ IF useL
               THEN /\ lc' = TRUE /\ slim' = l /\ last' = a[3]
                    /\ IF rlRej THEN /\ slots' = a[1] /\ cur' = a[2] /\ total' = a[4]
                                ELSE /\ slots' = [a[1] EXCEPT ![a[2]] = @ + 1] /\ cur' = a[2] /\ total' = a[4] + 1
               ELSE UNCHANGED <<lc, slim, last, slots, cur, total>>
          /\ IF useQ
               THEN /\ qc' = TRUE /\ qmaxH' = mh /\ qmaxD' = md /\ hReset' = hr1 /\ dReset' = dr1
                    /\ qh' = IF qRej THEN h1 ELSE h1 + 1
                    /\ qd' = IF qRej THEN d1 ELSE d1 + 1
               ELSE UNCHANGED <<qc, qmaxH, qmaxD, hReset, dReset, qh, qd>>
          /\ adm' = IF out = "ok" THEN Append(adm, [t |-> t, lim |-> lim, maxH |-> maxH, maxD |-> maxD]) ELSE adm
          /\ hist' = Append(hist, [op |-> "req", t |-> t, out |-> out, l |-> 0, h |-> 0, d |-> 0])
          /\ nReq' = nReq + 1
          /\ UNCHANGED <<lim, maxH, maxD, nUpd, pol0>>

\* Manager.UpdatePolicy: cache the policy, push the limits into the trackers that exist
Update ==
    /\ nUpd < MaxUpd /\ nReq < MaxReq /\ nReq > 0
    /\ \E l \in RLimits, h \in HLimits, d \in DLimits :
         /\ <<l, h, d>> # <<lim, maxH, maxD>>
         /\ ((lim > 0) = (l > 0)) /\ ((maxH > 0) = (h > 0)) /\ ((maxD > 0) = (d > 0))   \* limits change value, never switch a check on/off
         /\ lim' = l /\ maxH' = h /\ maxD' = d
         /\ slim' = IF lc THEN l ELSE slim
         /\ qmaxH' = IF qc THEN h ELSE qmaxH
         /\ qmaxD' = IF qc THEN d ELSE qmaxD
         /\ hist' = Append(hist, [op |-> "upd", t |-> now, out |-> "-", l |-> l, h |-> h, d |-> d])
         /\ nUpd' = nUpd + 1
         /\ UNCHANGED <<now, lc, slots, cur, last, total, qc, qh, qd, hReset, dReset, nReq, adm, pol0>>

Done == nReq = MaxReq /\ UNCHANGED vars
Next == Request \/ Update \/ Done
Spec == Init /\ [][Next]_vars

-----------------------------------------------------------------------------
\* the property, over the history of admitted requests only
InWin(i)  == {j \in 1..i : adm[j].t > adm[i].t - W}
SameH(i)  == {j \in 1..i : adm[j].t \div HourU = adm[i].t \div HourU}
SameD(i)  == {j \in 1..i : adm[j].t \div DayU = adm[i].t \div DayU}

WindowBound == \A i \in 1..Len(adm) : adm[i].lim > 0  => Cardinality(InWin(i)) <= adm[i].lim
HourQuota   == \A i \in 1..Len(adm) : adm[i].maxH > 0 => Cardinality(SameH(i)) <= adm[i].maxH
DayQuota    == \A i \in 1..Len(adm) : adm[i].maxD > 0 => Cardinality(SameD(i)) <= adm[i].maxD
\* a rate-limited request consumes no quota (action property)
RateRejectFree == [][(nReq' = nReq + 1 /\ hist'[Len(hist')].out = "rate") => (qh' = qh /\ qd' = qd)]_vars

EmitInv == (Emit /\ nReq = MaxReq) =>
             PrintT(<<"TRACE", ToJson([pol |-> pol0, ev |-> hist])>>)
=============================================================================

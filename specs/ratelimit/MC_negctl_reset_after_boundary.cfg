SPECIFICATION Spec
CONSTANTS
  N = 3
  Extra = 1
  ResetAtBoundary = FALSE
  D = 2
  HourU = 12
  DayU = 24
  Times = {0,1,2,3,4,5,6,7,8,9,10,11,12,13,14,15,16,17,18,19,20}
  RLimits = {0}
  HLimits = {1,2}
  DLimits = {0}
  MaxReq = 4
  MaxUpd = 1
  Emit = FALSE
INVARIANTS WindowBound HourQuota DayQuota
CHECK_DEADLOCK FALSE

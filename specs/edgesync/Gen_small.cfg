SPECIFICATION Spec
CONSTANTS
  NFiles = 2
  MaxRuns = 3
  MaxFaults = 3
  MaxCrash = 1
  MaxEnv = 1
  MaxAttempts = 2
  SettleRuns = 3
  EnvAllowed = {"spokevanish", "hubvanish", "hubcompact", "foreign", "foreignraw"}
  MinRuns = 2
  Emit = TRUE
INVARIANTS EmitInv
CHECK_DEADLOCK FALSE

SPECIFICATION Spec
CONSTANTS
  NFiles = 2
  MaxRuns = 3
  MaxFaults = 3
  MaxCrash = 1
  MaxEnv = 1
  MaxAttempts = 3
  SettleRuns = 4
  EnvAllowed = {"spokevanish", "hubvanish", "hubcompact", "foreign", "foreignraw"}
  Chunks = 3
  PutAllowed = {"dropBefore", "dropAfter", "short", "shortDrop", "corrupt", "backpressure", "idxfail", "cancel", "cancelAfter"}
  MaxRestart = 1
  MinRuns = 2
  Emit = TRUE
INVARIANTS EmitInv
CHECK_DEADLOCK FALSE

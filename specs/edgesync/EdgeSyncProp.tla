---------------------------- MODULE EdgeSyncProp ----------------------------
(***************************************************************************)
(* C27, property level.  Mentions only what can be observed from outside:  *)
(* the ledger row of each file (as logged by SQLite triggers), the content  *)
(* exposed at the hub's final path of each file (classified against the    *)
(* spoke's bytes), and what the environment did.  Its behaviours are        *)
(* exactly the behaviours that satisfy the property:                        *)
(*  - ledger states change only along the documented edges;                 *)
(*  - a row becomes synced only while the hub holds identical content (at   *)
(*    the file's path, or inside a compacted output: `delivered`);          *)
(*  - a hub call of the spoke exposes bytes at a path only if they are the  *)
(*    spoke's bytes, only if nothing is exposed there and only if the       *)
(*    content was not already delivered (never stored twice);               *)
(*  - once faults stopped and clean passes ran, every row is terminal.      *)
(***************************************************************************)
EXTENDS Naturals, Sequences, FiniteSets

CONSTANT NFiles
Files == 1..NFiles

VARIABLES pled,    \* [Files -> ledger state | "none"]
          phub,    \* [Files -> {"none","own","foreign"}] content exposed at the hub path
          pdeliv   \* [Files -> BOOLEAN] content consumed by hub-side compaction after delivery

pvars == <<pled, phub, pdeliv>>

Terminal == {"synced", "skipped", "failed"}

Edges == { <<"none", "pending">>, <<"pending", "in_flight">>, <<"in_flight", "pending">>,
           <<"in_flight", "failed">>, <<"in_flight", "synced">>, <<"pending", "synced">>,
           <<"pending", "failed">>, <<"pending", "skipped">>, <<"in_flight", "skipped">> }

PInit == /\ pled = [f \in Files |-> "none"]
         /\ phub = [f \in Files |-> "none"]
         /\ pdeliv = [f \in Files |-> FALSE]

\* a ledger row changed state (one trigger row)
PTransition(f, old, new) ==
    /\ pled[f] = old
    /\ <<old, new>> \in Edges
    /\ new = "synced" => (phub[f] = "own" \/ pdeliv[f])
    /\ pled' = [pled EXCEPT ![f] = new]
    /\ UNCHANGED <<phub, pdeliv>>

\* a hub call made on behalf of the spoke changed what is exposed at f's path to content of class cls
PCommit(f, cls) ==
    /\ cls = "own"
    /\ phub[f] = "none"
    /\ ~pdeliv[f]
    /\ phub' = [phub EXCEPT ![f] = "own"]
    /\ UNCHANGED <<pled, pdeliv>>

\* a hub call removed what was exposed (not forbidden by the property)
PUnexpose(f) ==
    /\ phub' = [phub EXCEPT ![f] = "none"]
    /\ UNCHANGED <<pled, pdeliv>>

\* environment
PEnv(kind, f) ==
    /\ CASE kind = "spokevanish" -> UNCHANGED <<phub, pdeliv>>
         [] kind = "hubvanish"   -> /\ phub' = [phub EXCEPT ![f] = "none"] /\ UNCHANGED pdeliv
         [] kind = "hubcompact"  -> /\ phub[f] = "own"
                                    /\ phub' = [phub EXCEPT ![f] = "none"] /\ pdeliv' = [pdeliv EXCEPT ![f] = TRUE]
         [] kind \in {"foreign", "foreignraw"} ->
                                    /\ phub' = [phub EXCEPT ![f] = "foreign"] /\ UNCHANGED pdeliv
    /\ UNCHANGED pled

\* faults stopped, clean passes ran until nothing changed: ledv / hubv are read from the real ledger / hub storage
PQuiesced(ledv, hubv) ==
    /\ \A f \in Files : /\ ledv[f] = pled[f]               \* the trigger log explains the final rows
                        /\ hubv[f] = phub[f]               \* the observed events explain the final hub content
                        /\ pled[f] \in Terminal \cup {"none"}
    /\ UNCHANGED pvars

PReset == pled' = [f \in Files |-> "none"] /\ phub' = [f \in Files |-> "none"] /\ pdeliv' = [f \in Files |-> FALSE]
=============================================================================

SPECIFICATION TraceSpec
CONSTANTS
  NFiles = 2
CONSTRAINT HW
POSTCONDITION TraceAccepted
CHECK_DEADLOCK FALSE

------------------------------ MODULE EdgeSync ------------------------------
(***************************************************************************)
(* C27 -- edge sync delivers each file exactly once with verified content. *)
(*                                                                         *)
(* Implementation-shaped model of internal/edgesync as written:            *)
(*  - the spoke ledger (ledger.go): one row per file, states changed only  *)
(*    by the guarded UPDATE ... WHERE state IN (...) statements;           *)
(*  - one agent pass (agent.go:Run, MaxConcurrent = 1, BatchSize = 0):     *)
(*    RecoverInFlight -> Discover/TrackBatch -> PendingPage -> Reconcile   *)
(*    -> MarkSynced(present)* -> MarkConflicted(conflicts)* ->             *)
(*    per missing file, newest partition first: MarkInFlight -> PutFile -> *)
(*    MarkSynced | RecordProgress;MarkFailed | MarkFailed | MarkSkipped;   *)
(*  - the hub (receive.go, reconcile.go, hubindex.go over a LocalBackend): *)
(*    Reconcile = index lookup + existence confirmation (stale receipts    *)
(*    forgotten, compacted receipts kept); Receive = compacted-receipt     *)
(*    pre-check -> identity check on the final path (resolveExisting) ->   *)
(*    resume-offset check -> stage -> verify -> promote -> index;          *)
(*  - a transport that, per call, may drop the request, drop the reply     *)
(*    (lost acknowledgement), cut the body short, corrupt the body, answer *)
(*    backpressure, or let the hub's index write fail after the promote;   *)
(*  - a spoke crash after any ledger write or hub call of a pass;          *)
(*  - the environment: a spoke file vanishes, a hub file vanishes, the hub *)
(*    compacts a received file, foreign same-size bytes appear at the      *)
(*    spoke's hub path (through Receive, i.e. with a receipt, or raw).     *)
(* A file is Chunks chunks long; a short body adds one chunk to the staged  *)
(* prefix (none when a single chunk is left); checkpoint in 0..Chunks-1.    *)
(* Files are numbered 1..NFiles; the higher number is the newer partition  *)
(* and is therefore offered and sent first.                                *)
(***************************************************************************)
EXTENDS Naturals, Sequences, FiniteSets, TLC, Json

CONSTANTS NFiles, MaxRuns, MaxFaults, MaxCrash, MaxEnv, MaxAttempts, SettleRuns, Emit,
          Chunks,       \* file length in chunks (3: two truncation points)
          PutAllowed,   \* transport faults a PutFile may suffer (generation bias; MC uses all)
          MaxRestart,   \* graceful restarts (new Agent instance) a schedule may contain
          MinRuns,      \* faults may stop only after this many runs (generation bias; MC uses 0)
          EnvAllowed    \* environment actions the configuration may use (generation bias; MC uses all)

Files == 1..NFiles

VARIABLES spoke,     \* [Files -> {"present","gone"}]
          led,       \* [Files -> ledger state or "none" (no row)]
          att,       \* [Files -> Nat]  attempts column
          ck,        \* [Files -> 0..Chunks-1] bytes_sent (resume checkpoint, in chunks)
          hubfile,   \* [Files -> {"none","own","foreign"}]  content exposed at the hub's final path
          idx,       \* [Files -> {"none","own","foreign","ownC"}]  receipt in sync_received (ownC = compacted_at set)
          staged,    \* [Files -> 0..Chunks-1] chunks in the hub's staging .part
          pc, qPresent, qConflict, qMissing, cur, off, res,   \* agent control state of the running pass
          phase, run, faults, crashes, envs, settle,          \* budgets
          w, c,      \* ledger writes / hub calls of the running pass (history only)
          flags,     \* property monitors: set of strings
          restarts,  \* graceful restarts so far
          seeded,    \* files at whose hub path the environment placed foreign bytes
          hist       \* schedule (history only)

vars == <<spoke, led, att, ck, hubfile, idx, staged, pc, qPresent, qConflict, qMissing, cur, off, res,
          phase, run, faults, crashes, envs, settle, w, c, flags, seeded, restarts, hist>>

\* what the model checker distinguishes (history variables hidden)
View == <<spoke, led, att, ck, hubfile, idx, staged, pc, qPresent, qConflict, qMissing, cur, off, res,
          phase, run, faults, crashes, envs, settle, flags, seeded, restarts>>

Terminal == {"synced", "skipped", "failed"}

\* the documented edges an agent pass may take (ledger.go guards; no operator action, no air-gap export here)
Edges == { <<"none", "pending">>,
           <<"pending", "in_flight">>,      \* MarkInFlight
           <<"in_flight", "pending">>,      \* MarkFailed below the cap, RecoverInFlight
           <<"in_flight", "failed">>,       \* MarkFailed at the cap / conflict on transfer
           <<"in_flight", "synced">>,       \* MarkSynced after committed / already-present
           <<"pending", "synced">>,         \* MarkSynced for a reconcile `present`
           <<"pending", "failed">>,         \* MarkConflicted
           <<"pending", "skipped">>, <<"in_flight", "skipped">> }   \* MarkSkipped

\* descending sequence of the members of S (send order: newest partition first)
RECURSIVE Desc(_)
Desc(S) == IF S = {} THEN <<>>
           ELSE LET m == CHOOSE x \in S : \A y \in S : y <= x IN <<m>> \o Desc(S \ {m})

Init ==
    /\ spoke = [f \in Files |-> "present"]
    /\ led = [f \in Files |-> "none"] /\ att = [f \in Files |-> 0] /\ ck = [f \in Files |-> 0]
    /\ hubfile = [f \in Files |-> "none"] /\ idx = [f \in Files |-> "none"] /\ staged = [f \in Files |-> 0]
    /\ pc = "idle" /\ qPresent = <<>> /\ qConflict = <<>> /\ qMissing = <<>> /\ cur = 0 /\ off = 0
    /\ res = [k |-> "none", n |-> 0]
    /\ phase = "faulty" /\ run = 0 /\ faults = 0 /\ crashes = 0 /\ envs = 0 /\ settle = 0
    /\ w = 0 /\ c = 0 /\ flags = {} /\ seeded = {} /\ restarts = 0 /\ hist = <<>>

-----------------------------------------------------------------------------
\* ledger write helpers.  Every state change goes through Move, which also monitors the property.
Held(f) == hubfile[f] = "own" \/ idx[f] = "ownC"

MoveFlags(f, new) ==
    (IF <<led[f], new>> \notin Edges THEN {"bad_edge"} ELSE {})
    \cup (IF new = "synced" /\ ~Held(f) THEN {"synced_without_copy"} ELSE {})

Move(f, new) == /\ led' = [led EXCEPT ![f] = new]
                /\ flags' = flags \cup MoveFlags(f, new)

AgentIdleVars == <<qPresent, qConflict, qMissing, cur, off, res>>
HubVars  == <<hubfile, idx, staged>>
Budget   == <<phase, run, faults, crashes, envs, settle>>
Mon      == <<seeded>>

EndPass ==
    /\ pc' = "idle"
    /\ IF phase = "settle"
         THEN /\ settle' = settle + 1
              /\ phase' = IF settle + 1 >= SettleRuns THEN "end" ELSE "settle"
         ELSE UNCHANGED <<settle, phase>>

-----------------------------------------------------------------------------
\* budgets / phases
StartPass ==
    /\ UNCHANGED <<seeded, restarts>>
    /\ pc = "idle" /\ phase \in {"faulty", "settle"}
    /\ phase = "faulty" => run < MaxRuns
    /\ pc' = "recover" /\ w' = 0 /\ c' = 0
    /\ run' = IF phase = "faulty" THEN run + 1 ELSE run
    /\ hist' = Append(hist, [a |-> "pass"])
    /\ UNCHANGED <<spoke, led, att, ck, HubVars, AgentIdleVars, phase, faults, crashes, envs, settle, flags>>

StopFaults ==
    /\ UNCHANGED <<seeded, restarts>>
    /\ pc = "idle" /\ phase = "faulty" /\ run >= MinRuns
    /\ phase' = "settle"
    /\ hist' = Append(hist, [a |-> "settle"])
    /\ UNCHANGED <<spoke, led, att, ck, HubVars, pc, AgentIdleVars, run, faults, crashes, envs, settle, w, c, flags>>

-----------------------------------------------------------------------------
\* the agent pass
Recover ==        \* UPDATE sync_ledger SET state='pending' WHERE state='in_flight'
    /\ UNCHANGED <<seeded, restarts>>
    /\ pc = "recover"
    /\ led' = [f \in Files |-> IF led[f] = "in_flight" THEN "pending" ELSE led[f]]
    /\ w' = w + 1 /\ pc' = "discover"
    /\ UNCHANGED <<spoke, att, ck, HubVars, AgentIdleVars, Budget, c, flags, hist>>

Discover ==       \* ListObjects + TrackBatch (one transaction; not executed when nothing is new)
    /\ UNCHANGED <<seeded, restarts>>
    /\ pc = "discover"
    /\ LET new == {f \in Files : spoke[f] = "present" /\ led[f] = "none"} IN
         /\ led' = [f \in Files |-> IF f \in new THEN "pending" ELSE led[f]]
         /\ w' = IF new = {} THEN w ELSE w + 1
    /\ pc' = "page"
    /\ UNCHANGED <<spoke, att, ck, HubVars, AgentIdleVars, Budget, c, flags, hist>>

Page ==           \* PendingPage: only 'pending' rows, newest first; nothing pending ends the pass
    /\ UNCHANGED <<seeded, restarts>>
    /\ pc = "page"
    /\ IF {f \in Files : led[f] = "pending"} = {}
         THEN /\ EndPass /\ UNCHANGED <<run, faults, crashes, envs>>
         ELSE /\ pc' = "reconcile" /\ UNCHANGED Budget
    /\ UNCHANGED <<spoke, led, att, ck, HubVars, AgentIdleVars, w, c, flags, hist>>

CanFault == phase = "faulty" /\ faults < MaxFaults

\* Reconciler.Reconcile: receipts whose file is gone are forgotten unless compacted
StaleSet(P) == {f \in P : idx[f] \in {"own", "foreign"} /\ hubfile[f] = "none"}
IdxAfterReconcile(P) == [f \in Files |-> IF f \in StaleSet(P) THEN "none" ELSE idx[f]]

Reconcile(fault) ==
    /\ UNCHANGED <<seeded, restarts>>
    /\ pc = "reconcile"
    /\ fault # "none" => CanFault
    /\ LET P    == {f \in Files : led[f] = "pending"}
           idx2 == IdxAfterReconcile(P) IN
         /\ idx' = IF fault = "drop" THEN idx ELSE idx2
         /\ IF fault = "none"
              THEN /\ qPresent'  = Desc({f \in P : idx2[f] \in {"own", "ownC"}})
                   /\ qConflict' = Desc({f \in P : idx2[f] = "foreign"})
                   /\ qMissing'  = Desc({f \in P : idx2[f] = "none"})
                   /\ pc' = "present"
                   /\ UNCHANGED Budget
              ELSE /\ UNCHANGED <<qPresent, qConflict, qMissing>>      \* Run returns the error: pass aborted
                   /\ EndPass
                   /\ faults' = faults + 1 /\ UNCHANGED <<run, crashes, envs>>
    /\ c' = c + 1
    /\ hist' = Append(hist, [a |-> "call", kind |-> "reconcile", f |-> 0, fault |-> fault])
    /\ UNCHANGED <<spoke, led, att, ck, hubfile, staged, cur, off, res, w, flags>>

MarkPresent ==
    /\ UNCHANGED <<seeded, restarts>>
    /\ pc = "present"
    /\ IF qPresent = <<>>
         THEN /\ pc' = "conflict" /\ UNCHANGED <<led, flags, qPresent, w>>
         ELSE /\ Move(Head(qPresent), "synced") /\ qPresent' = Tail(qPresent) /\ w' = w + 1 /\ UNCHANGED pc
    /\ UNCHANGED <<spoke, att, ck, HubVars, qConflict, qMissing, cur, off, res, Budget, c, hist>>

MarkConflict ==
    /\ UNCHANGED <<seeded, restarts>>
    /\ pc = "conflict"
    /\ IF qConflict = <<>>
         THEN /\ pc' = "send" /\ UNCHANGED <<led, flags, qConflict, w>>
         ELSE /\ Move(Head(qConflict), "failed") /\ qConflict' = Tail(qConflict) /\ w' = w + 1 /\ UNCHANGED pc
    /\ UNCHANGED <<spoke, att, ck, HubVars, qPresent, qMissing, cur, off, res, Budget, c, hist>>

Send ==           \* sendOne: MarkInFlight (attempts + 1); the offset is the checkpoint read with the page
    /\ UNCHANGED <<seeded, restarts>>
    /\ pc = "send"
    /\ IF qMissing = <<>>
         THEN /\ EndPass /\ UNCHANGED <<run, faults, crashes, envs>>
              /\ UNCHANGED <<led, flags, att, qMissing, cur, off, w>>
         ELSE LET f == Head(qMissing) IN
              /\ Move(f, "in_flight") /\ att' = [att EXCEPT ![f] = @ + 1]
              /\ cur' = f /\ off' = ck[f] /\ qMissing' = Tail(qMissing) /\ w' = w + 1
              /\ pc' = "put" /\ UNCHANGED Budget
    /\ UNCHANGED <<spoke, ck, HubVars, qPresent, qConflict, res, c, hist>>

\* Receiver.Receive for file f at offset o with a body of kind b ("full","short","corrupt");
\* ixok = FALSE makes HubIndex.Record fail.  Result: [k, n, hf, ix, st]
Recv(f, o, b, ixok) ==
    LET same == [k |-> "x", n |-> 0, hf |-> hubfile[f], ix |-> idx[f], st |-> staged[f]] IN
    IF idx[f] = "ownC" THEN [same EXCEPT !.k = "done", !.n = Chunks]                 \* compacted receipt, same digest
    ELSE IF hubfile[f] = "own"                                                  \* resolveExisting: same digest
      THEN IF ixok THEN [same EXCEPT !.k = "done", !.n = Chunks, !.ix = "own"]       \* re-record
                   ELSE [same EXCEPT !.k = "err"]
    ELSE IF hubfile[f] = "foreign" THEN [same EXCEPT !.k = "conflict"]          \* never overwrite
    ELSE IF o > 0 /\ staged[f] # o THEN [same EXCEPT !.k = "partial", !.n = staged[f]]   \* hub's own offset
    ELSE IF b = "short"   THEN LET got == o + (IF Chunks - o > 1 THEN 1 ELSE 0) IN   \* stage / append what arrived
                               [same EXCEPT !.k = "partial", !.n = got, !.st = got]
    ELSE IF b = "corrupt" THEN [same EXCEPT !.k = "mismatch", !.st = 0]         \* verify before promote
    ELSE IF ixok THEN [same EXCEPT !.k = "done", !.n = Chunks, !.hf = "own", !.ix = "own", !.st = 0]
                 ELSE [same EXCEPT !.k = "err", !.hf = "own", !.st = 0]          \* promoted, receipt lost

\* shortDrop = the body is cut short AND the hub's (partial) answer is lost
PutFaults == {"none", "dropBefore", "dropAfter", "short", "shortDrop", "corrupt", "backpressure", "idxfail"}

Put(fault) ==
    /\ UNCHANGED <<seeded, restarts>>
    /\ pc = "put"
    /\ fault # "none" => (CanFault /\ spoke[cur] = "present")
    /\ LET f == cur
           unreadable == spoke[f] = "gone"       \* the body cannot be read: the request never reaches the hub
           toHub == ~unreadable /\ fault \notin {"dropBefore", "backpressure"}
           body  == IF fault \in {"short", "shortDrop"} THEN "short" ELSE IF fault = "corrupt" THEN "corrupt" ELSE "full"
           r     == Recv(f, off, body, fault # "idxfail")
           commit == toHub /\ r.hf = "own" /\ hubfile[f] # "own" IN
         /\ IF toHub
              THEN /\ hubfile' = [hubfile EXCEPT ![f] = r.hf] /\ idx' = [idx EXCEPT ![f] = r.ix]
                   /\ staged' = [staged EXCEPT ![f] = r.st]
              ELSE UNCHANGED HubVars
         /\ res' = IF unreadable \/ fault \in {"dropBefore", "dropAfter", "shortDrop"} THEN [k |-> "err", n |-> 0]
                   ELSE IF fault = "backpressure" THEN [k |-> "backpressure", n |-> 0]
                   ELSE [k |-> r.k, n |-> r.n]
         /\ flags' = flags \cup (IF commit /\ (hubfile[f] # "none" \/ idx[f] = "ownC") THEN {"stored_twice"} ELSE {})
    /\ faults' = IF fault = "none" THEN faults ELSE faults + 1
    /\ c' = c + 1 /\ pc' = "after"
    /\ hist' = Append(hist, [a |-> "call", kind |-> "put", f |-> cur, fault |-> fault])
    /\ UNCHANGED <<spoke, led, att, ck, qPresent, qConflict, qMissing, cur, off, phase, run, crashes, envs, settle, w>>

\* The pass context ends while a PutFile is on the wire (contact window closes, run timeout, cancellation): the
\* transport returns the context error, every later ledger statement of this pass fails on the cancelled context,
\* so the row STAYS in_flight, nothing else is sent, and Run returns.  The process and its Agent live on:
\* the next pass is a new pass on the same Agent instance (only Crash / Restart give a new instance).
\* kind = "cancel": the request did not reach the hub;  "cancelAfter": the hub processed it, the reply died with the context.
PutCancel(kind) ==
    /\ UNCHANGED <<seeded, restarts>>
    /\ pc = "put" /\ CanFault /\ spoke[cur] = "present" /\ kind \in PutAllowed
    /\ LET f == cur
           r == Recv(f, off, "full", TRUE) IN
         IF kind = "cancelAfter"
           THEN /\ hubfile' = [hubfile EXCEPT ![f] = r.hf] /\ idx' = [idx EXCEPT ![f] = r.ix]
                /\ staged' = [staged EXCEPT ![f] = r.st]
           ELSE UNCHANGED HubVars
    /\ pc' = "idle" /\ qPresent' = <<>> /\ qConflict' = <<>> /\ qMissing' = <<>>
    /\ faults' = faults + 1 /\ c' = c + 1
    /\ hist' = Append(hist, [a |-> "call", kind |-> "put", f |-> cur, fault |-> kind])
    /\ UNCHANGED <<spoke, led, att, ck, cur, off, res, phase, run, crashes, envs, settle, w, flags>>

\* a graceful process restart between passes: new Agent instance, ledger reopened from the same file.  As the code is
\* written (RecoverInFlight at the start of EVERY pass) it changes nothing; it is a schedule element for the driver.
Restart ==
    /\ UNCHANGED seeded
    /\ pc = "idle" /\ phase = "faulty" /\ restarts < MaxRestart
    /\ restarts' = restarts + 1
    /\ hist' = Append(hist, [a |-> "restart"])
    /\ UNCHANGED <<spoke, led, att, ck, HubVars, pc, AgentIdleVars, Budget, w, c, flags>>

\* MarkFailed: CASE WHEN attempts >= cap THEN failed ELSE pending
FailTo(f, cap) == IF att[f] >= cap THEN "failed" ELSE "pending"

After ==
    /\ UNCHANGED <<seeded, restarts>>
    /\ pc = "after"
    /\ LET f == cur IN
       CASE res.k = "done" ->
              /\ Move(f, "synced") /\ pc' = "send" /\ UNCHANGED ck
         [] res.k = "partial" ->                  \* RecordProgress(hub's offset), then fail()
              /\ ck' = [ck EXCEPT ![f] = res.n] /\ pc' = "fail" /\ UNCHANGED <<led, flags>>
         [] res.k = "conflict" ->                 \* MarkFailed with a cap of 1
              /\ Move(f, FailTo(f, 1)) /\ pc' = "send" /\ UNCHANGED ck
         [] res.k = "err" /\ spoke[f] = "gone" -> \* skipIfVanished
              /\ Move(f, "skipped") /\ pc' = "send" /\ UNCHANGED ck
         [] OTHER ->                              \* error / mismatch / backpressure: fail()
              /\ Move(f, FailTo(f, MaxAttempts)) /\ pc' = "send" /\ UNCHANGED ck
    /\ w' = w + 1
    /\ UNCHANGED <<spoke, att, HubVars, qPresent, qConflict, qMissing, cur, off, res, Budget, c, hist>>

Fail ==
    /\ UNCHANGED <<seeded, restarts>>
    /\ pc = "fail"
    /\ Move(cur, FailTo(cur, MaxAttempts)) /\ pc' = "send" /\ w' = w + 1
    /\ UNCHANGED <<spoke, att, ck, HubVars, qPresent, qConflict, qMissing, cur, off, res, Budget, c, hist>>

-----------------------------------------------------------------------------
\* spoke crash: the process dies after any ledger write / hub call of the pass; rows stay as they are
Crash ==
    /\ UNCHANGED <<seeded, restarts>>
    /\ pc \notin {"idle", "recover"} /\ phase = "faulty" /\ crashes < MaxCrash
    /\ pc' = "idle" /\ crashes' = crashes + 1
    /\ qPresent' = <<>> /\ qConflict' = <<>> /\ qMissing' = <<>>
    /\ hist' = Append(hist, [a |-> "crash", w |-> w, c |-> c])
    /\ UNCHANGED <<spoke, led, att, ck, HubVars, cur, off, res, phase, run, faults, envs, settle, w, c, flags>>

\* environment: between passes, on entry of Reconcile (any), on entry of PutFile (hub side only)
Env(kind, f) ==
    /\ phase = "faulty" /\ envs < MaxEnv
    /\ \/ pc \in {"idle", "reconcile"}
       \/ pc = "put" /\ kind # "spokevanish"
    /\ CASE kind = "spokevanish" -> /\ spoke[f] = "present" /\ spoke' = [spoke EXCEPT ![f] = "gone"]
                                    /\ UNCHANGED HubVars
         [] kind = "hubvanish"   -> /\ hubfile[f] = "own" /\ hubfile' = [hubfile EXCEPT ![f] = "none"]
                                    /\ UNCHANGED <<spoke, idx, staged>>
         [] kind = "hubcompact"  -> /\ hubfile[f] = "own" /\ idx[f] = "own"
                                    /\ hubfile' = [hubfile EXCEPT ![f] = "none"] /\ idx' = [idx EXCEPT ![f] = "ownC"]
                                    /\ UNCHANGED <<spoke, staged>>
         [] kind = "foreign"     -> /\ hubfile[f] = "none" /\ idx[f] = "none"      \* another uploader, through Receive
                                    /\ hubfile' = [hubfile EXCEPT ![f] = "foreign"] /\ idx' = [idx EXCEPT ![f] = "foreign"]
                                    /\ staged' = [staged EXCEPT ![f] = 0] /\ UNCHANGED spoke
         [] kind = "foreignraw"  -> /\ hubfile[f] = "none" /\ idx[f] = "none"      \* bytes placed in hub storage directly
                                    /\ hubfile' = [hubfile EXCEPT ![f] = "foreign"]
                                    /\ UNCHANGED <<spoke, idx, staged>>
    /\ envs' = envs + 1 /\ UNCHANGED restarts
    /\ seeded' = IF kind \in {"foreign", "foreignraw"} THEN seeded \cup {f} ELSE seeded
    /\ hist' = Append(hist, [a |-> "env", kind |-> kind, f |-> f])
    /\ UNCHANGED <<led, att, ck, pc, AgentIdleVars, phase, run, faults, crashes, settle, w, c, flags>>

EnvKinds == {"spokevanish", "hubvanish", "hubcompact", "foreign", "foreignraw"}

Next ==
    \/ StartPass \/ StopFaults \/ Recover \/ Discover \/ Page
    \/ \E ft \in {"none", "drop", "dropAfter"} : Reconcile(ft)
    \/ MarkPresent \/ MarkConflict \/ Send
    \/ \E ft \in PutFaults \cap ({"none"} \cup PutAllowed) : Put(ft)
    \/ \E k \in {"cancel", "cancelAfter"} : PutCancel(k)
    \/ After \/ Fail \/ Crash \/ Restart
    \/ \E k \in EnvKinds \cap EnvAllowed, f \in Files : Env(k, f)

Spec == Init /\ [][Next]_vars

-----------------------------------------------------------------------------
\* the property (C27), as invariants over the monitors
TypeOK ==
    /\ \A f \in Files : /\ led[f] \in {"none", "pending", "in_flight", "synced", "failed", "skipped"}
                        /\ hubfile[f] \in {"none", "own", "foreign"} /\ idx[f] \in {"none", "own", "foreign", "ownC"}
                        /\ ck[f] \in 0..(Chunks-1) /\ staged[f] \in 0..(Chunks-1)
DocumentedEdgesOnly  == "bad_edge" \notin flags
SyncedOnlyWhenHeld   == "synced_without_copy" \notin flags
StoredAtMostOnce     == "stored_twice" \notin flags
\* the hub never exposes bytes that differ from the spoke's: "foreign" only ever comes from the environment
HubBytesAreSpokes    == \A f \in Files : hubfile[f] = "foreign" => f \in seeded
Quiescent            == phase = "end" => \A f \in Files : /\ led[f] \in Terminal \cup {"none"}
                                                          /\ led[f] = "none" => spoke[f] = "gone"
Safety == TypeOK /\ DocumentedEdgesOnly /\ SyncedOnlyWhenHeld /\ StoredAtMostOnce /\ HubBytesAreSpokes /\ Quiescent

\* generation: one line per completed behaviour (schedule + predicted end state)
EmitInv ==
    (Emit /\ phase = "end") =>
        PrintT(<<"TRACE", ToJson([hist |-> hist, led |-> led, hub |-> hubfile, idx |-> idx])>>)
=============================================================================

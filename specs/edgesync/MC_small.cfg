SPECIFICATION Spec
CONSTANTS
  NFiles = 2
  MaxRuns = 2
  MaxFaults = 2
  MaxCrash = 1
  MaxEnv = 1
  MaxAttempts = 2
  SettleRuns = 3
  EnvAllowed = {"spokevanish", "hubvanish", "hubcompact", "foreign", "foreignraw"}
  MinRuns = 0
  Emit = FALSE
VIEW View
INVARIANTS Safety
CHECK_DEADLOCK FALSE

SPECIFICATION Spec
CONSTANTS
  NFiles = 2
  MaxRuns = 2
  MaxFaults = 2
  MaxCrash = 1
  MaxEnv = 1
  MaxAttempts = 3
  SettleRuns = 4
  EnvAllowed = {"spokevanish", "hubvanish", "hubcompact", "foreign", "foreignraw"}
  Chunks = 3
  PutAllowed = {"dropBefore", "dropAfter", "short", "shortDrop", "corrupt", "backpressure", "idxfail", "cancel", "cancelAfter"}
  MaxRestart = 0
  MinRuns = 0
  Emit = FALSE
VIEW View
INVARIANTS Safety
CHECK_DEADLOCK FALSE

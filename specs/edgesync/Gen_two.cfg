SPECIFICATION Spec
CONSTANTS
  NFiles = 2
  MaxRuns = 2
  MaxFaults = 2
  MaxCrash = 0
  MaxEnv = 1
  MaxAttempts = 3
  SettleRuns = 4
  EnvAllowed = {"hubvanish", "hubcompact"}
  Chunks = 3
  PutAllowed = {"dropBefore", "dropAfter", "cancel"}
  MaxRestart = 0
  MinRuns = 0
  Emit = TRUE
INVARIANTS EmitInv
CHECK_DEADLOCK FALSE

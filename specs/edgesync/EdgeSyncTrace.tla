---------------------------- MODULE EdgeSyncTrace ----------------------------
(* Replays recorded runs of the real Agent/Ledger/Receiver/Reconciler/HubIndex against EdgeSyncProp. *)
EXTENDS Naturals, Sequences, TLC, Json
CONSTANT NFiles
VARIABLES pled, phub, pdeliv, l
INSTANCE EdgeSyncProp

Trace == ndJsonDeserialize("trace.ndjson")

TraceInit == PInit /\ l = 1 /\ TLCSet(1, 0)
IsEvent(e) == l <= Len(Trace) /\ Trace[l].ev = e /\ l' = l + 1

TTr       == IsEvent("tr")       /\ PTransition(Trace[l].f, Trace[l].old, Trace[l].new)
TCommit   == IsEvent("commit")   /\ PCommit(Trace[l].f, Trace[l].cls)
TUnexpose == IsEvent("unexpose") /\ PUnexpose(Trace[l].f)
TEnv      == IsEvent("env")      /\ PEnv(Trace[l].kind, Trace[l].f)
TQuiesced == IsEvent("quiesced") /\ PQuiesced(Trace[l].led, Trace[l].hub)
TEnd      == IsEvent("end")      /\ PReset

TraceNext == TTr \/ TCommit \/ TUnexpose \/ TEnv \/ TQuiesced \/ TEnd
TraceSpec == TraceInit /\ [][TraceNext]_<<pled, phub, pdeliv, l>>

HW == TLCSet(1, IF l > TLCGet(1) THEN l ELSE TLCGet(1))
TraceAccepted == IF TLCGet(1) = Len(Trace) + 1 THEN TRUE
                 ELSE PrintT(<<"REJECTED_AT", TLCGet(1)>>) /\ FALSE
==============================================================================

SPECIFICATION Spec
CONSTANTS
  NFiles = 4
  MinFiles = 2
  MaxBatch = 4
  MaxKills = 0
  MaxCycles = 3
  DedupModes = {"shrink"}
  TagUnion = FALSE
  PlainDistinct = FALSE
  RecoverOnCrash = TRUE
  ListAllEntries = FALSE
  Emit = FALSE
INVARIANTS ConservedAfterCleanCycle
VIEW view
CHECK_DEADLOCK FALSE

--------------------------- MODULE CompactionProp ---------------------------
(***************************************************************************)
(* C09, property level: what a user of the partition can observe.          *)
(*                                                                         *)
(* orig  : row id -> key id.  Rows with the same key have identical tag    *)
(*         values and timestamp AND the partition carries dedup metadata;  *)
(*         otherwise every row has its own key.                            *)
(* files : directory entries of the partition, name -> [vis, bag]; vis is  *)
(*         TRUE for entries a query sees (glob of .parquet); bag: row id -> n  *)
(*                                                                         *)
(* Del is only allowed when it hides no key ("no input file is removed     *)
(* before its rows are in a complete output file"); Conserved is judged on *)
(* the rows a scan of the partition returns after a compaction cycle that  *)
(* ran undisturbed ("once a later compaction cycle has run").  mult/exact: *)
(* copies of a row that is identical in every column, and whether the      *)
(* partition carries no dedup metadata (then counts are preserved exactly).*)
(***************************************************************************)
EXTENDS Naturals, Sequences, FiniteSets, TLC

VARIABLES orig, files, mult, exact

EmptyFn == [x \in {} |-> 0]
PInit == orig = EmptyFn /\ files = EmptyFn /\ mult = EmptyFn /\ exact = FALSE

KeyOf(r)    == IF r \in DOMAIN orig THEN orig[r] ELSE 0
RidsOf(b)   == {r \in DOMAIN b : b[r] > 0}
VisKeys(fs) == {KeyOf(r) : r \in UNION {RidsOf(fs[n].bag) : n \in {m \in DOMAIN fs : fs[m].vis}}}

\* m: row id -> number of fully identical copies originally shown; e: no file carries dedup metadata
Start(o, m, e) == orig' = o /\ files' = EmptyFn /\ mult' = m /\ exact' = e

Put(name, vis, bag) ==
    /\ files' = [n \in DOMAIN files \cup {name} |-> IF n = name THEN [vis |-> vis, bag |-> bag] ELSE files[n]]
    /\ UNCHANGED <<orig, mult, exact>>

Without(name) == [n \in DOMAIN files \ {name} |-> files[n]]
DeleteSafe(name) == VisKeys(files) \subseteq VisKeys(Without(name))
Del(name) == /\ name \in DOMAIN files
             /\ files' = Without(name)
             /\ UNCHANGED <<orig, mult, exact>>

\* scan: row id -> number of times the partition shows it
OnlyOriginal(scan) == RidsOf(scan) \subseteq DOMAIN orig
NoDuplicate(scan)  == \A r \in DOMAIN scan : scan[r] <= (IF r \in DOMAIN mult THEN mult[r] ELSE 1)
NoLoss(scan)       == /\ \A r \in DOMAIN orig : \E q \in RidsOf(scan) : KeyOf(q) = orig[r]
                      \* without dedup metadata nothing may collapse, not even rows equal in every column
                      /\ exact => \A r \in DOMAIN mult : r \in DOMAIN scan /\ scan[r] >= mult[r]
Conserved(scan)    == OnlyOriginal(scan) /\ NoDuplicate(scan) /\ NoLoss(scan)
=============================================================================

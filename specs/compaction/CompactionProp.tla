--------------------------- MODULE CompactionProp ---------------------------
(***************************************************************************)
(* C09, property level: what a user of the partition can observe.          *)
(*                                                                         *)
(* orig  : row id -> key id.  Rows with the same key have identical tag    *)
(*         values and timestamp AND the partition carries dedup metadata;  *)
(*         otherwise every row has its own key.                            *)
(* files : directory entries of the partition, name -> [vis, bag]; vis is  *)
(*         TRUE for entries a query sees (glob of .parquet); bag: row id -> n  *)
(*                                                                         *)
(* Del is only allowed when it hides no key ("no input file is removed     *)
(* before its rows are in a complete output file"); Conserved is judged on *)
(* the rows a scan of the partition returns after a compaction cycle that  *)
(* ran undisturbed ("once a later compaction cycle has run").              *)
(***************************************************************************)
EXTENDS Naturals, Sequences, FiniteSets, TLC

VARIABLES orig, files

EmptyFn == [x \in {} |-> 0]
PInit == orig = EmptyFn /\ files = EmptyFn

KeyOf(r)    == IF r \in DOMAIN orig THEN orig[r] ELSE 0
RidsOf(b)   == {r \in DOMAIN b : b[r] > 0}
VisKeys(fs) == {KeyOf(r) : r \in UNION {RidsOf(fs[n].bag) : n \in {m \in DOMAIN fs : fs[m].vis}}}

Start(o) == orig' = o /\ files' = EmptyFn

Put(name, vis, bag) ==
    /\ files' = [n \in DOMAIN files \cup {name} |-> IF n = name THEN [vis |-> vis, bag |-> bag] ELSE files[n]]
    /\ UNCHANGED orig

Without(name) == [n \in DOMAIN files \ {name} |-> files[n]]
DeleteSafe(name) == VisKeys(files) \subseteq VisKeys(Without(name))
Del(name) == /\ name \in DOMAIN files
             /\ files' = Without(name)
             /\ UNCHANGED orig

\* scan: row id -> number of times the partition shows it
OnlyOriginal(scan) == RidsOf(scan) \subseteq DOMAIN orig
NoDuplicate(scan)  == \A r \in DOMAIN scan : scan[r] <= 1
NoLoss(scan)       == \A r \in DOMAIN orig : \E q \in RidsOf(scan) : KeyOf(q) = orig[r]
Conserved(scan)    == OnlyOriginal(scan) /\ NoDuplicate(scan) /\ NoLoss(scan)
=============================================================================

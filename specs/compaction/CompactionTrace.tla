--------------------------- MODULE CompactionTrace ---------------------------
(***************************************************************************)
(* Replays recorded runs of the real compaction.Manager (storage-level     *)
(* mutations observed at the LocalBackend gates + cycle boundaries + scans *)
(* of the partition) against CompactionProp.  Many runs are concatenated;  *)
(* "start" opens a run, "end" closes it and prints its verdict:            *)
(*   <<"VERDICT", sc, code, line>>  code 0 = property held,                *)
(*   1 = a delete hid a key (unsafe delete), 2 = a row shown twice,        *)
(*   3 = a key lost, 4 = a row that is not an original row / altered row   *)
(* line = first offending trace line.  The POSTCONDITION only checks that  *)
(* the whole trace was consumed (structural acceptance).                   *)
(***************************************************************************)
EXTENDS Naturals, Sequences, FiniteSets, TLC, Json

VARIABLES orig, files, mult, exact, viol, l

P == INSTANCE CompactionProp

Trace == ndJsonDeserialize("trace.ndjson")

\* [[a,b],...] -> [a |-> b]
Fn(s) == [a \in {s[i][1] : i \in DOMAIN s} |-> s[CHOOSE i \in DOMAIN s : s[i][1] = a][2]]

TraceInit == P!PInit /\ viol = <<0, 0>> /\ l = 1 /\ TLCSet(1, 0)

IsEvent(e) == l <= Len(Trace) /\ Trace[l].ev = e /\ l' = l + 1
Flag(code) == viol' = IF viol[1] = 0 THEN <<code, l>> ELSE viol

TStart == IsEvent("start") /\ P!Start(Fn(Trace[l].rows), Fn(Trace[l].mult), Trace[l].exact) /\ viol' = <<0, 0>>

TPut == IsEvent("put") /\ P!Put(Trace[l].f, Trace[l].vis, Fn(Trace[l].rows)) /\ UNCHANGED viol

TDel == /\ IsEvent("del")
        /\ IF Trace[l].f \in DOMAIN files
             THEN /\ P!Del(Trace[l].f)
                  /\ IF P!DeleteSafe(Trace[l].f) THEN UNCHANGED viol ELSE Flag(1)
             ELSE UNCHANGED <<orig, files, mult, exact, viol>>

TCycle == /\ IsEvent("cycle")
          /\ UNCHANGED <<orig, files, mult, exact>>
          /\ LET scan == Fn(Trace[l].scan) IN
             IF ~Trace[l].clean THEN UNCHANGED viol
             ELSE IF ~P!OnlyOriginal(scan) \/ Len(Trace[l].altered) > 0 THEN Flag(4)
             ELSE IF ~P!NoDuplicate(scan) THEN Flag(2)
             ELSE IF ~P!NoLoss(scan) THEN Flag(3)
             ELSE UNCHANGED viol

\* manifest writes/deletes, kills, cycle starts: part of the record, no effect on the observable state
TAux == IsEvent("aux") /\ UNCHANGED <<orig, files, mult, exact, viol>>

TEnd == /\ IsEvent("end")
        /\ PrintT(<<"VERDICT", Trace[l].sc, viol[1], viol[2]>>)
        /\ orig' = P!EmptyFn /\ files' = P!EmptyFn /\ mult' = P!EmptyFn /\ exact' = FALSE /\ viol' = <<0, 0>>

TraceNext == TStart \/ TPut \/ TDel \/ TCycle \/ TAux \/ TEnd
TraceSpec == TraceInit /\ [][TraceNext]_<<orig, files, mult, exact, viol, l>>

HW == TLCSet(1, IF l > TLCGet(1) THEN l ELSE TLCGet(1))
TraceAccepted == IF TLCGet(1) = Len(Trace) + 1 THEN TRUE
                 ELSE PrintT(<<"REJECTED_AT", TLCGet(1)>>) /\ FALSE
=============================================================================

SPECIFICATION Spec
CONSTANTS
  NFiles = 4
  MinFiles = 2
  MaxBatch = 4
  MaxKills = 2
  MaxCycles = 3
  DedupModes = {"clones", "clones_tags"}
  TagUnion = TRUE
  PlainDistinct = FALSE
  RecoverOnCrash = TRUE
  ListAllEntries = FALSE
  Emit = FALSE
INVARIANTS ConservedAfterCleanCycle
VIEW view
CHECK_DEADLOCK FALSE

SPECIFICATION Spec
CONSTANTS
  NFiles = 6
  MinFiles = 3
  MaxBatch = 4
  MaxKills = 3
  MaxCycles = 3
  DedupModes = {FALSE, TRUE}
  RecoverOnCrash = TRUE
  ListAllEntries = FALSE
  Emit = TRUE
INVARIANTS TypeOK DeleteSafe EmitInv

CHECK_DEADLOCK FALSE

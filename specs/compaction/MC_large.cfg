SPECIFICATION Spec
CONSTANTS
  NFiles = 6
  MinFiles = 3
  MaxBatch = 4
  MaxKills = 3
  MaxCycles = 3
  DedupModes = {"none", "tags", "shrink", "clones", "clones_tags"}
  TagUnion = TRUE
  PlainDistinct = FALSE
  RecoverOnCrash = TRUE
  ListAllEntries = FALSE
  Emit = FALSE
INVARIANTS TypeOK DeleteSafeExceptOpen
VIEW view
CHECK_DEADLOCK FALSE

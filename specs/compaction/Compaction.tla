------------------------------ MODULE Compaction ------------------------------
(***************************************************************************)
(* C09 -- compaction never loses or duplicates rows, even across crashes.  *)
(*                                                                         *)
(* Implementation-shaped model of internal/compaction for ONE hourly       *)
(* partition on a LocalBackend, as the code is written:                    *)
(*                                                                         *)
(*  Manager.runCycleInternal   CycleStart -> RecoverKeep/RecoverDrop for   *)
(*                             every manifest (RecoverOrphanedManifests)   *)
(*                             -> FindCandidates (HourlyTier listing: only *)
(*                             .parquet entries, ShouldCompactByFileSuffix *)
(*                             , filterCandidateFiles, SplitCandidateInto- *)
(*                             Batches) -> jobs -> CycleEnd                *)
(*  Manager.compactFilesAdaptively  JobStart / JobReject (batch < 2),      *)
(*                             on a killed subprocess ("signal: killed" is *)
(*                             classified recoverable) KillSplit: the two  *)
(*                             halves are compacted IMMEDIATELY; before    *)
(*                             that CompactPartition recovers the crashed  *)
(*                             job's own manifest (RecoverOnCrash);        *)
(*                             KillFail at <= 2 files                      *)
(*                             (the error aborts the rest of that batch)   *)
(*  Job.Run (subprocess)       Download (missing inputs are skipped)       *)
(*                             -> Compact (dedup iff some input carries    *)
(*                             arc:tags / arc:dedup_time; DuckDB COPY does *)
(*                             not copy that metadata to the output)       *)
(*                             -> Manifest (WriteManifest)                 *)
(*                             -> UploadCopy (LocalBackend.WriteReader:    *)
(*                             bytes go to "<out>.part") -> UploadRename   *)
(*                             -> DelInput(i) (DeleteBatch = loop)         *)
(*                             -> DelManifest                              *)
(*  Kill                       SIGKILL of the subprocess immediately       *)
(*                             before any of its storage mutations         *)
(*                             (gate numbers 1..n+4, see GateOf)           *)
(*                                                                         *)
(* File i (1..NFiles) is a raw file holding row i; rows r, r' with         *)
(* KeyOf(r) = KeyOf(r') have identical tags+time.  Input classes (dedup):  *)
(*  "none"   no file carries metadata: every row is its own key            *)
(*  "tags"   every raw file declares the same tag set; rows 2k-1, 2k are   *)
(*           true duplicates (same tags+time) and may collapse             *)
(*  "shrink" files carry DIFFERENT arc:tags sets: the older half declares  *)
(*           {host, region}, the newer half only {host}; rows 2k-1, 2k of  *)
(*           the older half differ ONLY in region: they are distinct rows   *)
(*           and collapse iff a job dedups on the narrower set.  The code  *)
(*           dedups on the UNION of arc:tags of the raw inputs of the job  *)
(*           (TagUnion = TRUE; FALSE = "newest tagged file only").         *)
(*  "clones" no metadata, but file 1 holds row 1 TWICE (identical in every *)
(*           column, NULLs included) and file 2 holds a third copy next to *)
(*           its own row: a plain merge keeps all copies (PlainDistinct =  *)
(*           FALSE, the code; TRUE = SELECT DISTINCT, negative control)    *)
(*  "clones_tags"  the same rows WITH arc:tags: the copies may collapse    *)
(* A "<out>.part" left by a kill between copy and rename is a directory    *)
(* entry: queries (glob of .parquet) do not see it; the hourly tier's      *)
(* listing saw it before db8e9fa (ListAllEntries = TRUE).                  *)
(***************************************************************************)
EXTENDS Naturals, Sequences, FiniteSets, TLC, Json

CONSTANTS NFiles,     \* raw files in the partition
          MinFiles,   \* hourly tier min_files
          MaxBatch,   \* compaction.max_files_per_batch (>= 2)
          MaxKills,   \* kills over the whole behaviour
          MaxCycles,  \* compaction cycles
          DedupModes, \* subset of {"none", "tags", "shrink", "clones", "clones_tags"}: input class, chosen in Init
          PlainDistinct, \* FALSE: the metadata-free merge is SELECT * (the code); TRUE: SELECT DISTINCT * (negative control)
          TagUnion,   \* TRUE: readTagColumnsFromParquetFiles unions arc:tags over all inputs (the code);
                      \* FALSE: it takes the newest tagged input's set only (negative control)
          RecoverOnCrash, \* TRUE (code since e2ad6be): CompactPartition resolves the crashed job's own manifest
                          \* before compactFilesAdaptively retries; FALSE = as written before (negative control)
          ListAllEntries, \* FALSE (code since db8e9fa): tiers list only *.parquet files; TRUE = every directory
                          \* entry incl. a leftover "<out>.parquet.part" (negative control)
          Emit        \* print one TRACE line per terminal state

VARIABLE dedup  \* input class (fixed in Init)

MinBatch == 2   \* MinFilesPerBatch = minBatchSize
MaxDepth == 4   \* maxDepth in compactFilesAdaptively

Rows      == 1..NFiles
EmptyBag  == [r \in Rows |-> 0]
Min(S)    == CHOOSE x \in S : \A y \in S : x <= y

Half      == NFiles \div 2
FullTags(i) == i <= Half                        \* "shrink": raw file i declares {host, region}
\* what the property calls "identical tag values and timestamp"
KeyOf(r)  == IF dedup = "tags" THEN (r + 1) \div 2 ELSE r
\* key of a dedup on the narrower tag set {host}: the rows of the older half pair up
NarrowKey(r) == IF r <= Half THEN (r + 1) \div 2 ELSE NFiles + r
Keys      == {KeyOf(r) : r \in Rows}
Clones    == dedup \in {"clones", "clones_tags"}
NoMeta    == dedup \in {"none", "clones"}         \* no file carries arc:tags / arc:dedup_time
InitBag(i) == [r \in Rows |-> IF r = i THEN (IF Clones /\ i = 1 THEN 2 ELSE 1)
                               ELSE IF Clones /\ i = 2 /\ r = 1 THEN 1 ELSE 0]
Mult(r)   == IF Clones /\ r = 1 /\ NFiles >= 2 THEN 3 ELSE 1   \* copies of row r the partition shows initially

RECURSIVE BagSum(_)
BagSum(S) == IF S = {} THEN EmptyBag
             ELSE LET x == CHOOSE x \in S : TRUE
                      rest == BagSum(S \ {x})
                  IN [r \in Rows |-> x.bag[r] + rest[r]]

\* QUALIFY ROW_NUMBER() OVER (PARTITION BY tags, time) = 1
Collapse(b, K(_)) == [r \in Rows |-> IF b[r] > 0 /\ r = Min({q \in Rows : b[q] > 0 /\ K(q) = K(r)})
                                      THEN 1 ELSE 0]

RECURSIVE AscSeq(_)
AscSeq(S) == IF S = {} THEN <<>> ELSE LET m == Min(S) IN <<m>> \o AscSeq(S \ {m})

VARIABLES store,      \* directory entries of the partition: set of [id, kind, bag], kind in raw|out|part
          manifests,  \* _compaction_state: set of [out, inputs]
          mgr,        \* "idle" | "recover" | "run"
          queue,      \* pending compactFilesAdaptively calls of this cycle: Seq([files, depth])
          job,        \* the running subprocess (Idle when none)
          cyc, kills, cycKills, nextId,
          lastClean,  \* the last finished cycle had no kill
          unsafeDel,  \* some delete removed the last visible copy of a key
          hist        \* schedule + predictions (generation only)

vars == <<dedup, store, manifests, mgr, queue, job, cyc, kills, cycKills, nextId, lastClean, unsafeDel, hist>>
view == <<dedup, store, manifests, mgr, queue, job, cyc, kills, cycKills, nextId, lastClean, unsafeDel>>

Idle == [pc |-> "idle", files |-> <<>>, depth |-> 0, valid |-> <<>>, out |-> 0, bag |-> EmptyBag, di |-> 0]

H(t, n, depth, gate, nvalid, vis, parts, verdict, clean) ==
    [t |-> t, n |-> n, depth |-> depth, gate |-> gate, nvalid |-> nvalid,
     vis |-> vis, parts |-> parts, verdict |-> verdict, clean |-> clean, dedup |-> dedup]

Init == /\ dedup \in DedupModes
        /\ store = {[id |-> i, kind |-> "raw", bag |-> InitBag(i)] : i \in 1..NFiles}
        /\ manifests = {} /\ mgr = "idle" /\ queue = <<>> /\ job = Idle
        /\ cyc = 0 /\ kills = 0 /\ cycKills = 0 /\ nextId = NFiles + 1
        /\ lastClean = TRUE /\ unsafeDel = FALSE /\ hist = <<>>

-----------------------------------------------------------------------------
Visible(st)     == {f \in st : f.kind # "part"}
KeysVisible(st) == {KeyOf(r) : r \in {q \in Rows : \E f \in Visible(st) : f.bag[q] > 0}}
Exists(id)      == \E f \in store : f.id = id
FileById(id)    == CHOOSE f \in store : f.id = id
LosesKey(st, st2) == KeysVisible(st) \ KeysVisible(st2) # {}

VisBag(st)  == BagSum(Visible(st))
DupRow(st)  == \E r \in Rows : VisBag(st)[r] > Mult(r)
LostKey(st) == \/ \E k \in Keys : \A r \in Rows : KeyOf(r) = k => VisBag(st)[r] = 0
               \/ NoMeta /\ \E r \in Rows : VisBag(st)[r] < Mult(r)   \* without metadata nothing may collapse
Conserved(st) == ~DupRow(st) /\ ~LostKey(st)
VerdictOf(st) == IF DupRow(st) THEN (IF LostKey(st) THEN "dup+lost" ELSE "dup")
                 ELSE IF LostKey(st) THEN "lost" ELSE "ok"

RECURSIVE DropRetries(_)
DropRetries(q) == IF q = <<>> THEN q ELSE IF Head(q).depth > 0 THEN DropRetries(Tail(q)) ELSE q

\* tier.go SplitCandidateIntoBatches
SplitBatches(fs) ==
    LET n == Len(fs) IN
    IF n <= MaxBatch THEN << fs >>
    ELSE LET nb0 == (n + MaxBatch - 1) \div MaxBatch
             rem == n % MaxBatch
             nb  == IF rem # 0 /\ rem < MinBatch /\ nb0 > 1 THEN nb0 - 1 ELSE nb0
         IN [i \in 1..nb |-> SubSeq(fs, (i - 1) * MaxBatch + 1, IF i = nb THEN n ELSE i * MaxBatch)]

-----------------------------------------------------------------------------
\* Manager.runCycleInternal
CycleStart ==
    /\ mgr = "idle" /\ cyc < MaxCycles
    /\ mgr' = "recover" /\ cyc' = cyc + 1 /\ cycKills' = 0
    /\ hist' = Append(hist, H("cycle", cyc + 1, 0, 0, 0, 0, 0, "", 0))
    /\ UNCHANGED <<dedup, store, manifests, queue, job, kills, nextId, lastClean, unsafeDel>>

NextManifest == CHOOSE m \in manifests : \A o \in manifests : m.out <= o.out
OutputExists(m) == \E f \in store : f.id = m.out /\ f.kind = "out"

\* recoverManifest: output exists (size always matches on a rename-published file) ->
\* delete inputs, delete manifest
RecoverKeep ==
    /\ mgr = "recover" /\ manifests # {} /\ OutputExists(NextManifest)
    /\ LET m == NextManifest
           st2 == {f \in store : f.id \notin m.inputs}
       IN /\ store' = st2
          /\ unsafeDel' = (unsafeDel \/ LosesKey(store, st2))
          /\ manifests' = manifests \ {m}
    /\ UNCHANGED <<dedup, mgr, queue, job, cyc, kills, cycKills, nextId, lastClean, hist>>

\* recoverManifest: output missing -> delete manifest, compaction retries
RecoverDrop ==
    /\ mgr = "recover" /\ manifests # {} /\ ~OutputExists(NextManifest)
    /\ manifests' = manifests \ {NextManifest}
    /\ UNCHANGED <<dedup, store, mgr, queue, job, cyc, kills, cycKills, nextId, lastClean, unsafeDel, hist>>

\* HourlyTier.FindCandidates + filterCandidateFiles + SplitCandidateIntoBatches
FindCandidates ==
    /\ mgr = "recover" /\ manifests = {}
    /\ LET listed == IF ListAllEntries THEN store ELSE {f \in store : f.kind # "part"}
           raws   == {f \in listed : f.kind = "raw"}
           should == Cardinality(listed) >= MinFiles /\ Cardinality(raws) >= MinFiles
           tracked == UNION {m.inputs \cup {m.out} : m \in manifests}     \* empty here: recovery always completes on a local backend
           files  == AscSeq({f.id : f \in listed} \ tracked)
           bs     == SplitBatches(files)
       IN queue' = IF should /\ Len(files) > 0 THEN [i \in DOMAIN bs |-> [files |-> bs[i], depth |-> 0]] ELSE <<>>
    /\ mgr' = "run"
    /\ UNCHANGED <<dedup, store, manifests, job, cyc, kills, cycKills, nextId, lastClean, unsafeDel, hist>>

\* compactFilesAdaptively: safety checks, then CompactPartition
JobReject ==
    /\ mgr = "run" /\ job.pc = "idle" /\ queue # <<>>
    /\ (Len(Head(queue).files) < MinBatch \/ Head(queue).depth > MaxDepth)
    /\ queue' = DropRetries(Tail(queue))
    /\ UNCHANGED <<dedup, store, manifests, mgr, job, cyc, kills, cycKills, nextId, lastClean, unsafeDel, hist>>

JobStart ==
    /\ mgr = "run" /\ job.pc = "idle" /\ queue # <<>>
    /\ ~(Len(Head(queue).files) < MinBatch \/ Head(queue).depth > MaxDepth)
    /\ job' = [Idle EXCEPT !.pc = "download", !.files = Head(queue).files, !.depth = Head(queue).depth]
    /\ queue' = Tail(queue)
    /\ hist' = Append(hist, H("job", Len(Head(queue).files), Head(queue).depth, 0, 0, 0, 0, "", 0))
    /\ UNCHANGED <<dedup, store, manifests, mgr, cyc, kills, cycKills, nextId, lastClean, unsafeDel>>

\* Job.downloadFiles: a missing input is skipped ("already compacted")
Download ==
    /\ job.pc = "download"
    /\ LET present == SelectSeq(job.files, Exists)
       IN IF Len(present) = 0
            THEN job' = Idle
            ELSE job' = [job EXCEPT !.pc = "compact", !.valid = present]
    /\ hist' = [hist EXCEPT ![Len(hist)].nvalid = Len(SelectSeq(job.files, Exists))]
    /\ UNCHANGED <<dedup, store, manifests, mgr, queue, cyc, kills, cycKills, nextId, lastClean, unsafeDel>>

\* Job.compactFiles (a complete .part passes the magic-byte validation)
Compact ==
    /\ job.pc = "compact"
    /\ LET ins  == {FileById(job.valid[i]) : i \in DOMAIN job.valid}
           raws == {f \in ins : f.kind = "raw"}             \* only raw files carry arc:tags
           meta == ~NoMeta /\ raws # {}
           \* the tag set the job dedups on: union over its raw inputs, or the newest raw input's only
           full == IF TagUnion THEN \E f \in raws : FullTags(f.id)
                   ELSE FullTags((CHOOSE f \in raws : \A g \in raws : g.id <= f.id).id)
           sum  == BagSum(ins)
           out  == IF ~meta THEN (IF PlainDistinct THEN [r \in Rows |-> IF sum[r] > 0 THEN 1 ELSE 0] ELSE sum)
                   ELSE IF dedup = "shrink" /\ ~full THEN Collapse(sum, NarrowKey)
                   ELSE Collapse(sum, KeyOf)
       IN job' = [job EXCEPT !.pc = "manifest", !.out = nextId, !.bag = out]
    /\ nextId' = nextId + 1
    /\ UNCHANGED <<dedup, store, manifests, mgr, queue, cyc, kills, cycKills, lastClean, unsafeDel, hist>>

Manifest ==
    /\ job.pc = "manifest"
    /\ manifests' = manifests \cup {[out |-> job.out, inputs |-> {job.valid[i] : i \in DOMAIN job.valid}]}
    /\ job' = [job EXCEPT !.pc = "uploadCopy"]
    /\ UNCHANGED <<dedup, store, mgr, queue, cyc, kills, cycKills, nextId, lastClean, unsafeDel, hist>>

UploadCopy ==
    /\ job.pc = "uploadCopy"
    /\ store' = store \cup {[id |-> job.out, kind |-> "part", bag |-> job.bag]}
    /\ job' = [job EXCEPT !.pc = "uploadRename"]
    /\ UNCHANGED <<dedup, manifests, mgr, queue, cyc, kills, cycKills, nextId, lastClean, unsafeDel, hist>>

UploadRename ==
    /\ job.pc = "uploadRename"
    /\ store' = {f \in store : f.id # job.out} \cup {[id |-> job.out, kind |-> "out", bag |-> job.bag]}
    /\ job' = [job EXCEPT !.pc = "del", !.di = 1]
    /\ UNCHANGED <<dedup, manifests, mgr, queue, cyc, kills, cycKills, nextId, lastClean, unsafeDel, hist>>

DelInput ==
    /\ job.pc = "del"
    /\ LET st2 == {f \in store : f.id # job.valid[job.di]}
       IN /\ store' = st2
          /\ unsafeDel' = (unsafeDel \/ LosesKey(store, st2))
    /\ job' = IF job.di = Len(job.valid) THEN [job EXCEPT !.pc = "delManifest"] ELSE [job EXCEPT !.di = job.di + 1]
    /\ UNCHANGED <<dedup, manifests, mgr, queue, cyc, kills, cycKills, nextId, lastClean, hist>>

DelManifest ==
    /\ job.pc = "delManifest"
    /\ manifests' = {m \in manifests : m.out # job.out}
    /\ job' = Idle
    /\ UNCHANGED <<dedup, store, mgr, queue, cyc, kills, cycKills, nextId, lastClean, unsafeDel, hist>>

\* gate number = index of the storage mutation the subprocess was about to perform
GateOf(j) == CASE j.pc = "manifest"     -> 1
               [] j.pc = "uploadCopy"   -> 2
               [] j.pc = "uploadRename" -> 3
               [] j.pc = "del"          -> 3 + j.di
               [] j.pc = "delManifest"  -> 4 + Len(j.valid)
KillPcs == {"manifest", "uploadCopy", "uploadRename", "del", "delManifest"}

\* CompactPartition after a dead subprocess (e2ad6be): recoverManifest on the job's own manifest, if it wrote one
OwnManifest == {m \in manifests : job.out # 0 /\ m.out = job.out}
StoreAfterCrash ==
    IF RecoverOnCrash /\ OwnManifest # {} /\ OutputExists(CHOOSE m \in OwnManifest : TRUE)
      THEN {f \in store : f.id \notin (CHOOSE m \in OwnManifest : TRUE).inputs}
      ELSE store

Killed == /\ job.pc \in KillPcs /\ kills < MaxKills
          /\ kills' = kills + 1 /\ cycKills' = cycKills + 1
          /\ job' = Idle
          /\ store' = StoreAfterCrash
          /\ unsafeDel' = (unsafeDel \/ LosesKey(store, StoreAfterCrash))
          /\ manifests' = IF RecoverOnCrash THEN manifests \ OwnManifest ELSE manifests
          /\ hist' = [hist EXCEPT ![Len(hist)].gate = GateOf(job)]
          /\ UNCHANGED <<dedup, mgr, cyc, nextId, lastClean>>

\* ClassifySubprocessError("signal: killed") = recoverable; split in half, retry both now
KillSplit ==
    /\ Killed /\ Len(job.files) > MinBatch
    /\ LET mid == Len(job.files) \div 2
       IN queue' = << [files |-> SubSeq(job.files, 1, mid), depth |-> job.depth + 1],
                      [files |-> SubSeq(job.files, mid + 1, Len(job.files)), depth |-> job.depth + 1] >> \o queue

\* at the minimum batch size the error propagates: pending halves of this batch are abandoned
KillFail ==
    /\ Killed /\ Len(job.files) <= MinBatch
    /\ queue' = DropRetries(queue)

CycleEnd ==
    /\ mgr = "run" /\ job.pc = "idle" /\ queue = <<>>
    /\ mgr' = "idle" /\ lastClean' = (cycKills = 0)
    /\ hist' = Append(hist, H("end", cyc, 0, 0, 0, Cardinality(Visible(store)), Cardinality(store \ Visible(store)),
                               VerdictOf(store), IF cycKills = 0 THEN 1 ELSE 0))
    /\ UNCHANGED <<dedup, store, manifests, queue, job, cyc, kills, cycKills, nextId, unsafeDel>>

Done == mgr = "idle" /\ cyc = MaxCycles /\ UNCHANGED vars

Next == \/ CycleStart \/ RecoverKeep \/ RecoverDrop \/ FindCandidates
        \/ JobReject \/ JobStart \/ Download \/ Compact \/ Manifest \/ UploadCopy \/ UploadRename
        \/ DelInput \/ DelManifest \/ KillSplit \/ KillFail \/ CycleEnd \/ Done

Spec == Init /\ [][Next]_vars

-----------------------------------------------------------------------------
TypeOK == /\ mgr \in {"idle", "recover", "run"}
          /\ job.pc \in {"idle", "download", "compact"} \cup KillPcs
          /\ \A f \in store : f.kind \in {"raw", "out", "part"} /\ f.id \in 1..(nextId - 1)
          /\ \A f, g \in store : f.id = g.id => f = g
          /\ kills <= MaxKills /\ cyc <= MaxCycles

\* "no input file is removed before its rows are in a complete output file"
DeleteSafe == ~unsafeDel

\* "once a later compaction cycle has run, the partition shows exactly the rows it showed before"
ConservedAfterCleanCycle == (mgr = "idle" /\ cyc > 0 /\ lastClean) => Conserved(store)

\* The "shrink" class reaches the OPEN finding "compacted output carries no arc:tags" (a later job that sees only
\* {host}-declaring raw files next to an earlier output dedups on the narrower set): both properties are known to
\* fail there and are checked on the other classes; real runs of that class are judged by CompactionProp as usual.
DeleteSafeExceptOpen == dedup # "shrink" => DeleteSafe
ConservedExceptOpen  == dedup # "shrink" => ConservedAfterCleanCycle

EmitInv == (Emit /\ mgr = "idle" /\ cyc = MaxCycles) => PrintT(<<"TRACE", ToJson(hist)>>)
=============================================================================

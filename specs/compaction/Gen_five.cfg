SPECIFICATION Spec
CONSTANTS
  NFiles = 5
  MinFiles = 3
  MaxBatch = 5
  MaxKills = 2
  MaxCycles = 3
  DedupModes = {FALSE, TRUE}
  RecoverOnCrash = TRUE
  ListAllEntries = FALSE
  Emit = TRUE
INVARIANTS TypeOK DeleteSafe EmitInv

CHECK_DEADLOCK FALSE

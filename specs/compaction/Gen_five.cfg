SPECIFICATION Spec
CONSTANTS
  NFiles = 5
  MinFiles = 3
  MaxBatch = 5
  MaxKills = 2
  MaxCycles = 3
  DedupModes = {"none", "tags", "shrink", "clones", "clones_tags"}
  TagUnion = TRUE
  PlainDistinct = FALSE
  RecoverOnCrash = TRUE
  ListAllEntries = FALSE
  Emit = TRUE
INVARIANTS TypeOK DeleteSafeExceptOpen EmitInv

CHECK_DEADLOCK FALSE

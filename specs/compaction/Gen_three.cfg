SPECIFICATION Spec
CONSTANTS
  NFiles = 3
  MinFiles = 2
  MaxBatch = 2
  MaxKills = 2
  MaxCycles = 3
  DedupModes = {"none", "tags", "shrink", "clones", "clones_tags"}
  TagUnion = TRUE
  PlainDistinct = FALSE
  RecoverOnCrash = TRUE
  ListAllEntries = FALSE
  Emit = TRUE
INVARIANTS TypeOK DeleteSafeExceptOpen EmitInv

CHECK_DEADLOCK FALSE

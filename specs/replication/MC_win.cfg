SPECIFICATION Spec
CONSTANTS
  NProd = 1
  PerProd = 6
  BufSize = 6
  CpInterval = 2
  MaxAdv = 1
  Atomic = TRUE
  Eager = FALSE
  Emit = FALSE
  AdvKinds = {"flip", "dup", "drop", "swap", "splice", "replaycp", "delaycps", "dropwindow"}
INVARIANTS SafetyFull
CHECK_DEADLOCK FALSE
VIEW MCView

SPECIFICATION Spec
CONSTANTS
  NProd = 1
  PerProd = 4
  BufSize = 4
  CpInterval = 2
  MaxAdv = 1
  Atomic = FALSE
  Eager = TRUE
  Emit = TRUE
INVARIANTS SafetyAsWritten EmitInv
CHECK_DEADLOCK FALSE
ACTION_CONSTRAINT BroadcastFirst

SPECIFICATION Spec
CONSTANTS
  NProd = 2
  PerProd = 2
  BufSize = 1
  CpInterval = 2
  MaxAdv = 1
  Atomic = FALSE
  Eager = FALSE
  Emit = FALSE
INVARIANTS SafetyAsWritten
CHECK_DEADLOCK FALSE
VIEW MCView

SPECIFICATION Spec
CONSTANTS
  NProd = 1
  PerProd = 6
  BufSize = 6
  CpInterval = 2
  MaxAdv = 2
  Atomic = TRUE
  Eager = TRUE
  Emit = TRUE
  AdvKinds = {"dropwindow", "drop", "delaycps"}
INVARIANTS SafetyFull EmitInv
CHECK_DEADLOCK FALSE
ACTION_CONSTRAINT BroadcastFirst

---------------------------- MODULE Replication ----------------------------
(***************************************************************************)
(* C24 -- the replicated WAL stream is ordered, gap-free and authenticated *)
(*                                                                         *)
(* Implementation-shaped model of the writer -> reader WAL stream:         *)
(*                                                                         *)
(*  producer p (a goroutine in wal.Writer.AppendRaw / AppendRawWithMeta):  *)
(*    WalAssign   w.mu.Lock; w.sequence++; seq := w.sequence; w.mu.Unlock  *)
(*    SndAssign   hook(...) is called OUTSIDE w.mu; the coordinator        *)
(*                closure calls Sender.Replicate, which OVERWRITES the     *)
(*                WAL sequence:  entry.Sequence = s.sequence.Add(1)        *)
(*    Enqueue     select { case s.entryChan <- entry: default: drop+count }*)
(*  Atomic = TRUE (the code since fix d5f2c74): Replicate holds            *)
(*  s.enqueueMu across sequence.Add and the non-blocking send, so          *)
(*  SndAssign and Enqueue are ONE step.  Atomic = FALSE is the shape       *)
(*  before the fix; it is kept as a negative control (MC_ctl_aswritten.cfg *)
(*  is expected to violate HealthyNeverDropped, Gen_ctl_aswritten.cfg      *)
(*  supplies the schedules that would realise it if the fix regressed).    *)
(*  distributor (Sender.distributionLoop):                                 *)
(*    Dequeue     entry := <-s.entryChan                                   *)
(*    Broadcast   sendToReader: tag under the session key, cumulative hash *)
(*                += payload, write the entry frame, and after             *)
(*                CheckpointInterval entries a checkpoint frame carrying   *)
(*                (running hash, entry.Sequence) under the cluster secret  *)
(*  wire adversary (between the sender and the reader, budget MaxAdv):     *)
(*    Flip / Dup / Drop / Swap / Splice / ReplayCp on whole frames, and    *)
(*    the composite DelayCps (every checkpoint held back until after the   *)
(*    entry that follows it -- one step, it is one adversary policy) and   *)
(*    DropWindow (a whole checkpoint window: its entries + its checkpoint) *)
(*  receiver (Receiver.receiveLoop, checks in the order they are written): *)
(*    entry:      tag valid under the session key for (seq, payload)       *)
(*                else drop; seq <= lastSeq -> drop; else hash += payload, *)
(*                apply, lastSeq := seq                                    *)
(*    checkpoint: last # lastSeq -> drop; hash # running hash -> drop;     *)
(*                MAC invalid -> drop                                      *)
(*                                                                         *)
(* The receiver is purely reactive on the writer->reader direction (acks   *)
(* only update a statistic), so the model lets the adversary and the       *)
(* receiver run after the writer side is quiescent (capture, tamper,       *)
(* deliver) -- the same reduction the driver's proxy uses.                 *)
(***************************************************************************)
EXTENDS Naturals, Sequences, FiniteSets, TLC, Json

CONSTANTS NProd,        \* concurrent producer goroutines
          PerProd,      \* entries appended by each producer
          BufSize,      \* capacity of Sender.entryChan
          CpInterval,   \* SenderConfig.CheckpointInterval
          MaxAdv,       \* adversary step budget
          AdvKinds,     \* which adversary operations are enabled (subset of AllAdvKinds)
          Atomic,       \* TRUE: sequence assignment and enqueue are one step (repair shape)
          Eager,        \* TRUE: Dequeue is urgent (the driver cannot delay the channel receive)
          Emit          \* TRUE: print one TRACE line per terminal state

P == 1..NProd
PayOf(p, k) == p * 10 + k              \* unique payload id of producer p's k-th entry

VARIABLES pc, cnt, wseq, sseq, mine,       \* producers
          queue, hand, wdropped, enq,      \* sender queue, distributor, reported drops, history of enqueued entries
          since, shash,                    \* per-reader sender state
          wire, orig,                      \* frames in flight; orig = the untampered stream (history)
          phase, advN, advLog,             \* "produce" | "adv" | "recv"
          rpos, lastSeq, rhash, applied, conn, reason, cpAcc,
          sched                            \* history: schedule labels (p = producer step, 0 = broadcast)

vars == <<pc, cnt, wseq, sseq, mine, queue, hand, wdropped, enq, since, shash, wire, orig,
          phase, advN, advLog, rpos, lastSeq, rhash, applied, conn, reason, cpAcc, sched>>

\* MC configs hide the pure history variables
MCView == <<pc, cnt, wseq, sseq, mine, queue, hand, wdropped, enq, since, shash, wire, orig,
            phase, advN, rpos, lastSeq, rhash, applied, conn, reason, cpAcc>>

Init ==
    /\ pc = [p \in P |-> "idle"] /\ cnt = [p \in P |-> 0]
    /\ wseq = 0 /\ sseq = 0 /\ mine = [p \in P |-> [w |-> 0, s |-> 0]]
    /\ queue = <<>> /\ hand = <<>> /\ wdropped = {} /\ enq = {}
    /\ since = 0 /\ shash = <<>>
    /\ wire = <<>> /\ orig = <<>>
    /\ phase = "produce" /\ advN = 0 /\ advLog = <<>>
    /\ rpos = 1 /\ lastSeq = 0 /\ rhash = <<>> /\ applied = <<>> /\ conn = "up" /\ reason = "none" /\ cpAcc = <<>>
    /\ sched = <<>>

-----------------------------------------------------------------------------
\* writer side
CanDequeue == hand = <<>> /\ queue # <<>>
ProdEnabled == phase = "produce" /\ (Eager => ~CanDequeue)

RecvUnch == UNCHANGED <<rpos, lastSeq, rhash, applied, conn, reason, cpAcc>>
AdvUnch  == UNCHANGED <<phase, advN, advLog>>

DoEnqueue(p, s) ==
    LET e == [seq |-> s, pay |-> PayOf(p, cnt[p])] IN
    IF Len(queue) < BufSize
      THEN /\ queue' = Append(queue, e) /\ enq' = enq \cup {e} /\ UNCHANGED wdropped
      ELSE /\ wdropped' = wdropped \cup {s} /\ UNCHANGED <<queue, enq>>

WalAssign(p) ==
    /\ ProdEnabled /\ pc[p] = "idle" /\ cnt[p] < PerProd
    /\ wseq' = wseq + 1
    /\ mine' = [mine EXCEPT ![p] = [w |-> wseq + 1, s |-> 0]]
    /\ cnt' = [cnt EXCEPT ![p] = @ + 1]
    /\ pc' = [pc EXCEPT ![p] = "w"]
    /\ sched' = Append(sched, p)
    /\ UNCHANGED <<sseq, queue, hand, wdropped, enq, since, shash, wire, orig>> /\ AdvUnch /\ RecvUnch

SndAssign(p) ==
    /\ ProdEnabled /\ pc[p] = "w"
    /\ sseq' = sseq + 1
    /\ mine' = [mine EXCEPT ![p].s = sseq + 1]
    /\ sched' = Append(sched, p)
    /\ IF Atomic
         THEN /\ DoEnqueue(p, sseq + 1) /\ pc' = [pc EXCEPT ![p] = "idle"]
         ELSE /\ pc' = [pc EXCEPT ![p] = "s"] /\ UNCHANGED <<queue, wdropped, enq>>
    /\ UNCHANGED <<cnt, wseq, hand, since, shash, wire, orig>> /\ AdvUnch /\ RecvUnch

Enqueue(p) ==
    /\ ProdEnabled /\ pc[p] = "s"
    /\ DoEnqueue(p, mine[p].s)
    /\ pc' = [pc EXCEPT ![p] = "idle"]
    /\ sched' = Append(sched, p)
    /\ UNCHANGED <<cnt, wseq, sseq, mine, hand, since, shash, wire, orig>> /\ AdvUnch /\ RecvUnch

Dequeue ==
    /\ phase = "produce" /\ CanDequeue
    /\ hand' = <<Head(queue)>> /\ queue' = Tail(queue)
    /\ UNCHANGED <<pc, cnt, wseq, sseq, mine, wdropped, enq, since, shash, wire, orig, sched>> /\ AdvUnch /\ RecvUnch

EntryFrame(e) == [t |-> "e", seq |-> e.seq, pay |-> e.pay,
                  tag |-> [key |-> "K", seq |-> e.seq, pay |-> e.pay], hash |-> <<>>, mhash |-> <<>>]
CpFrame(h, last) == [t |-> "c", seq |-> last, pay |-> 0,
                     tag |-> [key |-> "K", seq |-> last, pay |-> 0], hash |-> h, mhash |-> h]

Broadcast ==
    /\ phase = "produce" /\ hand # <<>>
    /\ LET e == hand[1]
           h == Append(shash, e.pay) IN
       /\ shash' = h
       /\ IF since + 1 >= CpInterval
            THEN /\ wire' = wire \o <<EntryFrame(e), CpFrame(h, e.seq)>> /\ since' = 0
            ELSE /\ wire' = Append(wire, EntryFrame(e)) /\ since' = since + 1
    /\ hand' = <<>>
    /\ orig' = wire'
    /\ sched' = Append(sched, 0)
    /\ UNCHANGED <<pc, cnt, wseq, sseq, mine, queue, wdropped, enq>> /\ AdvUnch /\ RecvUnch

ProduceDone == /\ \A p \in P : pc[p] = "idle" /\ cnt[p] = PerProd
               /\ queue = <<>> /\ hand = <<>>

-----------------------------------------------------------------------------
\* wire adversary: whole-frame operations on the captured stream
WriterUnch == UNCHANGED <<pc, cnt, wseq, sseq, mine, queue, hand, wdropped, enq, since, shash, orig, sched>>

AllPays == {PayOf(p, k) : p \in P, k \in 1..PerProd}
Ins(s, i, f) == SubSeq(s, 1, i) \o <<f>> \o SubSeq(s, i + 1, Len(s))      \* insert f after position i
Del(s, i)    == SubSeq(s, 1, i - 1) \o SubSeq(s, i + 1, Len(s))

AdvStep(op, w) ==
    /\ wire' = w /\ advN' = advN + 1 /\ advLog' = Append(advLog, op)
    /\ phase' = "adv"
    /\ WriterUnch /\ RecvUnch

AllAdvKinds == {"flip", "dup", "drop", "swap", "splice", "replaycp", "delaycps", "dropwindow"}
AdvOn(k) == ProduceDone /\ phase \in {"produce", "adv"} /\ advN < MaxAdv /\ Len(wire) > 0 /\ k \in AdvKinds

Flip ==
    /\ AdvOn("flip")
    /\ \E i \in 1..Len(wire) :
         LET f == wire[i] IN
         \/ \E v \in (1..(sseq + 1)) \ {f.seq} :                       \* sequence / last_seq field altered
              AdvStep([op |-> "flip", i |-> i, j |-> 0, fld |-> "seq"], [wire EXCEPT ![i].seq = v])
         \/ /\ f.t = "e"
            /\ \E v \in (AllPays \cup {0}) \ {f.pay} :                 \* payload altered (0 = bytes never produced)
              AdvStep([op |-> "flip", i |-> i, j |-> 0, fld |-> "pay"], [wire EXCEPT ![i].pay = v])
         \/ /\ f.t = "c"                                               \* cumulative hash field altered
            /\ AdvStep([op |-> "flip", i |-> i, j |-> 0, fld |-> "hash"], [wire EXCEPT ![i].hash = Append(f.hash, 0)])
         \/ AdvStep([op |-> "flip", i |-> i, j |-> 0, fld |-> "tag"], [wire EXCEPT ![i].tag.key = "X"])

Dup ==
    /\ AdvOn("dup")
    /\ \E i \in 1..Len(wire) : \E j \in i..Len(wire) :
         /\ wire[i].t = "e"
         /\ AdvStep([op |-> "dup", i |-> i, j |-> j, fld |-> ""], Ins(wire, j, wire[i]))

DropF ==
    /\ AdvOn("drop")
    /\ \E i \in 1..Len(wire) : AdvStep([op |-> "drop", i |-> i, j |-> 0, fld |-> ""], Del(wire, i))

Swap ==
    /\ AdvOn("swap")
    /\ \E i \in 1..(Len(wire) - 1) :
         AdvStep([op |-> "swap", i |-> i, j |-> i + 1, fld |-> ""],
                 [wire EXCEPT ![i] = wire[i + 1], ![i + 1] = wire[i]])

\* a frame that is valid under ANOTHER session key (recorded from a different connection), or a
\* forged frame with no valid tag, inserted after position i
Splice ==
    /\ AdvOn("splice")
    /\ \E i \in 0..Len(wire) : \E s \in 1..(sseq + 1) : \E k \in {"O", "X"} :
         AdvStep([op |-> "splice", i |-> i, j |-> s, fld |-> k],
                 Ins(wire, i, [t |-> "e", seq |-> s, pay |-> 0,
                               tag |-> [key |-> k, seq |-> s, pay |-> 0], hash |-> <<>>, mhash |-> <<>>]))

ReplayCp ==
    /\ AdvOn("replaycp")
    /\ \E i \in 1..Len(wire) : \E j \in i..Len(wire) :
         /\ wire[i].t = "c"
         /\ AdvStep([op |-> "replaycp", i |-> i, j |-> j, fld |-> ""], Ins(wire, j, wire[i]))

\* composite: the adversary holds every checkpoint frame back until the entry that follows it has
\* gone through (a checkpoint with nothing behind it stays where it is).  Alone it only reorders;
\* combined with DropF it is the schedule that tries to hide a removed entry from the checkpoints.
RECURSIVE DelayAll(_)
DelayAll(w) ==
    IF Len(w) < 2 THEN w
    ELSE IF w[1].t = "c" /\ w[2].t = "e" THEN <<w[2], w[1]>> \o DelayAll(SubSeq(w, 3, Len(w)))
    ELSE <<w[1]>> \o DelayAll(Tail(w))

DelayCps ==
    /\ AdvOn("delaycps")
    /\ DelayAll(wire) # wire
    /\ AdvStep([op |-> "delaycps", i |-> 0, j |-> 0, fld |-> ""], DelayAll(wire))

\* composite: one whole checkpoint window disappears -- every frame after the (k-1)-th checkpoint
\* frame up to AND INCLUDING the k-th checkpoint frame (its entries plus the checkpoint that signs
\* them).  What remains is aligned to checkpoint boundaries, so only the chaining of the cumulative
\* hash across windows (and the last-sequence check) can reveal it.
CpPositions == SelectSeq([i \in 1..Len(wire) |-> i], LAMBDA i : wire[i].t = "c")
DropWindow ==
    /\ AdvOn("dropwindow")
    /\ \E k \in 1..Len(CpPositions) :
         LET from == IF k = 1 THEN 1 ELSE CpPositions[k - 1] + 1
             to   == CpPositions[k] IN
         AdvStep([op |-> "dropwindow", i |-> k, j |-> 0, fld |-> ""],
                 SubSeq(wire, 1, from - 1) \o SubSeq(wire, to + 1, Len(wire)))

Adversary == Flip \/ Dup \/ DropF \/ Swap \/ Splice \/ ReplayCp \/ DelayCps \/ DropWindow

StartRecv ==
    /\ ProduceDone /\ phase \in {"produce", "adv"}
    /\ phase' = "recv"
    /\ UNCHANGED <<wire, advN, advLog>> /\ WriterUnch /\ RecvUnch

-----------------------------------------------------------------------------
\* receiver, as written
TagOK(f) == f.tag = [key |-> "K", seq |-> f.seq, pay |-> f.pay]
MacOK(f) == f.tag = [key |-> "K", seq |-> f.seq, pay |-> 0] /\ f.mhash = f.hash

DropConn(r) == /\ conn' = "dropped" /\ reason' = r
               /\ UNCHANGED <<lastSeq, rhash, applied, cpAcc>>

Recv ==
    /\ phase = "recv" /\ conn = "up" /\ rpos <= Len(wire)
    /\ rpos' = rpos + 1
    /\ LET f == wire[rpos] IN
       IF f.t = "e"
         THEN IF ~TagOK(f) THEN DropConn("tag")
              ELSE IF f.seq <= lastSeq THEN DropConn("seq")
              ELSE /\ rhash' = Append(rhash, f.pay)
                   /\ applied' = Append(applied, [seq |-> f.seq, pay |-> f.pay])
                   /\ lastSeq' = f.seq
                   /\ UNCHANGED <<conn, reason, cpAcc>>
         ELSE IF f.seq # lastSeq THEN DropConn("cpseq")
              ELSE IF f.hash # rhash THEN DropConn("cphash")
              ELSE IF ~MacOK(f) THEN DropConn("cpmac")
              ELSE /\ cpAcc' = Append(cpAcc, [f |-> f, applied |-> applied])
                   /\ UNCHANGED <<lastSeq, rhash, applied, conn, reason>>
    /\ UNCHANGED <<wire, phase, advN, advLog>> /\ WriterUnch

Terminal == phase = "recv" /\ (conn = "dropped" \/ rpos > Len(wire))
Done == Terminal /\ UNCHANGED vars

Next == \/ \E p \in P : WalAssign(p) \/ SndAssign(p) \/ Enqueue(p)
        \/ Dequeue \/ Broadcast
        \/ Adversary \/ StartRecv \/ Recv \/ Done
Spec == Init /\ [][Next]_vars

-----------------------------------------------------------------------------
\* properties (C24), on the implementation state
AppliedIncreasing == \A i \in 1..(Len(applied) - 1) : applied[i].seq < applied[i + 1].seq

\* nothing altered, injected or spliced is ever applied: every applied (seq, payload) is an entry
\* the writer queued, with the writer's sequence number
AppliedAuthentic == \A i \in 1..Len(applied) : applied[i] \in enq

\* an accepted checkpoint anchors the stream: it is one the sender emitted and everything applied
\* so far is exactly the sender's stream up to it (no adversarial gap survives a checkpoint)
Pays(a) == [i \in 1..Len(a) |-> a[i].pay]
CheckpointAnchors ==
    \A c \in 1..Len(cpAcc) : /\ \E k \in 1..Len(orig) : orig[k] = cpAcc[c].f
                             /\ Pays(cpAcc[c].applied) = cpAcc[c].f.hash

\* with no adversary step: at the end every queued entry has been applied, in order
HealthyComplete ==
    (Terminal /\ advN = 0 /\ conn = "up") =>
        /\ {applied[i] : i \in 1..Len(applied)} = enq
        /\ Len(applied) = Cardinality(enq)

\* with no adversary step the only gaps are entries the writer reported as dropped
GapsOnlyDrops ==
    advN = 0 => \A i \in 1..(Len(applied) - 1) :
                   \A k \in (applied[i].seq + 1)..(applied[i + 1].seq - 1) : k \in wdropped

\* a healthy connection is never dropped because of the writer's own concurrency
HealthyNeverDropped == advN = 0 => conn = "up"

SafetyAsWritten == AppliedIncreasing /\ AppliedAuthentic /\ CheckpointAnchors /\ HealthyComplete
SafetyFull == SafetyAsWritten /\ GapsOnlyDrops /\ HealthyNeverDropped

\* ACTION_CONSTRAINT of the adversary generators: the distributor broadcasts at once, so a single
\* producer yields a single writer schedule and the enumeration is spent on the adversary
BroadcastFirst == hand # <<>> => hand' = <<>>

\* generation: one line per terminal state
OrigSeqs == [i \in 1..Len(orig) |-> [t |-> orig[i].t, seq |-> orig[i].seq]]
EmitInv ==
    (Emit /\ Terminal) =>
        PrintT(<<"TRACE", ToJson([sched |-> sched, adv |-> advLog, stream |-> OrigSeqs,
                                  wdropped |-> wdropped, conn |-> conn, reason |-> reason,
                                  applied |-> [i \in 1..Len(applied) |-> applied[i].seq]])>>)
=============================================================================

SPECIFICATION Spec
CONSTANTS
  NProd = 3
  PerProd = 1
  BufSize = 1
  CpInterval = 2
  MaxAdv = 0
  Atomic = TRUE
  Eager = TRUE
  Emit = TRUE
  AdvKinds = {}
INVARIANTS SafetyFull EmitInv
CHECK_DEADLOCK FALSE

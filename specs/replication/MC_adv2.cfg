SPECIFICATION Spec
CONSTANTS
  NProd = 1
  PerProd = 3
  BufSize = 3
  CpInterval = 2
  MaxAdv = 2
  Atomic = FALSE
  Eager = FALSE
  Emit = FALSE
INVARIANTS SafetyAsWritten
CHECK_DEADLOCK FALSE
VIEW MCView

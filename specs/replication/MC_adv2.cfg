SPECIFICATION Spec
CONSTANTS
  NProd = 1
  PerProd = 3
  BufSize = 3
  CpInterval = 2
  MaxAdv = 2
  Atomic = TRUE
  Eager = FALSE
  Emit = FALSE
  AdvKinds = {"flip", "dup", "drop", "swap", "splice", "replaycp", "delaycps", "dropwindow"}
INVARIANTS SafetyFull
CHECK_DEADLOCK FALSE
VIEW MCView

SPECIFICATION Spec
CONSTANTS
  NProd = 2
  PerProd = 2
  BufSize = 1
  CpInterval = 2
  MaxAdv = 0
  Atomic = TRUE
  Eager = TRUE
  Emit = TRUE
  AdvKinds = {}
INVARIANTS SafetyFull EmitInv
CHECK_DEADLOCK FALSE

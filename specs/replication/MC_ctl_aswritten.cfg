SPECIFICATION Spec
CONSTANTS
  NProd = 2
  PerProd = 1
  BufSize = 2
  CpInterval = 2
  MaxAdv = 0
  Atomic = FALSE
  Eager = FALSE
  Emit = FALSE
  AdvKinds = {}
INVARIANTS HealthyNeverDropped
CHECK_DEADLOCK FALSE
VIEW MCView

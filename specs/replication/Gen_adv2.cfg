SPECIFICATION Spec
CONSTANTS
  NProd = 1
  PerProd = 4
  BufSize = 4
  CpInterval = 2
  MaxAdv = 2
  Atomic = TRUE
  Eager = TRUE
  Emit = TRUE
  AdvKinds = {"flip", "dup", "drop", "swap", "splice", "replaycp", "delaycps", "dropwindow"}
INVARIANTS SafetyFull EmitInv
CHECK_DEADLOCK FALSE
ACTION_CONSTRAINT BroadcastFirst

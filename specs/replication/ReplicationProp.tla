-------------------------- MODULE ReplicationProp --------------------------
(***************************************************************************)
(* C24, property level.  A monitor over the events recorded on the real    *)
(* writer -> proxy -> reader pipeline; it does not know how the sender or  *)
(* the receiver work, only what the property statement talks about:        *)
(*                                                                         *)
(*   append(h)        a producer goroutine hands payload h to the WAL       *)
(*   sent(seq,h)      the writer emitted entry (seq,h) on the reader's      *)
(*                    connection (captured at the proxy, in emission order) *)
(*   cp               the writer emitted a checkpoint frame                 *)
(*   wdrop(seq)       the writer reported entry seq as dropped (queue full) *)
(*   adv              the proxy applied one adversary operation             *)
(*   cpdeliver(idx)   the proxy delivered, untouched, the checkpoint that   *)
(*                    was the idx-th frame of the writer's stream           *)
(*   applied(h)       the reader applied payload h                          *)
(*   conndrop         the reader (or the writer) dropped the connection     *)
(*   end(up,rlast)    everything was delivered and consumed; up = the       *)
(*                    connection survived; rlast = reader's last sequence   *)
(*                                                                         *)
(* Judgements (each adds a code to `viol`; the run's verdict is printed at *)
(* `end`):                                                                 *)
(*   applied-not-sent        applied bytes that the writer never emitted   *)
(*                           (altered / injected / spliced)                *)
(*   applied-not-increasing  applied twice or behind an already applied    *)
(*                           sequence (replayed / reordered / duplicate)   *)
(*   healthy-gap             no adversary step, and a sequence that the    *)
(*                           writer did not report as dropped was skipped  *)
(*   healthy-conn-dropped    no adversary step, connection dropped         *)
(*   healthy-incomplete      no adversary step, connection up at the end,  *)
(*                           and some emitted entry was not applied        *)
(*   unreported-loss         an appended payload was neither emitted nor   *)
(*                           reported dropped (healthy runs)               *)
(*   gap-survived-checkpoint an entry the writer emitted (and did not      *)
(*                           report as dropped) was never applied, the     *)
(*                           connection stayed up across an untouched      *)
(*                           checkpoint covering it and the reader went on *)
(*                           applying later entries / stayed connected     *)
(*   sequence-diverged       the reader's last sequence is not the         *)
(*                           writer's sequence of the last applied entry   *)
(***************************************************************************)
EXTENDS Naturals, Sequences, FiniteSets, TLC

VARIABLES appended,   \* set of payload hashes handed to the WAL
          stream,     \* Seq([t, seq, h]) the writer's emitted frames
          wdropped,   \* set of sequence numbers reported dropped
          advN,       \* adversary operations so far
          applied,    \* Seq(h)
          last,       \* writer sequence of the last applied entry
          conn,       \* "up" | "down"
          cpq,        \* index (in stream) of a delivered checkpoint not yet known to be accepted, or 0
          viol        \* set of judgement codes

pvars == <<appended, stream, wdropped, advN, applied, last, conn, cpq, viol>>

PInit == /\ appended = {} /\ stream = <<>> /\ wdropped = {} /\ advN = 0
         /\ applied = <<>> /\ last = 0 /\ conn = "up" /\ cpq = 0 /\ viol = {}

Entries(s)  == SelectSeq(s, LAMBDA f : f.t = "e")
SentH       == {stream[i].h : i \in {j \in 1..Len(stream) : stream[j].t = "e"}}
SentSeqs    == {stream[i].seq : i \in {j \in 1..Len(stream) : stream[j].t = "e"}}
SeqOf(h)    == (CHOOSE i \in 1..Len(stream) : stream[i].t = "e" /\ stream[i].h = h)
Hs(s)       == [i \in 1..Len(s) |-> s[i].h]
If(c, code) == IF c THEN {code} ELSE {}

\* the connection is known to have survived the pending checkpoint: every entry the writer emitted
\* before that checkpoint must have been applied, in the writer's order, before anything else
\* (only that: a checkpoint that was merely delayed behind later entries certifies a prefix of what
\* has been applied, which breaks nothing; a missing covered entry is a gap the writer never reported)
Covered == Hs(Entries(SubSeq(stream, 1, cpq)))
CpCheck == If(cpq > 0 /\ ~(Len(applied) >= Len(Covered) /\ SubSeq(applied, 1, Len(Covered)) = Covered),
              "gap-survived-checkpoint")

PAppend(h) == /\ appended' = appended \cup {h}
              /\ viol' = viol \cup If(h \in appended, "trace-duplicate-append")
              /\ UNCHANGED <<stream, wdropped, advN, applied, last, conn, cpq>>

PSent(seq, h) ==
    /\ stream' = Append(stream, [t |-> "e", seq |-> seq, h |-> h])
    /\ viol' = viol \cup If(h \notin appended, "sent-unknown-payload")
                    \cup If(h \in SentH \/ seq \in SentSeqs, "sent-duplicate")
                    \cup If(seq \in wdropped, "sent-and-reported-dropped")
    /\ UNCHANGED <<appended, wdropped, advN, applied, last, conn, cpq>>

PCp(seq) == /\ stream' = Append(stream, [t |-> "c", seq |-> seq, h |-> ""])
            /\ UNCHANGED <<appended, wdropped, advN, applied, last, conn, cpq, viol>>

PWDrop(seq) == /\ wdropped' = wdropped \cup {seq}
               /\ viol' = viol \cup If(seq \in SentSeqs, "sent-and-reported-dropped")
               /\ UNCHANGED <<appended, stream, advN, applied, last, conn, cpq>>

PAdv == /\ advN' = advN + 1
        /\ UNCHANGED <<appended, stream, wdropped, applied, last, conn, cpq, viol>>

PCpDeliver(idx) ==
    /\ cpq' = IF conn = "up" /\ idx \in 1..Len(stream) /\ stream[idx].t = "c" THEN idx ELSE cpq
    /\ viol' = viol \cup CpCheck          \* an earlier pending checkpoint was survived as well
    /\ UNCHANGED <<appended, stream, wdropped, advN, applied, last, conn>>

PApplied(h) ==
    /\ applied' = Append(applied, h)
    /\ cpq' = 0
    /\ IF h \notin SentH
         THEN /\ viol' = viol \cup {"applied-not-sent"} \cup CpCheck
                              \cup If(conn = "down", "applied-after-drop")
              /\ UNCHANGED last
         ELSE LET s == stream[SeqOf(h)].seq IN
              /\ last' = IF s > last THEN s ELSE last
              /\ viol' = viol \cup CpCheck
                              \cup If(conn = "down", "applied-after-drop")
                              \cup If(s <= last, "applied-not-increasing")
                              \cup If(advN = 0 /\ s > last /\ \E k \in (last + 1)..(s - 1) : k \notin wdropped,
                                      "healthy-gap")
    /\ UNCHANGED <<appended, stream, wdropped, advN, conn>>

PConnDrop ==
    /\ conn' = "down" /\ cpq' = 0
    /\ viol' = viol \cup If(advN = 0 /\ conn = "up", "healthy-conn-dropped")
    /\ UNCHANGED <<appended, stream, wdropped, advN, applied, last>>

\* the verdict of the run that ends here
EndViol(up, rlast) ==
    viol \cup (IF up THEN CpCheck ELSE {})
         \cup If(up # (conn = "up"), "trace-inconsistent-end")
         \cup If(advN = 0 /\ up /\ applied # Hs(Entries(stream)), "healthy-incomplete")
         \cup If(advN = 0 /\ Cardinality(SentH) + Cardinality(wdropped) # Cardinality(appended), "unreported-loss")
         \cup If(rlast # last, "sequence-diverged")

PReset == /\ appended' = {} /\ stream' = <<>> /\ wdropped' = {} /\ advN' = 0
          /\ applied' = <<>> /\ last' = 0 /\ conn' = "up" /\ cpq' = 0 /\ viol' = {}
=============================================================================

SPECIFICATION Spec
CONSTANTS
  NProd = 3
  PerProd = 1
  BufSize = 1
  CpInterval = 2
  MaxAdv = 1
  Atomic = TRUE
  Eager = FALSE
  Emit = FALSE
  AdvKinds = {"flip", "dup", "drop", "swap", "splice", "replaycp", "delaycps", "dropwindow"}
INVARIANTS SafetyFull
CHECK_DEADLOCK FALSE
VIEW MCView

-------------------------- MODULE ReplicationTrace -------------------------
(* Trace validation for C24: replays the ndjson event log recorded by the driver
   (harness/cmd/replication) through the ReplicationProp monitor.  Runs are concatenated and
   separated by "end" events; the verdict of every run is printed as a TRACE line. *)
EXTENDS Naturals, Sequences, FiniteSets, TLC, Json
VARIABLES appended, stream, wdropped, advN, applied, last, conn, cpq, viol, l
INSTANCE ReplicationProp

Trace == ndJsonDeserialize("trace.ndjson")
tvars == <<appended, stream, wdropped, advN, applied, last, conn, cpq, viol, l>>

TraceInit == PInit /\ l = 1 /\ TLCSet(1, 0)
IsEvent(e) == l <= Len(Trace) /\ Trace[l].ev = e /\ l' = l + 1

TAppend    == IsEvent("append")    /\ PAppend(Trace[l].h)
TSent      == IsEvent("sent")      /\ PSent(Trace[l].seq, Trace[l].h)
TCp        == IsEvent("cp")        /\ PCp(Trace[l].seq)
TWDrop     == IsEvent("wdrop")     /\ PWDrop(Trace[l].seq)
TAdv       == IsEvent("adv")       /\ PAdv
TCpDeliver == IsEvent("cpdeliver") /\ PCpDeliver(Trace[l].idx)
TApplied   == IsEvent("applied")   /\ PApplied(Trace[l].h)
TConnDrop  == IsEvent("conndrop")  /\ PConnDrop
TEnd       == /\ IsEvent("end")
              /\ PrintT(<<"TRACE", ToJson([run |-> Trace[l].run, viol |-> EndViol(Trace[l].up, Trace[l].rlast)])>>)
              /\ PReset

TraceNext == TAppend \/ TSent \/ TCp \/ TWDrop \/ TAdv \/ TCpDeliver \/ TApplied \/ TConnDrop \/ TEnd
TraceSpec == TraceInit /\ [][TraceNext]_tvars
HW == TLCSet(1, IF l > TLCGet(1) THEN l ELSE TLCGet(1))
TraceAccepted == IF TLCGet(1) = Len(Trace) + 1 THEN TRUE
                 ELSE PrintT(<<"REJECTED_AT", TLCGet(1)>>) /\ FALSE
=============================================================================

SPECIFICATION Spec
CONSTANTS
  NProd = 2
  PerProd = 1
  BufSize = 1
  CpInterval = 2
  MaxAdv = 0
  Atomic = FALSE
  Eager = TRUE
  Emit = TRUE
  AdvKinds = {}
INVARIANTS SafetyAsWritten EmitInv
CHECK_DEADLOCK FALSE

SPECIFICATION Spec
CONSTANTS
  NProd = 1
  PerProd = 4
  BufSize = 4
  CpInterval = 2
  MaxAdv = 2
  Atomic = TRUE
  Eager = TRUE
  Emit = TRUE
  AdvKinds = {"dup", "drop", "swap", "replaycp", "delaycps"}
INVARIANTS SafetyFull EmitInv
CHECK_DEADLOCK FALSE
ACTION_CONSTRAINT BroadcastFirst

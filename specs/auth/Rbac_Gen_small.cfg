SPECIFICATION Spec
CONSTANTS
  MaxOps = 2
  Orgs = {"o1"}
  SeedNames = {"A","B","C"}
  Unflushed = {"CreateOrg","UpdateOrg","CreateTeam","RevokeToken","DeleteToken"}
  AuthUnflushed = {}
  Emit = TRUE
INVARIANTS Integrity EmitInv

CHECK_DEADLOCK FALSE

SPECIFICATION Spec
CONSTANTS
  MaxOps = 2
  Orgs = {"o1"}
  SeedNames = {"A","B","C"}
  Unflushed = {"CreateOrg","UpdateOrg","CreateTeam","RevokeToken","DeleteToken"}
  AuthUnflushed = {}
  ExpirePos = {0}
  ExpireBefore = {"DeleteOrg","UpdateTeam","DeleteTeam","CreateRole","UpdateRole","DeleteRole","CreateMP","DeleteMP"}
  TeamScan = FALSE
  Emit = TRUE
INVARIANTS Integrity EmitInv

CHECK_DEADLOCK FALSE

SPECIFICATION Spec
CONSTANTS
  MaxOps = 2
  Orgs = {"o1"}
  SeedNames = {"A","B","C"}
  Unflushed = {"CreateOrg","UpdateOrg","CreateTeam","DeleteToken"}
  AuthUnflushed = {}
  ExpirePos = {0}
  ExpireBefore = {"ReseedOrg","DeleteOrg","UpdateTeam","DeleteTeam","CreateRole","UpdateRole","DeleteRole","CreateMP","DeleteMP"}
  TeamScan = FALSE
  Emit = TRUE
INVARIANTS Integrity EmitInv

CHECK_DEADLOCK FALSE

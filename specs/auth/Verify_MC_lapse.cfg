SPECIFICATION Spec
CONSTANTS
  NV = 1
  Conns = 1
  EarlyClose = FALSE
  FlushFirst = FALSE
  Lapse = TRUE
  ExpiryAware = TRUE
  Emit = FALSE
INVARIANTS Safety NoStarvation
VIEW view
CHECK_DEADLOCK FALSE

SPECIFICATION Spec
CONSTANTS
  NV = 1
  Conns = 1
  EarlyClose = FALSE
  FlushFirst = FALSE
  Lapse = FALSE
  ExpiryAware = TRUE
  Emit = FALSE
INVARIANTS Safety NoStalePending NoStarvation
VIEW view
CHECK_DEADLOCK FALSE

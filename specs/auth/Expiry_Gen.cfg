SPECIFICATION Spec
CONSTANTS
  TTL = 4
  Horizon = 9
  Expiries = {0, 3, 6}
  MaxVerify = 3
  Cap = TRUE
  Slide = FALSE
  Emit = TRUE
INVARIANTS NeverAcceptedExpired EmitInv

CHECK_DEADLOCK FALSE

SPECIFICATION Spec
CONSTANTS
  MaxOps = 2
  Orgs = {"o1"}
  SeedNames = {"A","B","C"}
  Unflushed = {"CreateOrg","UpdateOrg","CreateTeam","RevokeToken","DeleteToken","DeleteOrg"}
  AuthUnflushed = {}
  Emit = FALSE
INVARIANTS CacheCoherent
VIEW view
CHECK_DEADLOCK FALSE

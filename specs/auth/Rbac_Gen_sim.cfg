SPECIFICATION Spec
CONSTANTS
  MaxOps = 6
  Orgs = {"o1","o2"}
  SeedNames = {"A","B","C"}
  Unflushed = {"CreateOrg","UpdateOrg","CreateTeam","RevokeToken","DeleteToken"}
  AuthUnflushed = {}
  Emit = TRUE
INVARIANTS Integrity EmitInv

CHECK_DEADLOCK FALSE

SPECIFICATION Spec
CONSTANTS
  MaxOps = 6
  Orgs = {"o1","o2"}
  SeedNames = {"A","B","C"}
  Unflushed = {"CreateOrg","UpdateOrg","CreateTeam","DeleteToken"}
  AuthUnflushed = {}
  ExpirePos = {0, 1, 2}
  ExpireBefore = {"ReseedOrg","DeleteOrg","UpdateTeam","DeleteTeam","CreateRole","UpdateRole","DeleteRole","CreateMP","DeleteMP"}
  TeamScan = FALSE
  Emit = TRUE
INVARIANTS Integrity EmitInv

CHECK_DEADLOCK FALSE

----------------------------- MODULE AuthExpiry -----------------------------
(***************************************************************************)
(* C21, second sentence: "a token value authenticates only if it was       *)
(* issued, is enabled and has not expired".                                *)
(*                                                                         *)
(* Clock fragment of the Auth family: one token with an expires_at (or     *)
(* none), an integer clock, and sequences of VerifyToken calls at chosen   *)
(* clock positions (first / second half of the cache TTL, after            *)
(* expires_at, after the TTL).  VerifyToken as written in auth.go:         *)
(*   hit   iff an entry exists and now.Before(entry.deadline) -> accepted  *)
(*         (expires_at is NOT looked at on this path)                      *)
(*   miss  database path: rejected iff now.After(expires_at); otherwise    *)
(*         accepted and cached with deadline min(now+TTL, expires_at)      *)
(*         (the cap is fix b7d5157)                                        *)
(* Negative controls (must fail):                                          *)
(*   Cap = FALSE    deadline = now+TTL (the code before b7d5157)           *)
(*   Slide = TRUE   a hit in the second half of the entry's lifetime       *)
(*                  pushes the deadline to now+TTL ("sliding expiry")      *)
(***************************************************************************)
EXTENDS Naturals, Sequences, TLC, Json

CONSTANTS TTL,        \* cache TTL in ticks (even)
          Horizon,    \* last clock value
          Expiries,   \* candidate expires_at values; 0 stands for "never expires"
          MaxVerify,  \* number of VerifyToken calls per history
          Cap, Slide, \* see above
          Emit

VARIABLES now, exp, entry,   \* entry: 0 = none, else deadline + 1
          nver, lastok, hist

vars == <<now, exp, entry, nver, lastok, hist>>
view == <<now, exp, entry, nver, lastok>>

Min(a, b) == IF a < b THEN a ELSE b
HasEntry  == entry > 0
Deadline  == entry - 1
Expired   == exp > 0 /\ now > exp          \* now.After(expires_at)

Init == /\ now = 0 /\ exp \in Expiries /\ entry = 0 /\ nver = 0 /\ lastok = TRUE
        /\ hist = <<>>

Tick == /\ now < Horizon /\ now' = now + 1
        /\ hist' = Append(hist, [a |-> "tick", ok |-> FALSE, hit |-> FALSE])
        /\ UNCHANGED <<exp, entry, nver, lastok>>

Verify ==
    /\ nver < MaxVerify /\ nver' = nver + 1
    /\ IF HasEntry /\ now < Deadline
         THEN \* cache hit
              /\ entry' = IF Slide /\ Deadline - now < TTL \div 2 THEN now + TTL + 1 ELSE entry
              /\ lastok' = ~Expired            \* accepted; lastok records whether that was legitimate
              /\ hist' = Append(hist, [a |-> "verify", ok |-> TRUE, hit |-> TRUE])
         ELSE IF Expired
                THEN /\ UNCHANGED <<entry, lastok>>
                     /\ hist' = Append(hist, [a |-> "verify", ok |-> FALSE, hit |-> FALSE])
                ELSE /\ entry' = (IF Cap /\ exp > 0 THEN Min(now + TTL, exp) ELSE now + TTL) + 1
                     /\ UNCHANGED lastok
                     /\ hist' = Append(hist, [a |-> "verify", ok |-> TRUE, hit |-> FALSE])
    /\ UNCHANGED <<now, exp>>

Stop == now = Horizon /\ nver = MaxVerify /\ UNCHANGED vars
Next == Tick \/ Verify \/ Stop
Spec == Init /\ [][Next]_vars

\* no VerifyToken call accepted a token whose expires_at had passed
NeverAcceptedExpired == lastok

Complete == now = Horizon \/ nver = MaxVerify
EmitInv == (Emit /\ nver = MaxVerify /\ hist[Len(hist)].a = "verify") =>
              PrintT(<<"TRACE", ToJson([exp |-> exp, ttl |-> TTL, steps |-> hist])>>)
=============================================================================

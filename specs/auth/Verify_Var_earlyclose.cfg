SPECIFICATION Spec
CONSTANTS
  NV = 2
  Conns = 1
  EarlyClose = TRUE
  FlushFirst = FALSE
  Lapse = FALSE
  ExpiryAware = TRUE
  Emit = FALSE
INVARIANTS Safety
VIEW view
CHECK_DEADLOCK FALSE

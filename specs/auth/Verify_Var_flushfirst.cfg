SPECIFICATION Spec
CONSTANTS
  NV = 2
  Conns = 1
  EarlyClose = FALSE
  FlushFirst = TRUE
  Lapse = FALSE
  ExpiryAware = TRUE
  Emit = FALSE
INVARIANTS Safety
VIEW view
CHECK_DEADLOCK FALSE

----------------------------- MODULE AuthVerify -----------------------------
(***************************************************************************)
(* C21 -- revoked, deleted or rotated token values stop authenticating     *)
(* immediately.                                                            *)
(*                                                                         *)
(* Token-verification fragment of the Auth family.  Implementation-shaped  *)
(* model of internal/auth/auth.go:                                         *)
(*                                                                         *)
(*   VerifyToken(old value)          (threads V1, V2)                      *)
(*     lookup   RLock, cache hit -> return the cached TokenInfo            *)
(*     query    am.db.Query: takes a pooled connection, the rows stay      *)
(*              open (deferred rows.Close) -> the connection is held until *)
(*              the function returns; the pool has Conns = 1 connection    *)
(*     insert   cacheMu.Lock, cache[key] = info (only if a row matched)    *)
(*     return   deferred rows.Close releases the connection                *)
(*                                                                         *)
(*   RevokeToken / DeleteToken / RotateToken / UpdateToken(expires_at) and *)
(*   their cluster-apply twins ApplyXxxToken      (thread M)               *)
(*     exec     am.db.Exec: acquire connection, write, release (atomic)    *)
(*     flush    InvalidateCache, then return                               *)
(*                                                                         *)
(* The pool is modelled as written in database/sql: a request that finds   *)
(* no free connection is queued; a released connection is handed to one of *)
(* the queued requests (database/sql keeps them in a map: no order is      *)
(* promised; with at most two waiters "oldest first" and "newest first",   *)
(* chosen per behaviour by `lifo`, are all the orders there are).          *)
(* The generation configs add the constraint OneWaiter, so the schedules   *)
(* handed to the driver never depend on that order.                        *)
(*                                                                         *)
(* The scheduler of the replay driver is part of the model: a "kick"       *)
(* releases one parked thread from its gate and the thread runs to its     *)
(* next gate, to its end, or into the pool's wait queue.  TLC therefore    *)
(* enumerates exactly the schedules the driver can realise and predicts    *)
(* for every kick where the thread ends up (the drift detector) and which  *)
(* queued threads are served by a release.                                 *)
(*                                                                         *)
(* Variants (documenting what carries the property; each must FAIL):       *)
(*   Conns = 2          a second pooled connection                         *)
(*   EarlyClose = TRUE  rows closed before the cache insert                *)
(*   FlushFirst = TRUE  InvalidateCache before the Exec                    *)
(*   Lapse = TRUE, ExpiryAware = FALSE                                     *)
(*                      no mutator: expires_at passes and the cached entry *)
(*                      outlives it -- the code before fix b7d5157         *)
(* Lapse = TRUE with ExpiryAware = TRUE is the code as it is now (the      *)
(* entry's deadline is capped at expires_at) and must hold.                *)
(***************************************************************************)
EXTENDS Naturals, Sequences, FiniteSets, TLC, Json

CONSTANTS NV,          \* number of concurrent verifiers (1 or 2)
          Conns,       \* size of the connection pool (1 as written)
          EarlyClose,  \* TRUE: verifier releases its connection before the cache insert
          FlushFirst,  \* TRUE: mutator invalidates the cache before its Exec
          Lapse,       \* TRUE: the "mutator" is the clock passing expires_at: no Exec, no flush
          ExpiryAware, \* TRUE: a cache entry never outlives the token's expires_at (as written since b7d5157)
          Emit         \* TRUE: print one TRACE line per complete schedule

Verifiers == IF NV = 1 THEN {"V1"} ELSE {"V1", "V2"}
Threads   == Verifiers \cup {"M"}

VARIABLES row,     \* TRUE iff the old token value is valid in the database
          cache,   \* TRUE iff the old token value has a cache entry
          holders, \* threads holding a pooled connection
          waitq,   \* threads queued for a connection (FIFO)
          pc,      \* thread -> location
          seen,    \* verifier -> "none" | "valid" | "invalid" (what its query returned)
          res,     \* verifier -> "none" | "ok" | "fail"
          mret,    \* the mutator has returned
          late,    \* verifier -> TRUE iff its first step happened after mret (ghost)
          lifo,    \* which queued request a released connection is handed to
          sched    \* history of kicks (generation only; hidden by the VIEW)

vars == <<row, cache, holders, waitq, pc, seen, res, mret, late, lifo, sched>>
view == <<row, cache, holders, waitq, pc, seen, res, mret, late, lifo>>

Init == /\ row = TRUE /\ cache \in BOOLEAN      \* the entry may or may not be cached beforehand
        /\ holders = {} /\ waitq = <<>>
        /\ pc = [t \in Threads |-> "idle"]
        /\ seen = [v \in Verifiers |-> "none"]
        /\ res = [v \in Verifiers |-> "none"]
        /\ mret = FALSE
        /\ lifo \in BOOLEAN
        /\ late = [v \in Verifiers |-> FALSE]
        /\ sched = <<[th |-> "init", to |-> IF cache THEN "cached" ELSE "cold", served |-> <<>>]>>

-----------------------------------------------------------------------------
\* Serve the wait queue after a release: the head acquires the connection and completes the
\* step it was blocked in.  M's Exec is acquire-write-release, so the queue keeps draining.
RECURSIVE Serve(_, _, _, _, _, _)
Serve(h, q, r, p, s, log) ==
    IF q = <<>> \/ Cardinality(h) >= Conns THEN [h |-> h, q |-> q, r |-> r, p |-> p, s |-> s, log |-> log]
    ELSE LET t    == IF lifo THEN q[Len(q)] ELSE Head(q)
             rest == IF lifo THEN SubSeq(q, 1, Len(q) - 1) ELSE Tail(q) IN
         IF t = "M"
           THEN Serve(h, rest, FALSE, [p EXCEPT !["M"] = "A"], s, Append(log, [th |-> "M", to |-> "A"]))
           ELSE Serve(h \cup {t}, rest, r, [p EXCEPT ![t] = "G2"],
                      [s EXCEPT ![t] = IF r THEN "valid" ELSE "invalid"], Append(log, [th |-> t, to |-> "G2"]))

Record(t, to, served) == /\ sched' = Append(sched, [th |-> t, to |-> to, served |-> served])
                         /\ UNCHANGED lifo

\* a verifier returns: release the connection (if still held) and serve the queue
Finish(v, result, newcache) ==
    LET sv == Serve(holders \ {v}, waitq, row, [pc EXCEPT ![v] = "done"], seen, <<>>) IN
    /\ res' = [res EXCEPT ![v] = result]
    /\ cache' = newcache
    /\ holders' = sv.h /\ waitq' = sv.q /\ row' = sv.r /\ pc' = sv.p /\ seen' = sv.s
    /\ Record(v, "done", sv.log)
    /\ UNCHANGED <<mret, late>>

\* V: cache lookup (start of VerifyToken up to the gate before am.db.Query)
VLookup(v) ==
    /\ pc[v] = "idle"
    /\ late' = [late EXCEPT ![v] = mret]
    /\ IF cache
         THEN /\ pc' = [pc EXCEPT ![v] = "done"] /\ res' = [res EXCEPT ![v] = "ok"]
              /\ Record(v, "done", <<>>)
         ELSE /\ pc' = [pc EXCEPT ![v] = "G1"] /\ UNCHANGED res
              /\ Record(v, "G1", <<>>)
    /\ UNCHANGED <<row, cache, holders, waitq, seen, mret>>

\* V: am.db.Query -- needs a connection, keeps it (rows stay open)
VQuery(v) ==
    /\ pc[v] = "G1"
    /\ IF Cardinality(holders) < Conns
         THEN /\ holders' = holders \cup {v}
              /\ seen' = [seen EXCEPT ![v] = IF row THEN "valid" ELSE "invalid"]
              /\ pc' = [pc EXCEPT ![v] = "G2"]
              /\ Record(v, "G2", <<>>)
              /\ UNCHANGED waitq
         ELSE /\ waitq' = Append(waitq, v)
              /\ pc' = [pc EXCEPT ![v] = "wait"]
              /\ Record(v, "wait", <<>>)
              /\ UNCHANGED <<holders, seen>>
    /\ UNCHANGED <<row, cache, res, mret, late>>

\* V: rows.Next / hash check.  No matching row -> return nil (connection released by the defer).
VScan(v) ==
    /\ pc[v] = "G2"
    /\ IF seen[v] = "valid"
         THEN IF EarlyClose
                THEN LET sv == Serve(holders \ {v}, waitq, row, [pc EXCEPT ![v] = "G3"], seen, <<>>) IN
                     /\ holders' = sv.h /\ waitq' = sv.q /\ row' = sv.r /\ pc' = sv.p /\ seen' = sv.s
                     /\ Record(v, "G3", sv.log)
                     /\ UNCHANGED <<cache, res, mret, late>>
                ELSE /\ pc' = [pc EXCEPT ![v] = "G3"] /\ Record(v, "G3", <<>>)
                     /\ UNCHANGED <<row, cache, holders, waitq, seen, res, mret, late>>
         ELSE Finish(v, "fail", cache)

\* V: cache insert and return
VInsert(v) ==
    /\ pc[v] = "G3"
    \* an entry inserted after expires_at has passed is born expired (deadline = expires_at)
    /\ Finish(v, "ok", ~(Lapse /\ ExpiryAware /\ ~row))

\* M: everything before the Exec (nothing as written; the flush when FlushFirst)
MStart ==
    /\ pc["M"] = "idle"
    /\ pc' = [pc EXCEPT !["M"] = "B"]
    /\ cache' = IF FlushFirst THEN FALSE ELSE cache
    /\ Record("M", "B", <<>>)
    /\ UNCHANGED <<row, holders, waitq, seen, res, mret, late>>

\* M: am.db.Exec -- acquire, write, release
MExec ==
    /\ pc["M"] = "B"
    /\ IF Lapse \/ Cardinality(holders) < Conns
         THEN /\ row' = FALSE /\ pc' = [pc EXCEPT !["M"] = "A"]
              /\ cache' = IF Lapse /\ ExpiryAware THEN FALSE ELSE cache   \* the entry's deadline is expires_at
              /\ Record("M", "A", <<>>)
              /\ UNCHANGED waitq
         ELSE /\ waitq' = Append(waitq, "M") /\ pc' = [pc EXCEPT !["M"] = "wait"]
              /\ Record("M", "wait", <<>>)
              /\ UNCHANGED <<row, cache>>
    /\ UNCHANGED <<holders, seen, res, mret, late>>

\* M: InvalidateCache and return
MFlush ==
    /\ pc["M"] = "A"
    /\ cache' = IF FlushFirst \/ Lapse THEN cache ELSE FALSE
    /\ mret' = TRUE
    /\ pc' = [pc EXCEPT !["M"] = "done"]
    /\ Record("M", "done", <<>>)
    /\ UNCHANGED <<row, holders, waitq, seen, res, late>>

Done == (\A t \in Threads : pc[t] = "done") /\ UNCHANGED vars

Next == \/ \E v \in Verifiers : VLookup(v) \/ VQuery(v) \/ VScan(v) \/ VInsert(v)
        \/ MStart \/ MExec \/ MFlush
        \/ Done
Spec == Init /\ [][Next]_vars

-----------------------------------------------------------------------------
AllDone == \A t \in Threads : pc[t] = "done"

\* The property: once the mutator has returned, no later authentication with the old value
\* succeeds.  "Later" = started after the return: the ghost `late`, and the fresh
\* verification the driver issues when every thread has finished (it succeeds iff the value
\* is cached or still valid in the database).
NoLateSuccess  == \A v \in Verifiers : late[v] => res[v] # "ok"
FinalRejected  == mret => (~row /\ (AllDone => ~cache))
\* stronger inductive form: after the return no stale entry is cached and none is pending
NoStalePending == mret => (~cache /\ \A v \in Verifiers : pc[v] = "G3" => FALSE)
Safety == NoLateSuccess /\ FinalRejected

\* no thread is left in the queue when everybody else has finished
OneWaiter == Len(waitq) <= 1      \* CONSTRAINT of the generation configs

NoStarvation == (\A t \in Threads : pc[t] \in {"done", "wait"}) => AllDone

EmitInv == (Emit /\ AllDone) =>
              PrintT(<<"TRACE", ToJson([sched |-> sched, final |-> IF cache \/ row THEN "ok" ELSE "fail"])>>)
=============================================================================

SPECIFICATION Spec
CONSTANTS
  NV = 2
  Conns = 1
  EarlyClose = FALSE
  FlushFirst = FALSE
  Lapse = FALSE
  ExpiryAware = TRUE
  Emit = TRUE
INVARIANTS Safety EmitInv

CONSTRAINT OneWaiter
CHECK_DEADLOCK FALSE

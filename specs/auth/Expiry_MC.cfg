SPECIFICATION Spec
CONSTANTS
  TTL = 4
  Horizon = 12
  Expiries = {0, 1, 2, 3, 5, 6, 9}
  MaxVerify = 3
  Cap = TRUE
  Slide = FALSE
  Emit = FALSE
INVARIANTS NeverAcceptedExpired
VIEW view
CHECK_DEADLOCK FALSE

SPECIFICATION Spec
CONSTANTS
  NV = 2
  Conns = 2
  EarlyClose = FALSE
  FlushFirst = FALSE
  Lapse = FALSE
  Emit = FALSE
INVARIANTS Safety
VIEW view
CHECK_DEADLOCK FALSE

SPECIFICATION Spec
CONSTANTS
  NV = 2
  Conns = 2
  EarlyClose = FALSE
  FlushFirst = FALSE
  Lapse = FALSE
  ExpiryAware = TRUE
  Emit = FALSE
INVARIANTS Safety
VIEW view
CHECK_DEADLOCK FALSE

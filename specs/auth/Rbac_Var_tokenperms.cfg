SPECIFICATION Spec
CONSTANTS
  MaxOps = 2
  Orgs = {"o1"}
  SeedNames = {"A","B","C"}
  Unflushed = {"CreateOrg","UpdateOrg","CreateTeam","DeleteToken","SetTokenPerms"}
  AuthUnflushed = {}
  ExpirePos = {0, 1, 2}
  ExpireBefore = {"ReseedOrg","CreateOrg","UpdateOrg","DeleteOrg","CreateTeam","UpdateTeam","DeleteTeam","CreateRole","UpdateRole","DeleteRole","CreateMP","DeleteMP","AddMember","RemoveMember","SetTokenPerms","RevokeToken","DeleteToken"}
  TeamScan = FALSE
  Emit = FALSE
INVARIANTS CacheCoherent
VIEW view
CHECK_DEADLOCK FALSE

-------------------------------- MODULE Auth --------------------------------
(***************************************************************************)
(* C20 -- permission decisions always reflect the current RBAC state.      *)
(*                                                                         *)
(* RBAC-history fragment of the Auth family (the token-verification        *)
(* interleavings of C21 are in AuthVerify.tla).  Implementation-shaped     *)
(* model of internal/auth/{rbac_manager,cluster_rbac_apply,auth}.go:       *)
(*                                                                         *)
(*  tables  rbac_organizations, rbac_teams, rbac_roles,                    *)
(*          rbac_measurement_permissions, rbac_token_memberships,          *)
(*          api_tokens, with the ON DELETE CASCADE foreign keys            *)
(*  caches  ac      AuthManager.cache      token value -> TokenInfo        *)
(*          tc      RBACManager.tokenCache token -> teams/roles/meas perms *)
(*          pcache  RBACManager.permCache  (token,db,meas,perm) -> result  *)
(*  policy  checkPermissionUncached / checkRBACPermissionCached /          *)
(*          checkOSSPermission as written: a token without memberships is  *)
(*          judged on its own permissions; otherwise any enabled team with *)
(*          a role whose database pattern matches grants through the       *)
(*          matching measurement permissions (when the role has some and a *)
(*          measurement is named) or through the role's permissions, with  *)
(*          the token's own permissions as fallback.  The organization's   *)
(*          enabled flag is not consulted by the code and not by the model.*)
(*                                                                         *)
(* One action per mutator (Mutate) and one for the round of checks the     *)
(* driver issues after every mutator (CheckAll: VerifyToken +              *)
(* CheckPermission for the whole request matrix, through the caches as the *)
(* code goes through them).  Which mutators flush the RBAC caches is the   *)
(* constant Unflushed (the set of operation kinds that do NOT flush):      *)
(*   MC_*  : the flush set of the tree as it is now (since fixes 5080e61    *)
(*           and 53344f2) -- CacheCoherent must hold                       *)
(*   Var_* : negative controls with one flush removed (tokenperms and      *)
(*           deleteorg are the tree before those fixes) -- must fail.      *)
(* The repaired code keys permCache by the token's own permissions; for    *)
(* the answers this is the same as flushing that token's entries when its  *)
(* permissions change, which is how SetTokenPerms is modelled.             *)
(***************************************************************************)
EXTENDS Naturals, Sequences, FiniteSets, TLC, Json

CONSTANTS MaxOps,      \* length of the operation histories
          Orgs,        \* e.g. {"o1"}
          SeedNames,   \* subset of {"A","B","C"}: initial configurations
          Unflushed,   \* operation kinds that leave the RBAC caches alone
          AuthUnflushed, \* token operation kinds that leave AuthManager.cache alone (none as written)
          ExpirePos,   \* history positions (Len(hist)) at which a token-data entry may expire and be swept
          ExpireBefore,\* mutator kinds that may directly follow such an expiry
          TeamScan,    \* TRUE (negative control): team mutators flush only the tokens whose cached
                       \* token data references the team, instead of everything
          Emit         \* TRUE: print one TRACE line per history of length MaxOps

Tokens == {"t1", "t2"}
Teams  == {"g1", "g2"}
Roles  == {"r1", "r2"}
MPs    == {"m1"}
DbPats   == {"*", "prod_*", "db1"}
MeasPats == {"*", "cpu"}
PermSets == {"read", "write", "read,write"}

DbSeq   == <<"db1", "prod_eu", "other">>
MeasSeq == <<"", "cpu", "mem">>
PermSeq == <<"read", "write">>
NReq    == 18
ReqOf(i) == [db   |-> DbSeq[((i - 1) \div 6) + 1],
             meas |-> MeasSeq[(((i - 1) \div 2) % 3) + 1],
             perm |-> PermSeq[((i - 1) % 2) + 1]]

Has(ps, p) == ps = p \/ ps = "read,write"
MatchDb(pat, v)   == pat = "*" \/ (pat = "prod_*" /\ v = "prod_eu") \/ pat = v      \* matchPattern on this universe
MatchMeas(pat, v) == pat = "*" \/ pat = v

NoTeam == [st |-> "absent", org |-> ""]
NoRole == [team |-> "", pat |-> "", perms |-> ""]
NoMP   == [role |-> "", pat |-> "", perms |-> ""]

VARIABLES org,    \* Orgs -> "absent" | "on" | "off"
          team,   \* Teams -> [st, org]
          role,   \* Roles -> [team, pat, perms]   (team = "" : absent)
          mp,     \* MPs -> [role, pat, perms]     (role = "" : absent)
          mem,    \* set of <<token, team>>
          tok,    \* Tokens -> [st : "on" | "off" | "gone", perms]
          ac,     \* Tokens -> "none" | cached permission string (AuthManager.cache)
          tc,     \* Tokens -> [valid, team, role, mp, mine]     (RBACManager.tokenCache)
          pcache, \* Tokens -> [valid, d]                        (RBACManager.permCache, whole matrix)
          obs,    \* Tokens -> [authn, d] : what the last round of checks answered
          phase,  \* "check" (a round of checks is due) | "mutate"
          pending,\* token whose token-data entry was swept just now ("" if none): the next mutator
                  \* runs before any further check (tokenCache and permCache have independent
                  \* lifetimes: data loaded early is swept while decisions cached later live on)
          seed, hist, expect   \* generation only (hidden by the VIEW)

tables == <<org, team, role, mp, mem, tok>>
caches == <<ac, tc, pcache>>
vars   == <<org, team, role, mp, mem, tok, ac, tc, pcache, obs, phase, pending, seed, hist, expect>>
view   == <<org, team, role, mp, mem, tok, ac, tc, pcache, obs, phase, pending, Len(hist)>>

-----------------------------------------------------------------------------
\* the policy, evaluated on a snapshot S = [team, role, mp, mine] and the token's own permissions
RoleGrants(S, r, q) ==
    /\ MatchDb(S.role[r].pat, q.db)
    /\ LET ms == {m \in MPs : S.mp[m].role = r} IN
       IF q.meas # "" /\ ms # {}
         THEN \E m \in ms : MatchMeas(S.mp[m].pat, q.meas) /\ Has(S.mp[m].perms, q.perm)
         ELSE Has(S.role[r].perms, q.perm)
RbacGrants(S, q) ==
    \E g \in S.mine : /\ S.team[g].st = "on"
                      /\ \E r \in Roles : S.role[r].team = g /\ RoleGrants(S, r, q)
\* checkRBACPermissionCached denies a disabled token; the token fallback (checkOSSPermission) does not look
PolicyOn(S, perms, q) == Has(perms, q.perm) \/ RbacGrants(S, q)
PolicyOff(S, perms, q) == Has(perms, q.perm)

\* loadTokenRBACData on the current tables
Load(t) == [valid |-> TRUE, team |-> team, role |-> role, mp |-> mp,
            mine |-> {g \in Teams : <<t, g>> \in mem}]
NoSnap  == [valid |-> FALSE, team |-> [g \in Teams |-> NoTeam], role |-> [r \in Roles |-> NoRole],
            mp |-> [m \in MPs |-> NoMP], mine |-> {}]
NoDec   == [valid |-> FALSE, d |-> [i \in 1..NReq |-> FALSE]]

\* what the policy says on the stored state (cache-free)
\* A revoked (disabled) token no longer authenticates, but its stored TokenInfo (enabled = false)
\* can still be handed to CheckPermission (GetTokenByID): `stored` says such checks are made.
Truth(t) == [authn |-> tok[t].st = "on", stored |-> tok[t].st = "off",
             d |-> CASE tok[t].st = "on"  -> [i \in 1..NReq |-> PolicyOn(Load(t), tok[t].perms, ReqOf(i))]
                     [] tok[t].st = "off" -> [i \in 1..NReq |-> PolicyOff(Load(t), tok[t].perms, ReqOf(i))]
                     [] OTHER -> [i \in 1..NReq |-> FALSE]]

-----------------------------------------------------------------------------
\* initial configurations (built by the driver with the real Create* calls)
SeedState(s) ==
    CASE s = "A" -> [org  |-> [o \in Orgs |-> IF o = "o1" THEN "on" ELSE "absent"],
                     team |-> [g \in Teams |-> [st |-> "on", org |-> "o1"]],
                     role |-> [r \in Roles |-> IF r = "r1" THEN [team |-> "g1", pat |-> "*", perms |-> "write"]
                                                           ELSE [team |-> "g2", pat |-> "prod_*", perms |-> "read,write"]],
                     mp   |-> [m \in MPs |-> [role |-> "r2", pat |-> "cpu", perms |-> "read"]],
                     mem  |-> {<<"t1", "g1">>, <<"t2", "g2">>},
                     tok  |-> [t \in Tokens |-> [st |-> "on", perms |-> "read"]]]
      [] s = "B" -> [org  |-> [o \in Orgs |-> IF o = "o1" THEN "on" ELSE "absent"],
                     team |-> [g \in Teams |-> IF g = "g1" THEN [st |-> "on", org |-> "o1"] ELSE NoTeam],
                     role |-> [r \in Roles |-> IF r = "r1" THEN [team |-> "g1", pat |-> "db1", perms |-> "read"] ELSE NoRole],
                     mp   |-> [m \in MPs |-> NoMP],
                     mem  |-> {<<"t2", "g1">>},
                     tok  |-> [t \in Tokens |-> [st |-> "on", perms |-> IF t = "t1" THEN "read,write" ELSE "write"]]]
      [] s = "C" -> [org  |-> [o \in Orgs |-> "absent"],
                     team |-> [g \in Teams |-> NoTeam],
                     role |-> [r \in Roles |-> NoRole],
                     mp   |-> [m \in MPs |-> NoMP],
                     mem  |-> {},
                     tok  |-> [t \in Tokens |-> [st |-> "on", perms |-> IF t = "t1" THEN "read" ELSE "write"]]]

Init == /\ seed \in SeedNames
        /\ org = SeedState(seed).org /\ team = SeedState(seed).team /\ role = SeedState(seed).role
        /\ mp = SeedState(seed).mp /\ mem = SeedState(seed).mem /\ tok = SeedState(seed).tok
        /\ ac = [t \in Tokens |-> "none"]
        /\ tc = [t \in Tokens |-> NoSnap]
        /\ pcache = [t \in Tokens |-> NoDec]
        /\ obs = [t \in Tokens |-> [authn |-> FALSE, stored |-> FALSE, d |-> [i \in 1..NReq |-> FALSE]]]
        /\ phase = "check" /\ pending = ""
        /\ hist = <<>> /\ expect = <<>>

-----------------------------------------------------------------------------
\* cascades
TeamsGone(T)  == [g \in Teams |-> IF g \in T THEN NoTeam ELSE team[g]]
RolesOfT(T)   == {r \in Roles : role[r].team \in T}
RolesGone(R)  == [r \in Roles |-> IF r \in R THEN NoRole ELSE role[r]]
MPsGone(R, M) == [m \in MPs |-> IF mp[m].role \in R \/ m \in M THEN NoMP ELSE mp[m]]

DropTeams(T) == /\ team' = TeamsGone(T)
                /\ role' = RolesGone(RolesOfT(T))
                /\ mp'   = MPsGone(RolesOfT(T), {})
                /\ mem'  = {e \in mem : e[2] \notin T}

Op(k, a, b, c, d) == [k |-> k, a |-> a, b |-> b, c |-> c, d |-> d, x |-> pending]

\* the token-data entry of t (loaded earlier than the decisions cached from it) expires and is
\* removed by cleanupExpiredCache; the decisions stay.  The next mutator follows immediately.
ExpireTokenData(t) ==
    /\ phase = "mutate" /\ pending = "" /\ Len(hist) < MaxOps /\ Len(hist) \in ExpirePos
    /\ tok[t].st = "on" /\ tc[t].valid /\ pcache[t].valid
    /\ tc' = [tc EXCEPT ![t] = NoSnap]
    /\ pending' = t
    /\ UNCHANGED <<org, team, role, mp, mem, tok, ac, pcache, obs, phase, seed, hist, expect>>

\* RBACManager.InvalidateAllCache / InvalidateTokenCache as called (or not) by the mutator
FlushAll(k)      == IF k \in Unflushed THEN UNCHANGED <<tc, pcache>>
                    ELSE /\ tc' = [t \in Tokens |-> NoSnap] /\ pcache' = [t \in Tokens |-> NoDec]
FlushToken(k, t) == IF k \in Unflushed THEN UNCHANGED <<tc, pcache>>
                    ELSE /\ tc' = [tc EXCEPT ![t] = NoSnap] /\ pcache' = [pcache EXCEPT ![t] = NoDec]
\* AuthManager.InvalidateCache (every token mutator, both modes)
FlushAuth(k)     == IF k \in AuthUnflushed THEN UNCHANGED ac ELSE ac' = [t \in Tokens |-> "none"]

\* what team mutators flush: everything as written; only tokens whose cached data names the team
\* in the negative control
FlushTeam(k, g) == IF ~TeamScan THEN FlushAll(k)
                   ELSE /\ tc' = [t \in Tokens |-> IF tc[t].valid /\ g \in tc[t].mine THEN NoSnap ELSE tc[t]]
                        /\ pcache' = [t \in Tokens |-> IF tc[t].valid /\ g \in tc[t].mine THEN NoDec ELSE pcache[t]]

Log(o) == /\ pending = "" \/ o.k \in ExpireBefore
          /\ hist' = (IF Emit THEN Append(hist, o) ELSE Append(hist, o.k)) /\ phase' = "check" /\ pending' = ""
          /\ UNCHANGED <<obs, seed, expect>>

CreateOrg(o) == /\ org[o] = "absent" /\ org' = [org EXCEPT ![o] = "on"]
                /\ UNCHANGED <<team, role, mp, mem, tok, ac>> /\ FlushAll("CreateOrg") /\ Log(Op("CreateOrg", o, "", "", ""))
UpdateOrg(o, en) == /\ org[o] # "absent" /\ org' = [org EXCEPT ![o] = en]
                    /\ UNCHANGED <<team, role, mp, mem, tok, ac>> /\ FlushAll("UpdateOrg") /\ Log(Op("UpdateOrg", o, en, "", ""))
DeleteOrg(o) == /\ org[o] # "absent" /\ org' = [org EXCEPT ![o] = "absent"]
                /\ DropTeams({g \in Teams : team[g].st # "absent" /\ team[g].org = o})
                /\ UNCHANGED <<tok, ac>> /\ FlushAll("DeleteOrg") /\ Log(Op("DeleteOrg", o, "", "", ""))
\* upgrade seed: a CreateOrganization command for the NAME of an organization that exists locally
\* (created in direct mode) is applied under a different, FSM-stamped id: ApplyCreateOrganization
\* re-aligns the row (DELETE by name + INSERT), which cascade-deletes the teams, roles, measurement
\* permissions and memberships of the local organization.  Last mutator of a history.
ReseedOrg(o) == /\ org[o] # "absent" /\ Len(hist) = MaxOps - 1 /\ org' = [org EXCEPT ![o] = "on"]
                /\ DropTeams({g \in Teams : team[g].st # "absent" /\ team[g].org = o})
                /\ UNCHANGED <<tok, ac>> /\ FlushAll("ReseedOrg") /\ Log(Op("ReseedOrg", o, "", "", ""))
CreateTeam(g, o) == /\ team[g].st = "absent" /\ org[o] # "absent"
                    /\ team' = [team EXCEPT ![g] = [st |-> "on", org |-> o]]
                    /\ UNCHANGED <<org, role, mp, mem, tok, ac>> /\ FlushAll("CreateTeam") /\ Log(Op("CreateTeam", g, o, "", ""))
UpdateTeam(g, en) == /\ team[g].st # "absent" /\ team' = [team EXCEPT ![g].st = en]
                     /\ UNCHANGED <<org, role, mp, mem, tok, ac>> /\ FlushTeam("UpdateTeam", g) /\ Log(Op("UpdateTeam", g, en, "", ""))
DeleteTeam(g) == /\ team[g].st # "absent" /\ DropTeams({g})
                 /\ UNCHANGED <<org, tok, ac>> /\ FlushTeam("DeleteTeam", g) /\ Log(Op("DeleteTeam", g, "", "", ""))
CreateRole(r, g, pat, ps) == /\ role[r].team = "" /\ team[g].st # "absent"
                             /\ role' = [role EXCEPT ![r] = [team |-> g, pat |-> pat, perms |-> ps]]
                             /\ UNCHANGED <<org, team, mp, mem, tok, ac>> /\ FlushAll("CreateRole")
                             /\ Log(Op("CreateRole", r, g, pat, ps))
UpdateRolePat(r, pat) == /\ role[r].team # "" /\ role[r].pat # pat /\ role' = [role EXCEPT ![r].pat = pat]
                         /\ UNCHANGED <<org, team, mp, mem, tok, ac>> /\ FlushAll("UpdateRole")
                         /\ Log(Op("UpdateRole", r, "pat", pat, ""))
UpdateRolePerms(r, ps) == /\ role[r].team # "" /\ role[r].perms # ps /\ role' = [role EXCEPT ![r].perms = ps]
                          /\ UNCHANGED <<org, team, mp, mem, tok, ac>> /\ FlushAll("UpdateRole")
                          /\ Log(Op("UpdateRole", r, "perms", ps, ""))
DeleteRole(r) == /\ role[r].team # "" /\ role' = RolesGone({r}) /\ mp' = MPsGone({r}, {})
                 /\ UNCHANGED <<org, team, mem, tok, ac>> /\ FlushAll("DeleteRole") /\ Log(Op("DeleteRole", r, "", "", ""))
CreateMP(m, r, pat, ps) == /\ mp[m].role = "" /\ role[r].team # ""
                           /\ mp' = [mp EXCEPT ![m] = [role |-> r, pat |-> pat, perms |-> ps]]
                           /\ UNCHANGED <<org, team, role, mem, tok, ac>> /\ FlushAll("CreateMP")
                           /\ Log(Op("CreateMP", m, r, pat, ps))
DeleteMP(m) == /\ mp[m].role # "" /\ mp' = MPsGone({}, {m})
               /\ UNCHANGED <<org, team, role, mem, tok, ac>> /\ FlushAll("DeleteMP") /\ Log(Op("DeleteMP", m, "", "", ""))
AddMember(t, g) == /\ tok[t].st # "gone" /\ team[g].st # "absent" /\ <<t, g>> \notin mem
                   /\ mem' = mem \cup {<<t, g>>}
                   /\ UNCHANGED <<org, team, role, mp, tok, ac>> /\ FlushToken("AddMember", t) /\ Log(Op("AddMember", t, g, "", ""))
RemoveMember(t, g) == /\ <<t, g>> \in mem /\ mem' = mem \ {<<t, g>>}
                      /\ UNCHANGED <<org, team, role, mp, tok, ac>> /\ FlushToken("RemoveMember", t)
                      /\ Log(Op("RemoveMember", t, g, "", ""))
SetTokenPerms(t, ps) == /\ tok[t].st # "gone" /\ tok[t].perms # ps /\ tok' = [tok EXCEPT ![t].perms = ps]
                        /\ UNCHANGED <<org, team, role, mp, mem>> /\ FlushAuth("SetTokenPerms") /\ FlushToken("SetTokenPerms", t)
                        /\ Log(Op("SetTokenPerms", t, ps, "", ""))
RevokeToken(t) == /\ tok[t].st = "on" /\ tok' = [tok EXCEPT ![t].st = "off"]
                  /\ UNCHANGED <<org, team, role, mp, mem>> /\ FlushAuth("RevokeToken") /\ FlushToken("RevokeToken", t)
                  /\ Log(Op("RevokeToken", t, "", "", ""))
DeleteToken(t) == /\ tok[t].st # "gone" /\ tok' = [tok EXCEPT ![t].st = "gone"]
                  /\ mem' = {e \in mem : e[1] # t}
                  /\ UNCHANGED <<org, team, role, mp>> /\ FlushAuth("DeleteToken") /\ FlushToken("DeleteToken", t)
                  /\ Log(Op("DeleteToken", t, "", "", ""))

Mutate ==
    /\ phase = "mutate" /\ Len(hist) < MaxOps
    /\ \/ \E o \in Orgs : CreateOrg(o) \/ DeleteOrg(o) \/ ReseedOrg(o) \/ \E en \in {"on", "off"} : UpdateOrg(o, en)
       \/ \E g \in Teams : \/ \E o \in Orgs : CreateTeam(g, o)
                           \/ \E en \in {"on", "off"} : UpdateTeam(g, en)
                           \/ DeleteTeam(g)
       \/ \E r \in Roles : \/ \E g \in Teams, pat \in DbPats, ps \in PermSets : CreateRole(r, g, pat, ps)
                           \/ \E pat \in DbPats : UpdateRolePat(r, pat)
                           \/ \E ps \in PermSets : UpdateRolePerms(r, ps)
                           \/ DeleteRole(r)
       \/ \E m \in MPs : \/ \E r \in Roles, pat \in MeasPats, ps \in PermSets : CreateMP(m, r, pat, ps)
                         \/ DeleteMP(m)
       \/ \E t \in Tokens : \/ \E g \in Teams : AddMember(t, g) \/ RemoveMember(t, g)
                            \/ \E ps \in PermSets : SetTokenPerms(t, ps)
                            \/ RevokeToken(t) \/ DeleteToken(t)

\* the round of checks issued by the driver: VerifyToken, then CheckPermission for the whole
\* matrix (miss, hit, batch give the same answer in the model: the first call fills the caches)
Answer(t) ==
    LET authn  == ac[t] # "none" \/ tok[t].st = "on"
        stored == ~authn /\ tok[t].st = "off"           \* checked with the stored TokenInfo (enabled = false)
        perms  == IF ac[t] # "none" THEN ac[t] ELSE tok[t].perms
        snap   == IF tc[t].valid THEN tc[t] ELSE Load(t)
        d      == IF pcache[t].valid THEN pcache[t].d
                  ELSE IF authn THEN [i \in 1..NReq |-> PolicyOn(snap, perms, ReqOf(i))]
                                ELSE [i \in 1..NReq |-> PolicyOff(snap, perms, ReqOf(i))]
    IN [authn |-> authn, stored |-> stored, asked |-> authn \/ stored, perms |-> perms, snap |-> snap, d |-> d]

CheckAll ==
    /\ phase = "check"
    /\ phase' = "mutate"
    /\ UNCHANGED <<org, team, role, mp, mem, tok, pending, seed, hist>>
    /\ LET ans == [t \in Tokens |-> Answer(t)] IN
       /\ obs'    = [t \in Tokens |-> [authn |-> ans[t].authn, stored |-> ans[t].stored,
                                       d |-> IF ans[t].asked THEN ans[t].d ELSE [i \in 1..NReq |-> FALSE]]]
       /\ ac'     = [t \in Tokens |-> IF ans[t].authn THEN ans[t].perms ELSE "none"]
       /\ tc'     = [t \in Tokens |-> IF ans[t].asked THEN ans[t].snap ELSE tc[t]]
       /\ pcache' = [t \in Tokens |-> IF ans[t].asked THEN [valid |-> TRUE, d |-> ans[t].d] ELSE pcache[t]]
       /\ expect' = IF Emit THEN Append(expect, [t \in Tokens |-> Truth(t)]) ELSE expect

Stop == phase = "mutate" /\ Len(hist) = MaxOps /\ UNCHANGED vars

Next == Mutate \/ (\E t \in Tokens : ExpireTokenData(t)) \/ CheckAll \/ Stop
Spec == Init /\ [][Next]_vars

-----------------------------------------------------------------------------
\* C20: every answer of a round of checks is the policy's answer on the stored state
CacheCoherent == phase = "mutate" => \A t \in Tokens : obs[t] = Truth(t)

\* referential integrity kept by the cascades (sanity of the model itself)
Integrity ==
    /\ \A g \in Teams : team[g].st # "absent" => org[team[g].org] # "absent"
    /\ \A r \in Roles : role[r].team # "" => team[role[r].team].st # "absent"
    /\ \A m \in MPs : mp[m].role # "" => role[mp[m].role].team # ""
    /\ \A e \in mem : tok[e[1]].st # "gone" /\ team[e[2]].st # "absent"

EmitInv == (Emit /\ phase = "mutate" /\ Len(hist) = MaxOps) =>
    PrintT(<<"TRACE", ToJson([seed |-> seed, init |-> SeedState(seed), ops |-> hist, expect |-> expect])>>)
=============================================================================

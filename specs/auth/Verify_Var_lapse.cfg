SPECIFICATION Spec
CONSTANTS
  NV = 1
  Conns = 1
  EarlyClose = FALSE
  FlushFirst = FALSE
  Lapse = TRUE
  ExpiryAware = FALSE
  Emit = FALSE
INVARIANTS Safety
VIEW view
CHECK_DEADLOCK FALSE

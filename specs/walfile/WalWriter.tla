----------------------------- MODULE WalWriter -----------------------------
(***************************************************************************)
(* C06, writer side: what internal/wal.Writer puts on disk, as written.    *)
(*   Append*   : frame the entry (copying the caller's bytes) and enqueue  *)
(*               it on the bounded channel; a full channel drops it        *)
(*               (ErrWALDropped, reported to the caller).                  *)
(*   writerLoop: dequeue one entry, writeEntry under the mutex:            *)
(*               write ok        -> entry is the next frame of the file;   *)
(*                                  rotate when the size threshold is hit  *)
(*               write fails     -> rotate, then RE-WRITE THIS ENTRY first *)
(*                                  in the new file (RetryInline); the     *)
(*                                  seeded variant re-enqueues it at the   *)
(*                                  tail of the channel instead.           *)
(*   Restart   : Close drains the channel, NewWriter opens a fresh file.   *)
(* Property: the frames of all files, read in file order, are exactly the  *)
(* accepted (not dropped) entries in append order -- which is what makes   *)
(* "recovery yields a subsequence ... in append order" (WalFile.tla) mean  *)
(* something for the reader.  The Go driver realises the three boundary    *)
(* causes (size, restart, write failure) on the real writer.               *)
(***************************************************************************)
EXTENDS Naturals, Sequences, FiniteSets

CONSTANTS N,            \* entries appended: ids 1..N in this order
          QueueCap,     \* channel capacity
          RotateEvery,  \* frames per file before a size rotation
          MaxFails,     \* write failures injected
          RetryInline   \* TRUE = as written; FALSE = re-enqueue at the tail (negative control)

VARIABLES next,     \* next id to append
          queue,    \* Seq(id)
          files,    \* Seq(Seq(id)); the last one is the current file
          dropped,  \* set of ids rejected with ErrWALDropped
          fails,    \* failures injected so far
          broken    \* current file handle is bad: the next write fails

vars == <<next, queue, files, dropped, fails, broken>>

Init == next = 1 /\ queue = <<>> /\ files = << <<>> >> /\ dropped = {} /\ fails = 0 /\ broken = FALSE

AppendEntry ==
    /\ next <= N
    /\ next' = next + 1
    /\ IF Len(queue) < QueueCap
         THEN queue' = Append(queue, next) /\ UNCHANGED dropped
         ELSE dropped' = dropped \cup {next} /\ UNCHANGED queue
    /\ UNCHANGED <<files, fails, broken>>

Cur == files[Len(files)]
WithCur(f) == [files EXCEPT ![Len(files)] = f]

WriteOk ==
    /\ queue # <<>> /\ ~broken
    /\ LET e == Head(queue)
           f == Append(Cur, e)
       IN  files' = IF Len(f) >= RotateEvery THEN Append(WithCur(f), <<>>) ELSE WithCur(f)
    /\ queue' = Tail(queue)
    /\ UNCHANGED <<next, dropped, fails, broken>>

Break == /\ ~broken /\ fails < MaxFails /\ broken' = TRUE /\ fails' = fails + 1
         /\ UNCHANGED <<next, queue, files, dropped>>

WriteFail ==
    /\ queue # <<>> /\ broken
    /\ broken' = FALSE
    /\ LET e == Head(queue) IN
         IF RetryInline
           THEN /\ files' = Append(files, <<e>>)          \* rotate, re-write this entry first
                /\ queue' = Tail(queue)
           ELSE /\ files' = Append(files, <<>>)           \* rotate, hand the entry back to the channel
                /\ queue' = Append(Tail(queue), e)
    /\ UNCHANGED <<next, dropped, fails>>

Restart == /\ queue = <<>> /\ ~broken /\ Len(files) < N + 2
           /\ files' = Append(files, <<>>) /\ UNCHANGED <<next, queue, dropped, fails, broken>>

Next == AppendEntry \/ WriteOk \/ Break \/ WriteFail \/ Restart
Spec == Init /\ [][Next]_vars

RECURSIVE Flat(_)
Flat(fs) == IF fs = <<>> THEN <<>> ELSE Head(fs) \o Flat(Tail(fs))

OnDisk == Flat(files)
\* on-disk frames are strictly increasing ids: accepted entries in append order, each once
InOrder == \A i \in 1..(Len(OnDisk) - 1) : OnDisk[i] < OnDisk[i + 1]
NoDropOnDisk == \A i \in 1..Len(OnDisk) : OnDisk[i] \notin dropped
\* at quiescence nothing accepted is missing
Complete == (next > N /\ queue = <<>>) =>
              {OnDisk[i] : i \in 1..Len(OnDisk)} = (1..N) \ dropped
WriterSafety == InOrder /\ NoDropOnDisk /\ Complete
=============================================================================

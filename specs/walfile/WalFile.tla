------------------------------ MODULE WalFile ------------------------------
(***************************************************************************)
(* C06 -- the WAL reader returns only intact entries in append order.      *)
(*                                                                         *)
(* Implementation-shaped model of internal/wal: a WAL directory is a       *)
(* sequence of files (rotation), a file is a 7-byte header followed by     *)
(* frames  len(4) ts(8) crc(4) payload(len) ; a payload is either raw      *)
(* columnar msgpack, an envelope 0x01 dbLen(2) db msgpack, or row-format   *)
(* msgpack.  One fault (truncation at a point, or corruption of one byte   *)
(* of a region) is applied to one file.  The reader automaton is           *)
(* Reader.ReadAll/readEntry + Recovery.RecoverWithOptions as written:      *)
(*   short file header  -> no entries, no error                            *)
(*   bad magic          -> whole file skipped                              *)
(*   short frame header -> EOF                                             *)
(*   len > MaxPayload   -> error, *continue from the current offset*       *)
(*   short payload      -> error, continue, next read hits EOF             *)
(*   crc mismatch       -> skip exactly the bytes that were read           *)
(* A reader that continues from an offset that is not a frame boundary is  *)
(* "desynchronised": it interprets payload bytes as headers.  What it then *)
(* does depends on the bytes; the model lets it stop or re-synchronise at  *)
(* any later frame boundary of the same file (it cannot yield an entry     *)
(* while desynchronised: that needs a CRC-32 collision, assumed away).     *)
(***************************************************************************)
EXTENDS Naturals, Sequences, FiniteSets, TLC, Json

CONSTANTS MaxFrames,      \* total frames over all files
          MaxFiles,       \* number of files (rotation)
          Emit            \* TRUE: print one TRACE line per terminal state

Kinds == {"raw", "env", "row"}

HdrRegions  == {"magic", "version", "cktype"}
FrameRegionsOf(k) ==
    {"lenUpShort", "lenUpMis", "lenDown", "lenHuge", "ts", "crc", "body"}
    \cup (IF k = "env" THEN {"envMarker", "envLen", "envName"} ELSE {})

\* payload-protected regions: any change is caught by the CRC
CrcProtected == {"crc", "body", "envMarker", "envLen", "envName"}

VARIABLES files,   \* Seq(Seq([id, kind]))
          fault,   \* record, see FaultsOf
          fi,      \* index of the file being read (1..Len(files)+1)
          pos,     \* index of the next frame in files[fi]
          mode,    \* "open" | "sync" | "desync" | "done"
          out      \* Seq(id) yielded so far

vars == <<files, fault, fi, pos, mode, out>>

-----------------------------------------------------------------------------
\* all ways of laying n frames with ids 1..n over exactly m files (files may be empty:
\* a rotation right after the last append leaves a header-only file)
RECURSIVE Layouts(_, _, _)
Layouts(ids, m, kindsOf) ==
    IF m = 1 THEN {<< [i \in 1..Len(ids) |-> [id |-> ids[i], kind |-> kindsOf[ids[i]]]] >>}
    ELSE UNION { { <<[i \in 1..k |-> [id |-> ids[i], kind |-> kindsOf[ids[i]]]]>> \o rest :
                     rest \in Layouts(SubSeq(ids, k+1, Len(ids)), m-1, kindsOf) } : k \in 0..Len(ids) }

AllFiles ==
    UNION { UNION { Layouts([i \in 1..n |-> i], m, ks) : ks \in [1..n -> Kinds] } :
            <<n, m>> \in (1..MaxFrames) \X (1..MaxFiles) }

FaultsOf(fs) ==
    {[type |-> "none", file |-> 0, frame |-> 0, region |-> "none"]}
    \cup UNION { 
        \* truncation: inside the file header; exactly at the boundary after frame j (j < n:
        \* j = n is the untouched file); inside frame j's header; inside frame j's payload
        {[type |-> "trunc", file |-> f, frame |-> 0, region |-> "fhdr"]}
        \cup {[type |-> "trunc", file |-> f, frame |-> j, region |-> "boundary"] : j \in 0..(Len(fs[f])-1)}
        \cup {[type |-> "trunc", file |-> f, frame |-> j, region |-> r] :
                 <<j, r>> \in (1..Len(fs[f])) \X {"hdr", "payload"}}
        \cup {[type |-> "corrupt", file |-> f, frame |-> 0, region |-> r] : r \in HdrRegions}
        \cup UNION {{[type |-> "corrupt", file |-> f, frame |-> j, region |-> r] :
                         r \in FrameRegionsOf(fs[f][j].kind)} : j \in 1..Len(fs[f])}
      : f \in 1..Len(fs) }

Init == /\ files \in AllFiles
        /\ fault \in FaultsOf(files)
        /\ fi = 1 /\ pos = 1 /\ mode = "open" /\ out = <<>>

-----------------------------------------------------------------------------
Here(f)      == fault.type # "none" /\ fault.file = f
NFrames      == Len(files[fi])
NextFile     == /\ fi' = fi + 1 /\ pos' = 1
                /\ mode' = IF fi + 1 > Len(files) THEN "done" ELSE "open"

\* ReadAll: open the file, read the 7-byte header, verify the magic
OpenFile ==
    /\ mode = "open"
    /\ UNCHANGED <<files, fault, out>>
    /\ IF Here(fi) /\ fault.frame = 0 /\ fault.region \in {"fhdr", "magic"}
         THEN NextFile                       \* too short -> no entries; bad magic -> error, file skipped
         ELSE /\ mode' = "sync" /\ UNCHANGED <<fi, pos>>   \* version/cktype are not enforced

\* readEntry at a frame boundary
ReadFrame ==
    /\ mode = "sync"
    /\ UNCHANGED <<files, fault>>
    /\ IF pos > NFrames \/ (Here(fi) /\ fault.type = "trunc" /\ fault.region = "boundary" /\ fault.frame < pos)
         THEN /\ NextFile /\ UNCHANGED out                           \* clean EOF
       ELSE IF Here(fi) /\ fault.type = "trunc" /\ fault.region \in {"hdr", "payload"} /\ fault.frame = pos
         THEN /\ NextFile /\ UNCHANGED out                           \* torn header -> EOF ; torn payload -> error, then EOF
       ELSE IF Here(fi) /\ fault.type = "corrupt" /\ fault.frame = pos
         THEN CASE fault.region = "ts"         -> /\ out' = Append(out, files[fi][pos].id)   \* ts is outside the CRC and outside the payload
                                                   /\ pos' = pos + 1 /\ UNCHANGED <<fi, mode>>
                [] fault.region \in CrcProtected -> /\ pos' = pos + 1 /\ UNCHANGED <<fi, mode, out>>
                [] fault.region = "lenUpShort"  -> /\ NextFile /\ UNCHANGED out               \* short payload -> error -> EOF
                [] fault.region \in {"lenUpMis", "lenDown", "lenHuge"} ->
                                                   /\ mode' = "desync" /\ UNCHANGED <<fi, pos, out>>
       ELSE /\ out' = Append(out, files[fi][pos].id) /\ pos' = pos + 1 /\ UNCHANGED <<fi, mode>>

\* a desynchronised reader either runs into EOF / garbage until EOF, or happens to land on a
\* later frame boundary (lenUpMis may skip whole frames; lenDown/lenHuge stay inside frame pos)
Desync ==
    /\ mode = "desync"
    /\ UNCHANGED <<files, fault>>
    /\ \/ NextFile /\ UNCHANGED out
       \/ \E p \in (pos+1)..(NFrames+1) : /\ pos' = p /\ mode' = "sync" /\ UNCHANGED <<fi, out>>

Done == mode = "done" /\ UNCHANGED vars

Next == OpenFile \/ ReadFrame \/ Desync \/ Done
Spec == Init /\ [][Next]_vars

-----------------------------------------------------------------------------
AllIds(fs) == UNION { {fs[f][j].id : j \in 1..Len(fs[f])} : f \in 1..Len(fs) }

\* ids are 1..n in append order, so "subsequence of the appended entries in append order" is
StrictlyIncreasing == \A i \in 1..(Len(out)-1) : out[i] < out[i+1]
OnlyAppended       == \A i \in 1..Len(out) : out[i] \in AllIds(files)

\* the frame whose payload bytes were altered is never yielded
AlteredId == IF fault.type = "corrupt" /\ fault.frame > 0 /\ fault.region \in (CrcProtected \ {"crc"})
               THEN {files[fault.file][fault.frame].id} ELSE {}
NeverAltered == \A i \in 1..Len(out) : out[i] \notin AlteredId

\* truncation never hides an entry that was completely written before the cut
CompleteBeforeCut ==
    IF fault.type # "trunc" THEN {}
    ELSE UNION { {files[f][j].id : j \in 1..Len(files[f])} : f \in (1..Len(files)) \ {fault.file} }
         \cup (IF fault.region = "fhdr" THEN {}
               ELSE {files[fault.file][j].id :
                        j \in 1..(IF fault.region = "boundary" THEN fault.frame ELSE fault.frame - 1)})
NoHide == mode = "done" => \A id \in CompleteBeforeCut : \E i \in 1..Len(out) : out[i] = id

\* with no fault every appended entry is returned
NoFaultAll == (mode = "done" /\ fault.type = "none") => Len(out) = Cardinality(AllIds(files))

Safety == StrictlyIncreasing /\ OnlyAppended /\ NeverAltered /\ NoHide /\ NoFaultAll

\* generation: one line per terminal state (scenario + predicted output)
EmitInv ==
    (Emit /\ mode = "done") =>
        PrintT(<<"TRACE", ToJson([layout |-> [f \in 1..Len(files) |-> [j \in 1..Len(files[f]) |-> files[f][j].kind]],
                                  fault  |-> fault, out |-> out])>>)
=============================================================================

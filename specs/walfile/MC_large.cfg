SPECIFICATION Spec
CONSTANTS
  MaxFrames = 4
  MaxFiles = 3
  Emit = FALSE
INVARIANTS Safety
CHECK_DEADLOCK FALSE

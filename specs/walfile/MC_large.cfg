SPECIFICATION Spec
CONSTANTS
  MaxFrames = 4
  MaxFiles = 2
  Emit = FALSE
INVARIANTS Safety
CHECK_DEADLOCK FALSE

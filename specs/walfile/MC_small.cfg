SPECIFICATION Spec
CONSTANTS
  MaxFrames = 3
  MaxFiles = 2
  Emit = FALSE
INVARIANTS Safety
CHECK_DEADLOCK FALSE

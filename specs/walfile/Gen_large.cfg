SPECIFICATION Spec
CONSTANTS
  MaxFrames = 4
  MaxFiles = 3
  Emit = TRUE
INVARIANTS Safety EmitInv
CHECK_DEADLOCK FALSE

SPECIFICATION Spec
CONSTANTS
  MaxFrames = 4
  MaxFiles = 2
  Emit = TRUE
INVARIANTS Safety EmitInv
CHECK_DEADLOCK FALSE

SPECIFICATION Spec
CONSTANTS
  N = 4
  QueueCap = 2
  RotateEvery = 2
  MaxFails = 2
  RetryInline = TRUE
INVARIANTS WriterSafety
CHECK_DEADLOCK FALSE

SPECIFICATION Spec
CONSTANTS
  MaxFrames = 3
  MaxFiles = 2
  Emit = TRUE
INVARIANTS Safety EmitInv
CHECK_DEADLOCK FALSE

SPECIFICATION Spec
CONSTANTS
  CsvFallsThrough = FALSE
  MaxDecoys = 2
  AllPairs = FALSE
  Emit = FALSE
INVARIANTS TypeOK LiveOK RejectedStoresNothing
CHECK_DEADLOCK FALSE

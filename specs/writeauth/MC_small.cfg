SPECIFICATION Spec
CONSTANTS
  RoutingKeysLast = TRUE
  ReplicaUsesRowDb = TRUE
  CsvFallsThrough = FALSE
  TypedKeepsFirstM = FALSE
  MaxDecoys = 2
  AllPairs = FALSE
  Emit = FALSE
INVARIANTS TypeOK LiveOK ReplayOK ReplicaOK RejectedStoresNothing
CHECK_DEADLOCK FALSE

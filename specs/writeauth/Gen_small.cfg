SPECIFICATION Spec
CONSTANTS
  RoutingKeysLast = TRUE
  ReplicaUsesRowDb = TRUE
  CsvFallsThrough = FALSE
  TypedKeepsFirstM = FALSE
  MaxDecoys = 2
  AllPairs = FALSE
  Emit = TRUE
INVARIANTS TypeOK EmitInv
CHECK_DEADLOCK FALSE

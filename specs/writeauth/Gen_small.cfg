SPECIFICATION Spec
CONSTANTS
  CsvFallsThrough = TRUE
  MaxDecoys = 2
  AllPairs = FALSE
  Emit = TRUE
INVARIANTS TypeOK EmitInv
CHECK_DEADLOCK FALSE

SPECIFICATION Spec
CONSTANTS
  MergeAdjacent = FALSE
  AliasDefault = FALSE
  Emit = TRUE
INVARIANTS TypeOK RowsStayHome EmitInv
CHECK_DEADLOCK FALSE

------------------------------- MODULE WalSeq -------------------------------
(***************************************************************************)
(* C32, sequence leg -- two accepted write requests of two tenants go      *)
(* through ONE WAL (and one replication stream) before recovery.           *)
(* Tenant 1 may write database prod, tenant 2 database other, tenant 3 the *)
(* literal database default (measurements cpu, mem).  Each request stores one row.  The WAL entry of a request is *)
(* class env (single columnar MessagePack map: envelope carries the        *)
(* database) or rows (each row carries _database/_measurement).            *)
(* Recover (wal.Recovery.RecoverWithOptions + the callbacks of             *)
(* cmd/arc/main.go) and Replicate (Receiver.applyEntry + coordinator ingest*)
(* handler) process the entries ONE BY ONE as written: every entry is      *)
(* stored under its own database/measurement.  MergeAdjacent = TRUE is a   *)
(* negative control: adjacent env entries of one measurement are folded    *)
(* into the first one's database.  AliasDefault = TRUE is a second negative *)
(* control: an env entry for database default is handed to the replication *)
(* queue WITHOUT envelope and by reference to the request buffer, so while  *)
(* it is still queued the next request's body overwrites it (the queue is   *)
(* drained only after both requests, one request buffer serves both).       *)
(***************************************************************************)
EXTENDS Naturals, Sequences, FiniteSets, TLC, Json

CONSTANTS MergeAdjacent, AliasDefault, Emit

Forms == {"mp_col", "mp_row", "lp_v1"}
Class(f) == IF f = "mp_col" THEN "env" ELSE "rows"
Dbs   == {"prod", "other", "default"}
Meas  == {"cpu", "mem"}
Req   == [form : Forms, db : Dbs, m : Meas]
Pairs == Dbs \X Meas

VARIABLES reqs, i, stored, replica
vars == <<reqs, i, stored, replica>>

Init == /\ reqs \in [1..2 -> Req]
        /\ i = 1
        /\ stored = [p \in Pairs |-> 0]
        /\ replica = [p \in Pairs |-> 0]

Merged(k) == /\ MergeAdjacent /\ k > 1
             /\ Class(reqs[k].form) = "env" /\ Class(reqs[k-1].form) = "env"
             /\ reqs[k].m = reqs[k-1].m
\* database an entry is replayed under
RECURSIVE ReplayDb(_)
ReplayDb(k) == IF Merged(k) THEN ReplayDb(k-1) ELSE reqs[k].db

\* what a follower applies for entry k (same-size bodies: the overwritten bytes decode as the next request)
Aliased(k) == /\ AliasDefault /\ k < 2 /\ Class(reqs[k].form) = "env" /\ reqs[k].db = "default"
              /\ Class(reqs[k+1].form) = "env"
ReplicaPair(k) == IF Aliased(k) THEN <<"default", reqs[k+1].m>> ELSE <<reqs[k].db, reqs[k].m>>

ReplayEntry ==
    /\ i <= 2
    /\ LET p == <<ReplayDb(i), reqs[i].m>> IN stored' = [stored EXCEPT ![p] = @ + 1]
    /\ replica' = [replica EXCEPT ![ReplicaPair(i)] = @ + 1]
    /\ i' = i + 1
    /\ UNCHANGED reqs
Done == i = 3 /\ UNCHANGED vars
Next == ReplayEntry \/ Done
Spec == Init /\ [][Next]_vars

Expected(p) == Cardinality({ k \in 1..2 : <<reqs[k].db, reqs[k].m>> = p })
\* every replayed row lies under the database/measurement its own request named (and was checked for)
RowsStayHome == i = 3 => \A p \in Pairs : stored[p] = Expected(p) /\ replica[p] = Expected(p)
TypeOK == i \in 1..3

SetToSeq(S) == LET RECURSIVE F(_) F(T) == IF T = {} THEN <<>> ELSE LET x == CHOOSE y \in T : TRUE IN <<x>> \o F(T \ {x}) IN F(S)
EmitInv ==
    (Emit /\ i = 3) =>
        PrintT(<<"TRACE", ToJson([reqs |-> reqs,
                 expect |-> SetToSeq({ <<p[1], p[2], stored[p]>> : p \in { q \in Pairs : stored[q] > 0 } })])>>)
=============================================================================

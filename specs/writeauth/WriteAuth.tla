----------------------------- MODULE WriteAuth -----------------------------
(***************************************************************************)
(* C32 -- writes land only where the caller is allowed to write.           *)
(*                                                                         *)
(* Decision-table model of the write path as the code is written:          *)
(*  Handle     the handler resolves the database (header / query / default *)
(*             precedence per endpoint: msgpack.go writeMsgPack,           *)
(*             lineprotocol.go WriteV1/WriteInfluxDB/WriteSimple,          *)
(*             import.go handleLineProtocolImport, importPreamble),        *)
(*             extracts the measurements of the payload and checks write   *)
(*             permission for each (permissions.go CheckWritePermissions); *)
(*             any denial rejects the whole request                        *)
(*  Buffer     ArrowBuffer buffer key = database "/" measurement           *)
(*             (arrow_writer.go writeColumnarInternal / generateStoragePath*)
(*             ) and the WAL entry: a single columnar MessagePack map keeps*)
(*             the client's bytes in an envelope carrying the database     *)
(*             (class "env"); everything else is transposed to rows        *)
(*             {_database, _measurement} + the user's columns, the user's  *)
(*             columns written LAST (columnarToWALRecords,                  *)
(*             typedBatchToWALRecords) (class "rows")                      *)
(*  Recover    cmd/arc/main.go createWALRecoveryCallback /                 *)
(*             createColumnarRecoveryCallback: database and measurement of *)
(*             a row are read back from the row's own keys                 *)
(*  Replicate  cluster/replication receiver applyEntry ->                  *)
(*             coordinator.buildReplicationIngestHandler: database from    *)
(*             the envelope, else the row's _database, else "default";     *)
(*             measurement from the row's keys                             *)
(* The payload may carry routing-like names (decoys) as tag / field /      *)
(* column, with a string or an integer value.                              *)
(*                                                                         *)
(* LiveOK / ReplayOK / ReplicaOK are the same judgement on the three legs   *)
(* and hold for the current code (constants TRUE, TRUE, FALSE).  The       *)
(* constants FALSE, FALSE, TRUE model the code before the repairs          *)
(* 6d2312a / 138d6b9 (MC_prefix.cfg, a negative control TLC must reject).  *)
(***************************************************************************)
EXTENDS Naturals, Sequences, FiniteSets, TLC, Json

CONSTANTS RoutingKeysLast,  \* TRUE = current code (138d6b9): columnarToWALRecords / typedBatchToWALRecords write
                            \* _database/_measurement AFTER the user's columns; FALSE = before the repair (user wins)
          ReplicaUsesRowDb, \* TRUE = current code (138d6b9): replicated row entries are applied under the row's
                            \* _database; FALSE = before the repair (no envelope -> "default")
          TypedKeepsFirstM, \* FALSE = current code: the typed columnar fast path (msgpack_typed.go) falls back to
                            \* the generic decoder on a repeated top-level "m", so every decoder is last-wins;
                            \* TRUE = a fast path that keeps the FIRST "m" (negative control MC_dupfirst.cfg)
          CsvFallsThrough,  \* TRUE = as written: importPreamble answers 4xx but returns a nil error, so the
                            \* CSV import carries on with database "" and measurement "" and no check
          MaxDecoys,    \* 1 or 2
          AllPairs,     \* TRUE: every pair of decoys with distinct names; FALSE: only (int, str) pairs of one family
          Emit

Forms == {"mp_col", "mp_row", "mp_batch", "mp_array", "lp_v1", "lp_v2", "lp_simple", "import_lp", "import_csv"}
SingleRecord == {"mp_col", "mp_row", "import_csv"}
ColumnForms  == {"mp_col", "mp_batch", "import_csv"}
DbVals   == {"none", "prod", "other"}      \* header / query value ("prod" is the database the caller may write)
MeasSets == {"ok", "denied", "mixed", "two"}
MeasOf(s) == CASE s = "ok" -> {"cpu"} [] s = "denied" -> {"secret"} [] s = "mixed" -> {"cpu", "secret"} [] s = "two" -> {"cpu", "mem"}
AllowedPairs == {<<"prod", "cpu">>, <<"prod", "mem">>}

DbNames   == {"database", "_database"}
MeasNames == {"measurement", "_measurement", "m"}
Decoy == { d \in [name : DbNames \cup MeasNames, pos : {"tag", "field", "column"}, vt : {"str", "int"}] :
             d.pos = "tag" => d.vt = "str" }
DecoysFor(f) == { d \in Decoy : IF f \in ColumnForms THEN d.pos = "column" ELSE d.pos # "column" }
Family(d) == IF d.name \in DbNames THEN "db" ELSE "meas"
PairOK(a, b) == /\ a.name # b.name
                /\ (AllPairs \/ (a.vt = "int" /\ b.vt = "str" /\ Family(a) = Family(b)))
DecoySets(f) == {{}} \cup { {d} : d \in DecoysFor(f) }
                \cup (IF MaxDecoys >= 2
                        THEN { {a, b} : <<a, b>> \in { p \in DecoysFor(f) \X DecoysFor(f) : PairOK(p[1], p[2]) } }
                        ELSE {})
\* the value a string decoy carries: a database / measurement the caller may NOT write
DecoyVal(d) == IF d.name \in DbNames THEN "other" ELSE "secret"

MeasSetsFor(f) == IF f \in SingleRecord THEN {"ok", "denied"} ELSE MeasSets
\* duplicate top-level keys of a MessagePack map payload (hand-crafted bytes; first and last differ):
\*   m_ok_denied   {m: cpu, ..., m: secret}      m_denied_ok  {m: secret, ..., m: cpu}
\*   db_dup        {database: other, _database: other, m, ..., database: prod, _database: prod}
DupVals   == {"none", "m_ok_denied", "m_denied_ok", "db_dup"}
DupFor(f) == IF f \in {"mp_col", "mp_row"} THEN DupVals ELSE {"none"}
DupM(r)   == r.dup \in {"m_ok_denied", "m_denied_ok"}
FirstM(r) == IF r.dup = "m_ok_denied" THEN "cpu" ELSE "secret"
LastM(r)  == IF r.dup = "m_ok_denied" THEN "secret" ELSE "cpu"
Request == UNION { { [form |-> f, hdr |-> h, q |-> qq, meas |-> ms, decoys |-> D, dup |-> du] :
                       h \in DbVals, qq \in DbVals, ms \in MeasSetsFor(f), D \in DecoySets(f), du \in DupFor(f) } : f \in Forms }
\* measurement(s) the handler decodes: the typed fast path only serves a single columnar map (mp_col)
HandlerMeas(r) == IF DupM(r) THEN {IF TypedKeepsFirstM /\ r.form = "mp_col" THEN FirstM(r) ELSE LastM(r)}
                  ELSE MeasOf(r.meas)
\* measurement(s) a generic (last-wins) decode of the raw client bytes yields: wal.Reader / parseColumnarEntry
\* on recovery, coordinator ingest handler on a replica
RawMeas(r)     == IF DupM(r) THEN {LastM(r)} ELSE MeasOf(r.meas)

VARIABLES req, phase, db, checks, denied, live, wal, replay, replica, bypassed
vars == <<req, phase, db, checks, denied, live, wal, replay, replica, bypassed>>

Init == /\ req \in Request
        /\ phase = "recv" /\ db = "" /\ checks = {} /\ denied = FALSE
        /\ live = {} /\ wal = "none" /\ replay = {} /\ replica = {} /\ bypassed = FALSE

Pick(a, b, dflt) == IF a # "none" THEN a ELSE IF b # "none" THEN b ELSE dflt
\* database resolution per endpoint, as written ("" = 400: database is required)
NamedDb(r) == CASE r.form \in {"mp_col", "mp_row", "mp_batch", "mp_array", "lp_simple"} -> Pick(r.hdr, "none", "default")
                [] r.form \in {"lp_v1", "lp_v2"} -> Pick(r.hdr, r.q, "default")
                [] r.form \in {"import_lp", "import_csv"} -> Pick(r.hdr, r.q, "")

Bypass == CsvFallsThrough /\ req.form = "import_csv"

Handle ==
    /\ phase = "recv"
    /\ LET d == NamedDb(req) IN
         /\ db' = d
         /\ IF d = "" THEN /\ phase' = (IF Bypass THEN "bypassed" ELSE "rejected")
                            /\ UNCHANGED <<checks, denied>>
            ELSE /\ checks' = { <<d, m>> : m \in HandlerMeas(req) }
                 /\ denied' = (\E c \in checks' : c \notin AllowedPairs)
                 /\ phase' = (IF ~denied' THEN "authorized" ELSE IF Bypass THEN "bypassed" ELSE "rejected")
    /\ UNCHANGED <<req, live, wal, replay, replica, bypassed>>

\* measurements the buffer sees: the payload's, or "" after a refused CSV preamble (as written)
Ms == IF phase = "bypassed" \/ bypassed THEN {""} ELSE HandlerMeas(req)
Buffer ==
    /\ phase \in {"authorized", "bypassed"}
    /\ bypassed' = (phase = "bypassed")
    /\ live' = IF phase = "bypassed" THEN {<<"", "">>} ELSE { <<db, m>> : m \in HandlerMeas(req) }
    /\ wal' = IF req.form = "mp_col" THEN "env" ELSE "rows"
    /\ phase' = "stored"
    /\ UNCHANGED <<req, db, checks, denied, replay, replica>>

\* value of key k in the WAL row of measurement m: the user's column wins over the base key
HasDecoy(k)  == \E d \in req.decoys : d.name = k
DecoyOf(k)   == CHOOSE d \in req.decoys : d.name = k
RowStr(k, base) == IF RoutingKeysLast /\ k \in {"_database", "_measurement"} THEN base
                   ELSE IF HasDecoy(k) THEN (IF DecoyOf(k).vt = "str" THEN DecoyVal(DecoyOf(k)) ELSE "")
                   ELSE base
RowMeas(m) == LET a == RowStr("_measurement", m) b == RowStr("measurement", "") c == RowStr("m", "")
              IN IF a # "" THEN a ELSE IF b # "" THEN b ELSE c          \* "" = row skipped
EffDb      == IF bypassed THEN "" ELSE db
RowDb      == LET a == RowStr("_database", EffDb) b == RowStr("database", "")
              IN IF a # "" THEN a ELSE IF b # "" THEN b ELSE "default"

\* coordinator.buildReplicationIngestHandler, row entries: no envelope
ReplicaDb  == LET a == RowStr("_database", EffDb)
              IN IF ReplicaUsesRowDb /\ a # "" THEN a ELSE "default"

Recover ==
    /\ phase = "stored" /\ replay = {}
    /\ replay' = IF wal = "env" THEN { <<db, m>> : m \in RawMeas(req) }
                 ELSE { <<RowDb, RowMeas(m)>> : m \in { x \in Ms : RowMeas(x) # "" } }
    /\ phase' = "replayed"
    /\ UNCHANGED <<req, db, checks, denied, live, wal, replica, bypassed>>

Replicate ==
    /\ phase = "replayed"
    /\ replica' = IF wal = "env" THEN { <<db, m>> : m \in RawMeas(req) }
                  ELSE { <<ReplicaDb, RowMeas(m)>> : m \in { x \in Ms : RowMeas(x) # "" } }
    /\ phase' = "done"
    /\ UNCHANGED <<req, db, checks, denied, live, wal, replay, bypassed>>

Done == phase \in {"done", "rejected"} /\ UNCHANGED vars
Next == Handle \/ Buffer \/ Recover \/ Replicate \/ Done
Spec == Init /\ [][Next]_vars

-----------------------------------------------------------------------------
Named == {req.hdr, req.q, "default"} \ {"none"}
Lawful(S) == \A p \in S : p \in checks /\ p \in AllowedPairs /\ p[1] \in Named /\ ~denied /\ ~bypassed
LiveOK    == Lawful(live)
ReplayOK  == Lawful(replay)
ReplicaOK == Lawful(replica)
RejectedStoresNothing == phase = "rejected" => (live = {} /\ replay = {} /\ replica = {})
TypeOK == phase \in {"recv", "rejected", "authorized", "bypassed", "stored", "replayed", "done"}

SetToSeq(S) == IF S = {} THEN <<>> ELSE LET RECURSIVE F(_) F(T) == IF T = {} THEN <<>> ELSE LET x == CHOOSE y \in T : TRUE IN <<x>> \o F(T \ {x}) IN F(S)
EmitInv ==
    (Emit /\ phase \in {"done", "rejected"}) =>
        PrintT(<<"TRACE", ToJson([form |-> req.form, hdr |-> req.hdr, q |-> req.q, meas |-> req.meas, dup |-> req.dup,
                                  decoys |-> SetToSeq(req.decoys), db |-> db, rejected |-> (phase = "rejected" \/ bypassed),
                                  checks |-> SetToSeq(checks), live |-> SetToSeq(live), wal |-> wal,
                                  replay |-> SetToSeq(replay), replica |-> SetToSeq(replica)])>>)
=============================================================================

SPECIFICATION Spec
CONSTANTS
  MergeAdjacent = TRUE
  AliasDefault = FALSE
  Emit = FALSE
INVARIANTS RowsStayHome
CHECK_DEADLOCK FALSE

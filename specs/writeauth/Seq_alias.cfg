SPECIFICATION Spec
CONSTANTS
  MergeAdjacent = FALSE
  AliasDefault = TRUE
  Emit = FALSE
INVARIANTS RowsStayHome
CHECK_DEADLOCK FALSE

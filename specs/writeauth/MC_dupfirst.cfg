SPECIFICATION Spec
CONSTANTS
  RoutingKeysLast = TRUE
  ReplicaUsesRowDb = TRUE
  CsvFallsThrough = FALSE
  TypedKeepsFirstM = TRUE
  MaxDecoys = 2
  AllPairs = FALSE
  Emit = FALSE
INVARIANTS ReplayOK ReplicaOK
CHECK_DEADLOCK FALSE

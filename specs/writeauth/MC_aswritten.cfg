SPECIFICATION Spec
CONSTANTS
  CsvFallsThrough = TRUE
  MaxDecoys = 2
  AllPairs = FALSE
  Emit = FALSE
INVARIANTS ReplayOK ReplicaOK LiveOK
CHECK_DEADLOCK FALSE

SPECIFICATION Spec
CONSTANTS
  CsvFallsThrough = TRUE
  MaxDecoys = 2
  AllPairs = TRUE
  Emit = TRUE
INVARIANTS TypeOK EmitInv
CHECK_DEADLOCK FALSE

SPECIFICATION Spec
CONSTANTS
  RoutingKeysLast = TRUE
  ReplicaUsesRowDb = TRUE
  CsvFallsThrough = FALSE
  TypedKeepsFirstM = FALSE
  MaxDecoys = 2
  AllPairs = TRUE
  Emit = TRUE
INVARIANTS TypeOK EmitInv
CHECK_DEADLOCK FALSE

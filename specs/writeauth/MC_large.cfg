SPECIFICATION Spec
CONSTANTS
  CsvFallsThrough = FALSE
  MaxDecoys = 2
  AllPairs = TRUE
  Emit = FALSE
INVARIANTS TypeOK LiveOK RejectedStoresNothing
CHECK_DEADLOCK FALSE

SPECIFICATION Spec
CONSTANTS
  RoutingKeysLast = FALSE
  ReplicaUsesRowDb = FALSE
  CsvFallsThrough = TRUE
  TypedKeepsFirstM = FALSE
  MaxDecoys = 2
  AllPairs = FALSE
  Emit = FALSE
INVARIANTS ReplayOK ReplicaOK LiveOK
CHECK_DEADLOCK FALSE

SPECIFICATION Spec
CONSTANTS
  Order <- OrderLarge
  Fillers <- FillLarge
  AsWritten = FALSE
  Emit = FALSE
INVARIANTS BackupSide RestoreSound
CHECK_DEADLOCK FALSE

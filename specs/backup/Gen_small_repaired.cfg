SPECIFICATION Spec
CONSTANTS
  Order <- OrderSmall
  Fillers <- FillSmall
  AsWritten = FALSE
  Emit = TRUE
INVARIANTS BackupSide RestoreSound EmitInv
CHECK_DEADLOCK FALSE

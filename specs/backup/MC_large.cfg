SPECIFICATION Spec
CONSTANTS
  Order <- OrderLarge
  Fillers <- FillLarge
  LegacySkip = FALSE
  Emit = FALSE
INVARIANTS BackupSide RestoreSound
CHECK_DEADLOCK FALSE

SPECIFICATION Spec
CONSTANTS
  Order <- OrderLarge
  Fillers <- FillLarge
  AsWritten = TRUE
  Emit = FALSE
INVARIANTS BackupSide
CHECK_DEADLOCK FALSE

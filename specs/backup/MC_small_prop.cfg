SPECIFICATION Spec
CONSTANTS
  Order <- OrderSmall
  Fillers <- FillSmall
  AsWritten = TRUE
  Emit = FALSE
INVARIANTS BackupSide RestoreSound
CHECK_DEADLOCK FALSE

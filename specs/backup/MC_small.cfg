SPECIFICATION Spec
CONSTANTS
  Order <- OrderSmall
  Fillers <- FillSmall
  AsWritten = TRUE
  Emit = FALSE
INVARIANTS BackupSide
CHECK_DEADLOCK FALSE

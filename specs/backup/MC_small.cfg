SPECIFICATION Spec
CONSTANTS
  Order <- OrderSmall
  Fillers <- FillSmall
  LegacySkip = FALSE
  Emit = FALSE
INVARIANTS BackupSide RestoreSound
CHECK_DEADLOCK FALSE

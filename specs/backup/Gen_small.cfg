SPECIFICATION Spec
CONSTANTS
  Order <- OrderSmall
  Fillers <- FillSmall
  LegacySkip = FALSE
  Emit = TRUE
INVARIANTS BackupSide RestoreSound EmitInv
CHECK_DEADLOCK FALSE

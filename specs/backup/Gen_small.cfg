SPECIFICATION Spec
CONSTANTS
  Order <- OrderSmall
  Fillers <- FillSmall
  AsWritten = TRUE
  Emit = TRUE
INVARIANTS BackupSide EmitInv
CHECK_DEADLOCK FALSE

------------------------------- MODULE Backup -------------------------------
(***************************************************************************)
(* C13 -- backup then restore reproduces the data or reports failure.      *)
(*                                                                         *)
(* Implementation-shaped model of internal/backup:                         *)
(*   CreateBackup   = ListObjects -> copyDataFiles(parquet group)          *)
(*                    -> copyDataFiles(Iceberg metadata group)             *)
(*                    -> checkSkipRatio -> write manifest.json             *)
(*   RestoreBackup  = GetBackup(manifest) -> restoreDataFiles (List of     *)
(*                    <id>/data/, streamRestoreFile per file) -> completed *)
(* One step per file, in the order the code visits them (Order: the        *)
(* parquet group in listing order, then the Iceberg group).                *)
(*                                                                         *)
(* Per file one fault:  rb = source read fails during backup (skippable),  *)
(*                      wb = backup-storage write fails (fatal),           *)
(*                      rr = backup-storage read fails during restore,     *)
(*                      wr = restore-target write fails.                   *)
(*                      wbt / wrt = the same write faults but transient:   *)
(*                      only the first attempt fails (after consuming part *)
(*                      of the body); a second attempt would succeed.  The *)
(*                      code as it is makes exactly one attempt per file,  *)
(*                      so they behave like wb / wr -- the dimension is    *)
(*                      there so that a retry added later is exercised.    *)
(* Filler files (never faulted) only enter the skip-ratio arithmetic.      *)
(*                                                                         *)
(* LegacySkip = FALSE : the code as it is now (arc 0fc80ea): a file that   *)
(*                      streamRestoreFile cannot restore is logged and     *)
(*                      counted, the loop goes on with the other files,    *)
(*                      and restoreDataFiles returns "restore incomplete"  *)
(*                      at the end, so the restore ends "failed".          *)
(* LegacySkip = TRUE  : the behaviour before 0fc80ea (Warn + continue, the *)
(*                      restore still ends "completed").  Negative control *)
(*                      only: TLC must reject RestoreSound for it.         *)
(***************************************************************************)
EXTENDS Naturals, Sequences, FiniteSets, TLC, Json

CONSTANTS Order,      \* Seq of file ids in the order the code visits them
          Fillers,    \* set of possible numbers of never-faulted filler files
          LegacySkip, \* BOOLEAN, see above
          Emit        \* TRUE: print one TRACE line per terminal state

\* visiting orders used by the configs: parquet group first (listing order), then Iceberg group
OrderSmall == <<"p1", "p3", "i1", "i3">>
OrderLarge == <<"p1", "p3", "i1", "i2", "i3">>
FillSmall  == {0, 16}
FillLarge  == {16}

Files  == {Order[i] : i \in 1..Len(Order)}
Faults == {"none", "rb", "wb", "wbt", "rr", "wr", "wrt"}
BackupWriteFaults  == {"wb", "wbt"}     \* one attempt per file: a transient fault is as fatal as a permanent one
RestoreFileFaults  == {"rr", "wr", "wrt"}

VARIABLES present,   \* SUBSET Files : the tree
          fault,     \* [Files -> Faults]
          filler,    \* number of filler files
          pc,        \* "backup" | "ratio" | "manifest" | "rmanifest" | "restore" | "done"
          i,         \* position in Order
          stored,    \* files held by the backup
          skipped,   \* progress.SkippedFiles
          bstatus,   \* "running" | "completed" | "failed"
          mskipped,  \* manifest.SkippedFiles as written (0 if no manifest)
          restored,  \* files present in the restore target
          rfailed,   \* number of files restoreDataFiles could not restore (failedFiles)
          rstatus    \* "none" | "completed" | "failed"

vars == <<present, fault, filler, pc, i, stored, skipped, bstatus, mskipped, restored, rfailed, rstatus>>

Init == /\ present \in (SUBSET Files) \ {{}}
        /\ fault \in [Files -> Faults]
        /\ \A f \in Files : f \notin present => fault[f] = "none"
        /\ filler \in Fillers
        /\ pc = "backup" /\ i = 1
        /\ stored = {} /\ skipped = 0 /\ bstatus = "running" /\ mskipped = 0
        /\ restored = {} /\ rfailed = 0 /\ rstatus = "none"

Total == Cardinality(present) + filler

-----------------------------------------------------------------------------
\* copyDataFiles: one file
BackupSkipAbsent ==
    /\ pc = "backup" /\ i <= Len(Order) /\ Order[i] \notin present
    /\ i' = i + 1
    /\ UNCHANGED <<present, fault, filler, pc, stored, skipped, bstatus, mskipped, restored, rfailed, rstatus>>

BackupCopy ==
    /\ pc = "backup" /\ i <= Len(Order) /\ Order[i] \in present
    /\ fault[Order[i]] \notin ({"rb"} \cup BackupWriteFaults)
    /\ stored' = stored \cup {Order[i]} /\ i' = i + 1
    /\ UNCHANGED <<present, fault, filler, pc, skipped, bstatus, mskipped, restored, rfailed, rstatus>>

\* errBackupRead: skippable
BackupSkipUnreadable ==
    /\ pc = "backup" /\ i <= Len(Order) /\ Order[i] \in present
    /\ fault[Order[i]] = "rb"
    /\ skipped' = skipped + 1 /\ i' = i + 1
    /\ UNCHANGED <<present, fault, filler, pc, stored, bstatus, mskipped, restored, rfailed, rstatus>>

\* any other failure aborts the backup: no manifest is written
BackupWriteFatal ==
    /\ pc = "backup" /\ i <= Len(Order) /\ Order[i] \in present
    /\ fault[Order[i]] \in BackupWriteFaults
    /\ bstatus' = "failed" /\ pc' = "rmanifest"
    /\ UNCHANGED <<present, fault, filler, i, stored, skipped, mskipped, restored, rfailed, rstatus>>

BackupLoopEnd ==
    /\ pc = "backup" /\ i > Len(Order)
    /\ pc' = "ratio"
    /\ UNCHANGED <<present, fault, filler, i, stored, skipped, bstatus, mskipped, restored, rfailed, rstatus>>

\* checkSkipRatio: float64(skipped) > 0.10 * float64(total)
RatioCheck ==
    /\ pc = "ratio"
    /\ IF skipped > 0 /\ skipped * 10 > Total
         THEN bstatus' = "failed" /\ pc' = "rmanifest"
         ELSE bstatus' = bstatus /\ pc' = "manifest"
    /\ UNCHANGED <<present, fault, filler, i, stored, skipped, mskipped, restored, rfailed, rstatus>>

WriteManifest ==
    /\ pc = "manifest"
    /\ mskipped' = skipped /\ bstatus' = "completed" /\ pc' = "rmanifest"
    /\ UNCHANGED <<present, fault, filler, i, stored, skipped, restored, rfailed, rstatus>>

-----------------------------------------------------------------------------
\* RestoreBackup into an empty target: GetBackup first
RestoreReadManifest ==
    /\ pc = "rmanifest"
    /\ IF bstatus = "completed"
         THEN pc' = "restore" /\ i' = 1 /\ rstatus' = rstatus
         ELSE pc' = "done" /\ i' = i /\ rstatus' = "failed"     \* backup not found
    /\ UNCHANGED <<present, fault, filler, stored, skipped, bstatus, mskipped, restored, rfailed>>

RestoreSkipNotStored ==
    /\ pc = "restore" /\ i <= Len(Order) /\ Order[i] \notin stored
    /\ i' = i + 1
    /\ UNCHANGED <<present, fault, filler, pc, stored, skipped, bstatus, mskipped, restored, rfailed, rstatus>>

RestoreCopy ==
    /\ pc = "restore" /\ i <= Len(Order) /\ Order[i] \in stored
    /\ fault[Order[i]] \notin RestoreFileFaults
    /\ restored' = restored \cup {Order[i]} /\ i' = i + 1
    /\ UNCHANGED <<present, fault, filler, pc, stored, skipped, bstatus, mskipped, rfailed, rstatus>>

\* streamRestoreFile failed: Warn, count (unless LegacySkip), continue with the next file
RestoreFileFails ==
    /\ pc = "restore" /\ i <= Len(Order) /\ Order[i] \in stored
    /\ fault[Order[i]] \in RestoreFileFaults
    /\ i' = i + 1
    /\ rfailed' = IF LegacySkip THEN rfailed ELSE rfailed + 1
    /\ UNCHANGED <<present, fault, filler, pc, stored, skipped, bstatus, mskipped, restored, rstatus>>

RestoreLoopEnd ==
    /\ pc = "restore" /\ i > Len(Order)
    /\ rstatus' = IF rfailed > 0 THEN "failed" ELSE "completed"
    /\ pc' = "done"
    /\ UNCHANGED <<present, fault, filler, i, stored, skipped, bstatus, mskipped, restored, rfailed>>

Done == pc = "done" /\ UNCHANGED vars

Next == \/ BackupSkipAbsent \/ BackupCopy \/ BackupSkipUnreadable \/ BackupWriteFatal
        \/ BackupLoopEnd \/ RatioCheck \/ WriteManifest
        \/ RestoreReadManifest \/ RestoreSkipNotStored \/ RestoreCopy \/ RestoreFileFails
        \/ RestoreLoopEnd \/ Done
Spec == Init /\ [][Next]_vars

-----------------------------------------------------------------------------
TypeOK == /\ stored \subseteq present /\ restored \subseteq stored
          /\ skipped \in 0..Len(Order) /\ mskipped \in 0..Len(Order)
          /\ bstatus \in {"running", "completed", "failed"}
          /\ rstatus \in {"none", "completed", "failed"}

\* --- the property, clause by clause (judged at the terminal state) ---
\* (a) a restore that reports success reproduced every backed-up file, and a restore that could not
\*     bring back a backed-up file does not report success
RestoreSound == /\ (pc = "done" /\ rstatus = "completed") => restored = stored
                /\ (pc = "done" /\ bstatus = "completed" /\ restored # stored) => rstatus = "failed"
\* (b) a backup that reports success and skipped unreadable files records it
BackupRecordsSkips == (bstatus = "completed" /\ stored # present) => mskipped > 0
\* (c) a completed backup holds every readable file of the tree (nothing is dropped silently)
BackupHoldsReadable == bstatus = "completed" => \A f \in present : fault[f] # "rb" => f \in stored
\* (d) no manifest, no successful restore
NoManifestNoRestore == (pc = "done" /\ bstatus # "completed") => rstatus = "failed"

BackupSide == TypeOK /\ BackupRecordsSkips /\ BackupHoldsReadable /\ NoManifestNoRestore

\* generation: one line per terminal state (scenario + predicted outcome)
EmitInv ==
    (Emit /\ pc = "done") =>
        PrintT(<<"TRACE", ToJson([present |-> present, fault |-> fault, filler |-> filler,
                                  bstatus |-> bstatus, skipped |-> skipped, mskipped |-> mskipped,
                                  stored |-> stored, rstatus |-> rstatus, restored |-> restored])>>)
=============================================================================

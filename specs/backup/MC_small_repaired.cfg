SPECIFICATION Spec
CONSTANTS
  Order <- OrderSmall
  Fillers <- FillSmall
  AsWritten = FALSE
  Emit = FALSE
INVARIANTS BackupSide RestoreSound
CHECK_DEADLOCK FALSE

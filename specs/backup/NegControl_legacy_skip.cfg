SPECIFICATION Spec
CONSTANTS
  Order <- OrderSmall
  Fillers <- FillSmall
  LegacySkip = TRUE
  Emit = FALSE
INVARIANTS BackupSide RestoreSound
CHECK_DEADLOCK FALSE

SPECIFICATION Spec
CONSTANTS
  Order <- OrderLarge
  Fillers <- FillLarge
  LegacySkip = FALSE
  Emit = TRUE
INVARIANTS BackupSide RestoreSound EmitInv
CHECK_DEADLOCK FALSE

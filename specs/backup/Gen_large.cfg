SPECIFICATION Spec
CONSTANTS
  Order <- OrderLarge
  Fillers <- FillLarge
  AsWritten = TRUE
  Emit = TRUE
INVARIANTS BackupSide EmitInv
CHECK_DEADLOCK FALSE

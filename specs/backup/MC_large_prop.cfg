SPECIFICATION Spec
CONSTANTS
  Order <- OrderLarge
  Fillers <- FillLarge
  AsWritten = TRUE
  Emit = FALSE
INVARIANTS BackupSide RestoreSound
CHECK_DEADLOCK FALSE

SPECIFICATION Spec
CONSTANTS
  Order <- OrderLarge
  Fillers <- FillLarge
  AsWritten = FALSE
  Emit = TRUE
INVARIANTS BackupSide RestoreSound EmitInv
CHECK_DEADLOCK FALSE

SPECIFICATION Spec
CONSTANTS
  Sizes = {1, 2, 4}
  MaxScript = 4
  Retry = 3
  Fix = {"exists", "nopeer_fails"}
  Emit = FALSE
INVARIANTS TypeOK FinalGood CountedPresent Converges GateSound
VIEW view
CHECK_DEADLOCK FALSE

\* NEGATIVE CONTROL: the puller as it was written before bd40fd9 (running out of attempts on 'no candidate peers' was not a failure) -- TLC is expected to REJECT this configuration
SPECIFICATION Spec
CONSTANTS
  Sizes = {1, 3}
  MaxScript = 3
  Retry = 2
  Fix = {"exists"}
  Emit = FALSE
INVARIANTS GateSound
VIEW view
CHECK_DEADLOCK FALSE

SPECIFICATION Spec
CONSTANTS
  Sizes = {1, 2, 4}
  MaxScript = 3
  Retry = 3
  Fix = {"exists", "nopeer_fails"}
  Emit = TRUE
INVARIANTS EmitInv
CHECK_DEADLOCK FALSE

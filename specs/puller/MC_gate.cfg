SPECIFICATION Spec
CONSTANTS
  Sizes = {1, 3}
  MaxScript = 3
  Retry = 2
  Fix = {"exists"}
  Emit = FALSE
INVARIANTS GateSound
VIEW view
CHECK_DEADLOCK FALSE

SPECIFICATION Spec
CONSTANTS
  Sizes = {1, 3}
  MaxScript = 3
  Retry = 2
  Fix = {}
  Emit = FALSE
INVARIANTS CountedPresent
VIEW view
CHECK_DEADLOCK FALSE

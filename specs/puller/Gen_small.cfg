SPECIFICATION Spec
CONSTANTS
  Sizes = {1, 3}
  MaxScript = 2
  Retry = 2
  Fix = {"exists", "nopeer_fails"}
  Emit = TRUE
INVARIANTS EmitInv
CHECK_DEADLOCK FALSE

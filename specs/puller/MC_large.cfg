\* the code as it is now (fix commits 11c4172 and bd40fd9 in /repo)
SPECIFICATION Spec
CONSTANTS
  Sizes = {1, 2, 4}
  MaxScript = 5
  Retry = 3
  Fix = {"exists", "nopeer_fails"}
  Emit = FALSE
INVARIANTS TypeOK FinalGood CountedPresent Converges GateSound FreshOffsetPerPeer
VIEW view
CHECK_DEADLOCK FALSE

SPECIFICATION Spec
CONSTANTS
  Sizes = {1, 2, 4}
  MaxScript = 5
  Retry = 3
  Fix = {}
  Emit = FALSE
INVARIANTS TypeOK FinalGood
VIEW view
CHECK_DEADLOCK FALSE

------------------------------- MODULE Puller -------------------------------
(***************************************************************************)
(* C25 -- peer file replication never exposes a bad file and converges.    *)
(*                                                                         *)
(* Implementation-shaped model of one manifest file on one replica:        *)
(* internal/cluster/filereplication/puller.go (processEntry, pullOnce,     *)
(* tryResumeFromPartial, writeFileTail, deleteFile), fetch_client.go       *)
(* (Fetch) and the LocalBackend operations it relies on (StatFile, Exists, *)
(* ReadToAt, WriteReader, AppendReader, Delete) as they are written:       *)
(*   - StatFile answers with the size of "<path>.part" when the final      *)
(*     path is absent;                                                     *)
(*   - the pre-pull check is "StatFile == SizeBytes AND the file exists at *)
(*     its final path" (Fix contains "exists"; before /repo 11c4172 it was *)
(*     the size comparison alone: Fix without "exists", kept as the        *)
(*     negative-control configurations NC_presence / NC_converge);         *)
(*   - attempt 1 of a processEntry run never resumes, attempts > 1 resume  *)
(*     when 0 < StatFile < SizeBytes;                                      *)
(*   - WriteReader opens "<path>.part" with O_TRUNC before the first body  *)
(*     byte (and even when the fetch fails before any byte);               *)
(*   - promotion (rename .part -> final) happens only when Fetch returned  *)
(*     nil, i.e. after the SHA-256 over prefix+tail matched;               *)
(*   - deleteFile -> Backend.Delete removes the FINAL path only;           *)
(*   - running out of attempts is a failure also when the last attempt     *)
(*     found no candidate peers (Fix contains "nopeer_fails"; before /repo *)
(*     bd40fd9 that path left failed = FALSE: negative control NC_gate).   *)
(* A file is Size units long; a unit is one byte (or one block) of the     *)
(* real file.  "ok" of a staging file = it is a prefix of the good bytes.  *)
(* One scripted outcome is consumed per attempt at the PeerResolver call.  *)
(* A "session" is one processEntry run (<= Retry attempts); sessions are   *)
(* re-started (a later FSM callback / catch-up scan) until one complete    *)
(* session has run after the script was exhausted ("faults stopped").      *)
(***************************************************************************)
EXTENDS Integers, Sequences, FiniteSets, TLC, Json

CONSTANTS Sizes,        \* set of file sizes in units
          MaxScript,    \* maximal number of scripted (faulty or not) outcomes
          Retry,        \* RetryMaxAttempts
          Fix,          \* repairs present in the code; {"exists","nopeer_fails"} = /repo now; {} = as first written;
                        \*   "exists"       presence needs the file at its final path
                        \*   "nopeer_fails" running out of attempts on "no candidate peers" is a failure
          Emit

NoByteOutcomes == {"nopeer", "dial", "errack", "notfound", "wrongsize", "wronghash", "badoffset"}
OutcomesOf(sz) == [t : NoByteOutcomes \cup {"ok"}, k : {0}]
                  \cup [t : {"trunc", "corrupt"}, k : 0..(sz-1)]

Absent == [len |-> -1, ok |-> TRUE]
InitialParts(sz) == {Absent}
                    \cup [len : 0..sz, ok : {TRUE}]          \* (sz, TRUE): complete but never promoted
                    \cup [len : 1..(sz+1), ok : {FALSE}]     \* sz+1: oversize leftovers

VARIABLES size,      \* file size
          final,     \* "absent" | "good" | "bad"
          part,      \* [len, ok] ; len = -1 when absent
          left,      \* number of scripted outcomes still allowed
          sess,      \* number of sessions started
          calm,      \* TRUE when the current session started after the script was exhausted
          att,       \* attempt number inside the session (1..Retry)
          pc,        \* "idle" | "precheck" | "resolve" | "xfer" | "after" | "done"
          cur,       \* outcome of the current attempt
          offset,    \* resume offset chosen for the current attempt
          prefOk,    \* the resumed prefix is a prefix of the good bytes
          succeeded, \* processEntry's local flag at the end of the last session
          cnt,       \* [pulled, skipped, failed, mismatch]
          exhausted, \* the script has ended: every further outcome is "ok"
          gate,      \* FullyCaughtUp(): "unset" before the catch-up session (the first one) ended, then "open"/"closed"
          hist       \* one record per consumed outcome / session end (generation only)

vars == <<size, final, part, left, sess, calm, att, pc, cur, offset, prefOk, succeeded, cnt, exhausted, gate, hist>>
view == <<size, final, part, left, sess, calm, att, pc, cur, offset, prefOk, succeeded, cnt, exhausted, gate>>

MaxSess == MaxScript + 2

Obs == [final |-> final, plen |-> part.len, pok |-> part.ok,
        pulled |-> cnt.pulled, skipped |-> cnt.skipped, failed |-> cnt.failed, mismatch |-> cnt.mismatch]

Init == /\ size \in Sizes
        /\ final = "absent"
        /\ part \in InitialParts(size)
        /\ left = MaxScript
        /\ sess = 0 /\ calm = FALSE /\ att = 0 /\ pc = "idle"
        /\ cur = [t |-> "ok", k |-> 0] /\ offset = 0 /\ prefOk = TRUE
        /\ succeeded = FALSE
        /\ cnt = [pulled |-> 0, skipped |-> 0, failed |-> 0, mismatch |-> 0]
        /\ exhausted = FALSE /\ gate = "unset"
        /\ hist = <<[ev |-> "init", size |-> size, plen |-> part.len, pok |-> part.ok]>>

-----------------------------------------------------------------------------
\* LocalBackend.StatFile: the final file's size, else the staging file's size, else -1
Stat == IF final # "absent" THEN size ELSE part.len

\* Enqueue / RunCatchUp -> a worker starts processEntry
StartSession ==
    /\ pc = "idle"
    /\ sess < MaxSess /\ ~(sess > 0 /\ calm)
    /\ sess' = sess + 1 /\ att' = 1 /\ pc' = "precheck"
    /\ calm' = exhausted
    /\ succeeded' = FALSE
    /\ hist' = Append(hist, [ev |-> "session", calm |-> exhausted])
    /\ UNCHANGED <<size, final, part, left, cur, offset, prefOk, cnt, exhausted, gate>>

\* the driver stops when a whole session ran after the faults stopped, or at the session bound
Stop ==
    /\ pc = "idle"
    /\ sess > 0
    /\ (calm \/ sess >= MaxSess)
    /\ pc' = "done"
    /\ UNCHANGED <<size, final, part, left, sess, calm, att, cur, offset, prefOk, succeeded, cnt, exhausted, gate, hist>>

\* end of a processEntry run: s = succeeded, f = failed (processEntry's two local flags), c = counters.
\* The first session is the catch-up walker's: its defer records a catch-up failure iff f; a later
\* success clears the recorded failure (clearCatchUpFailure).
EndSession(s, f, c) ==
    /\ pc' = "idle" /\ succeeded' = s /\ cnt' = c
    /\ gate' = IF sess = 1 THEN (IF f THEN "closed" ELSE "open")
               ELSE IF s THEN "open" ELSE gate
    /\ hist' = Append(hist, [ev |-> "end", succeeded |-> s, caught |-> (gate' = "open"), obs |->
                  [final |-> final', plen |-> part'.len, pok |-> part'.ok,
                   pulled |-> c.pulled, skipped |-> c.skipped, failed |-> c.failed, mismatch |-> c.mismatch]])

\* processEntry: pre-pull presence check
PreCheck ==
    /\ pc = "precheck"
    /\ UNCHANGED <<size, final, part, left, sess, calm, att, cur, offset, prefOk, exhausted>>
    /\ IF Stat = size /\ ("exists" \in Fix => final # "absent")
         THEN EndSession(TRUE, FALSE, [cnt EXCEPT !.skipped = @ + 1])
         ELSE /\ pc' = "resolve" /\ UNCHANGED <<succeeded, cnt, gate, hist>>

\* PeerResolver.ResolvePeers: the point where the scripted outcome of this attempt is consumed
Resolve ==
    /\ pc = "resolve"
    /\ \/ /\ ~exhausted /\ left > 0
          /\ \E o \in OutcomesOf(size) : cur' = o
          /\ left' = left - 1 /\ UNCHANGED exhausted
       \/ /\ ~exhausted
          /\ exhausted' = TRUE /\ cur' = [t |-> "ok", k |-> 0] /\ UNCHANGED left
       \/ /\ exhausted
          /\ cur' = [t |-> "ok", k |-> 0] /\ UNCHANGED <<left, exhausted>>
    /\ pc' = "xfer"
    \* tryResumeFromPartial (attempt > 1 only); the final path is absent here, so ReadToAt hashes the staging file
    /\ IF att > 1 /\ Stat > 0 /\ Stat < size
         THEN offset' = Stat /\ prefOk' = part.ok
         ELSE offset' = 0 /\ prefOk' = TRUE
    \* the resolver call is also where the driver can look at what the previous attempt left behind
    /\ hist' = Append(IF att > 1 THEN Append(hist, [ev |-> "obs", obs |-> Obs]) ELSE hist, [ev |-> "attempt", t |-> cur'.t, k |-> cur'.k, att |-> att, offset |-> offset',
                                 x |-> exhausted'])     \* x: served after the script ended
    /\ UNCHANGED <<size, final, part, sess, calm, att, succeeded, cnt, gate>>

\* what the write goroutine leaves before any body byte: WriteReader truncates, AppendReader does not
Base == IF offset = 0 THEN [len |-> 0, ok |-> TRUE] ELSE part

\* pullOnce: Fetch + writeFileTail + the error handling after both returned
Transfer ==
    /\ pc = "xfer"
    /\ LET tail == size - offset
           d    == IF cur.k < tail - 1 THEN cur.k ELSE tail - 1     \* units delivered before a truncation / index corrupted
           deleteFinal == "absent"                                     \* Backend.Delete(path): final path only
       IN CASE cur.t = "nopeer" ->
                 /\ UNCHANGED <<final, part, cnt>>                     \* no pullOnce at all
            [] cur.t \in {"dial", "errack", "notfound", "wrongsize"} ->
                 /\ part' = Base /\ UNCHANGED <<final, cnt>>
            [] cur.t = "wronghash" ->
                 /\ part' = Base /\ final' = deleteFinal /\ cnt' = [cnt EXCEPT !.mismatch = @ + 1]
            [] cur.t = "badoffset" ->
                 /\ part' = Base /\ final' = deleteFinal /\ UNCHANGED cnt
            [] cur.t = "trunc" ->
                 /\ part' = [len |-> Base.len + d, ok |-> Base.ok] /\ UNCHANGED <<final, cnt>>
            [] cur.t = "corrupt" ->
                 /\ part' = [len |-> size, ok |-> FALSE] /\ final' = deleteFinal
                 /\ cnt' = [cnt EXCEPT !.mismatch = @ + 1]
            [] cur.t = "ok" ->
                 IF Base.ok /\ prefOk                                   \* SHA-256(prefix ++ tail) = manifest hash
                   THEN /\ final' = "good" /\ part' = Absent           \* rename .part -> final
                        /\ cnt' = [cnt EXCEPT !.pulled = @ + 1]
                   ELSE /\ part' = [len |-> size, ok |-> FALSE] /\ final' = deleteFinal
                        /\ cnt' = [cnt EXCEPT !.mismatch = @ + 1]
    /\ pc' = "after"
    /\ UNCHANGED <<size, left, sess, calm, att, cur, offset, prefOk, succeeded, exhausted, gate, hist>>

\* processEntry: success return, give-up, or next attempt
After ==
    /\ pc = "after"
    /\ UNCHANGED <<size, final, part, left, sess, calm, cur, offset, prefOk, exhausted>>
    /\ IF cur.t = "ok" /\ final = "good"
         THEN EndSession(TRUE, FALSE, cnt) /\ UNCHANGED att
       ELSE IF att >= Retry
         THEN \* an attempt that ended in "no candidate peers" `continue`s past the give-up block:
              \* the loop ends with failed = FALSE and totalFailed untouched
              LET f == cur.t # "nopeer" \/ "nopeer_fails" \in Fix
              IN EndSession(FALSE, f, IF f THEN [cnt EXCEPT !.failed = @ + 1] ELSE cnt) /\ UNCHANGED att
       ELSE /\ pc' = "precheck" /\ att' = att + 1 /\ UNCHANGED <<succeeded, cnt, gate, hist>>

Done == pc = "done" /\ UNCHANGED vars

Next == StartSession \/ Stop \/ PreCheck \/ Resolve \/ Transfer \/ After \/ Done
Spec == Init /\ [][Next]_vars

-----------------------------------------------------------------------------
TypeOK == /\ final \in {"absent", "good", "bad"}
          /\ part.len \in -1..(size+1)
          /\ att \in 0..Retry

\* (1) a file at its final path has exactly the manifest bytes
FinalGood == final # "absent" => final = "good"

\* (2) the puller never counts a file as present while it is missing at its final path
CountedPresent == (pc \in {"idle", "done"} /\ succeeded) => final = "good"

\* (3) once faults stop, the file ends up present and correct
Converges == (pc = "done" /\ calm) => final = "good"

\* (2') the catch-up status never reports "fully caught up" while the file is missing
GateSound == (pc \in {"idle", "done"} /\ gate = "open") => final = "good"

EmitInv == (Emit /\ pc = "done") => PrintT(<<"TRACE", ToJson(hist)>>)
=============================================================================

------------------------------- MODULE Puller -------------------------------
(***************************************************************************)
(* C25 -- peer file replication never exposes a bad file and converges.    *)
(*                                                                         *)
(* Implementation-shaped model of one manifest file on one replica:        *)
(* internal/cluster/filereplication/puller.go (processEntry, pullOnce,     *)
(* tryResumeFromPartial, writeFileTail, deleteFile), fetch_client.go       *)
(* (Fetch) and the LocalBackend operations it relies on (StatFile, Exists, *)
(* ReadToAt, WriteReader, AppendReader, Delete) as they are written:       *)
(*   - StatFile answers with the size of "<path>.part" when the final      *)
(*     path is absent;                                                     *)
(*   - the pre-pull check is "StatFile == SizeBytes AND the file exists at *)
(*     its final path" (Fix contains "exists"; before /repo 11c4172 it was *)
(*     the size comparison alone: Fix without "exists", kept as the        *)
(*     negative-control configurations NC_presence / NC_converge);         *)
(*   - an attempt walks the resolver's candidate peers in order: any       *)
(*     per-peer failure falls through to the next candidate EXCEPT a       *)
(*     checksum mismatch, which ends the attempt;                          *)
(*   - every pullOnce (i.e. every PEER, not every attempt) re-derives the  *)
(*     resume offset and re-hashes the staged prefix: attempt 1 never      *)
(*     resumes, attempts > 1 resume when 0 < StatFile < SizeBytes;         *)
(*   - WriteReader opens "<path>.part" with O_TRUNC before the first body  *)
(*     byte (and even when the fetch fails before any byte), AppendReader  *)
(*     appends to what is there;                                           *)
(*   - the backend's write call returns (ObserveMidAttempt) BEFORE the     *)
(*     puller's post-processing; promotion (rename .part -> final) happens *)
(*     inside that call and only when the stream ended cleanly, which the  *)
(*     puller lets happen only after Fetch returned nil, i.e. after the    *)
(*     SHA-256 over prefix+tail matched;                                   *)
(*   - deleteFile -> Backend.Delete removes the FINAL path only;           *)
(*   - running out of attempts is a failure also when the last attempt     *)
(*     found no candidate peers (Fix contains "nopeer_fails"; before /repo *)
(*     bd40fd9 that path left failed = FALSE: negative control NC_gate).   *)
(* A file is Size units long; a unit is one byte (or one block) of the     *)
(* real file.  "ok" of a staging file = it is a prefix of the good bytes.  *)
(* The plan of an attempt (0, 1 or 2 candidate peers and one scripted      *)
(* outcome per peer) is consumed at the PeerResolver call.                 *)
(* A "session" is one processEntry run (<= Retry attempts); sessions are   *)
(* re-started (a later FSM callback / catch-up scan) until one complete    *)
(* session has run after the script was exhausted ("faults stopped").      *)
(***************************************************************************)
EXTENDS Integers, Sequences, FiniteSets, TLC, Json

CONSTANTS Sizes,        \* set of file sizes in units
          MaxScript,    \* maximal number of scripted per-peer outcomes (an attempt without peers counts 1)
          Retry,        \* RetryMaxAttempts
          Fix,          \* repairs present in the code; {"exists","nopeer_fails"} = /repo now; {} = as first written;
                        \*   "exists"       presence needs the file at its final path
                        \*   "nopeer_fails" running out of attempts on "no candidate peers" is a failure
          Emit

None == [t |-> "none", k |-> 0]
Ok   == [t |-> "ok", k |-> 0]
\* outcomes of the only / first candidate peer
Outcomes1(sz) == [t : {"dial", "errack", "notfound", "wrongsize", "wronghash", "badoffset", "ok"}, k : {0}]
                 \cup [t : {"trunc", "corrupt"}, k : 0..(sz-1)]
\* a second candidate is only reached when the first one failed with something else than a checksum mismatch
FallsThrough(o) == o.t \in {"dial", "errack", "notfound", "wrongsize", "badoffset", "trunc"}
\* outcomes of the second candidate (the byte-less error acks are all alike for it: one representative)
Outcomes2(sz) == [t : {"dial", "wronghash", "ok"}, k : {0}] \cup [t : {"trunc", "corrupt"}, k : 0..(sz-1)]

Absent == [len |-> -1, ok |-> TRUE]
InitialParts(sz) == {Absent}
                    \cup [len : 0..sz, ok : {TRUE}]          \* (sz, TRUE): complete but never promoted
                    \cup [len : 1..(sz+1), ok : {FALSE}]     \* sz+1: oversize leftovers

VARIABLES size,      \* file size
          final,     \* "absent" | "good" | "bad"
          part,      \* [len, ok] ; len = -1 when absent
          left,      \* number of scripted outcomes still allowed
          sess,      \* number of sessions started
          calm,      \* TRUE when the current session started after the script was exhausted
          att,       \* attempt number inside the session (1..Retry)
          pc,        \* "idle" | "precheck" | "resolve" | "xfer" | "mid" | "post" | "after" | "done"
          plan,      \* [np, o1, o2, x1, x2]: candidates of the current attempt and their outcomes (x = served after the script ended)
          pi,        \* index of the candidate being fetched from (1 | 2)
          offs,      \* <<offset used for candidate 1, offset used for candidate 2>> (-1: not fetched)
          prefOk,    \* the prefix the current pullOnce resumed from is a prefix of the good bytes
          res,       \* result of the current pullOnce: "ok" | "mismatch" | "badoffset" | "error"
          succeeded, \* processEntry's local flag at the end of the last session
          cnt,       \* [pulled, skipped, failed, mismatch]
          exhausted, \* the script has ended: every further outcome is "ok"
          gate,      \* FullyCaughtUp(): "unset" before the catch-up session (the first one) ended, then "open"/"closed"
          hist       \* generation only

vars == <<size, final, part, left, sess, calm, att, pc, plan, pi, offs, prefOk, res, succeeded, cnt, exhausted, gate, hist>>
view == <<size, final, part, left, sess, calm, att, pc, plan, pi, offs, prefOk, res, succeeded, cnt, exhausted, gate>>

MaxSess == MaxScript + 2
NoPlan == [np |-> 0, o1 |-> None, o2 |-> None, x1 |-> FALSE, x2 |-> FALSE]

Obs == [final |-> final, plen |-> part.len, pok |-> part.ok,
        pulled |-> cnt.pulled, skipped |-> cnt.skipped, failed |-> cnt.failed, mismatch |-> cnt.mismatch]

Init == /\ size \in Sizes
        /\ final = "absent"
        /\ part \in InitialParts(size)
        /\ left = MaxScript
        /\ sess = 0 /\ calm = FALSE /\ att = 0 /\ pc = "idle"
        /\ plan = NoPlan /\ pi = 1 /\ offs = <<-1, -1>> /\ prefOk = TRUE /\ res = "error"
        /\ succeeded = FALSE
        /\ cnt = [pulled |-> 0, skipped |-> 0, failed |-> 0, mismatch |-> 0]
        /\ exhausted = FALSE /\ gate = "unset"
        /\ hist = <<[ev |-> "init", size |-> size, plen |-> part.len, pok |-> part.ok]>>

-----------------------------------------------------------------------------
\* LocalBackend.StatFile: the final file's size, else the staging file's size, else -1
Stat == IF final # "absent" THEN size ELSE part.len

\* Enqueue / RunCatchUp -> a worker starts processEntry
StartSession ==
    /\ pc = "idle"
    /\ sess < MaxSess /\ ~(sess > 0 /\ calm)
    /\ sess' = sess + 1 /\ att' = 1 /\ pc' = "precheck"
    /\ calm' = exhausted
    /\ succeeded' = FALSE
    /\ hist' = Append(hist, [ev |-> "session", calm |-> exhausted])
    /\ UNCHANGED <<size, final, part, left, plan, pi, offs, prefOk, res, cnt, exhausted, gate>>

\* the driver stops when a whole session ran after the faults stopped, or at the session bound
Stop ==
    /\ pc = "idle"
    /\ sess > 0
    /\ (calm \/ sess >= MaxSess)
    /\ pc' = "done"
    /\ UNCHANGED <<size, final, part, left, sess, calm, att, plan, pi, offs, prefOk, res, succeeded, cnt, exhausted, gate, hist>>

\* end of a processEntry run: s = succeeded, f = failed (processEntry's two local flags), c = counters, h = history so far.
\* The first session is the catch-up walker's: its defer records a catch-up failure iff f; a later
\* success clears the recorded failure (clearCatchUpFailure).
EndSession(s, f, c, h) ==
    /\ pc' = "idle" /\ succeeded' = s /\ cnt' = c
    /\ gate' = IF sess = 1 THEN (IF f THEN "closed" ELSE "open")
               ELSE IF s THEN "open" ELSE gate
    /\ hist' = Append(h, [ev |-> "end", succeeded |-> s, caught |-> (gate' = "open"), obs |->
                  [final |-> final', plen |-> part'.len, pok |-> part'.ok,
                   pulled |-> c.pulled, skipped |-> c.skipped, failed |-> c.failed, mismatch |-> c.mismatch]])

\* processEntry: pre-pull presence check
PreCheck ==
    /\ pc = "precheck"
    /\ UNCHANGED <<size, final, part, left, sess, calm, att, plan, pi, offs, prefOk, res, exhausted>>
    /\ IF Stat = size /\ ("exists" \in Fix => final # "absent")
         THEN EndSession(TRUE, FALSE, [cnt EXCEPT !.skipped = @ + 1], hist)
         ELSE /\ pc' = "resolve" /\ UNCHANGED <<succeeded, cnt, gate, hist>>

\* PeerResolver.ResolvePeers: the point where the plan of this attempt (candidates + their scripted outcomes) is consumed
Resolve ==
    /\ pc = "resolve"
    /\ \/ /\ ~exhausted /\ left > 0                                  \* no candidate peers
          /\ plan' = NoPlan /\ left' = left - 1 /\ UNCHANGED exhausted
       \/ /\ ~exhausted /\ left > 0                                  \* one candidate
          /\ \E o \in Outcomes1(size) : plan' = [np |-> 1, o1 |-> o, o2 |-> None, x1 |-> FALSE, x2 |-> FALSE]
          /\ left' = left - 1 /\ UNCHANGED exhausted
       \/ /\ ~exhausted /\ left > 1                                  \* two candidates, both scripted
          /\ \E o \in {x \in Outcomes1(size) : FallsThrough(x)}, q \in Outcomes2(size) :
                plan' = [np |-> 2, o1 |-> o, o2 |-> q, x1 |-> FALSE, x2 |-> FALSE]
          /\ left' = left - 2 /\ UNCHANGED exhausted
       \/ /\ ~exhausted /\ left > 0                                  \* two candidates, the script ends after the first
          /\ \E o \in {x \in Outcomes1(size) : FallsThrough(x)} :
                plan' = [np |-> 2, o1 |-> o, o2 |-> Ok, x1 |-> FALSE, x2 |-> TRUE]
          /\ left' = left - 1 /\ exhausted' = TRUE
       \/ /\ ~exhausted                                              \* the script ends here
          /\ plan' = [np |-> 1, o1 |-> Ok, o2 |-> None, x1 |-> TRUE, x2 |-> FALSE]
          /\ exhausted' = TRUE /\ UNCHANGED left
       \/ /\ exhausted
          /\ plan' = [np |-> 1, o1 |-> Ok, o2 |-> None, x1 |-> TRUE, x2 |-> FALSE]
          /\ UNCHANGED <<left, exhausted>>
    /\ pi' = 1 /\ offs' = <<-1, -1>> /\ res' = "error"
    /\ pc' = IF plan'.np = 0 THEN "after" ELSE "xfer"
    \* the resolver call is also where the driver can look at what the previous attempt left behind
    /\ hist' = IF att > 1 THEN Append(hist, [ev |-> "obs", obs |-> Obs]) ELSE hist
    /\ UNCHANGED <<size, final, part, sess, calm, att, prefOk, succeeded, cnt, gate>>

Cur == IF pi = 1 THEN plan.o1 ELSE plan.o2

\* pullOnce, first half: tryResumeFromPartial (attempt > 1 only; the final path is absent here, so ReadToAt hashes the
\* staging file as it is NOW -- after whatever an earlier candidate of the same attempt appended), then Fetch and
\* writeFileTail run to completion.  The state reached is the one in which the backend's write call returns.
Transfer ==
    /\ pc = "xfer"
    /\ LET resume == att > 1 /\ Stat > 0 /\ Stat < size
           off    == IF resume THEN Stat ELSE 0
           pOk    == IF resume THEN part.ok ELSE TRUE
           base   == IF off = 0 THEN [len |-> 0, ok |-> TRUE] ELSE part     \* WriteReader truncates, AppendReader does not
           tail   == size - off
           d      == IF Cur.k < tail - 1 THEN Cur.k ELSE tail - 1           \* units delivered before a truncation
       IN /\ offs' = [offs EXCEPT ![pi] = off]
          /\ prefOk' = pOk
          /\ CASE Cur.t \in {"dial", "errack", "notfound", "wrongsize"} ->
                    /\ part' = base /\ res' = "error" /\ UNCHANGED final
               [] Cur.t = "wronghash" ->
                    /\ part' = base /\ res' = "mismatch" /\ UNCHANGED final
               [] Cur.t = "badoffset" ->
                    /\ part' = base /\ res' = "badoffset" /\ UNCHANGED final
               [] Cur.t = "trunc" ->
                    /\ part' = [len |-> base.len + d, ok |-> base.ok] /\ res' = "error" /\ UNCHANGED final
               [] Cur.t = "corrupt" ->
                    /\ part' = [len |-> size, ok |-> FALSE] /\ res' = "mismatch" /\ UNCHANGED final
               [] Cur.t = "ok" ->
                    IF base.ok /\ pOk                                       \* SHA-256(prefix ++ tail) = manifest hash
                      THEN /\ final' = "good" /\ part' = Absent /\ res' = "ok"   \* clean EOF -> rename .part -> final
                      ELSE /\ part' = [len |-> size, ok |-> FALSE] /\ res' = "mismatch" /\ UNCHANGED final
    /\ pc' = "mid"
    /\ UNCHANGED <<size, left, sess, calm, att, plan, pi, succeeded, cnt, exhausted, gate, hist>>

\* the backend's WriteReader / AppendReader call has returned; the puller has not post-processed yet.  The driver
\* looks at the final path here: (1) must hold in this intermediate state too.
ObserveMidAttempt ==
    /\ pc = "mid"
    /\ pc' = "post"
    /\ hist' = Append(hist, [ev |-> "mid", final |-> final, plen |-> part.len, pok |-> part.ok])
    /\ UNCHANGED <<size, final, part, left, sess, calm, att, plan, pi, offs, prefOk, res, succeeded, cnt, exhausted, gate>>

\* pullOnce, second half, and the candidate loop of processEntry
Post ==
    /\ pc = "post"
    /\ final' = IF res \in {"mismatch", "badoffset"} THEN "absent" ELSE final     \* Backend.Delete(path): final path only
    /\ cnt' = CASE res = "ok" -> [cnt EXCEPT !.pulled = @ + 1]
                [] res = "mismatch" -> [cnt EXCEPT !.mismatch = @ + 1]
                [] OTHER -> cnt
    /\ IF res \in {"error", "badoffset"} /\ pi < plan.np
         THEN pi' = 2 /\ pc' = "xfer"                     \* next candidate
         ELSE pc' = "after" /\ UNCHANGED pi               \* success, checksum mismatch (break), or out of candidates
    /\ UNCHANGED <<size, part, left, sess, calm, att, plan, offs, prefOk, res, succeeded, exhausted, gate, hist>>

AttemptEvent == [ev |-> "attempt", np |-> plan.np, att |-> att,
                 t |-> plan.o1.t, k |-> plan.o1.k, x |-> plan.x1, offset |-> offs[1],
                 t2 |-> plan.o2.t, k2 |-> plan.o2.k, x2 |-> plan.x2, offset2 |-> offs[2]]

\* processEntry: success return, give-up, or next attempt
After ==
    /\ pc = "after"
    /\ UNCHANGED <<size, final, part, left, sess, calm, plan, pi, offs, prefOk, res, exhausted>>
    /\ LET h == Append(hist, AttemptEvent)
       IN IF plan.np > 0 /\ res = "ok"
            THEN EndSession(TRUE, FALSE, cnt, h) /\ UNCHANGED att
          ELSE IF att >= Retry
            THEN \* before bd40fd9 an attempt that ended in "no candidate peers" `continue`d past the give-up block
                 LET f == plan.np > 0 \/ "nopeer_fails" \in Fix
                 IN EndSession(FALSE, f, IF f THEN [cnt EXCEPT !.failed = @ + 1] ELSE cnt, h) /\ UNCHANGED att
          ELSE /\ pc' = "precheck" /\ att' = att + 1 /\ hist' = h /\ UNCHANGED <<succeeded, cnt, gate>>

Done == pc = "done" /\ UNCHANGED vars

Next == StartSession \/ Stop \/ PreCheck \/ Resolve \/ Transfer \/ ObserveMidAttempt \/ Post \/ After \/ Done
Spec == Init /\ [][Next]_vars

-----------------------------------------------------------------------------
TypeOK == /\ final \in {"absent", "good", "bad"}
          /\ part.len \in -1..(size+1)
          /\ att \in 0..Retry

\* (1) a file at its final path has exactly the manifest bytes -- in every state, in particular in the intermediate
\*     state observed by ObserveMidAttempt
FinalGood == final # "absent" => final = "good"

\* (2) the puller never counts a file as present while it is missing at its final path
CountedPresent == (pc \in {"idle", "done"} /\ succeeded) => final = "good"

\* (3) once faults stop, the file ends up present and correct
Converges == (pc = "done" /\ calm) => final = "good"

\* (2') the catch-up status never reports "fully caught up" while the file is missing
GateSound == (pc \in {"idle", "done"} /\ gate = "open") => final = "good"

\* a second candidate never inherits a stale offset: it starts where the staging file now ends
FreshOffsetPerPeer == (pc \in {"mid", "post"} /\ pi = 2 /\ offs[2] > 0) => offs[2] >= offs[1]

EmitInv == (Emit /\ pc = "done") => PrintT(<<"TRACE", ToJson(hist)>>)
=============================================================================

\* NEGATIVE CONTROL: the puller as it was written before 11c4172 (presence decided by StatFile, which falls back to .part) -- TLC is expected to REJECT this configuration
SPECIFICATION Spec
CONSTANTS
  Sizes = {1, 3}
  MaxScript = 3
  Retry = 2
  Fix = {"nopeer_fails"}
  Emit = FALSE
INVARIANTS Converges
VIEW view
CHECK_DEADLOCK FALSE

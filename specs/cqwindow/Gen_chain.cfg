SPECIFICATION Spec
CONSTANTS
  MaxClock = 600
  MaxStep = 2
  BigSteps = {30, 110}
  Enabled = {"sched", "until", "range", "from"}
  MaxCmds = 3
  Points = {5, 7}
  Weight = 1
  Emit = TRUE
INVARIANTS EmitInv
CHECK_DEADLOCK FALSE

------------------------------ MODULE CQTrace ------------------------------
(* Trace validation for C29: every line of trace.ndjson is one recorded execution of the real  *)
(* ContinuousQueryHandler ({"ev":"exec",kind,status,s,e,rows}) or a history separator           *)
(* ({"ev":"end"}).  TLC evaluates CQProp's clauses on every event; an event with a non-empty    *)
(* clause set is reported as <<"PROPVIOL", line, clauses>> and the state is re-synchronised so  *)
(* that the remaining histories of the batch are still judged.                                  *)
EXTENDS Integers, Sequences, FiniteSets, TLC, Json

CONSTANT Period
VARIABLES st, l, bad

P == INSTANCE CQProp

Trace == ndJsonDeserialize("trace.ndjson")

\* clause set -> bit mask (a short tuple is printed on one line)
Code(cl) == (IF "window-empty" \in cl THEN 1 ELSE 0) + (IF "sched-start-not-at-previous-end" \in cl THEN 2 ELSE 0)
            + (IF "row-label-not-window-start" \in cl THEN 4 ELSE 0) + (IF "row-count-not-window-content" \in cl THEN 8 ELSE 0)
            + (IF "window-advanced-by-initial-failure" \in cl THEN 16 ELSE 0)

TraceInit == st = P!Init0 /\ l = 1 /\ bad = 0 /\ TLCSet(1, 0)

TExec == /\ l <= Len(Trace) /\ Trace[l].ev = "exec"
         /\ LET ev == Trace[l]
                cl == P!Clauses(st, ev, TRUE)
            IN IF cl = {}
                 THEN st' = P!Apply(st, ev) /\ bad' = bad
                 ELSE /\ PrintT(<<"PROPVIOL", l, Code(cl)>>)
                      /\ st' = P!Resync(st, ev) /\ bad' = bad + 1
         /\ l' = l + 1

TEnd == /\ l <= Len(Trace) /\ Trace[l].ev = "end"
        /\ st' = P!Init0 /\ l' = l + 1 /\ bad' = bad

TraceNext == TExec \/ TEnd
TraceSpec == TraceInit /\ [][TraceNext]_<<st, l, bad>>

HW == TLCSet(1, IF l > TLCGet(1) THEN l ELSE TLCGet(1))
TraceAccepted == IF TLCGet(1) = Len(Trace) + 1 THEN TRUE
                 ELSE PrintT(<<"REJECTED_AT", TLCGet(1)>>) /\ FALSE
=============================================================================

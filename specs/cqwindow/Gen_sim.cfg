SPECIFICATION Spec
CONSTANTS
  MaxClock = 600
  MaxStep = 2
  BigSteps = {30, 110}
  Enabled = {"tick", "sched", "manual", "dry", "range", "from", "until", "fault", "update", "restart"}
  MaxCmds = 10
  Points = {1, 11, 31}
  Weight = 5
  Emit = TRUE
INVARIANTS EmitInv
CHECK_DEADLOCK FALSE

SPECIFICATION Spec
CONSTANTS
  MaxClock = 28
  MaxStep = 2
  MaxCmds = 10
  Points = {1, 11, 31}
  Weight = 5
  Emit = TRUE
INVARIANTS EmitInv
CHECK_DEADLOCK FALSE

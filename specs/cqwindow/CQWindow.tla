------------------------------ MODULE CQWindow ------------------------------
(***************************************************************************)
(* C29 -- continuous query windows are contiguous and processed once.      *)
(*                                                                         *)
(* Implementation-shaped model of the window bookkeeping of ONE continuous *)
(* query in internal/api/continuous_query.go on an integer clock (one unit *)
(* of the model = 5 real seconds in the driver; the code stores RFC3339    *)
(* seconds).  The clock only takes EVEN values and explicit manual bounds  *)
(* are ODD, so "now" never coincides with an explicit bound: inside one    *)
(* command the driver's clock creeps forward by a second per reading.      *)
(*   last    continuous_queries.last_processed_time (None = NULL)          *)
(*   active  continuous_queries.is_active                                  *)
(*   fault   "query": the source measurement cannot be read (the DuckDB    *)
(*           query fails, zero rows); "write": the query returns a row but *)
(*           the write to the ArrowBuffer fails (NULL time value) -- the   *)
(*           failure point AFTER rows exist; "none"                        *)
(*   qv      shape of the query: 0 = no time column (rows are stamped by   *)
(*           executeAggregation with the window start), 1 = the query      *)
(*           selects its own time column                                   *)
(*   log     continuous_query_executions, in id order                      *)
(* ExecuteCQ (the body of the scheduler tick, cq_scheduler.go:executeJob)  *)
(* and handleExecute as written:                                           *)
(*   not active              -> error, nothing recorded                    *)
(*   start = explicit | last | now - 1h ; end = explicit | now             *)
(*   start >= end            -> error, nothing recorded                    *)
(*   dry_run (manual only)   -> nothing recorded, nothing moves            *)
(*   executeAggregation err  -> row 'failed' (start,end), last unchanged   *)
(*   success                 -> ONE transaction: row 'completed' and       *)
(*                              last := end ; the output row is stamped    *)
(*                              with the window START                      *)
(* handleUpdate rewrites the definition and leaves last_processed_time     *)
(* alone; a restart re-reads everything from SQLite.                       *)
(***************************************************************************)
EXTENDS Integers, Sequences, FiniteSets, TLC, Json

CONSTANTS MaxClock,   \* clock bound (ticks)
          MaxStep,    \* largest ordinary Tick
          BigSteps,   \* outage-sized Ticks (in Tick units of 10 s): gaps of > 24 and > 100 intervals between executions
          Enabled,    \* names of the commands a history may contain (generation families)
          MaxCmds,    \* commands per history
          Points,     \* instants usable as explicit manual bounds (odd numbers)
          Weight,     \* generation bias for -simulate: Tick and Sched each appear Weight times among the
                      \* successors (the copies differ only in an ignored field of the history record)
          Emit        \* TRUE: print one TRACE line per complete history

Hour == 720           \* one hour in units of 5 s
Interval == 2         \* the query's interval ("10s"): a window of >= 2 intervals is a catch-up window
None == -9999
Clock0 == 4          \* the clock starts here so that explicit bounds can lie before the first execution

VARIABLES clock, last, active, fault, qv, log, hist
vars == <<clock, last, active, fault, qv, log, hist>>
view == <<clock, last, active, fault, qv, log, Len(hist)>>

PR == INSTANCE CQProp WITH Period <- 7

Init == /\ clock = Clock0 /\ last = None /\ active = TRUE /\ fault = "none" /\ qv = 0
        /\ log = <<>> /\ hist = <<>>

CanCmd == Len(hist) < MaxCmds

H(c, a, b, o, s, e) == [cmd |-> c, a |-> a, b |-> b, out |-> o, s |-> s, e |-> e]

-----------------------------------------------------------------------------
Tick(d, w) == /\ CanCmd /\ clock + 2 * d <= MaxClock
           /\ clock' = clock + 2 * d
           /\ hist' = Append(hist, H("tick", d, w, "none", None, None))
           /\ UNCHANGED <<last, active, fault, qv, log>>

\* window selection: ExecuteCQ / handleExecute
WinStart(rs) == IF rs # None THEN rs ELSE IF last # None THEN last ELSE clock - Hour
WinEnd(re)   == IF re # None THEN re ELSE clock

Outcome(s, e, dry) == IF ~active THEN "inactive"
                      ELSE IF s >= e THEN "rejected"
                      ELSE IF dry THEN "dry"
                      ELSE IF fault = "query" THEN "failed" ELSE IF fault = "write" THEN "failedw" ELSE "ok"

ExecW(name, kind, rs, re, dry, w) ==
    LET s == WinStart(rs)
        e == WinEnd(re)
        o == Outcome(s, e, dry)
    IN /\ CanCmd
       /\ hist' = Append(hist, H(name, rs, IF w # None THEN w ELSE re, o, IF o \in {"ok", "failed", "failedw", "dry"} THEN s ELSE None,
                                                  IF o \in {"ok", "failed", "failedw", "dry"} THEN e ELSE None))
       /\ log' = IF o \in {"ok", "failed", "failedw"}
                   THEN Append(log, [kind |-> kind, xs |-> rs # None, xe |-> re # None,
                                     status |-> IF o = "ok" THEN "ok" ELSE "failed", fp |-> o, s |-> s, e |-> e,
                                     own |-> qv = 1, wide |-> e - s >= 2 * Interval,
                                     \* executeAggregation: windowMicro := startTime, whatever the width of the window
                                     label |-> IF o = "ok" /\ qv = 0 THEN s ELSE None])
                   ELSE log
       /\ last' = IF o = "ok" THEN e ELSE last                                   \* recordExecutionAndUpdateTime
       /\ UNCHANGED <<clock, active, fault, qv>>

Exec(name, kind, rs, re, dry) == ExecW(name, kind, rs, re, dry, None)
Sched          == \E w \in 1..Weight : ExecW("sched", "sched", None, None, FALSE, w)
ManualDefault  == Exec("manual", "manual", None, None, FALSE)
ManualDry      == Exec("dry", "manual", None, None, TRUE)
ManualRange    == \E a \in Points, b \in Points : a < b /\ Exec("range", "manual", a, b, FALSE)
ManualStart    == \E a \in Points : Exec("from", "manual", a, None, FALSE)
ManualEnd      == \E b \in Points : Exec("until", "manual", None, b, FALSE)

SetFault == /\ CanCmd
            /\ \/ fault = "none" /\ \E f \in {"query", "write"} :
                     /\ fault' = f
                     /\ hist' = Append(hist, H(IF f = "query" THEN "break" ELSE "breakw", None, None, "none", None, None))
               \/ fault # "none" /\ fault' = "none"
                     /\ hist' = Append(hist, H("heal", None, None, "none", None, None))
            /\ UNCHANGED <<clock, last, active, qv, log>>

\* handleUpdate: the UPDATE statement does not mention last_processed_time
UpdToggle == /\ CanCmd /\ active' = ~active
             /\ hist' = Append(hist, H(IF active THEN "deactivate" ELSE "activate", None, None, "none", None, None))
             /\ UNCHANGED <<clock, last, fault, qv, log>>
UpdQuery  == /\ CanCmd /\ qv' = 1 - qv
             /\ hist' = Append(hist, H("requery", 1 - qv, None, "none", None, None))
             /\ UNCHANGED <<clock, last, active, fault, log>>

\* process restart: Close + NewContinuousQueryHandler on the same SQLite file
Restart == /\ CanCmd
           /\ hist' = Append(hist, H("restart", None, None, "none", None, None))
           /\ UNCHANGED <<clock, last, active, fault, qv, log>>

Done == ~CanCmd /\ UNCHANGED vars

On(n) == n \in Enabled
Next == \/ (On("tick") /\ \E d \in (1..MaxStep) \cup BigSteps, w \in 1..Weight : Tick(d, w))
        \/ (On("sched") /\ Sched) \/ (On("manual") /\ ManualDefault) \/ (On("dry") /\ ManualDry)
        \/ (On("range") /\ ManualRange) \/ (On("from") /\ ManualStart) \/ (On("until") /\ ManualEnd)
        \/ (On("fault") /\ SetFault) \/ (On("update") /\ (UpdToggle \/ UpdQuery)) \/ (On("restart") /\ Restart)
        \/ Done

Spec == Init /\ [][Next]_vars

-----------------------------------------------------------------------------
TypeOK == /\ clock \in 0..MaxClock /\ active \in BOOLEAN /\ fault \in {"none", "query", "write"} /\ qv \in {0, 1}
          /\ last \in Int

OkIdx == {i \in 1..Len(log) : log[i].status = "ok"}
PrevOk(i) == {j \in OkIdx : j < i}
Max(S) == CHOOSE x \in S : \A y \in S : y <= x

\* every recorded window is non-empty
NonEmpty == \A i \in 1..Len(log) : log[i].s < log[i].e

\* window selection from the last processed time: an execution whose start was not given
\* explicitly (every scheduled one) starts where the previous successful execution ended
StartAtCursor ==
    \A i \in 1..Len(log) :
        (~log[i].xs /\ PrevOk(i) # {}) => log[i].s = log[Max(PrevOk(i))].e

\* the cursor is the end of the last successful execution (a failure moved nothing)
CursorIsLastOk == IF OkIdx = {} THEN last = None ELSE last = log[Max(OkIdx)].e

\* output rows are labelled with the start of the window they summarise
LabelIsStart == \A i \in OkIdx : ~log[i].own => log[i].label = log[i].s

\* successive successful scheduled windows are contiguous (hence non-overlapping) as long as no
\* successful manual execution with an explicit bound lies between them
SchedOk == {i \in OkIdx : log[i].kind = "sched"}
NextSched(i) == {j \in SchedOk : j > i /\ \A k \in SchedOk : ~(i < k /\ k < j)}
ChainContigNoRange ==
    \A i \in SchedOk : \A j \in NextSched(i) :
        (\A k \in (i+1)..(j-1) : log[k].status = "ok" => (~log[k].xs /\ ~log[k].xe))
          => \* the windows in between form one chain from log[i].e to log[j].s
             LET mids == {k \in (i+1)..(j-1) : log[k].status = "ok"}
             IN IF mids = {} THEN log[j].s = log[i].e
                ELSE log[j].s = log[Max(mids)].e /\ log[Max(mids)].e >= log[i].e

\* the literal reading "scheduled windows never overlap / leave no hole": violated by the code as
\* written, because a successful manual run with explicit bounds re-positions the cursor. Checked in
\* MC_contig.cfg only; a TLC counter-example there is a candidate schedule, never a verdict.
SchedNoOverlap ==
    \A i \in SchedOk : \A j \in SchedOk : i < j => log[j].s >= log[i].e
SchedNoGap ==
    \A i \in SchedOk : \A j \in NextSched(i) :
        \A t \in log[i].e .. (log[j].s - 1) :
            \E k \in (i+1)..(j-1) : log[k].status = "ok" /\ log[k].s <= t /\ t < log[k].e

\* refinement: the execution log is accepted by the property-level module CQProp
PropEv(i) == [kind |-> log[i].kind, status |-> log[i].status, s |-> log[i].s, e |-> log[i].e, xs |-> log[i].xs \/ log[i].xe, own |-> log[i].own,
              rows |-> IF log[i].status = "ok" /\ ~log[i].own THEN <<[t |-> log[i].label, n |-> 0]>> ELSE <<>>]
RECURSIVE Fold(_, _)
Fold(i, st) == IF i > Len(log) THEN TRUE
               ELSE /\ PR!Clauses(st, PropEv(i), FALSE) = {}
                    /\ Fold(i + 1, PR!Apply(st, PropEv(i)))
RefinesProp == Fold(1, PR!Init0)

Safety == TypeOK /\ NonEmpty /\ StartAtCursor /\ CursorIsLastOk /\ LabelIsStart /\ ChainContigNoRange /\ RefinesProp

\* a failed (or dry / rejected / inactive) command does not advance the window
FailKeeps == [][ (Len(log') = Len(log) \/ log'[Len(log')].status = "failed") => last' = last ]_vars

\* generation: one line per complete history
EmitInv == (Emit /\ ~CanCmd) => PrintT(<<"TRACE", ToJson(hist)>>)
=============================================================================

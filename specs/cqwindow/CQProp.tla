------------------------------- MODULE CQProp -------------------------------
(***************************************************************************)
(* C29, property level.  Only what a user can observe: the rows of the     *)
(* execution history (kind, status, window) in the order they were         *)
(* recorded, and the rows each execution added to the destination          *)
(* measurement.  The state is the set of instants at which the next        *)
(* scheduled execution may start:                                          *)
(*   - before the first successful execution anything goes (free);         *)
(*   - a successful scheduled execution [s,e) makes it {e};                *)
(*   - a successful manual execution [s,e) that starts at an allowed        *)
(*     instant makes it {e} (it is a link of the chain); any other         *)
(*     successful manual execution ADDS e (the statement says              *)
(*     "starting where the previous successful execution ended", and an    *)
(*     implementation in which a manual run leaves the schedule alone      *)
(*     keeps the old value: both are accepted);                            *)
(*   - a failed execution changes nothing.                                 *)
(* Clauses (each names the part of the statement it encodes):              *)
(*   window-empty                       a recorded window has start<end    *)
(*   sched-start-not-at-previous-end    contiguous, non-overlapping,       *)
(*                                      failure does not advance           *)
(*   row-label-not-window-start         rows are labelled with the start   *)
(*                                      (queries without a time column of  *)
(*                                      their own: ev.own = FALSE), for    *)
(*                                      windows of any width               *)
(*   row-count-not-window-content       ...of the window they summarise    *)
(*                                      (source points every Period s)     *)
(*   window-advanced-by-initial-failure a failed execution does not advance *)
(*       the window ALSO before the query has ever succeeded.  A query that *)
(*       never ran has no position; the code looks back a default distance  *)
(*       from "now" (one hour in ExecuteCQ/handleExecute).  Whatever that   *)
(*       default is -- a sliding look-back or a fixed anchor -- a failure    *)
(*       must not shorten it: while no execution has succeeded, a scheduled *)
(*       window is at least as long as every earlier FAILED window whose    *)
(*       bounds were both chosen by the code (ev.xs = FALSE; fl = longest   *)
(*       such window, forgotten after any success).  A code                 *)
(*       that resumes at the failed window's end yields a shorter window.   *)
(***************************************************************************)
EXTENDS Integers, Sequences, FiniteSets

CONSTANT Period

Init0 == [free |-> TRUE, curs |-> {}, fl |-> 0]

CeilDiv(x)  == (x + Period - 1) \div Period
Count(s, e) == CeilDiv(e) - CeilDiv(s)          \* source points k*Period in [s, e)

\* checkCount = FALSE when the caller has no row contents (refinement check from the Impl model)
Clauses(st, ev, checkCount) ==
    (IF ev.s < ev.e THEN {} ELSE {"window-empty"})
    \cup (IF ev.kind = "sched" /\ ~st.free /\ ev.s \notin st.curs
            THEN {"sched-start-not-at-previous-end"} ELSE {})
    \cup (IF ev.kind = "sched" /\ st.free /\ ev.e - ev.s < st.fl
            THEN {"window-advanced-by-initial-failure"} ELSE {})
    \cup (IF ev.status = "ok" /\ ~ev.own /\ \E i \in 1..Len(ev.rows) : ev.rows[i].t # ev.s
            THEN {"row-label-not-window-start"} ELSE {})
    \cup (IF checkCount /\ ev.status = "ok" /\ \E i \in 1..Len(ev.rows) : ev.rows[i].n # Count(ev.s, ev.e)
            THEN {"row-count-not-window-content"} ELSE {})

Longer(a, b) == IF a > b THEN a ELSE b
Apply(st, ev) ==
    IF ev.status # "ok"
      THEN IF st.free /\ ~ev.xs THEN [st EXCEPT !.fl = Longer(st.fl, ev.e - ev.s)] ELSE st
    ELSE IF ev.kind = "sched" THEN [free |-> FALSE, curs |-> {ev.e}, fl |-> 0]
    ELSE IF st.free THEN [st EXCEPT !.fl = 0]      \* a successful manual run may have given the query a position
    \* a manual window that starts exactly where the schedule stands is one more link of the chain ("each starting
    \* where the previous successful execution ended"): the next scheduled window starts at ITS end, otherwise the
    \* span is processed twice.  Any other manual window: both readings accepted.
    ELSE IF ev.s \in st.curs THEN [free |-> FALSE, curs |-> {ev.e}, fl |-> 0]
    ELSE [free |-> FALSE, curs |-> st.curs \cup {ev.e}, fl |-> 0]

\* re-synchronisation after a rejected event (trace validation keeps going to report every
\* violating history of a batch): behave as if the event had been legal
Resync(st, ev) ==
    IF ev.status # "ok" THEN Apply(st, ev) ELSE [free |-> FALSE, curs |-> {ev.e}, fl |-> 0]
=============================================================================

------------------------------- MODULE CQProp -------------------------------
(***************************************************************************)
(* C29, property level.  Only what a user can observe: the rows of the     *)
(* execution history (kind, status, window) in the order they were         *)
(* recorded, and the rows each execution added to the destination          *)
(* measurement.  The state is the set of instants at which the next        *)
(* scheduled execution may start:                                          *)
(*   - before the first successful execution anything goes (free);         *)
(*   - a successful scheduled execution [s,e) makes it {e};                *)
(*   - a successful manual execution [s,e) ADDS e (the statement says      *)
(*     "starting where the previous successful execution ended", and an    *)
(*     implementation in which a manual run leaves the schedule alone      *)
(*     keeps the old value: both are accepted);                            *)
(*   - a failed execution changes nothing.                                 *)
(* Clauses (each names the part of the statement it encodes):              *)
(*   window-empty                       a recorded window has start<end    *)
(*   sched-start-not-at-previous-end    contiguous, non-overlapping,       *)
(*                                      failure does not advance           *)
(*   row-label-not-window-start         rows are labelled with the start   *)
(*   row-count-not-window-content       ...of the window they summarise    *)
(*                                      (source points every Period s)     *)
(***************************************************************************)
EXTENDS Integers, Sequences, FiniteSets

CONSTANT Period

Init0 == [free |-> TRUE, curs |-> {}]

CeilDiv(x)  == (x + Period - 1) \div Period
Count(s, e) == CeilDiv(e) - CeilDiv(s)          \* source points k*Period in [s, e)

\* checkCount = FALSE when the caller has no row contents (refinement check from the Impl model)
Clauses(st, ev, checkCount) ==
    (IF ev.s < ev.e THEN {} ELSE {"window-empty"})
    \cup (IF ev.kind = "sched" /\ ~st.free /\ ev.s \notin st.curs
            THEN {"sched-start-not-at-previous-end"} ELSE {})
    \cup (IF ev.status = "ok" /\ \E i \in 1..Len(ev.rows) : ev.rows[i].t # ev.s
            THEN {"row-label-not-window-start"} ELSE {})
    \cup (IF checkCount /\ ev.status = "ok" /\ \E i \in 1..Len(ev.rows) : ev.rows[i].n # Count(ev.s, ev.e)
            THEN {"row-count-not-window-content"} ELSE {})

Apply(st, ev) ==
    IF ev.status # "ok" THEN st
    ELSE IF ev.kind = "sched" THEN [free |-> FALSE, curs |-> {ev.e}]
    ELSE IF st.free THEN st
    ELSE [free |-> FALSE, curs |-> st.curs \cup {ev.e}]

\* re-synchronisation after a rejected event (trace validation keeps going to report every
\* violating history of a batch): behave as if the event had been legal
Resync(st, ev) ==
    IF ev.status # "ok" THEN st ELSE [free |-> FALSE, curs |-> {ev.e}]
=============================================================================

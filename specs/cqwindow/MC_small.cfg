SPECIFICATION Spec
CONSTANTS
  MaxClock = 600
  MaxStep = 2
  BigSteps = {30, 110}
  Enabled = {"tick", "sched", "manual", "dry", "range", "from", "until", "fault", "update", "restart"}
  MaxCmds = 4
  Points = {1, 7, 13}
  Weight = 1
  Emit = FALSE
VIEW view
INVARIANTS Safety
PROPERTIES FailKeeps
CHECK_DEADLOCK FALSE

SPECIFICATION Spec
CONSTANTS
  MaxClock = 12
  MaxStep = 2
  MaxCmds = 5
  Points = {1, 5, 7, 13}
  Weight = 1
  Emit = FALSE
VIEW view
INVARIANTS Safety
PROPERTIES FailKeeps
CHECK_DEADLOCK FALSE

SPECIFICATION Spec
CONSTANTS
  MaxClock = 12
  MaxStep = 2
  MaxCmds = 3
  Points = {1, 7, 13}
  Weight = 1
  Emit = TRUE
INVARIANTS EmitInv
CHECK_DEADLOCK FALSE

SPECIFICATION Spec
CONSTANTS
  MaxClock = 600
  MaxStep = 2
  BigSteps = {30, 110}
  Enabled = {"tick", "sched", "manual", "dry", "range", "from", "until", "fault", "update", "restart"}
  MaxCmds = 3
  Points = {1, 7, 13}
  Weight = 1
  Emit = TRUE
INVARIANTS EmitInv
CHECK_DEADLOCK FALSE

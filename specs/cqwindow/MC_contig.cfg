SPECIFICATION Spec
CONSTANTS
  MaxClock = 12
  MaxStep = 2
  MaxCmds = 4
  Points = {1, 7, 13}
  Weight = 1
  Emit = FALSE
VIEW view
INVARIANTS SchedNoOverlap SchedNoGap
CHECK_DEADLOCK FALSE

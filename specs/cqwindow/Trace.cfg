SPECIFICATION TraceSpec
CONSTANTS
  Period = 7
CONSTRAINT HW
POSTCONDITION TraceAccepted
CHECK_DEADLOCK FALSE

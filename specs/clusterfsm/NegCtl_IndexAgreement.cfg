SPECIFICATION Spec
CONSTANTS
  NodeIds = {"n1", "n2", "n3"}
  MaxLen = 3
  Focus = {"file"}
  Emit = "none"
  MaxBatch = 1
  AsWritten = TRUE
VIEW View
INVARIANTS IndexAgreement
CHECK_DEADLOCK FALSE

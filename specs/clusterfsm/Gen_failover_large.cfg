SPECIFICATION Spec
CONSTANTS
  NodeIds = {"n1", "n2"}
  MaxLen = 6
  Focus = {"failover"}
  Emit = "edge"
  MaxBatch = 1
  AsWritten = FALSE
VIEW ViewLast2
INVARIANTS UniqueKeys IndexAgreement RestoreFidelity RestoreShrinks RBACParentsExist
ACTION_CONSTRAINT EmitEdge
CHECK_DEADLOCK FALSE

SPECIFICATION Spec
CONSTANTS
  NodeIds = {"n1", "n2", "n3"}
  MaxLen = 4
  Focus = {"file"}
  Emit = "edge"
  MaxBatch = 2
  AsWritten = FALSE
VIEW View
INVARIANTS UniqueKeys IndexAgreement RestoreFidelity RestoreShrinks RBACParentsExist BatchAllOrNothing
ACTION_CONSTRAINT EmitEdge
CHECK_DEADLOCK FALSE

SPECIFICATION SpecFast
CONSTANTS
  NodeIds = {"n1", "n2", "n3"}
  MaxLen = 14
  Focus = {"deep"}
  Emit = "end"
  MaxBatch = 1
  AsWritten = FALSE
INVARIANTS RBACParentsExist IndexAgreement EmitEnd
CHECK_DEADLOCK FALSE

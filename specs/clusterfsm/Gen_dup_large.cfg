SPECIFICATION Spec
CONSTANTS
  NodeIds = {"n1", "n2"}
  MaxLen = 6
  Focus = {"dup"}
  Emit = "edge"
  MaxBatch = 1
  AsWritten = FALSE
INVARIANTS UniqueKeys IndexAgreement RestoreFidelity RBACParentsExist
ACTION_CONSTRAINT EmitEdge
CHECK_DEADLOCK FALSE

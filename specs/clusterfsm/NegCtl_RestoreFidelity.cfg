SPECIFICATION Spec
CONSTANTS
  NodeIds = {"n1", "n2", "n3"}
  MaxLen = 3
  Focus = {"token"}
  Emit = "none"
  MaxBatch = 1
  AsWritten = TRUE
VIEW View
INVARIANTS RestoreFidelity
CHECK_DEADLOCK FALSE

SPECIFICATION Spec
CONSTANTS
  NodeIds = {"n1", "n2", "n3"}
  MaxLen = 3
  Focus = {"file"}
  Emit = "edge"
  MaxBatch = 2
VIEW View
INVARIANTS UniqueKeys AuthIndexAgreement RestoreFidelityWhenClean RestoreShrinks RBACParentsExist BatchAllOrNothing
ACTION_CONSTRAINT EmitEdge
CHECK_DEADLOCK FALSE

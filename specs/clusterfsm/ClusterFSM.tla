------------------------------ MODULE ClusterFSM ------------------------------
(***************************************************************************)
(* C22 / C23 -- the replicated cluster state machine                       *)
(* (internal/cluster/raft/fsm.go, fsm_rbac.go), every apply* command AS    *)
(* WRITTEN: validation order, mutate-before-error paths, secondary index   *)
(* maintenance, cascades that walk the indexes (not the primaries), and    *)
(* Snapshot/Persist/Restore with the restore-time quarantine rules.        *)
(*                                                                         *)
(* Maps are modelled as sets of records (a Go map with unique keys); the   *)
(* secondary indexes are separate sets so that a stale index is a state    *)
(* the model can be in.  IDs of tokens / RBAC entities are the Raft log     *)
(* index of the creating command (as in the code).  Strings whose only     *)
(* relevant feature is "valid / empty / too long / malformed" are          *)
(* represented by one member of each class.                                *)
(*                                                                         *)
(* Apply(s, c, i) is a function of the state, the command and the log      *)
(* index: replay determinism is by construction in the model.  With        *)
(* AsWritten = FALSE (the code after the four fix commits) the model        *)
(* satisfies RestoreFidelity and IndexAgreement in every reachable state;   *)
(* AsWritten = TRUE is the code as first read and is kept as a negative     *)
(* control (NegCtl_*.cfg: TLC must find the counterexample).  The C23       *)
(* role invariants are still violated by AddNode/UpdateNode (whole-record   *)
(* replacement) and are probed, not asserted.                               *)
(* The real code is judged by the Go driver (real-vs-real); this module    *)
(* supplies the histories and the predicted state (drift detector).        *)
(***************************************************************************)
EXTENDS Naturals, Sequences, FiniteSets, TLC, Json

CONSTANTS NodeIds,    \* node universe, e.g. {"n1","n2","n3"}
          MaxLen,     \* log entries per history
          Focus,      \* subset of {"node","file","token","rbac"}: command families enabled
          Emit,       \* "none" | "edge" (every explored transition) | "end" (end of a simulated history)
          MaxBatch,   \* ops per CommandBatchFileOps (1..MaxBatch)
          AsWritten   \* FALSE: the code as it is now (fix commits 0053d98 c0a37a3 26e1696 954316d in /repo);
                      \* TRUE: the code as first read (negative control: TLC must reject it)

VARIABLES st, idx, hist
vars == <<st, idx, hist>>

-----------------------------------------------------------------------------
\* value classes
GoodPaths == {"a/f1", "a/f2"}
BadPaths  == {"", "/abs/f", "a/../f", "s3://b/f"}       \* empty, absolute, traversal, scheme
ValidPath(p) == p \in GoodPaths
DBs       == {"d1", "d2", ""}
GoodPerms == {"read", "read, write", ""}
ValidPerms(p) == p \in GoodPerms
LONG      == "LONG"                                      \* driver: 257 bytes
ValidName(n) == n # "" /\ n # LONG
NoId      == 99                                          \* never a log index
\* token expiry values relative to created_at (always 1000): none, before, equal, after
Exps      == {0, 500, 1000, 2000}

Only(S) == CHOOSE x \in S : TRUE

Empty == [nodes |-> {}, primary |-> "", compactor |-> "",
          files |-> {}, fdb |-> {},
          tokens |-> {}, tpre |-> {}, tname |-> {},
          orgs |-> {}, oname |-> {},
          teams |-> {}, torg |-> {},
          roles |-> {}, rteam |-> {},
          mperms |-> {}, mrole |-> {},
          mems |-> {}, mpair |-> {}, mtok |-> {}, mteam |-> {}]

R(s, ok) == [s |-> s, ok |-> ok]

-----------------------------------------------------------------------------
\* node / writer / compactor commands (fsm.go applyAddNode .. applyAssignCompactor)

NodeOf(s, n)  == {x \in s.nodes : x.id = n}
HasNode(s, n) == NodeOf(s, n) # {}
SetWs(nodes, n, w) == {IF x.id = n THEN [x EXCEPT !.ws = w] ELSE x : x \in nodes}

\* applyAddNode / applyUpdateNode: the whole record is replaced by the payload
ApplyPutNode(s, c) ==
    R([s EXCEPT !.nodes = {x \in s.nodes : x.id # c.id}
                           \cup {[id |-> c.id, role |-> c.role, ws |-> c.ws, state |-> c.state]}], TRUE)

\* applyRemoveNode: primaryWriterID is cleared when it names the removed node (as first written: not
\* touched); activeCompactorID is never touched
ApplyRemoveNode(s, c) ==
    R([s EXCEPT !.nodes = {x \in s.nodes : x.id # c.id},
                !.primary = IF ~AsWritten /\ @ = c.id THEN "" ELSE @], TRUE)

ApplyNodeState(s, c) ==
    IF HasNode(s, c.id)
      THEN R([s EXCEPT !.nodes = {IF x.id = c.id THEN [x EXCEPT !.state = c.state] ELSE x : x \in s.nodes}], TRUE)
      ELSE R(s, FALSE)

\* applyPromoteWriter: an unknown node is refused before any mutation.  (As first written: role check
\* only when the node exists; the old primary was demoted and primaryWriterID assigned BEFORE the
\* "node not found" error was returned.)
ApplyPromote(s, c) ==
    IF c.id = "" THEN R(s, FALSE)
    ELSE IF ~AsWritten /\ ~HasNode(s, c.id) THEN R(s, FALSE)
    ELSE IF HasNode(s, c.id) /\ Only(NodeOf(s, c.id)).role # "writer" THEN R(s, FALSE)
    ELSE LET old == s.primary
             n1  == IF old # "" /\ old # c.id THEN SetWs(s.nodes, old, "standby") ELSE s.nodes
             n2  == SetWs(n1, c.id, "primary")
         IN R([s EXCEPT !.nodes = n2, !.primary = c.id], HasNode(s, c.id))

\* applyDemoteWriter: primaryWriterID is cleared even when the node is unknown (error returned)
ApplyDemote(s, c) ==
    IF c.id = "" THEN R(s, FALSE)
    ELSE R([s EXCEPT !.nodes = SetWs(s.nodes, c.id, "standby"),
                     !.primary = IF s.primary = c.id THEN "" ELSE s.primary], HasNode(s, c.id))

ApplyCompactor(s, c) ==
    IF c.id = "" THEN R(s, FALSE) ELSE R([s EXCEPT !.compactor = c.id], TRUE)

-----------------------------------------------------------------------------
\* file manifest (applyRegisterFileStruct, applyUpdateFileStruct, applyDeleteFileStruct, applyBatchFileOps)

FileOf(s, p) == {x \in s.files : x.path = p}

\* register and update: index entry always added (also for database "")
\* (as first written, update added it only when database # "")
PutFile(s, o, i, isUpdate) ==
    LET old  == FileOf(s, o.path)
        fdb1 == IF old # {} /\ Only(old).db # o.db
                  THEN s.fdb \ {[db |-> Only(old).db, path |-> o.path]} ELSE s.fdb
        fdb2 == IF AsWritten /\ isUpdate /\ o.db = "" THEN fdb1 ELSE fdb1 \cup {[db |-> o.db, path |-> o.path]}
    IN [s EXCEPT !.files = (s.files \ old) \cup {[path |-> o.path, db |-> o.db, sz |-> o.sz, lsn |-> i]},
                 !.fdb = fdb2]

FileOpOk(o) ==
    CASE o.k \in {"reg", "upd"} -> ValidPath(o.path) /\ ~o.cz
      [] o.k = "del"            -> o.path # ""
      [] OTHER                  -> FALSE            \* unsupported op type / malformed payload

ApplyFileOp(s, o, i) ==
    IF ~FileOpOk(o) THEN R(s, FALSE)
    ELSE CASE o.k = "reg" -> R(PutFile(s, o, i, FALSE), TRUE)
           [] o.k = "upd" -> R(PutFile(s, o, i, TRUE), TRUE)
           [] o.k = "del" ->
                LET old == FileOf(s, o.path) IN
                R([s EXCEPT !.files = s.files \ old,
                            !.fdb = IF old = {} THEN s.fdb
                                    ELSE s.fdb \ {[db |-> Only(old).db, path |-> o.path]}], TRUE)

RECURSIVE FoldOps(_, _, _)
FoldOps(s, ops, i) ==
    IF ops = <<>> THEN s ELSE FoldOps(ApplyFileOp(s, Head(ops), i).s, Tail(ops), i)

\* pre-validation pass refuses the whole batch before any mutation
ApplyBatch(s, c, i) ==
    IF \E k \in 1..Len(c.ops) : ~FileOpOk(c.ops[k]) THEN R(s, FALSE)
    ELSE R(FoldOps(s, c.ops, i), TRUE)

-----------------------------------------------------------------------------
\* tokens (applyCreateToken .. applyRotateToken)

TokOf(s, id) == {x \in s.tokens : x.id = id}

ApplyCreateToken(s, c, i) ==
    IF ~ValidName(c.name) \/ c.hash = "" \/ c.prefix = "" \/ ~ValidPerms(c.perms) \/ c.cz THEN R(s, FALSE)
    ELSE IF \E b \in s.tname : b.name = c.name THEN R(s, FALSE)
    ELSE R([s EXCEPT !.tokens = @ \cup {[id |-> i, name |-> c.name, prefix |-> c.prefix, hash |-> c.hash,
                                          perms |-> c.perms, enabled |-> TRUE, exp |-> c.exp, lsn |-> i]},
                     !.tpre   = @ \cup {[prefix |-> c.prefix, id |-> i]},
                     !.tname  = @ \cup {[name |-> c.name, id |-> i]}], TRUE)

\* a changed name obeys the rules of validateTokenEntry (as first written it was not validated:
\* empty / over-long accepted, then quarantined by Restore)
ApplyUpdateToken(s, c, i) ==
    IF c.id = 0 THEN R(s, FALSE)
    ELSE IF "permissions" \in c.changed /\ ~ValidPerms(c.perms) THEN R(s, FALSE)
    ELSE IF ~AsWritten /\ "name" \in c.changed /\ ~ValidName(c.name) THEN R(s, FALSE)
    ELSE IF TokOf(s, c.id) = {} THEN R(s, TRUE)                      \* unknown token: dropped, nil
    ELSE LET e == Only(TokOf(s, c.id)) IN
         IF "name" \in c.changed /\ \E b \in s.tname : b.name = c.name /\ b.id # c.id THEN R(s, FALSE)
         ELSE LET nm == IF "name" \in c.changed THEN c.name ELSE e.name
                  pm == IF "permissions" \in c.changed THEN c.perms ELSE e.perms
                  \* expires_at is written as given: no relation to created_at (= 1000) is enforced anywhere
                  ex == IF "expires_at" \in c.changed THEN c.exp ELSE e.exp
                  e2 == [e EXCEPT !.name = nm, !.perms = pm, !.exp = ex, !.lsn = i]
              IN R([s EXCEPT !.tokens = (@ \ {e}) \cup {e2},
                             !.tname  = IF "name" \in c.changed
                                          THEN {b \in @ : b.name # e.name} \cup {[name |-> c.name, id |-> e.id]}
                                          ELSE @], TRUE)

ApplyRevoke(s, c, i) ==
    IF c.id = 0 THEN R(s, FALSE)
    ELSE IF TokOf(s, c.id) = {} THEN R(s, TRUE)
    ELSE LET e == Only(TokOf(s, c.id)) IN
         R([s EXCEPT !.tokens = (@ \ {e}) \cup {[e EXCEPT !.enabled = FALSE, !.lsn = i]}], TRUE)

\* membership cascade walks tokenMembershipsByToken
ApplyDeleteToken(s, c) ==
    IF c.id = 0 THEN R(s, FALSE)
    ELSE IF TokOf(s, c.id) = {} THEN R(s, TRUE)
    ELSE LET e    == Only(TokOf(s, c.id))
             mids == {b.id : b \in {b \in s.mtok : b.token = c.id}}
             gone == {m \in s.mems : m.id \in mids}
         IN R([s EXCEPT !.tokens = @ \ {e},
                        !.tpre   = @ \ {[prefix |-> e.prefix, id |-> e.id]},
                        !.tname  = {b \in @ : b.name # e.name},
                        !.mems   = @ \ gone,
                        !.mpair  = {b \in @ : ~\E m \in gone : b.token = m.token /\ b.team = m.team},
                        !.mteam  = {b \in @ : ~\E m \in gone : b.team = m.team /\ b.id = m.id},
                        !.mtok   = {b \in @ : b.token # c.id}], TRUE)

ApplyRotate(s, c, i) ==
    IF c.id = 0 \/ c.hash = "" \/ c.prefix = "" THEN R(s, FALSE)
    ELSE IF TokOf(s, c.id) = {} THEN R(s, TRUE)
    ELSE LET e == Only(TokOf(s, c.id)) IN
         R([s EXCEPT !.tokens = (@ \ {e}) \cup {[e EXCEPT !.hash = c.hash, !.prefix = c.prefix, !.lsn = i]},
                     !.tpre   = (@ \ {[prefix |-> e.prefix, id |-> e.id]}) \cup {[prefix |-> c.prefix, id |-> e.id]}], TRUE)

-----------------------------------------------------------------------------
\* RBAC (fsm_rbac.go)

OrgOf(s, id)   == {x \in s.orgs : x.id = id}
TeamOf(s, id)  == {x \in s.teams : x.id = id}
RoleOf(s, id)  == {x \in s.roles : x.id = id}
MPermOf(s, id) == {x \in s.mperms : x.id = id}

\* cascadeDeleteRoleLocked over a set of role ids: walks measurementPermsByRole
CascadeRoles(s, rids) ==
    LET mpids == {b.id : b \in {b \in s.mrole : b.role \in rids}} IN
    [s EXCEPT !.mperms = {x \in @ : x.id \notin mpids},
              !.mrole  = {b \in @ : b.role \notin rids}]

\* cascadeDeleteTeamLocked over a set of team ids: walks rolesByTeam and tokenMembershipsByTeam
CascadeTeams(s, tids) ==
    LET rids == {b.id : b \in {b \in s.rteam : b.team \in tids}}
        s1   == CascadeRoles(s, rids)
        mids == {b.id : b \in {b \in s.mteam : b.team \in tids}}
        gone == {m \in s.mems : m.id \in mids}
    IN [s1 EXCEPT !.roles = {x \in @ : x.id \notin rids},
                  !.rteam = {b \in @ : b.team \notin tids},
                  !.mems  = @ \ gone,
                  !.mpair = {b \in @ : ~\E m \in gone : b.token = m.token /\ b.team = m.team},
                  !.mtok  = {b \in @ : ~\E m \in gone : b.token = m.token /\ b.id = m.id},
                  !.mteam = {b \in @ : b.team \notin tids}]

ApplyCreateOrg(s, c, i) ==
    IF ~ValidName(c.name) \/ c.cz THEN R(s, FALSE)
    ELSE IF \E b \in s.oname : b.name = c.name THEN R(s, FALSE)
    ELSE R([s EXCEPT !.orgs  = @ \cup {[id |-> i, name |-> c.name, enabled |-> TRUE, lsn |-> i]},
                     !.oname = @ \cup {[name |-> c.name, id |-> i]}], TRUE)

ApplyUpdateOrg(s, c, i) ==
    IF c.id = 0 THEN R(s, FALSE)
    ELSE IF "name" \in c.changed /\ ~ValidName(c.name) THEN R(s, FALSE)
    ELSE IF OrgOf(s, c.id) = {} THEN R(s, FALSE)
    ELSE LET e   == Only(OrgOf(s, c.id))
             ren == "name" \in c.changed /\ c.name # e.name
         IN IF ren /\ \E b \in s.oname : b.name = c.name THEN R(s, FALSE)
            ELSE LET e2 == [e EXCEPT !.name = IF ren THEN c.name ELSE @,
                                     !.enabled = IF "enabled" \in c.changed THEN c.enabled ELSE @,
                                     !.lsn = i]
                 IN R([s EXCEPT !.orgs  = (@ \ {e}) \cup {e2},
                                !.oname = IF ren THEN {b \in @ : b.name # e.name} \cup {[name |-> c.name, id |-> c.id]}
                                          ELSE @], TRUE)

\* cascade walks teamsByOrg
ApplyDeleteOrg(s, c) ==
    IF c.id = 0 THEN R(s, FALSE)
    ELSE IF OrgOf(s, c.id) = {} THEN R(s, TRUE)
    ELSE LET e    == Only(OrgOf(s, c.id))
             tids == {b.id : b \in {b \in s.torg : b.org = c.id}}
             s1   == CascadeTeams(s, tids)
         IN R([s1 EXCEPT !.teams = {x \in @ : x.id \notin tids},
                         !.orgs  = @ \ {e},
                         !.oname = {b \in @ : b.name # e.name},
                         !.torg  = {b \in @ : b.org # c.id}], TRUE)

ApplyCreateTeam(s, c, i) ==
    IF c.org = 0 \/ ~ValidName(c.name) \/ c.cz THEN R(s, FALSE)
    ELSE IF OrgOf(s, c.org) = {} THEN R(s, FALSE)
    ELSE IF \E b \in s.torg : b.org = c.org /\ b.name = c.name THEN R(s, FALSE)
    ELSE R([s EXCEPT !.teams = @ \cup {[id |-> i, org |-> c.org, name |-> c.name, enabled |-> TRUE, lsn |-> i]},
                     !.torg  = @ \cup {[org |-> c.org, name |-> c.name, id |-> i]}], TRUE)

ApplyUpdateTeam(s, c, i) ==
    IF c.id = 0 THEN R(s, FALSE)
    ELSE IF "name" \in c.changed /\ ~ValidName(c.name) THEN R(s, FALSE)
    ELSE IF TeamOf(s, c.id) = {} THEN R(s, FALSE)
    ELSE LET e   == Only(TeamOf(s, c.id))
             ren == "name" \in c.changed /\ c.name # e.name
         IN IF ren /\ \E b \in s.torg : b.org = e.org /\ b.name = c.name THEN R(s, FALSE)
            ELSE LET e2 == [e EXCEPT !.name = IF ren THEN c.name ELSE @,
                                     !.enabled = IF "enabled" \in c.changed THEN c.enabled ELSE @,
                                     !.lsn = i]
                 IN R([s EXCEPT !.teams = (@ \ {e}) \cup {e2},
                                !.torg  = IF ren THEN {b \in @ : ~(b.org = e.org /\ b.name = e.name)}
                                                       \cup {[org |-> e.org, name |-> c.name, id |-> c.id]}
                                          ELSE @], TRUE)

ApplyDeleteTeam(s, c) ==
    IF c.id = 0 THEN R(s, FALSE)
    ELSE IF TeamOf(s, c.id) = {} THEN R(s, TRUE)
    ELSE LET e  == Only(TeamOf(s, c.id))
             s1 == CascadeTeams(s, {c.id})
         IN R([s1 EXCEPT !.teams = @ \ {e},
                         !.torg  = {b \in @ : ~(b.org = e.org /\ b.name = e.name)}], TRUE)

ApplyCreateRole(s, c, i) ==
    IF c.team = 0 \/ c.pat = "" \/ ~ValidPerms(c.perms) \/ c.cz THEN R(s, FALSE)
    ELSE IF TeamOf(s, c.team) = {} THEN R(s, FALSE)
    ELSE R([s EXCEPT !.roles = @ \cup {[id |-> i, team |-> c.team, pat |-> c.pat, perms |-> c.perms, lsn |-> i]},
                     !.rteam = @ \cup {[team |-> c.team, id |-> i]}], TRUE)

ApplyUpdateRole(s, c, i) ==
    IF c.id = 0 THEN R(s, FALSE)
    ELSE IF "database_pattern" \in c.changed /\ c.pat = "" THEN R(s, FALSE)
    ELSE IF "permissions" \in c.changed /\ ~ValidPerms(c.perms) THEN R(s, FALSE)
    ELSE IF RoleOf(s, c.id) = {} THEN R(s, FALSE)
    ELSE LET e  == Only(RoleOf(s, c.id))
             e2 == [e EXCEPT !.pat = IF "database_pattern" \in c.changed THEN c.pat ELSE @,
                             !.perms = IF "permissions" \in c.changed THEN c.perms ELSE @,
                             !.lsn = i]
         IN R([s EXCEPT !.roles = (@ \ {e}) \cup {e2}], TRUE)

ApplyDeleteRole(s, c) ==
    IF c.id = 0 THEN R(s, FALSE)
    ELSE IF RoleOf(s, c.id) = {} THEN R(s, TRUE)
    ELSE LET e  == Only(RoleOf(s, c.id))
             s1 == CascadeRoles(s, {c.id})
         IN R([s1 EXCEPT !.roles = @ \ {e},
                         !.rteam = @ \ {[team |-> e.team, id |-> e.id]}], TRUE)

ApplyCreateMPerm(s, c, i) ==
    IF c.role = 0 \/ c.pat = "" \/ ~ValidPerms(c.perms) \/ c.cz THEN R(s, FALSE)
    ELSE IF RoleOf(s, c.role) = {} THEN R(s, FALSE)
    ELSE R([s EXCEPT !.mperms = @ \cup {[id |-> i, role |-> c.role, pat |-> c.pat, perms |-> c.perms, lsn |-> i]},
                     !.mrole  = @ \cup {[role |-> c.role, id |-> i]}], TRUE)

ApplyDeleteMPerm(s, c) ==
    IF c.id = 0 THEN R(s, FALSE)
    ELSE IF MPermOf(s, c.id) = {} THEN R(s, TRUE)
    ELSE LET e == Only(MPermOf(s, c.id)) IN
         R([s EXCEPT !.mperms = @ \ {e}, !.mrole = @ \ {[role |-> e.role, id |-> e.id]}], TRUE)

ApplyAddMember(s, c, i) ==
    IF c.token = 0 \/ c.team = 0 \/ c.cz THEN R(s, FALSE)
    ELSE IF TokOf(s, c.token) = {} \/ TeamOf(s, c.team) = {} THEN R(s, FALSE)
    ELSE IF \E b \in s.mpair : b.token = c.token /\ b.team = c.team THEN R(s, FALSE)
    ELSE R([s EXCEPT !.mems  = @ \cup {[id |-> i, token |-> c.token, team |-> c.team, lsn |-> i]},
                     !.mpair = @ \cup {[token |-> c.token, team |-> c.team, id |-> i]},
                     !.mtok  = @ \cup {[token |-> c.token, id |-> i]},
                     !.mteam = @ \cup {[team |-> c.team, id |-> i]}], TRUE)

\* lookup goes through tokenMembershipsByPair
ApplyRemoveMember(s, c) ==
    IF c.token = 0 \/ c.team = 0 THEN R(s, FALSE)
    ELSE LET hit == {b \in s.mpair : b.token = c.token /\ b.team = c.team} IN
         IF hit = {} THEN R(s, TRUE)
         ELSE LET mid == Only(hit).id IN
              R([s EXCEPT !.mpair = @ \ hit,
                          !.mtok  = @ \ {[token |-> c.token, id |-> mid]},
                          !.mteam = @ \ {[team |-> c.team, id |-> mid]},
                          !.mems  = {m \in @ : m.id # mid}], TRUE)

-----------------------------------------------------------------------------
Apply(s, c, i) ==
    CASE c.t \in {"AddNode", "UpdateNode"} -> ApplyPutNode(s, c)
      [] c.t = "RemoveNode"      -> ApplyRemoveNode(s, c)
      [] c.t = "UpdateNodeState" -> ApplyNodeState(s, c)
      [] c.t = "PromoteWriter"   -> ApplyPromote(s, c)
      [] c.t = "DemoteWriter"    -> ApplyDemote(s, c)
      [] c.t = "AssignCompactor" -> ApplyCompactor(s, c)
      [] c.t \in {"RegisterFile", "UpdateFile", "DeleteFile"} -> ApplyFileOp(s, c, i)
      [] c.t = "BatchFileOps"    -> ApplyBatch(s, c, i)
      [] c.t = "CreateToken"     -> ApplyCreateToken(s, c, i)
      [] c.t = "UpdateToken"     -> ApplyUpdateToken(s, c, i)
      [] c.t = "RevokeToken"     -> ApplyRevoke(s, c, i)
      [] c.t = "DeleteToken"     -> ApplyDeleteToken(s, c)
      [] c.t = "RotateToken"     -> ApplyRotate(s, c, i)
      [] c.t = "CreateOrg"       -> ApplyCreateOrg(s, c, i)
      [] c.t = "UpdateOrg"       -> ApplyUpdateOrg(s, c, i)
      [] c.t = "DeleteOrg"       -> ApplyDeleteOrg(s, c)
      [] c.t = "CreateTeam"      -> ApplyCreateTeam(s, c, i)
      [] c.t = "UpdateTeam"      -> ApplyUpdateTeam(s, c, i)
      [] c.t = "DeleteTeam"      -> ApplyDeleteTeam(s, c)
      [] c.t = "CreateRole"      -> ApplyCreateRole(s, c, i)
      [] c.t = "UpdateRole"      -> ApplyUpdateRole(s, c, i)
      [] c.t = "DeleteRole"      -> ApplyDeleteRole(s, c)
      [] c.t = "CreateMPerm"     -> ApplyCreateMPerm(s, c, i)
      [] c.t = "DeleteMPerm"     -> ApplyDeleteMPerm(s, c)
      [] c.t = "AddTokenToTeam"  -> ApplyAddMember(s, c, i)
      [] c.t = "RemoveTokenFromTeam" -> ApplyRemoveMember(s, c)

-----------------------------------------------------------------------------
\* indexes recomputed from the primaries (what Restore rebuilds)
Reindex(s) ==
    [s EXCEPT !.fdb   = {[db |-> x.db, path |-> x.path] : x \in s.files},
              !.tpre  = {[prefix |-> x.prefix, id |-> x.id] : x \in s.tokens},
              !.tname = {[name |-> x.name, id |-> x.id] : x \in s.tokens},
              !.oname = {[name |-> x.name, id |-> x.id] : x \in s.orgs},
              !.torg  = {[org |-> x.org, name |-> x.name, id |-> x.id] : x \in s.teams},
              !.rteam = {[team |-> x.team, id |-> x.id] : x \in s.roles},
              !.mrole = {[role |-> x.role, id |-> x.id] : x \in s.mperms},
              !.mpair = {[token |-> x.token, team |-> x.team, id |-> x.id] : x \in s.mems},
              !.mtok  = {[token |-> x.token, id |-> x.id] : x \in s.mems},
              !.mteam = {[team |-> x.team, id |-> x.id] : x \in s.mems}]

\* Restore(Persist(Snapshot(s))): primaries only, restore-time validation, orphan quarantine
\* in dependency order, then all indexes rebuilt.  (Duplicate-name quarantine cannot trigger
\* from an applied state: see UniqueKeys.)
TokenRestorable(x) == ValidName(x.name) /\ x.hash # "" /\ x.prefix # "" /\ ValidPerms(x.perms)
Restore(s) ==
    LET fl == {x \in s.files  : ValidPath(x.path)}
        tk == {x \in s.tokens : TokenRestorable(x)}
        og == {x \in s.orgs   : ValidName(x.name)}
        tm == {x \in s.teams  : x.org > 0 /\ ValidName(x.name) /\ \E o \in og : o.id = x.org}
        rl == {x \in s.roles  : x.team > 0 /\ x.pat # "" /\ ValidPerms(x.perms) /\ \E t \in tm : t.id = x.team}
        mp == {x \in s.mperms : x.role > 0 /\ x.pat # "" /\ ValidPerms(x.perms) /\ \E r \in rl : r.id = x.role}
        mb == {x \in s.mems   : x.token > 0 /\ x.team > 0 /\ (\E t \in tk : t.id = x.token) /\ (\E t \in tm : t.id = x.team)}
    IN Reindex([s EXCEPT !.files = fl, !.tokens = tk, !.orgs = og, !.teams = tm, !.roles = rl, !.mperms = mp, !.mems = mb])

-----------------------------------------------------------------------------
\* command universe (state dependent only in the id arguments: every existing id of the
\* right kind, 0 = "missing id", NoId = "unknown id")
Ids(S)  == {x.id : x \in S} \cup {0, NoId}
NodeArg == NodeIds \cup {""}

NodeCmds(s) ==
    [t : {"AddNode"}, id : NodeIds, role : {"writer"}, ws : {"", "primary", "standby"}, state : {"healthy"}]
    \cup [t : {"AddNode"}, id : NodeIds, role : {"reader"}, ws : {""}, state : {"healthy"}]
    \cup [t : {"UpdateNode"}, id : NodeIds, role : {"writer"}, ws : {"", "primary"}, state : {"healthy"}]
    \cup [t : {"UpdateNode"}, id : NodeIds, role : {"reader"}, ws : {""}, state : {"healthy"}]
    \cup [t : {"RemoveNode"}, id : NodeIds]
    \cup [t : {"UpdateNodeState"}, id : NodeIds, state : {"unhealthy"}]
    \cup [t : {"PromoteWriter"}, id : NodeArg, old : {"", "n1"}]
    \cup [t : {"DemoteWriter"}, id : NodeArg]
    \cup [t : {"AssignCompactor"}, id : NodeArg]

FileOps ==
    [k : {"reg", "upd"}, path : GoodPaths, db : DBs, sz : {1, 2}, cz : {FALSE}]
    \cup [k : {"reg", "upd"}, path : {"a/f1"}, db : {"d1"}, sz : {1}, cz : {TRUE}]
    \cup [k : {"reg", "upd"}, path : BadPaths, db : {"d1"}, sz : {1}, cz : {FALSE}]
    \cup [k : {"del"}, path : GoodPaths \cup {"", "/abs/f"}, db : {""}, sz : {0}, cz : {FALSE}]
\* a batch op is one of a small representative set (valid / every refusal class / index-relevant)
BatchOps ==
    [k : {"reg"}, path : {"a/f1"}, db : {"d1", ""}, sz : {1}, cz : {FALSE}]
    \cup [k : {"reg"}, path : {"a/f2"}, db : {"d2"}, sz : {1}, cz : {FALSE}]
    \cup [k : {"upd"}, path : {"a/f1"}, db : {"d2", ""}, sz : {2}, cz : {FALSE}]
    \cup [k : {"del"}, path : {"a/f1", ""}, db : {""}, sz : {0}, cz : {FALSE}]
    \cup [k : {"reg"}, path : {"/abs/f"}, db : {"d1"}, sz : {1}, cz : {FALSE}]
    \cup [k : {"upd"}, path : {"a/f2"}, db : {"d1"}, sz : {1}, cz : {TRUE}]
    \cup [k : {"unsup", "badjson"}, path : {"a/f1"}, db : {"d1"}, sz : {1}, cz : {FALSE}]
RECURSIVE SeqsUpTo(_, _)
SeqsUpTo(S, n) == IF n = 0 THEN {<<>>} ELSE SeqsUpTo(S, n-1) \cup {Append(q, x) : q \in {q \in SeqsUpTo(S, n-1) : Len(q) = n-1}, x \in S}
KindTag(k) == CASE k = "reg" -> "RegisterFile" [] k = "upd" -> "UpdateFile" [] OTHER -> "DeleteFile"
FileCmds(s) ==
    {[t |-> KindTag(o.k), k |-> o.k, path |-> o.path, db |-> o.db, sz |-> o.sz, cz |-> o.cz] : o \in FileOps}
    \cup [t : {"BatchFileOps"}, ops : SeqsUpTo(BatchOps, MaxBatch) \ {<<>>}]
    \cup [t : {"BatchFileOps"}, ops : {<<>>}]

TokenCmds(s) ==
    [t : {"CreateToken"}, name : {"t1", "t2"}, prefix : {"p1", "p2"}, hash : {"h1"}, perms : {"read"}, cz : {FALSE}, exp : {0}]
    \cup [t : {"CreateToken"}, name : {"t1"}, prefix : {"p1"}, hash : {"h1"}, perms : {"read"}, cz : {FALSE}, exp : Exps]
    \cup [t : {"CreateToken"}, name : {"", LONG}, prefix : {"p1"}, hash : {"h1"}, perms : {"read"}, cz : {FALSE}, exp : {0}]
    \cup [t : {"CreateToken"}, name : {"t1"}, prefix : {"", "p1"}, hash : {"", "h1"}, perms : {"bogus", "read, write"}, cz : {FALSE, TRUE}, exp : {0}]
    \cup [t : {"UpdateToken"}, id : Ids(s.tokens), changed : {{"name"}}, name : {"t1", "t2", "", LONG}, perms : {""}, exp : {0}]
    \cup [t : {"UpdateToken"}, id : Ids(s.tokens), changed : {{"permissions"}, {"name", "permissions"}}, name : {"t2"}, perms : {"", "bogus"}, exp : {0}]
    \cup [t : {"UpdateToken"}, id : Ids(s.tokens), changed : {{"expires_at"}}, name : {""}, perms : {""}, exp : Exps]
    \cup [t : {"UpdateToken"}, id : Ids(s.tokens), changed : {{}}, name : {""}, perms : {""}, exp : {500}]
    \cup [t : {"RevokeToken", "DeleteToken"}, id : Ids(s.tokens)]
    \cup [t : {"RotateToken"}, id : Ids(s.tokens), hash : {"h2"}, prefix : {"p1", "p2", ""}]
    \cup [t : {"RotateToken"}, id : Ids(s.tokens), hash : {""}, prefix : {"p2"}]

RbacCmds(s) ==
    [t : {"CreateOrg"}, name : {"o1", "o2", "", LONG}, cz : {FALSE}]
    \cup [t : {"CreateOrg"}, name : {"o1"}, cz : {TRUE}]
    \cup [t : {"UpdateOrg"}, id : Ids(s.orgs), changed : {{"name"}}, name : {"o1", "o2", "", LONG}, enabled : {FALSE}]
    \cup [t : {"UpdateOrg"}, id : Ids(s.orgs), changed : {{"enabled"}, {}}, name : {""}, enabled : {FALSE}]
    \cup [t : {"DeleteOrg"}, id : Ids(s.orgs)]
    \cup [t : {"CreateTeam"}, org : Ids(s.orgs), name : {"m1", "m2", ""}, cz : {FALSE}]
    \cup [t : {"UpdateTeam"}, id : Ids(s.teams), changed : {{"name"}}, name : {"m1", "m2", ""}, enabled : {FALSE}]
    \cup [t : {"UpdateTeam"}, id : Ids(s.teams), changed : {{"enabled"}}, name : {""}, enabled : {FALSE}]
    \cup [t : {"DeleteTeam"}, id : Ids(s.teams)]
    \cup [t : {"CreateRole"}, team : Ids(s.teams), pat : {"db*", ""}, perms : {"read"}, cz : {FALSE}]
    \cup [t : {"CreateRole"}, team : Ids(s.teams), pat : {"db*"}, perms : {"bogus"}, cz : {FALSE}]
    \cup [t : {"UpdateRole"}, id : Ids(s.roles), changed : {{"database_pattern"}}, pat : {"x*", ""}, perms : {""}]
    \cup [t : {"UpdateRole"}, id : Ids(s.roles), changed : {{"permissions"}}, pat : {""}, perms : {"", "bogus"}]
    \cup [t : {"DeleteRole"}, id : Ids(s.roles)]
    \cup [t : {"CreateMPerm"}, role : Ids(s.roles), pat : {"cpu*", ""}, perms : {"read"}, cz : {FALSE}]
    \cup [t : {"DeleteMPerm"}, id : Ids(s.mperms)]
    \cup [t : {"AddTokenToTeam"}, token : Ids(s.tokens), team : Ids(s.teams), cz : {FALSE}]
    \cup [t : {"RemoveTokenFromTeam"}, token : Ids(s.tokens), team : Ids(s.teams)]

\* in an rbac-only focus a token is still needed for memberships
SeedTokenCmds(s) ==
    [t : {"CreateToken"}, name : {"t1"}, prefix : {"p1"}, hash : {"h1"}, perms : {"read"}, cz : {FALSE}, exp : {0}]
    \cup [t : {"DeleteToken"}, id : Ids(s.tokens)]
    \cup [t : {"UpdateToken"}, id : Ids(s.tokens), changed : {{"name"}}, name : {""}, perms : {""}, exp : {0}]

\* "deep" focus: mostly well-formed RBAC/token commands so that bounded exhaustive search reaches
\* full org -> team -> role -> measurement-permission chains, memberships and their cascades
ExIds(S) == {x.id : x \in S} \cup {NoId}
DeepCmds(s) ==
    [t : {"CreateOrg"}, name : {"o1"}, cz : {FALSE}]
    \cup [t : {"UpdateOrg"}, id : ExIds(s.orgs), changed : {{"name"}}, name : {"o2"}, enabled : {FALSE}]
    \cup [t : {"DeleteOrg"}, id : ExIds(s.orgs)]
    \cup [t : {"CreateTeam"}, org : ExIds(s.orgs), name : {"m1"}, cz : {FALSE}]
    \cup [t : {"UpdateTeam"}, id : ExIds(s.teams), changed : {{"name"}}, name : {"m2"}, enabled : {FALSE}]
    \cup [t : {"DeleteTeam"}, id : ExIds(s.teams)]
    \cup [t : {"CreateRole"}, team : ExIds(s.teams), pat : {"db*"}, perms : {"read"}, cz : {FALSE}]
    \cup [t : {"DeleteRole"}, id : ExIds(s.roles)]
    \cup [t : {"CreateMPerm"}, role : ExIds(s.roles), pat : {"cpu*"}, perms : {"read"}, cz : {FALSE}]
    \cup [t : {"DeleteMPerm"}, id : ExIds(s.mperms)]
    \cup [t : {"CreateToken"}, name : {"t1"}, prefix : {"p1"}, hash : {"h1"}, perms : {"read"}, cz : {FALSE}, exp : {0, 2000}]
    \cup [t : {"UpdateToken"}, id : ExIds(s.tokens), changed : {{"name"}}, name : {"", "t2"}, perms : {""}, exp : {0}]
    \cup [t : {"UpdateToken"}, id : ExIds(s.tokens), changed : {{"expires_at"}}, name : {""}, perms : {""}, exp : {500, 1000}]
    \cup [t : {"DeleteToken"}, id : ExIds(s.tokens)]
    \cup [t : {"AddTokenToTeam"}, token : ExIds(s.tokens), team : ExIds(s.teams), cz : {FALSE}]
    \cup [t : {"RemoveTokenFromTeam"}, token : ExIds(s.tokens), team : ExIds(s.teams)]

\* "failover" focus: registration, promote/demote, removal and every node-state value (healthy /
\* unhealthy / dead / leaving) for the nodes of a small cluster, deep enough for register both ->
\* promote -> state change of the primary -> promote the other
FailoverCmds(s) ==
    [t : {"AddNode"}, id : NodeIds, role : {"writer"}, ws : {""}, state : {"healthy"}]
    \cup [t : {"UpdateNodeState"}, id : NodeIds, state : {"healthy", "unhealthy", "dead", "leaving"}]
    \cup [t : {"PromoteWriter"}, id : NodeIds, old : {""}]
    \cup [t : {"DemoteWriter", "RemoveNode"}, id : NodeIds]

\* "dup" focus: creations that are REFUSED because of a uniqueness rule (same name / same pair, new id)
\* followed by deletion of the parent.  Its cfg has no VIEW: a refused command leaves the model state
\* unchanged, so with a VIEW only one representative refused history per state would be continued.
OwnIds(S) == {x.id : x \in S}
DupCmds(s) ==
    [t : {"CreateOrg"}, name : {"o1"}, cz : {FALSE}]
    \cup [t : {"CreateTeam"}, org : OwnIds(s.orgs), name : {"m1"}, cz : {FALSE}]
    \cup [t : {"CreateToken"}, name : {"t1"}, prefix : {"p1"}, hash : {"h1"}, perms : {"read"}, cz : {FALSE}, exp : {0}]
    \cup [t : {"AddTokenToTeam"}, token : OwnIds(s.tokens), team : OwnIds(s.teams), cz : {FALSE}]
    \cup [t : {"UpdateOrg"}, id : OwnIds(s.orgs), changed : {{"name"}}, name : {"o1"}, enabled : {FALSE}]
    \cup [t : {"DeleteOrg"}, id : OwnIds(s.orgs)]
    \cup [t : {"DeleteTeam"}, id : OwnIds(s.teams)]
    \cup [t : {"DeleteToken"}, id : OwnIds(s.tokens)]

\* "chain" focus: one org -> team -> role chain with repeated create / delete / create of measurement
\* permissions (and roles) under the SAME parent, then deletion of a parent: index buckets that are
\* dropped when they become empty and must be re-created on the next insert
ChainCmds(s) ==
    [t : {"CreateOrg"}, name : {"o1"}, cz : {FALSE}]
    \cup [t : {"CreateTeam"}, org : OwnIds(s.orgs), name : {"m1"}, cz : {FALSE}]
    \cup [t : {"CreateRole"}, team : OwnIds(s.teams), pat : {"db*"}, perms : {"read"}, cz : {FALSE}]
    \cup [t : {"CreateMPerm"}, role : OwnIds(s.roles), pat : {"cpu*"}, perms : {"read"}, cz : {FALSE}]
    \cup [t : {"DeleteMPerm"}, id : OwnIds(s.mperms)]
    \cup [t : {"DeleteRole"}, id : OwnIds(s.roles)]
    \cup [t : {"DeleteTeam"}, id : OwnIds(s.teams)]
    \cup [t : {"DeleteOrg"}, id : OwnIds(s.orgs)]

Cmds(s) ==
    (IF "chain" \in Focus THEN ChainCmds(s) ELSE {}) \cup
    (IF "failover" \in Focus THEN FailoverCmds(s) ELSE {}) \cup
    (IF "dup"   \in Focus THEN DupCmds(s)   ELSE {}) \cup
    (IF "deep"  \in Focus THEN DeepCmds(s)  ELSE {}) \cup
    (IF "node"  \in Focus THEN NodeCmds(s)  ELSE {}) \cup
    (IF "file"  \in Focus THEN FileCmds(s)  ELSE {}) \cup
    (IF "token" \in Focus THEN TokenCmds(s) ELSE {}) \cup
    (IF "rbac"  \in Focus THEN RbacCmds(s)  ELSE {}) \cup
    (IF "rbac" \in Focus /\ "token" \notin Focus THEN SeedTokenCmds(s) ELSE {})

-----------------------------------------------------------------------------
Init == st = Empty /\ idx = 1 /\ hist = <<>>

Step(c) ==
    /\ idx <= MaxLen
    /\ LET r == Apply(st, c, idx) IN
         /\ st' = r.s
         /\ hist' = Append(hist, [c |-> c, ok |-> r.ok])
    /\ idx' = idx + 1

T(types) == \E c \in {c \in Cmds(st) : c.t \in types} : Step(c)

\* one named action per command type (per-action coverage = vacuity evidence)
AddNode == T({"AddNode"})                 UpdateNode == T({"UpdateNode"})
RemoveNode == T({"RemoveNode"})           UpdateNodeState == T({"UpdateNodeState"})
PromoteWriter == T({"PromoteWriter"})     DemoteWriter == T({"DemoteWriter"})
AssignCompactor == T({"AssignCompactor"}) RegisterFile == T({"RegisterFile"})
UpdateFile == T({"UpdateFile"})           DeleteFile == T({"DeleteFile"})
BatchFileOps == T({"BatchFileOps"})       CreateToken == T({"CreateToken"})
UpdateToken == T({"UpdateToken"})         RevokeToken == T({"RevokeToken"})
DeleteToken == T({"DeleteToken"})         RotateToken == T({"RotateToken"})
CreateOrg == T({"CreateOrg"})             UpdateOrg == T({"UpdateOrg"})
DeleteOrg == T({"DeleteOrg"})             CreateTeam == T({"CreateTeam"})
UpdateTeam == T({"UpdateTeam"})           DeleteTeam == T({"DeleteTeam"})
CreateRole == T({"CreateRole"})           UpdateRole == T({"UpdateRole"})
DeleteRole == T({"DeleteRole"})           CreateMPerm == T({"CreateMPerm"})
DeleteMPerm == T({"DeleteMPerm"})         AddTokenToTeam == T({"AddTokenToTeam"})
RemoveTokenFromTeam == T({"RemoveTokenFromTeam"})

\* simulation only: a single-successor last step, so that the end-of-history emission (TLC evaluates
\* invariants on every candidate successor while simulating) happens once per behaviour
Finish == Emit = "end" /\ idx = MaxLen + 1 /\ idx' = idx + 1 /\ UNCHANGED <<st, hist>>

Next == \/ Finish
        \/ AddNode \/ UpdateNode \/ RemoveNode \/ UpdateNodeState \/ PromoteWriter \/ DemoteWriter
        \/ AssignCompactor \/ RegisterFile \/ UpdateFile \/ DeleteFile \/ BatchFileOps
        \/ CreateToken \/ UpdateToken \/ RevokeToken \/ DeleteToken \/ RotateToken
        \/ CreateOrg \/ UpdateOrg \/ DeleteOrg \/ CreateTeam \/ UpdateTeam \/ DeleteTeam
        \/ CreateRole \/ UpdateRole \/ DeleteRole \/ CreateMPerm \/ DeleteMPerm
        \/ AddTokenToTeam \/ RemoveTokenFromTeam

Spec == Init /\ [][Next]_vars

\* same behaviours, one action (faster successor generation; used by the simulation configs)
NextFast == Finish \/ \E c \in Cmds(st) : Step(c)
SpecFast == Init /\ [][NextFast]_vars

View == <<st, idx>>
\* With View, a state is continued only from the first history that reached it, and which one is first depends
\* on TLC's worker scheduling.  ViewLast2 also keeps the last two commands, so every state is continued from
\* every distinct two-command ending (used by the small failover focus, where the ORDER of promote and
\* node-state commands matters to a defect although it does not matter to the model state).
Last2(h) == IF Len(h) <= 2 THEN [k \in 1..Len(h) |-> h[k].c] ELSE <<h[Len(h)-1].c, h[Len(h)].c>>
ViewLast2 == <<st, idx, Last2(hist)>>

-----------------------------------------------------------------------------
\* C22, model level

\* primaries have unique keys (so the duplicate quarantine of Restore is unreachable)
Uniq(S) == \A x, y \in S : x.id = y.id => x = y
UniqueKeys ==
    /\ \A x, y \in st.nodes : x.id = y.id => x = y
    /\ \A x, y \in st.files : x.path = y.path => x = y
    /\ Uniq(st.tokens) /\ Uniq(st.orgs) /\ Uniq(st.teams) /\ Uniq(st.roles) /\ Uniq(st.mperms) /\ Uniq(st.mems)
    /\ \A x, y \in st.orgs : x.name = y.name => x = y
    /\ \A x, y \in st.teams : (x.org = y.org /\ x.name = y.name) => x = y
    /\ \A x, y \in st.mems : (x.token = y.token /\ x.team = y.team) => x = y

\* every secondary index always agrees with the primaries
IndexAgreement == Reindex(st) = st

\* restoring a snapshot reproduces exactly the state it was taken from (every reachable state)
RestoreFidelity == Restore(st) = st
\* restoring never invents anything and is idempotent
RestoreShrinks == LET r == Restore(st) IN
    /\ r.files \subseteq st.files /\ r.tokens \subseteq st.tokens /\ r.orgs \subseteq st.orgs
    /\ r.teams \subseteq st.teams /\ r.roles \subseteq st.roles /\ r.mperms \subseteq st.mperms
    /\ r.mems \subseteq st.mems /\ Restore(r) = r

\* a refused batch has no effect; an accepted batch equals its ops applied one by one
BatchAllOrNothing ==
    "file" \in Focus =>
      \A c \in {c \in FileCmds(st) : c.t = "BatchFileOps"} :
          LET r == Apply(st, c, idx) IN
          /\ ~r.ok => r.s = st
          /\ r.ok  => /\ \A k \in 1..Len(c.ops) : FileOpOk(c.ops[k])
                      /\ r.s = FoldOps(st, c.ops, idx)

-----------------------------------------------------------------------------
\* C23, model level
Primaries == {x \in st.nodes : x.ws = "primary"}
AtMostOnePrimary       == Cardinality(Primaries) <= 1
PrimaryExistsAndMarked == st.primary # "" => \E x \in st.nodes : x.id = st.primary /\ x.ws = "primary"
\* re-registering (AddNode/UpdateNode of a known id, payload as a join request builds it: no
\* writer_state) keeps the recorded writer state
ReRegisterKeepsAssignment ==
    \A x \in st.nodes :
        LET c == [t |-> "AddNode", id |-> x.id, role |-> x.role, ws |-> "", state |-> "healthy"]
            r == Apply(st, c, idx)
        IN \A y \in r.s.nodes : y.id = x.id => y.ws = x.ws
RBACParentsExist ==
    /\ \A x \in st.teams  : \E o \in st.orgs : o.id = x.org
    /\ \A x \in st.roles  : \E t \in st.teams : t.id = x.team
    /\ \A x \in st.mperms : \E r \in st.roles : r.id = x.role
    /\ \A x \in st.mems   : (\E t \in st.tokens : t.id = x.token) /\ (\E t \in st.teams : t.id = x.team)

-----------------------------------------------------------------------------
\* generation
SetKeys == (DOMAIN Empty) \ {"primary", "compactor"}
Compact(s) == [k \in {k \in SetKeys : s[k] # {}} \cup {"primary", "compactor"} |-> s[k]]   \* empty maps omitted
Out(h, s, i) == [h |-> h, post |-> Compact(s), restored |-> IF Restore(s) = s THEN {} ELSE {Compact(Restore(s))}]

\* "edge": every transition TLC explores from a distinct state (VIEW hides hist, so each
\* distinct state is expanded once, from the first history that reached it)
EmitEdge == Emit = "edge" => PrintT(<<"TRACE", ToJson(Out(hist', st', idx'))>>)
\* "end": the complete history of a simulated behaviour
EmitEnd  == (Emit = "end" /\ idx = MaxLen + 2) => PrintT(<<"TRACE", ToJson(Out(hist, st, idx))>>)
=============================================================================

SPECIFICATION Spec
CONSTANTS
  NodeIds = {"n1", "n2", "n3"}
  MaxLen = 3
  Focus = {"node"}
  Emit = "none"
  MaxBatch = 1
  AsWritten = FALSE
VIEW View
INVARIANTS AtMostOnePrimary
CHECK_DEADLOCK FALSE

SPECIFICATION Spec
CONSTANTS
  NodeIds = {"n1", "n2", "n3"}
  MaxLen = 5
  Focus = {"deep"}
  Emit = "edge"
  MaxBatch = 1
  AsWritten = FALSE
VIEW View
INVARIANTS UniqueKeys IndexAgreement RestoreFidelity RestoreShrinks RBACParentsExist BatchAllOrNothing
ACTION_CONSTRAINT EmitEdge
CHECK_DEADLOCK FALSE

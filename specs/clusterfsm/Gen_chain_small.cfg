SPECIFICATION Spec
CONSTANTS
  NodeIds = {"n1", "n2"}
  MaxLen = 8
  Focus = {"chain"}
  Emit = "edge"
  MaxBatch = 1
  AsWritten = FALSE
INVARIANTS UniqueKeys IndexAgreement RestoreFidelity RestoreShrinks RBACParentsExist
ACTION_CONSTRAINT EmitEdge
CHECK_DEADLOCK FALSE

SPECIFICATION Spec
CONSTANTS
  Size = "large"
  Keep = "is_not_true"
  Emit = TRUE
INVARIANTS ImplSafe PropExact EmitInv
CHECK_DEADLOCK FALSE

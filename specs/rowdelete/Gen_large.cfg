SPECIFICATION Spec
CONSTANTS
  Size = "large"
  Keep = "not_p"
  Emit = TRUE
INVARIANTS ImplSafe AsWritten EmitInv
CHECK_DEADLOCK FALSE

SPECIFICATION Spec
CONSTANTS
  Size = "small"
  Recount = FALSE
  Emit = FALSE
INVARIANTS OverlapSafe
CHECK_DEADLOCK FALSE

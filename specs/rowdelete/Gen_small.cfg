SPECIFICATION Spec
CONSTANTS
  Size = "small"
  Keep = "not_p"
  Emit = TRUE
INVARIANTS ImplSafe AsWritten EmitInv
CHECK_DEADLOCK FALSE

SPECIFICATION Spec
CONSTANTS
  Size = "small"
  Keep = "is_not_true"
  Emit = TRUE
INVARIANTS ImplSafe PropExact EmitInv
CHECK_DEADLOCK FALSE

SPECIFICATION Spec
CONSTANTS
  Size = "small"
  Keep = "not_p"
  Emit = FALSE
INVARIANTS ImplSafe AsWritten
CHECK_DEADLOCK FALSE

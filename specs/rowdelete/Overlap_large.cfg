SPECIFICATION Spec
CONSTANTS
  Size = "large"
  Recount = TRUE
  Emit = TRUE
INVARIANTS OverlapSafe EmitInv
CHECK_DEADLOCK FALSE

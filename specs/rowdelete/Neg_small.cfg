SPECIFICATION Spec
CONSTANTS
  Size = "small"
  Keep = "not_p"
  Emit = FALSE
INVARIANTS PropExact
CHECK_DEADLOCK FALSE

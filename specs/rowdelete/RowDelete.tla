------------------------------ MODULE RowDelete ------------------------------
(***************************************************************************)
(* C10 -- row-level delete removes exactly the rows the predicate selects. *)
(*                                                                         *)
(* Implementation-shaped model of internal/api/delete.go:                  *)
(*   DryRun        handleDelete with dry_run=true: findAffectedFiles, sum  *)
(*                 of the per-file row count ... WHERE p    (rows where p is   *)
(*                 TRUE), nothing written                                  *)
(*   FindAffected  findAffectedFiles/countMatchingRowsInFiles: the files   *)
(*                 holding at least one row where p is TRUE                *)
(*   RewriteCopy   rewriteFileWithoutDeletedRows + rewriteLocalFile: the   *)
(*                 file is replaced by  SELECT * WHERE (p) IS NOT TRUE ;   *)
(*                 the reported count is rowsBefore - count FILTER         *)
(*                 (WHERE (p) IS NOT TRUE)                                 *)
(*   RewriteRemove the same decision point when nothing is kept: the file  *)
(*                 is removed from storage                                 *)
(* Keep = "is_not_true" is the code as it is now (since fix f4599fa: a row *)
(* is kept iff p is not TRUE).  Keep = "not_p" is the code as it was       *)
(* before that fix (kept iff NOT(p) is TRUE, i.e. p is FALSE: NULL rows of *)
(* affected files were deleted); it survives only as the negative control  *)
(* Neg_small.cfg, which TLC must reject (PropExact violated).  Predicates  *)
(* are evaluated with Kleene three-valued logic -- the external semantics  *)
(* the property names ("rows where the predicate is false or NULL stay     *)
(* untouched").                                                            *)
(*                                                                         *)
(* Values are small naturals ("codes"), 0 = NULL; the Go driver maps a     *)
(* (column, code) pair to a concrete SQL literal:                          *)
(*   v BIGINT   1, 2                                                       *)
(*   s VARCHAR  1='a' 2='ab' 3='b'   (binary collation: 'a'<'ab'<'b')      *)
(*   f DOUBLE   1=0.5 2=1.5                                                *)
(*   t          seconds after 2024-01-01 00:00:00 (column "time", non-NULL)  *)
(***************************************************************************)
EXTENDS Naturals, Sequences, FiniteSets, TLC, Json

CONSTANTS Size,    \* "small" | "large"
          Keep,    \* "is_not_true" (current code) | "not_p" (pre-fix behaviour, negative control)
          Emit     \* TRUE: print the dataset once and one TRACE line per terminal state

Null == 0

-----------------------------------------------------------------------------
\* the row universe: every combination of the column domains, plus one exact duplicate
NV == 3   \* v in 0..2
NS == 4   \* s in 0..3
NF == 3   \* f in 0..2

NBase == IF Size = "large" THEN NV * NS * NF ELSE NV * NS
DupOf == 7                      \* the extra row NBase+1 is an exact copy (same time) of this row
NRows == NBase + 1

BaseRow(i) ==
    IF Size = "large"
      THEN [v |-> (i - 1) \div (NS * NF), s |-> ((i - 1) \div NF) % NS, f |-> (i - 1) % NF, t |-> i]
      ELSE LET v == (i - 1) \div NS  s == (i - 1) % NS
           IN [v |-> v, s |-> s, f |-> (v + 2 * s) % NF, t |-> i]
RowIds == 1..(NBase + 1)
RowT   == [i \in RowIds |-> IF i <= NBase THEN BaseRow(i) ELSE BaseRow(DupOf)]   \* constant table
Row(i) == RowT[i]


Layouts == IF Size = "large" THEN {"byV", "byS", "mix", "pair", "one", "byF"}
                             ELSE {"byV", "byS", "mix", "pair", "one"}
MaxFilesOf(l) == CASE l = "pair" -> 2 [] l = "one" -> 1 [] OTHER -> 3

\* file (1..3) of row i under layout l ; the duplicate sits next to its twin
FileOf(l, i) ==
    LET j == IF i <= NBase THEN i ELSE DupOf
        r == Row(j)
    IN CASE l = "byV"  -> r.v + 1
         [] l = "byS"  -> (IF r.s > 2 THEN 2 ELSE r.s) + 1
         [] l = "byF"  -> r.f + 1
         [] l = "mix"  -> ((r.v + r.s) % 3) + 1
         [] l = "pair" -> (j % 2) + 1
         [] l = "one"  -> 1
Files == 1..3

\* every file sits in its own partition directory (two hour partitions and one compacted day partition)
\* and all files carry the SAME base name; a row's time lies inside its file's partition
PartDir  == <<"2024/01/01/00", "2024/01/01/01", "2024/01/02">>
PartBase == <<0, 3600, 86400>>                 \* seconds after 2024-01-01 00:00:00
FileName == "data.parquet"
TimeOf(l, i) == PartBase[FileOf(l, i)] + (IF i <= NBase THEN i ELSE DupOf)
OrigT == [l \in Layouts |-> [f \in Files |-> {i \in RowIds : FileOf(l, i) = f}]]   \* constant table
Orig(l, f) == OrigT[l][f]

-----------------------------------------------------------------------------
\* predicate grammar
Cmp(c, op, lit)   == [k |-> "cmp",  c |-> c, op |-> op, lit |-> lit]
IsNull(c, neg)    == [k |-> "null", c |-> c, neg |-> neg]            \* neg: IS NOT NULL
In(c, lits, neg)  == [k |-> "in",   c |-> c, lits |-> lits, neg |-> neg]
Like(c, pre, neg) == [k |-> "like", c |-> c, lit |-> pre, neg |-> neg] \* c LIKE '<pre>%'

AtomsSmall == <<
    Cmp("v", "=", 1), Cmp("v", "<>", 1), Cmp("v", "<", 2), Cmp("v", ">=", 2),
    IsNull("v", FALSE), IsNull("v", TRUE),
    In("v", <<1, 2>>, FALSE), In("v", <<1, Null>>, FALSE), In("v", <<1, Null>>, TRUE),
    Cmp("s", "=", 1), Cmp("s", "<>", 2), Cmp("s", ">", 1),
    IsNull("s", FALSE),
    In("s", <<1, Null>>, FALSE), In("s", <<2, 3>>, TRUE),
    Like("s", 1, FALSE), Like("s", 1, TRUE),
    Cmp("f", "<", 2), IsNull("f", TRUE),
    \* the time column (never NULL): literals on a partition boundary and inside the first partition
    Cmp("t", "<", 3600), Cmp("t", ">=", 3600), Cmp("t", "<", 7) >>

AtomsLarge == AtomsSmall \o <<
    Cmp("v", ">", 1), Cmp("v", "<=", 1), Cmp("v", "=", 2),
    In("v", <<2>>, TRUE),
    Cmp("s", "<", 2), Cmp("s", "<=", 2), Cmp("s", ">=", 3), Cmp("s", "=", 2),
    IsNull("s", TRUE), Like("s", 2, FALSE),
    In("s", <<1, 2>>, FALSE),
    Cmp("f", "=", 1), Cmp("f", ">=", 2), IsNull("f", FALSE), In("f", <<2, Null>>, TRUE),
    Cmp("t", "<=", 86400), Cmp("t", ">", 86405), Cmp("t", ">=", 3607) >>

AtomSeq == IF Size = "large" THEN AtomsLarge ELSE AtomsSmall
NA      == Len(AtomSeq)

Not(x)       == [k |-> "not", a |-> x]
Bin(o, x, y) == [k |-> o, a |-> x, b |-> y]

Depth0 == {AtomSeq[i] : i \in 1..NA}
Depth1 == {Not(AtomSeq[i]) : i \in 1..NA}
          \cup {Bin(o, AtomSeq[i], AtomSeq[j]) : o \in {"and", "or"}, i \in 1..NA, j \in 1..NA}
\* depth 2: NOT over a connective; a connective over a connective and an atom (both sides);
\* every fourth (small) / eighth (large) atom is used as the outer operand
Outer  == {i \in 1..NA : i % (IF Size = "large" THEN 8 ELSE 4) = 1}
Pairs  == {<<i, j>> \in (1..NA) \X (1..NA) : i < j}
Depth2 == {Not(Bin(o, AtomSeq[ij[1]], AtomSeq[ij[2]])) : o \in {"and", "or"}, ij \in Pairs}
          \cup {Bin(o2, Bin(o1, AtomSeq[ij[1]], AtomSeq[ij[2]]), AtomSeq[c]) :
                   o1 \in {"and", "or"}, o2 \in {"and", "or"}, ij \in Pairs, c \in Outer}
          \cup {Bin(o2, AtomSeq[c], Not(AtomSeq[i])) : o2 \in {"and", "or"}, c \in Outer, i \in 1..NA}
Depth1U == {Not(AtomSeq[i]) : i \in 1..NA}
           \cup {Bin(o, AtomSeq[ij[1]], AtomSeq[ij[2]]) : o \in {"and", "or"}, ij \in Pairs}
\* constant predicates: tautologies (two of them are what validateWhereClause calls a "full table
\* delete": the trimmed, upper-cased text is exactly 1=1 / TRUE), contradictions, a NULL-valued constant
Const(val, form) == [k |-> "const", val |-> val, form |-> form]
ConstSeq == << Const("T", "1=1"), Const("T", "TRUE"), Const("T", "1 = 1"),
               Const("F", "FALSE"), Const("F", "1=0"), Const("N", "NULL = NULL") >>
NConst == Len(ConstSeq)
ConstPreds == {ConstSeq[i] : i \in 1..NConst} \cup {Not(ConstSeq[i]) : i \in 1..NConst}
              \cup {Bin(o, ConstSeq[i], AtomSeq[j]) : o \in {"and", "or"}, i \in 1..NConst, j \in Outer}
              \cup {Bin(o, AtomSeq[j], ConstSeq[i]) : o \in {"and", "or"}, i \in 1..NConst, j \in Outer}
FullTable(q) == q.k = "const" /\ q.form \in {"1=1", "TRUE"}

Preds  == Depth0 \cup Depth1U \cup Depth2 \cup ConstPreds

-----------------------------------------------------------------------------
\* Kleene evaluation: "T", "F", "N"
B(b)    == IF b THEN "T" ELSE "F"
Not3(x) == CASE x = "T" -> "F" [] x = "F" -> "T" [] OTHER -> "N"
And3(x, y) == IF x = "F" \/ y = "F" THEN "F" ELSE IF x = "T" /\ y = "T" THEN "T" ELSE "N"
Or3(x, y)  == IF x = "T" \/ y = "T" THEN "T" ELSE IF x = "F" /\ y = "F" THEN "F" ELSE "N"

CmpOp(op, x, y) == CASE op = "="  -> x = y  [] op = "<>" -> x # y
                     [] op = "<"  -> x < y  [] op = "<=" -> x <= y
                     [] op = ">"  -> x > y  [] op = ">=" -> x >= y

\* string codes 1='a' 2='ab' 3='b': prefix 'a' matches 'a','ab'; prefix 'ab' matches 'ab'
HasPrefix(x, pre) == CASE pre = 1 -> x \in {1, 2} [] pre = 2 -> x = 2 [] pre = 3 -> x = 3

Neg(a, x) == IF a.neg THEN Not3(x) ELSE x

EvalAtom(a, r) ==
    LET x == r[a.c]
    IN CASE a.k = "cmp"  -> IF x = Null THEN "N" ELSE B(CmpOp(a.op, x, a.lit))
         [] a.k = "null" -> B((x = Null) # a.neg)
         [] a.k = "in"   -> Neg(a, IF x = Null THEN "N"
                                   ELSE IF \E i \in 1..Len(a.lits) : a.lits[i] # Null /\ a.lits[i] = x THEN "T"
                                   ELSE IF \E i \in 1..Len(a.lits) : a.lits[i] = Null THEN "N" ELSE "F")
         [] a.k = "like" -> Neg(a, IF x = Null THEN "N" ELSE B(HasPrefix(x, a.lit)))

RECURSIVE Eval(_, _)
Eval(q, r) == CASE q.k = "not" -> Not3(Eval(q.a, r))
                [] q.k = "and" -> And3(Eval(q.a, r), Eval(q.b, r))
                [] q.k = "or"  -> Or3(Eval(q.a, r), Eval(q.b, r))
                [] q.k = "const" -> q.val
                [] OTHER       -> EvalAtom(q, r)

-----------------------------------------------------------------------------
VARIABLES p,        \* the predicate (AST)
          lay,      \* layout name
          tv,       \* truth vector: row id -> "T" | "F" | "N"
          store,    \* file -> set of row ids ({} = no such file)
          pc,       \* "start" | "r1" | "r2" | "dry_done" | "rewrite" | "done"
          reqs,     \* the requests answered so far: [dry, confirm, out, count]
          dry,      \* count reported by the dry run
          aff,      \* affected files still to rewrite
          deleted   \* count reported by the confirmed run

vars == <<p, lay, tv, store, pc, reqs, dry, aff, deleted>>

Init == /\ p \in Preds
        /\ lay \in Layouts
        /\ tv = [i \in RowIds |-> Eval(p, [Row(i) EXCEPT !.t = TimeOf(lay, i)])]
        /\ store = [f \in Files |-> Orig(lay, f)]
        /\ pc = "start" /\ reqs = <<>> /\ dry = 0 /\ aff = {} /\ deleted = 0

TrueIn(f)   == {i \in store[f] : tv[i] = "T"}
Affected    == {f \in Files : TrueIn(f) # {}}
Kept(f)     == IF Keep = "not_p" THEN {i \in store[f] : tv[i] = "F"}    \* WHERE NOT (p)   (pre-fix)
                                 ELSE {i \in store[f] : tv[i] # "T"}    \* WHERE (p) IS NOT TRUE
Sum3(g(_)) == Cardinality(g(1)) + Cardinality(g(2)) + Cardinality(g(3))     \* Files = 1..3

\* request gates of handleDelete, in the order the code tests them:
\*   full-table predicate without confirm        -> 400
\*   neither dry_run nor confirm                  -> 400
\*   dry_run (with or without confirm)            -> count only
\*   confirm without dry_run                      -> rewrite
Req(d, c, out, n) == [dry |-> d, confirm |-> c, out |-> out, count |-> n]

\* dry_run = false, confirm = false
RejectUnconfirmed ==
    /\ pc = "start"
    /\ reqs' = Append(reqs, Req(FALSE, FALSE, "rejected", 0))
    /\ pc' = "r1"
    /\ UNCHANGED <<p, lay, tv, store, dry, aff, deleted>>

\* dry_run = true, confirm = false
DryRunPlain ==
    /\ pc = "r1"
    /\ reqs' = Append(reqs, IF FullTable(p) THEN Req(TRUE, FALSE, "rejected", 0)
                                             ELSE Req(TRUE, FALSE, "dry", Sum3(TrueIn)))
    /\ pc' = "r2"
    /\ UNCHANGED <<p, lay, tv, store, dry, aff, deleted>>

\* dry_run = true, confirm = true
DryRun ==
    /\ pc = "r2"
    /\ dry' = Sum3(TrueIn)
    /\ reqs' = Append(reqs, Req(TRUE, TRUE, "dry", Sum3(TrueIn)))
    /\ pc' = "dry_done"
    /\ UNCHANGED <<p, lay, tv, store, aff, deleted>>

\* dry_run = false, confirm = true: FindAffected, then one Rewrite* per affected file
FindAffected ==
    /\ pc = "dry_done"
    /\ aff' = Affected
    /\ pc' = IF Affected = {} THEN "done" ELSE "rewrite"
    /\ UNCHANGED <<p, lay, tv, store, reqs, dry, deleted>>

Cur == CHOOSE f \in aff : \A g \in aff : f <= g

RewriteStep ==
    /\ store' = [store EXCEPT ![Cur] = Kept(Cur)]
    /\ deleted' = deleted + (Cardinality(store[Cur]) - Cardinality(Kept(Cur)))
    /\ aff' = aff \ {Cur}
    /\ pc' = IF aff' = {} THEN "done" ELSE "rewrite"
    /\ UNCHANGED <<p, lay, tv, reqs, dry>>

\* rowsAfter > 0: COPY ... WHERE (p) IS NOT TRUE to a temp file, rename over the original
RewriteCopy   == pc = "rewrite" /\ aff # {} /\ Kept(Cur) # {} /\ RewriteStep
\* rowsAfter = 0: the file is deleted from storage
RewriteRemove == pc = "rewrite" /\ aff # {} /\ Kept(Cur) = {} /\ RewriteStep

Done == pc = "done" /\ UNCHANGED vars

Next == RejectUnconfirmed \/ DryRunPlain \/ DryRun \/ FindAffected \/ RewriteCopy \/ RewriteRemove \/ Done
Spec == Init /\ [][Next]_vars

-----------------------------------------------------------------------------
Expected(f)  == {i \in Orig(lay, f) : tv[i] # "T"}          \* the property's After
OrigOf(f)    == Orig(lay, f)
StoreOf(f)   == store[f]
Disappeared  == Sum3(OrigOf) - Sum3(StoreOf)
NTrue        == Cardinality({i \in RowIds : tv[i] = "T"})

\* holds for the current code and for the pre-fix variant
FalseRowsStay    == \A f \in Files : \A i \in Orig(lay, f) : tv[i] = "F" => i \in store[f]
TrueRowsGone     == pc = "done" => \A f \in Files : \A i \in store[f] : tv[i] # "T"
CountIsDisappear == pc = "done" => deleted = Disappeared
DryRunInert      == /\ pc \in {"start", "r1", "r2", "dry_done"} => store = [f \in Files |-> Orig(lay, f)]
                    /\ pc = "dry_done" => dry = NTrue
UntouchedFiles   == \A f \in Files : (\A i \in Orig(lay, f) : tv[i] # "T") => store[f] = Orig(lay, f)
NothingInvented  == \A f \in Files : store[f] \subseteq Orig(lay, f)
ImplSafe == FalseRowsStay /\ TrueRowsGone /\ CountIsDisappear /\ DryRunInert /\ UntouchedFiles /\ NothingInvented

\* characterises the pre-fix variant (Keep = "not_p"): a NULL row disappears exactly when its file is affected
AsWritten == pc = "done" => \A f \in Files : \A i \in Orig(lay, f) :
                 tv[i] = "N" => ((i \in store[f]) <=> (\A j \in Orig(lay, f) : tv[j] # "T"))

\* the property (C10): exactly the TRUE rows disappear, the count is right, the dry run reports it
PropExact == pc = "done" => /\ \A f \in Files : store[f] = Expected(f)
                            /\ deleted = NTrue
                            /\ dry = deleted
                            /\ \A i \in 1..Len(reqs) : reqs[i].out = "dry" => reqs[i].count = deleted

\* generation
ClassOf(f) == [T |-> Cardinality({i \in Orig(lay, f) : tv[i] = "T"}),
               F |-> Cardinality({i \in Orig(lay, f) : tv[i] = "F"}),
               N |-> Cardinality({i \in Orig(lay, f) : tv[i] = "N"})]

ASSUME Emit =>
    PrintT(<<"TRACE", ToJson([kind |-> "dataset",
                              rows |-> [i \in RowIds |-> Row(i)],
                              layouts |-> [l \in Layouts |-> [i \in RowIds |-> FileOf(l, i)]],
                              times |-> [l \in Layouts |-> [i \in RowIds |-> TimeOf(l, i)]],
                              part_dirs |-> PartDir, file_name |-> FileName,
                              npreds |-> Cardinality(Preds)])>>)

EmitInv ==
    (Emit /\ pc = "done") =>
        PrintT(<<"TRACE", ToJson([kind |-> "case", p |-> p, lay |-> lay,
                                  tv |-> [i \in RowIds |-> tv[i]],
                                  expected |-> [f \in Files |-> Expected(f)],
                                  impl |-> [f \in Files |-> store[f]],
                                  impl_deleted |-> deleted, impl_dry |-> dry,
                                  expected_count |-> NTrue, reqs |-> reqs,
                                  full_table |-> FullTable(p), has_const |-> (p \in ConstPreds)])>>)
=============================================================================

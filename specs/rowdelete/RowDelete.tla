------------------------------ MODULE RowDelete ------------------------------
(***************************************************************************)
(* C10 -- row-level delete removes exactly the rows the predicate selects. *)
(*                                                                         *)
(* Implementation-shaped model of internal/api/delete.go:                  *)
(*   DryRun        handleDelete with dry_run=true: findAffectedFiles, sum  *)
(*                 of the per-file row count ... WHERE p    (rows where p is   *)
(*                 TRUE), nothing written                                  *)
(*   FindAffected  findAffectedFiles/countMatchingRowsInFiles: the files   *)
(*                 holding at least one row where p is TRUE                *)
(*   RewriteCopy   rewriteFileWithoutDeletedRows + rewriteLocalFile: the   *)
(*                 file is replaced by  SELECT * WHERE (p) IS NOT TRUE ;   *)
(*                 the reported count is rowsBefore - count FILTER         *)
(*                 (WHERE (p) IS NOT TRUE)                                 *)
(*   RewriteRemove the same decision point when nothing is kept: the file  *)
(*                 is removed from storage                                 *)
(* Keep = "is_not_true" is the code as it is now (since fix f4599fa: a row *)
(* is kept iff p is not TRUE).  Keep = "not_p" is the code as it was       *)
(* before that fix (kept iff NOT(p) is TRUE, i.e. p is FALSE: NULL rows of *)
(* affected files were deleted); it survives only as the negative control  *)
(* Neg_small.cfg, which TLC must reject (PropExact violated).  Predicates  *)
(* are evaluated with Kleene three-valued logic -- the external semantics  *)
(* the property names ("rows where the predicate is false or NULL stay     *)
(* untouched").                                                            *)
(*                                                                         *)
(* Values are small naturals ("codes"), 0 = NULL; the Go driver maps a     *)
(* (column, code) pair to a concrete SQL literal:                          *)
(*   v BIGINT   1, 2                                                       *)
(*   s VARCHAR  1='a' 2='ab' 3='b'   (binary collation: 'a'<'ab'<'b')      *)
(*   f DOUBLE   1=0.5 2=1.5                                                *)
(*   t          seconds after 2024-01-01 00:00:00 (column "time", non-NULL)  *)
(***************************************************************************)
EXTENDS RowDeleteBase

CONSTANTS Keep,    \* "is_not_true" (current code) | "not_p" (pre-fix behaviour, negative control)
          Emit     \* TRUE: print the dataset once and one TRACE line per terminal state

-----------------------------------------------------------------------------
VARIABLES p,        \* the predicate (AST)
          lay,      \* layout name
          tv,       \* truth vector: row id -> "T" | "F" | "N"
          store,    \* file -> set of row ids ({} = no such file)
          pc,       \* "start" | "r1" | "r2" | "dry_done" | "rewrite" | "done"
          reqs,     \* the requests answered so far: [dry, confirm, out, count]
          dry,      \* count reported by the dry run
          aff,      \* affected files still to rewrite
          deleted   \* count reported by the confirmed run

vars == <<p, lay, tv, store, pc, reqs, dry, aff, deleted>>

Init == /\ p \in Preds
        /\ lay \in Layouts
        /\ tv = [i \in RowIds |-> Eval(p, [Row(i) EXCEPT !.t = TimeOf(lay, i)])]
        /\ store = [f \in Files |-> Orig(lay, f)]
        /\ pc = "start" /\ reqs = <<>> /\ dry = 0 /\ aff = {} /\ deleted = 0

TrueIn(f)   == {i \in store[f] : tv[i] = "T"}
Affected    == {f \in Files : TrueIn(f) # {}}
Kept(f)     == IF Keep = "not_p" THEN {i \in store[f] : tv[i] = "F"}    \* WHERE NOT (p)   (pre-fix)
                                 ELSE {i \in store[f] : tv[i] # "T"}    \* WHERE (p) IS NOT TRUE
Sum3(g(_)) == Cardinality(g(1)) + Cardinality(g(2)) + Cardinality(g(3))     \* Files = 1..3

\* request gates of handleDelete, in the order the code tests them:
\*   full-table predicate without confirm        -> 400
\*   neither dry_run nor confirm                  -> 400
\*   dry_run (with or without confirm)            -> count only
\*   confirm without dry_run                      -> rewrite
Req(d, c, out, n) == [dry |-> d, confirm |-> c, out |-> out, count |-> n]

\* dry_run = false, confirm = false
RejectUnconfirmed ==
    /\ pc = "start"
    /\ reqs' = Append(reqs, Req(FALSE, FALSE, "rejected", 0))
    /\ pc' = "r1"
    /\ UNCHANGED <<p, lay, tv, store, dry, aff, deleted>>

\* dry_run = true, confirm = false
DryRunPlain ==
    /\ pc = "r1"
    /\ reqs' = Append(reqs, IF FullTable(p) THEN Req(TRUE, FALSE, "rejected", 0)
                                             ELSE Req(TRUE, FALSE, "dry", Sum3(TrueIn)))
    /\ pc' = "r2"
    /\ UNCHANGED <<p, lay, tv, store, dry, aff, deleted>>

\* dry_run = true, confirm = true
DryRun ==
    /\ pc = "r2"
    /\ dry' = Sum3(TrueIn)
    /\ reqs' = Append(reqs, Req(TRUE, TRUE, "dry", Sum3(TrueIn)))
    /\ pc' = "dry_done"
    /\ UNCHANGED <<p, lay, tv, store, aff, deleted>>

\* dry_run = false, confirm = true: FindAffected, then one Rewrite* per affected file
FindAffectedStep ==
    /\ pc = "dry_done"
    /\ aff' = Affected
    /\ pc' = IF Affected = {} THEN "done" ELSE "rewrite"
    /\ UNCHANGED <<p, lay, tv, store, reqs, dry, deleted>>

\* countMatchingRowsInFiles: one query over all files
FindAffectedBatch    == ~HasJunk(lay) /\ FindAffectedStep
\* the batch failed (unreadable file): countMatchingRowsIndividually, one query per file, failing files skipped
FindAffectedFallback == HasJunk(lay) /\ FindAffectedStep

Cur == CHOOSE f \in aff : \A g \in aff : f <= g

RewriteStep ==
    /\ store' = [store EXCEPT ![Cur] = Kept(Cur)]
    /\ deleted' = deleted + (Cardinality(store[Cur]) - Cardinality(Kept(Cur)))
    /\ aff' = aff \ {Cur}
    /\ pc' = IF aff' = {} THEN "done" ELSE "rewrite"
    /\ UNCHANGED <<p, lay, tv, reqs, dry>>

\* rowsAfter > 0: COPY ... WHERE (p) IS NOT TRUE to a temp file, rename over the original
RewriteCopy   == pc = "rewrite" /\ aff # {} /\ Kept(Cur) # {} /\ RewriteStep
\* rowsAfter = 0: the file is deleted from storage
RewriteRemove == pc = "rewrite" /\ aff # {} /\ Kept(Cur) = {} /\ RewriteStep

Done == pc = "done" /\ UNCHANGED vars

Next == RejectUnconfirmed \/ DryRunPlain \/ DryRun \/ FindAffectedBatch \/ FindAffectedFallback \/ RewriteCopy \/ RewriteRemove \/ Done
Spec == Init /\ [][Next]_vars

-----------------------------------------------------------------------------
Expected(f)  == {i \in Orig(lay, f) : tv[i] # "T"}          \* the property's After
OrigOf(f)    == Orig(lay, f)
StoreOf(f)   == store[f]
Disappeared  == Sum3(OrigOf) - Sum3(StoreOf)
NTrue        == Cardinality({i \in RowIds : tv[i] = "T"})

\* holds for the current code and for the pre-fix variant
FalseRowsStay    == \A f \in Files : \A i \in Orig(lay, f) : tv[i] = "F" => i \in store[f]
TrueRowsGone     == pc = "done" => \A f \in Files : \A i \in store[f] : tv[i] # "T"
CountIsDisappear == pc = "done" => deleted = Disappeared
DryRunInert      == /\ pc \in {"start", "r1", "r2", "dry_done"} => store = [f \in Files |-> Orig(lay, f)]
                    /\ pc = "dry_done" => dry = NTrue
UntouchedFiles   == \A f \in Files : (\A i \in Orig(lay, f) : tv[i] # "T") => store[f] = Orig(lay, f)
NothingInvented  == \A f \in Files : store[f] \subseteq Orig(lay, f)
ImplSafe == FalseRowsStay /\ TrueRowsGone /\ CountIsDisappear /\ DryRunInert /\ UntouchedFiles /\ NothingInvented

\* characterises the pre-fix variant (Keep = "not_p"): a NULL row disappears exactly when its file is affected
AsWritten == pc = "done" => \A f \in Files : \A i \in Orig(lay, f) :
                 tv[i] = "N" => ((i \in store[f]) <=> (\A j \in Orig(lay, f) : tv[j] # "T"))

\* the property (C10): exactly the TRUE rows disappear, the count is right, the dry run reports it
PropExact == pc = "done" => /\ \A f \in Files : store[f] = Expected(f)
                            /\ deleted = NTrue
                            /\ dry = deleted
                            /\ \A i \in 1..Len(reqs) : reqs[i].out = "dry" => reqs[i].count = deleted

\* generation
ClassOf(f) == [T |-> Cardinality({i \in Orig(lay, f) : tv[i] = "T"}),
               F |-> Cardinality({i \in Orig(lay, f) : tv[i] = "F"}),
               N |-> Cardinality({i \in Orig(lay, f) : tv[i] = "N"})]

ASSUME Emit =>
    PrintT(<<"TRACE", ToJson([kind |-> "dataset",
                              rows |-> [i \in RowIds |-> Row(i)],
                              layouts |-> [l \in Layouts |-> [i \in RowIds |-> FileOf(l, i)]],
                              times |-> [l \in Layouts |-> [i \in RowIds |-> TimeOf(l, i)]],
                              part_dirs |-> PartDir, file_name |-> FileName, junk_dir |-> JunkDir,
                              junk_layouts |-> {l \in Layouts : HasJunk(l)},
                              npreds |-> Cardinality(Preds)])>>)

EmitInv ==
    (Emit /\ pc = "done") =>
        PrintT(<<"TRACE", ToJson([kind |-> "case", p |-> p, lay |-> lay,
                                  tv |-> [i \in RowIds |-> tv[i]],
                                  expected |-> [f \in Files |-> Expected(f)],
                                  impl |-> [f \in Files |-> store[f]],
                                  impl_deleted |-> deleted, impl_dry |-> dry,
                                  expected_count |-> NTrue, reqs |-> reqs,
                                  full_table |-> FullTable(p), has_const |-> (p \in ConstPreds)])>>)
=============================================================================

SPECIFICATION Spec
CONSTANTS
  Size = "large"
  Keep = "not_p"
  Emit = FALSE
INVARIANTS PropExact
CHECK_DEADLOCK FALSE

SPECIFICATION Spec
CONSTANTS
  Size = "large"
  Keep = "not_p"
  Emit = FALSE
INVARIANTS ImplSafe AsWritten
CHECK_DEADLOCK FALSE

---------------------------- MODULE RowDeleteBase ----------------------------
(***************************************************************************)
(* Constant-level part shared by RowDelete.tla (one delete request) and    *)
(* Overlap.tla (two overlapping delete requests): the row universe, the    *)
(* layouts over partition directories, the predicate grammar and its       *)
(* Kleene three-valued evaluation.  See RowDelete.tla for the value codes. *)
(***************************************************************************)
EXTENDS Naturals, Sequences, FiniteSets, TLC, Json

CONSTANTS Size     \* "small" | "large"

Null == 0

-----------------------------------------------------------------------------
\* the row universe: every combination of the column domains, plus one exact duplicate
NV == 3   \* v in 0..2
NS == 4   \* s in 0..3
NF == 3   \* f in 0..2

NBase == IF Size = "large" THEN NV * NS * NF ELSE NV * NS
DupOf == 7                      \* the extra row NBase+1 is an exact copy (same time) of this row
NRows == NBase + 1

BaseRow(i) ==
    IF Size = "large"
      THEN [v |-> (i - 1) \div (NS * NF), s |-> ((i - 1) \div NF) % NS, f |-> (i - 1) % NF, t |-> i]
      ELSE LET v == (i - 1) \div NS  s == (i - 1) % NS
           IN [v |-> v, s |-> s, f |-> (v + 2 * s) % NF, t |-> i]
RowIds == 1..(NBase + 1)
RowT   == [i \in RowIds |-> IF i <= NBase THEN BaseRow(i) ELSE BaseRow(DupOf)]   \* constant table
Row(i) == RowT[i]


Layouts == IF Size = "large" THEN {"byV", "byS", "mix", "pair", "one", "byF"}
                             ELSE {"byV", "byS", "mix", "pair", "one"}
MaxFilesOf(l) == CASE l = "pair" -> 2 [] l = "one" -> 1 [] OTHER -> 3

\* file (1..3) of row i under layout l ; the duplicate sits next to its twin
FileOf(l, i) ==
    LET j == IF i <= NBase THEN i ELSE DupOf
        r == Row(j)
    IN CASE l = "byV"  -> r.v + 1
         [] l = "byS"  -> (IF r.s > 2 THEN 2 ELSE r.s) + 1
         [] l = "byF"  -> r.f + 1
         [] l = "mix"  -> ((r.v + r.s) % 3) + 1
         [] l = "pair" -> (j % 2) + 1
         [] l = "one"  -> 1
Files == 1..3

\* every file sits in its own partition directory (two hour partitions and one compacted day partition)
\* and all files carry the SAME base name; a row's time lies inside its file's partition
PartDir  == <<"2024/01/01/00", "2024/01/01/01", "2024/01/02">>
PartBase == <<0, 3600, 86400>>                 \* seconds after 2024-01-01 00:00:00
FileName == "data.parquet"
\* in these layouts the measurement also holds one unreadable (truncated) parquet file in a fourth partition:
\* the batched count query fails and findAffectedFiles falls back to countMatchingRowsIndividually, which
\* skips the unreadable file; the outcome for the readable files is the same
HasJunk(l) == l \in {"mix", "pair"}
JunkDir    == "2024/01/03"
TimeOf(l, i) == PartBase[FileOf(l, i)] + (IF i <= NBase THEN i ELSE DupOf)
OrigT == [l \in Layouts |-> [f \in Files |-> {i \in RowIds : FileOf(l, i) = f}]]   \* constant table
Orig(l, f) == OrigT[l][f]

-----------------------------------------------------------------------------
\* predicate grammar
Cmp(c, op, lit)   == [k |-> "cmp",  c |-> c, op |-> op, lit |-> lit]
IsNull(c, neg)    == [k |-> "null", c |-> c, neg |-> neg]            \* neg: IS NOT NULL
In(c, lits, neg)  == [k |-> "in",   c |-> c, lits |-> lits, neg |-> neg]
Like(c, pre, neg) == [k |-> "like", c |-> c, lit |-> pre, neg |-> neg] \* c LIKE '<pre>%'
LikeU(c, neg)     == [k |-> "likeu", c |-> c, neg |-> neg]              \* c LIKE 'a_'  (matches exactly 'ab')

AtomsSmall == <<
    Cmp("v", "=", 1), Cmp("v", "<>", 1), Cmp("v", "<", 2), Cmp("v", ">=", 2),
    IsNull("v", FALSE), IsNull("v", TRUE),
    In("v", <<1, 2>>, FALSE), In("v", <<1, Null>>, FALSE), In("v", <<1, Null>>, TRUE),
    Cmp("s", "=", 1), Cmp("s", "<>", 2), Cmp("s", ">", 1),
    IsNull("s", FALSE),
    In("s", <<1, Null>>, FALSE), In("s", <<2, 3>>, TRUE),
    Like("s", 1, FALSE), Like("s", 1, TRUE), LikeU("s", FALSE),
    Cmp("f", "<", 2), IsNull("f", TRUE),
    \* the time column (never NULL): literals on a partition boundary and inside the first partition
    Cmp("t", "<", 3600), Cmp("t", ">=", 3600), Cmp("t", "<", 7) >>

AtomsLarge == AtomsSmall \o <<
    Cmp("v", ">", 1), Cmp("v", "<=", 1), Cmp("v", "=", 2),
    In("v", <<2>>, TRUE),
    Cmp("s", "<", 2), Cmp("s", "<=", 2), Cmp("s", ">=", 3), Cmp("s", "=", 2),
    IsNull("s", TRUE), Like("s", 2, FALSE),
    In("s", <<1, 2>>, FALSE),
    Cmp("f", "=", 1), Cmp("f", ">=", 2), IsNull("f", FALSE), In("f", <<2, Null>>, TRUE),
    Cmp("t", "<=", 86400), Cmp("t", ">", 86405), Cmp("t", ">=", 3607) >>

AtomSeq == IF Size = "large" THEN AtomsLarge ELSE AtomsSmall
NA      == Len(AtomSeq)

Not(x)       == [k |-> "not", a |-> x]
Bin(o, x, y) == [k |-> o, a |-> x, b |-> y]

Depth0 == {AtomSeq[i] : i \in 1..NA}
Depth1 == {Not(AtomSeq[i]) : i \in 1..NA}
          \cup {Bin(o, AtomSeq[i], AtomSeq[j]) : o \in {"and", "or"}, i \in 1..NA, j \in 1..NA}
\* depth 2: NOT over a connective; a connective over a connective and an atom (both sides);
\* every fourth (small) / eighth (large) atom is used as the outer operand
Outer  == {i \in 1..NA : i % (IF Size = "large" THEN 8 ELSE 4) = 1}
Pairs  == {<<i, j>> \in (1..NA) \X (1..NA) : i < j}
Depth2 == {Not(Bin(o, AtomSeq[ij[1]], AtomSeq[ij[2]])) : o \in {"and", "or"}, ij \in Pairs}
          \cup {Bin(o2, Bin(o1, AtomSeq[ij[1]], AtomSeq[ij[2]]), AtomSeq[c]) :
                   o1 \in {"and", "or"}, o2 \in {"and", "or"}, ij \in Pairs, c \in Outer}
          \cup {Bin(o2, AtomSeq[c], Not(AtomSeq[i])) : o2 \in {"and", "or"}, c \in Outer, i \in 1..NA}
Depth1U == {Not(AtomSeq[i]) : i \in 1..NA}
           \cup {Bin(o, AtomSeq[ij[1]], AtomSeq[ij[2]]) : o \in {"and", "or"}, ij \in Pairs}
\* constant predicates: tautologies (two of them are what validateWhereClause calls a "full table
\* delete": the trimmed, upper-cased text is exactly 1=1 / TRUE), contradictions, a NULL-valued constant
Const(val, form) == [k |-> "const", val |-> val, form |-> form]
ConstSeq == << Const("T", "1=1"), Const("T", "TRUE"), Const("T", "1 = 1"),
               Const("F", "FALSE"), Const("F", "1=0"), Const("N", "NULL = NULL") >>
NConst == Len(ConstSeq)
ConstPreds == {ConstSeq[i] : i \in 1..NConst} \cup {Not(ConstSeq[i]) : i \in 1..NConst}
              \cup {Bin(o, ConstSeq[i], AtomSeq[j]) : o \in {"and", "or"}, i \in 1..NConst, j \in Outer}
              \cup {Bin(o, AtomSeq[j], ConstSeq[i]) : o \in {"and", "or"}, i \in 1..NConst, j \in Outer}
FullTable(q) == q.k = "const" /\ q.form \in {"1=1", "TRUE"}

Preds  == Depth0 \cup Depth1U \cup Depth2 \cup ConstPreds

-----------------------------------------------------------------------------
\* Kleene evaluation: "T", "F", "N"
B(b)    == IF b THEN "T" ELSE "F"
Not3(x) == CASE x = "T" -> "F" [] x = "F" -> "T" [] OTHER -> "N"
And3(x, y) == IF x = "F" \/ y = "F" THEN "F" ELSE IF x = "T" /\ y = "T" THEN "T" ELSE "N"
Or3(x, y)  == IF x = "T" \/ y = "T" THEN "T" ELSE IF x = "F" /\ y = "F" THEN "F" ELSE "N"

CmpOp(op, x, y) == CASE op = "="  -> x = y  [] op = "<>" -> x # y
                     [] op = "<"  -> x < y  [] op = "<=" -> x <= y
                     [] op = ">"  -> x > y  [] op = ">=" -> x >= y

\* string codes 1='a' 2='ab' 3='b': prefix 'a' matches 'a','ab'; prefix 'ab' matches 'ab'
HasPrefix(x, pre) == CASE pre = 1 -> x \in {1, 2} [] pre = 2 -> x = 2 [] pre = 3 -> x = 3

Neg(a, x) == IF a.neg THEN Not3(x) ELSE x

EvalAtom(a, r) ==
    LET x == r[a.c]
    IN CASE a.k = "cmp"  -> IF x = Null THEN "N" ELSE B(CmpOp(a.op, x, a.lit))
         [] a.k = "null" -> B((x = Null) # a.neg)
         [] a.k = "in"   -> Neg(a, IF x = Null THEN "N"
                                   ELSE IF \E i \in 1..Len(a.lits) : a.lits[i] # Null /\ a.lits[i] = x THEN "T"
                                   ELSE IF \E i \in 1..Len(a.lits) : a.lits[i] = Null THEN "N" ELSE "F")
         [] a.k = "like" -> Neg(a, IF x = Null THEN "N" ELSE B(HasPrefix(x, a.lit)))
         [] a.k = "likeu" -> Neg(a, IF x = Null THEN "N" ELSE B(x = 2))

RECURSIVE Eval(_, _)
Eval(q, r) == CASE q.k = "not" -> Not3(Eval(q.a, r))
                [] q.k = "and" -> And3(Eval(q.a, r), Eval(q.b, r))
                [] q.k = "or"  -> Or3(Eval(q.a, r), Eval(q.b, r))
                [] q.k = "const" -> q.val
                [] OTHER       -> EvalAtom(q, r)

=============================================================================

SPECIFICATION Spec
CONSTANTS
  Size = "small"
  Keep = "is_not_true"
  Emit = FALSE
INVARIANTS ImplSafe PropExact
CHECK_DEADLOCK FALSE

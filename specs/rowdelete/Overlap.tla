------------------------------- MODULE Overlap -------------------------------
(***************************************************************************)
(* C10, overlapping confirmed deletes (double submit / client retry).      *)
(*                                                                         *)
(* Two delete requests A and B run against the same measurement.  Each is  *)
(* the handler as the code is now (internal/api/delete.go):                *)
(*   Scan(X)  findAffectedFiles: the files holding a row where X's         *)
(*            predicate is TRUE, with their match counts                   *)
(*   Rw(X)    rewriteFileWithoutDeletedRows for X's next affected file:    *)
(*            the row counts are taken AGAIN with the predicate on the     *)
(*            file as it is now (Recount = TRUE); rows kept = predicate    *)
(*            not TRUE; nothing kept -> file removed; file already gone -> *)
(*            the count query fails and the file is reported as failed     *)
(* Recount = FALSE is the negative control: the number of rows to delete   *)
(* is taken from the scan and only the file's total is read again          *)
(* (rowsAfter = total - matchCount), which is wrong as soon as the other   *)
(* request changed the file between X's scan and X's rewrite.              *)
(* TLC explores every interleaving of the steps of A and B.  Only the      *)
(* family  A.scan ; B completely ; A.rewrite*  is emitted for replay (the  *)
(* driver can hold request A between its scan and its rewrites).           *)
(***************************************************************************)
EXTENDS RowDeleteBase

CONSTANTS Recount, Emit

VARIABLES pa, pb, lay, tva, tvb,
          store,            \* file -> set of row ids
          pcA, pcB,         \* "scan" | "rw" | "done"
          affA, affB,       \* affected files still to rewrite
          mcA, mcB,         \* match count per file found by the scan
          delA, delB,       \* reported deleted counts
          failA, failB,     \* a file of the request failed (it was gone)
          phase             \* 0 start, 1 A scanned / B running, 2 B done / A rewriting, 9 any other order

vars == <<pa, pb, lay, tva, tvb, store, pcA, pcB, affA, affB, mcA, mcB, delA, delB, failA, failB, phase>>

OLayouts == {l \in Layouts : ~HasJunk(l)}
\* the second request repeats the first one (double submit) or is one of a few other atoms
OtherIdx == {i \in 1..NA : i % 5 = 1}

RowAt(l, i) == [Row(i) EXCEPT !.t = TimeOf(l, i)]

Init == /\ lay \in OLayouts
        /\ \E i \in 1..NA : /\ pa = AtomSeq[i]
                            /\ pb \in {AtomSeq[i]} \cup {AtomSeq[j] : j \in OtherIdx}
        /\ tva = [i \in RowIds |-> Eval(pa, RowAt(lay, i))]
        /\ tvb = [i \in RowIds |-> Eval(pb, RowAt(lay, i))]
        /\ store = [f \in Files |-> Orig(lay, f)]
        /\ pcA = "scan" /\ pcB = "scan" /\ affA = {} /\ affB = {}
        /\ mcA = [f \in Files |-> 0] /\ mcB = [f \in Files |-> 0]
        /\ delA = 0 /\ delB = 0 /\ failA = FALSE /\ failB = FALSE
        /\ phase = 0

TrueOf(tv, f) == {i \in store[f] : tv[i] = "T"}
Min(S) == CHOOSE f \in S : \A g \in S : f <= g

\* outcome of one rewrite step of a request with truth vector tv, scan-time match count mc, on file f
KeepOf(tv, f) == {i \in store[f] : tv[i] # "T"}
NewContent(tv, mc, f) ==
    IF Recount THEN KeepOf(tv, f)
    ELSE IF Cardinality(store[f]) - mc = 0 THEN {} ELSE KeepOf(tv, f)
Reported(tv, mc, f) ==
    IF Recount THEN Cardinality(store[f]) - Cardinality(KeepOf(tv, f)) ELSE mc

ScanA == /\ pcA = "scan"
         /\ affA' = {f \in Files : TrueOf(tva, f) # {}}
         /\ mcA' = [f \in Files |-> Cardinality(TrueOf(tva, f))]
         /\ pcA' = IF affA' = {} THEN "done" ELSE "rw"
         /\ phase' = IF phase = 0 THEN 1 ELSE 9
         /\ UNCHANGED <<pa, pb, lay, tva, tvb, store, pcB, affB, mcB, delA, delB, failA, failB>>

ScanB == /\ pcB = "scan"
         /\ affB' = {f \in Files : TrueOf(tvb, f) # {}}
         /\ mcB' = [f \in Files |-> Cardinality(TrueOf(tvb, f))]
         /\ pcB' = IF affB' = {} THEN "done" ELSE "rw"
         /\ phase' = IF phase = 1 THEN 1 ELSE 9
         /\ UNCHANGED <<pa, pb, lay, tva, tvb, store, pcA, affA, mcA, delA, delB, failA, failB>>

RwA == /\ pcA = "rw"
       /\ LET f == Min(affA) IN
            /\ IF store[f] = {}
                 THEN failA' = TRUE /\ UNCHANGED <<store, delA>>
                 ELSE /\ store' = [store EXCEPT ![f] = NewContent(tva, mcA[f], f)]
                      /\ delA' = delA + Reported(tva, mcA[f], f)
                      /\ UNCHANGED failA
            /\ affA' = affA \ {f}
            /\ pcA' = IF affA' = {} THEN "done" ELSE "rw"
       /\ phase' = IF phase \in {1, 2} /\ pcB = "done" THEN 2 ELSE 9
       /\ UNCHANGED <<pa, pb, lay, tva, tvb, pcB, affB, mcA, mcB, delB, failB>>

RwB == /\ pcB = "rw"
       /\ LET f == Min(affB) IN
            /\ IF store[f] = {}
                 THEN failB' = TRUE /\ UNCHANGED <<store, delB>>
                 ELSE /\ store' = [store EXCEPT ![f] = NewContent(tvb, mcB[f], f)]
                      /\ delB' = delB + Reported(tvb, mcB[f], f)
                      /\ UNCHANGED failB
            /\ affB' = affB \ {f}
            /\ pcB' = IF affB' = {} THEN "done" ELSE "rw"
       /\ phase' = IF phase = 1 THEN 1 ELSE 9
       /\ UNCHANGED <<pa, pb, lay, tva, tvb, pcA, affA, mcA, mcB, delA, failA>>

Next == ScanA \/ ScanB \/ RwA \/ RwB
Spec == Init /\ [][Next]_vars

-----------------------------------------------------------------------------
BothDone == pcA = "done" /\ pcB = "done"
Final(f) == {i \in Orig(lay, f) : tva[i] # "T" /\ tvb[i] # "T"}
Sum3s(g(_)) == Cardinality(g(1)) + Cardinality(g(2)) + Cardinality(g(3))
OrigOf(f)  == Orig(lay, f)
StoreOf(f) == store[f]

\* whatever the interleaving: a row selected by neither predicate is never lost
UnselectedStay == \A f \in Files : Final(f) \subseteq store[f]
\* when both are done every row selected by one of them is gone
SelectedGone   == BothDone => \A f \in Files : store[f] = Final(f)
\* and, unless a request reported a failed file, the reported counts add up to the rows that disappeared
CountsAddUp    == (BothDone /\ ~failA /\ ~failB) => delA + delB = Sum3s(OrigOf) - Sum3s(StoreOf)

OverlapSafe == UnselectedStay /\ SelectedGone /\ CountsAddUp

EmitInv ==
    (Emit /\ BothDone /\ phase \in {1, 2} /\ mcA # [f \in Files |-> 0]) =>
        PrintT(<<"TRACE", ToJson([kind |-> "overlap", pa |-> pa, pb |-> pb, lay |-> lay,
                                  tva |-> [i \in RowIds |-> tva[i]], tvb |-> [i \in RowIds |-> tvb[i]],
                                  final |-> [f \in Files |-> store[f]],
                                  del_a |-> delA, del_b |-> delB, fail_a |-> failA, fail_b |-> failB])>>)
=============================================================================

SPECIFICATION Spec
CONSTANTS
  Size = "small"
  Recount = TRUE
  Emit = TRUE
INVARIANTS OverlapSafe EmitInv
CHECK_DEADLOCK FALSE

SPECIFICATION Spec
CONSTANTS
  MaxWrites = 2
  MaxFaults = 1
  MaxCrashes = 2
  ClassSel = "sched"
  Defects = {}
  Emit = FALSE
INVARIANTS TypeOK RecoveredEqualsCrashFree
VIEW view
CHECK_DEADLOCK FALSE

SPECIFICATION Spec
CONSTANTS
  MaxWrites = 2
  MaxFaults = 1
  MaxCrashes = 2
  ClassSel = "sched"
  Defects = {"deleteBeforeFlush", "renorm"}
  Emit = TRUE
INVARIANTS TypeOK EmitInv
CHECK_DEADLOCK FALSE

SPECIFICATION Spec
CONSTANTS
  MaxWrites = 3
  MaxFaults = 1
  MaxCrashes = 2
  ClassSel = "sched3"
  Defects = {}
  Emit = FALSE
INVARIANTS TypeOK RecoveredEqualsCrashFree
VIEW view
CHECK_DEADLOCK FALSE

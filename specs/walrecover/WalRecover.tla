----------------------------- MODULE WalRecover -----------------------------
(***************************************************************************)
(* C05 -- WAL crash recovery restores exactly the acknowledged rows.       *)
(*                                                                         *)
(* Implementation-shaped model of the write -> WAL -> buffer -> flush path *)
(* and of startup recovery as composed in cmd/arc/main.go:                 *)
(*                                                                         *)
(*   live:   Write(c)   the handler enqueues the WAL entry on the writer's  *)
(*                      channel (non-blocking), appends the rows to the    *)
(*                      in-memory ArrowBuffer and answers 204              *)
(*           Persist    wal.Writer.writerLoop writes the head of the       *)
(*                      channel to the active file                         *)
(*           Flush      ArrowBuffer.FlushAll: buffered rows -> Parquet     *)
(*                      (WAL files are NOT purged by a flush)              *)
(*           Crash      kill -9: channel and buffer vanish                 *)
(*   start:  Restart    wal.NewWriter rotates in a fresh active file, then *)
(*                      RecoverWithOptions{SkipActiveFile} walks the other *)
(*                      files oldest first                                 *)
(*           RecoverReplay   one entry -> callback -> WriteColumnarDirect- *)
(*                      NoWAL -> rows re-buffered IN MEMORY                *)
(*           RecoverDelete   os.Remove(file) right after its last entry    *)
(*           RecoverDone     recovery returns, the server serves           *)
(*           Finish     final flush (clean end of the scenario)            *)
(*                                                                         *)
(* WAL encodings: a top-level columnar msgpack map keeps the client bytes  *)
(* in an envelope [0x01 dbLen db bytes] ("env"); every other request kind  *)
(* (msgpack row, batch, array, line protocol) is transposed to row records *)
(* {_database,_measurement, <every column by name>} ("rows").              *)
(*                                                                         *)
(* Deviations of the code are modelled as written and can be switched off  *)
(* individually (CONSTANT Defects) so that TLC shows (a) the property      *)
(* fails for the design as built -- a candidate schedule that the driver   *)
(* reproduces on the real code -- and (b) holds once they are repaired:    *)
(*   deleteBeforeFlush  the WAL file is removed while its rows are only in *)
(*                      memory                                             *)
(*   renorm             replay re-detects the time unit of row records     *)
(*                      that are already in microseconds                   *)
(*   keyCollision       a column called _database/_measurement overwrites  *)
(*                      the routing key; database/measurement/m/_database/ *)
(*                      _measurement columns are dropped by the callback   *)
(*   intM               parseColumnarEntry requires a string "m"           *)
(***************************************************************************)
EXTENDS Naturals, Sequences, FiniteSets, TLC, Json

CONSTANTS MaxWrites,    \* writes per history
          MaxCrashes,   \* kill -9 per history
          MaxFaults,    \* transient failures of a replay callback per history
          ClassSel,     \* "entry" (all attribute classes) | "sched" (few classes, long schedules)
          Defects,      \* subset of AllDefects modelled as present
          Emit          \* TRUE: print one TRACE line per terminal state

\* aliasPayload (not in the code): the queued envelope entry aliases the caller's request buffer instead of
\* copying it, so a buffer reused before Persist corrupts the entry (CRC computed at append time)
AllDefects == {"deleteBeforeFlush", "renorm", "keyCollision", "intM", "aliasPayload"}

Kinds    == {"raw", "row", "batch", "array", "lp"}
Specials == {"database", "measurement", "m", "_database", "_measurement"}
TsOf(k)  == {"neg", "lt1e10", "lt1e13", "normal"} \cup (IF k = "lp" THEN {"far"} ELSE {})

\* sz: rows per request -- "small" (1-2: msgpack fixarray), "mid" (20: array16), "big" (65 600: array32
\* in the row-format WAL entry, replayed in several RecoveryBatchSize batches)
Base(k) == [kind |-> k, db |-> "d1", ts |-> "normal", sp |-> "none", mk |-> "str", sz |-> "small"]

EntryClasses ==
    UNION { {Base(k)}
            \cup {[Base(k) EXCEPT !.db = "d2"]}
            \cup {[Base(k) EXCEPT !.ts = t] : t \in TsOf(k)}
            \cup {[Base(k) EXCEPT !.sp = s] : s \in Specials}
          : k \in Kinds }
    \cup {[Base("raw") EXCEPT !.mk = "int"], [Base("raw") EXCEPT !.mk = "int", !.db = "d2"]}
    \cup {[Base("lp") EXCEPT !.sz = "mid"], [Base("lp") EXCEPT !.sz = "big"], [Base("batch") EXCEPT !.sz = "mid"]}
    \* a columnar client batch with more rows than wal.recovery_batch_size whose timestamps are mixed: row 0
    \* is an ordinary microsecond value, the row at index = batch size is before 1970 ("win" / "mixedwin")
    \cup {[Base("raw") EXCEPT !.sz = "win", !.ts = "mixedwin"]}
    \* the database literally named "default" (the routing fallbacks of the replay callback default to it),
    \* crossed with the special column names
    \cup {[Base(k) EXCEPT !.db = "default", !.sp = s] : k \in {"lp", "row"}, s \in Specials \cup {"none"}}
    \cup {[Base(k) EXCEPT !.db = "default", !.sp = "database"] : k \in {"raw", "batch", "array"}}

Sched3Classes == {Base("raw"), Base("lp"), [Base("lp") EXCEPT !.db = "d2"]}
\* + adjacency classes: a second columnar write of the same shape to another database, and as controls the
\* same with another column set (sp = "m") and another measurement (mk = "int" -> measurement_7)
SchedClasses == Sched3Classes
                \cup {[Base("raw") EXCEPT !.db = "d2"], [Base("raw") EXCEPT !.db = "d2", !.sp = "m"],
                      [Base("raw") EXCEPT !.db = "d2", !.mk = "int"]}

ClassSet == CASE ClassSel = "entry" -> EntryClasses [] ClassSel = "sched3" -> Sched3Classes [] OTHER -> SchedClasses

VARIABLES phase,    \* "live" | "down" | "rec" | "done"
          writes,   \* Seq(class): the history so far; the index is the row id
          chan,     \* Seq(id): acknowledged, not yet in the file
          files,    \* Seq([ents: Seq(id), alive: BOOLEAN]); the last one is the active file
          buf,      \* set of rows in the ArrowBuffer
          pq,       \* set of rows in Parquet (a set: duplicates are not the property's concern)
          cur,      \* [f, e, ok]: recovery cursor (file index, next callable entry, allEntriesSucceeded)
          crashes,
          faults,   \* transient replay-callback failures injected so far
          scribbled, \* ids whose request buffer was reused while the entry was still queued
          reached,  \* ids whose WAL entry reached a file
          flushed,  \* ids whose live rows reached Parquet before any crash took them
          sched     \* history: labels of the steps taken (what the driver replays)

vars == <<phase, writes, chan, files, buf, pq, cur, crashes, faults, scribbled, reached, flushed, sched>>
view == <<phase, writes, chan, files, buf, pq, cur, crashes, faults, scribbled, reached, flushed>>

-----------------------------------------------------------------------------
WalFmt(c) == IF c.kind = "raw" THEN "env" ELSE "rows"

Mul(ts) == CASE ts \in {"neg", "lt1e10"} -> "x1e6"
             [] ts = "lt1e13"            -> "x1e3"
             [] ts = "far"               -> "div1e3"
             [] OTHER                    -> "x1"

LiveRowOf(c, i) == [id |-> i, db |-> c.db, meas |-> "m", tm |-> "x1", drop |-> "none"]
LiveRow(i) == LiveRowOf(writes[i], i)

\* what createWALRecoveryCallback / the columnar callback re-buffer for entry i
ReplayRow(i) ==
    LET c == writes[i] IN
    IF WalFmt(c) = "env" THEN LiveRow(i)
    ELSE [id   |-> i,
          db   |-> IF c.sp = "_database" /\ "keyCollision" \in Defects THEN "dz" ELSE c.db,
          meas |-> IF c.sp = "_measurement" /\ "keyCollision" \in Defects THEN "mz" ELSE "m",
          tm   |-> IF "renorm" \in Defects THEN Mul(c.ts) ELSE "x1",
          \* (a column whose name starts with "_" is not stored by the live path either)
          drop |-> IF c.sp \in {"database", "measurement", "m"} /\ "keyCollision" \in Defects THEN c.sp ELSE "none"]

\* Reader.readEntry yields the entry (an "env" entry with an integer m is "unrecognized")
Readable(i) == /\ ~(WalFmt(writes[i]) = "env" /\ writes[i].mk = "int" /\ "intM" \in Defects)
               /\ ~(i \in scribbled /\ "aliasPayload" \in Defects)

CallEnts(f) == SelectSeq(files[f].ents, Readable)

Active == Len(files)
\* first file in lo..hi that recovery will look at (alive), or hi (= the active file)
FirstFrom(fs, lo, hi) == CHOOSE g \in lo..hi : /\ (g = hi \/ fs[g].alive)
                                              /\ \A h \in lo..(g - 1) : ~fs[h].alive

Init == /\ phase = "live" /\ writes = <<>> /\ chan = <<>>
        /\ files = <<[ents |-> <<>>, alive |-> TRUE]>>
        /\ buf = {} /\ pq = {} /\ cur = [f |-> 1, e |-> 1, ok |-> TRUE]
        /\ crashes = 0 /\ faults = 0 /\ scribbled = {} /\ reached = {} /\ flushed = {} /\ sched = <<>>

-----------------------------------------------------------------------------
\* reuse: the caller (fasthttp) recycles the request-body buffer right after the handler returned, while the
\* entry is still in the asynchronous queue (only explored for a raw columnar write on an empty queue)
Write(c, reuse) ==
    /\ phase = "live" /\ Len(writes) < MaxWrites
    /\ reuse => (c.kind = "raw" /\ chan = <<>> /\ ClassSel = "entry")   \* explored in the entry-level space only
    /\ scribbled' = IF reuse THEN scribbled \cup {Len(writes) + 1} ELSE scribbled
    /\ LET i == Len(writes) + 1 IN
         /\ writes' = Append(writes, c)
         /\ chan' = Append(chan, i)
         /\ buf' = buf \cup {LiveRowOf(c, i)}
    /\ sched' = Append(sched, IF reuse THEN "wu" ELSE "w")
    /\ UNCHANGED <<phase, files, pq, cur, crashes, faults, reached, flushed>>

Persist ==
    /\ phase = "live" /\ chan # <<>>
    /\ files' = [files EXCEPT ![Active].ents = Append(@, Head(chan))]
    /\ reached' = reached \cup {Head(chan)}
    /\ chan' = Tail(chan)
    /\ sched' = Append(sched, "p")
    /\ UNCHANGED <<phase, writes, buf, pq, cur, crashes, faults, scribbled, flushed>>

Flush ==
    /\ phase = "live" /\ buf # {}
    /\ pq' = pq \cup buf /\ buf' = {}
    /\ flushed' = flushed \cup {r.id : r \in {x \in buf : x = LiveRow(x.id)}}
    /\ sched' = Append(sched, "f")
    /\ UNCHANGED <<phase, writes, chan, files, cur, crashes, faults, scribbled, reached>>

\* crash points the driver can reach exactly: anywhere in the live phase; in recovery right
\* after a replayed entry ("xa") or right before the first entry of a file ("xb": start of
\* recovery, or just after the previous file was deleted)
CrashLabel ==
    IF phase = "live" THEN "x"
    ELSE IF cur.e > 1 THEN "xa" ELSE "xb"

CanCrashHere ==
    \/ phase = "live"
    \/ /\ phase = "rec" /\ cur.f < Active /\ cur.ok
       /\ \/ cur.e > 1
          \/ Len(CallEnts(cur.f)) >= 1

Crash ==
    /\ crashes < MaxCrashes /\ CanCrashHere
    /\ Len(writes) >= 1
    /\ phase' = "down" /\ chan' = <<>> /\ buf' = {}
    /\ crashes' = crashes + 1
    /\ sched' = Append(sched, CrashLabel)
    /\ UNCHANGED <<writes, files, pq, cur, faults, scribbled, reached, flushed>>

Restart ==
    /\ phase = "down"
    /\ files' = Append(files, [ents |-> <<>>, alive |-> TRUE])
    /\ phase' = "rec"
    /\ cur' = [f |-> FirstFrom(Append(files, [ents |-> <<>>, alive |-> TRUE]), 1, Len(files) + 1), e |-> 1, ok |-> TRUE]
    /\ sched' = Append(sched, "s")
    /\ UNCHANGED <<writes, chan, buf, pq, crashes, faults, scribbled, reached, flushed>>

RecoverReplay ==
    /\ phase = "rec" /\ cur.f < Active
    /\ cur.e <= Len(CallEnts(cur.f))
    /\ buf' = buf \cup {ReplayRow(CallEnts(cur.f)[cur.e])}
    /\ cur' = [cur EXCEPT !.e = @ + 1]
    /\ sched' = Append(sched, "r")
    /\ UNCHANGED <<phase, writes, chan, files, pq, crashes, faults, scribbled, reached, flushed>>

\* the callback of one entry fails transiently (storage/backpressure error): nothing is buffered and
\* allEntriesSucceeded becomes FALSE; a columnar entry lets the loop continue, a row entry breaks out
RecoverReplayFail ==
    /\ phase = "rec" /\ cur.f < Active /\ faults < MaxFaults
    /\ cur.e <= Len(CallEnts(cur.f))
    /\ faults' = faults + 1
    /\ cur' = [cur EXCEPT !.ok = FALSE,
                          !.e = IF WalFmt(writes[CallEnts(cur.f)[cur.e]]) = "env" THEN @ + 1
                                ELSE Len(CallEnts(cur.f)) + 1]
    /\ sched' = Append(sched, "rf")
    /\ UNCHANGED <<phase, writes, chan, files, buf, pq, crashes, scribbled, reached, flushed>>

\* !allEntriesSucceeded: "WAL file partially recovered - keeping for retry"
RecoverKeep ==
    /\ phase = "rec" /\ cur.f < Active /\ ~cur.ok
    /\ cur.e > Len(CallEnts(cur.f))
    /\ cur' = [f |-> FirstFrom(files, cur.f + 1, Active), e |-> 1, ok |-> TRUE]
    /\ sched' = Append(sched, "k")
    /\ UNCHANGED <<phase, writes, chan, files, buf, pq, crashes, faults, scribbled, reached, flushed>>

\* allEntriesSucceeded: the file is removed (also when it had no readable entry at all)
RecoverDelete ==
    /\ phase = "rec" /\ cur.f < Active /\ cur.ok
    /\ cur.e > Len(CallEnts(cur.f))
    /\ IF "deleteBeforeFlush" \in Defects
         THEN UNCHANGED <<buf, pq>>
         ELSE pq' = pq \cup buf /\ buf' = {}        \* repaired design: flush, then delete
    /\ files' = [files EXCEPT ![cur.f].alive = FALSE]
    /\ cur' = [f |-> FirstFrom([files EXCEPT ![cur.f].alive = FALSE], cur.f + 1, Active), e |-> 1, ok |-> TRUE]
    /\ sched' = Append(sched, "d")
    /\ UNCHANGED <<phase, writes, chan, crashes, faults, scribbled, reached, flushed>>

RecoverDone ==
    /\ phase = "rec" /\ cur.f = Active
    /\ phase' = "live"
    /\ sched' = Append(sched, "R")
    /\ UNCHANGED <<writes, chan, files, buf, pq, cur, crashes, faults, scribbled, reached, flushed>>

\* a scenario ends only when no kept file still waits for its retry at the next startup
Finish ==
    /\ phase = "live" /\ Len(writes) >= 1
    /\ \A f \in 1..(Active - 1) : ~files[f].alive \/ files[f].ents = <<>>
    /\ pq' = pq \cup buf /\ buf' = {}
    /\ phase' = "done"
    /\ sched' = Append(sched, "F")
    /\ UNCHANGED <<writes, chan, files, cur, crashes, faults, scribbled, reached, flushed>>

Done == phase = "done" /\ UNCHANGED vars

Next == \/ \E c \in ClassSet, u \in BOOLEAN : Write(c, u)
        \/ Persist \/ Flush \/ Crash \/ Restart
        \/ RecoverReplay \/ RecoverReplayFail \/ RecoverKeep \/ RecoverDelete \/ RecoverDone \/ Finish \/ Done

Spec == Init /\ [][Next]_vars

-----------------------------------------------------------------------------
\* rows that the property speaks about: acknowledged and durable at some point
Must == reached \cup flushed

\* C05: after restart + flush every such row is stored exactly as the crash-free run stores it
RecoveredEqualsCrashFree ==
    phase = "done" =>
        /\ \A i \in Must : LiveRow(i) \in pq
        /\ \A r \in pq : r = LiveRow(r.id)

\* sanity: nothing is fabricated, ids come from the history
TypeOK == /\ \A r \in pq \cup buf : r.id \in 1..Len(writes)
          /\ reached \subseteq 1..Len(writes)
          /\ crashes <= MaxCrashes /\ faults <= MaxFaults

EmitInv ==
    (Emit /\ phase = "done") =>
        PrintT(<<"TRACE", ToJson([writes |-> writes, sched |-> sched, must |-> Must,
                                  pq |-> pq,
                                  ok |-> RecoveredEqualsCrashFree])>>)
=============================================================================

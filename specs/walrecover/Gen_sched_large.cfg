SPECIFICATION Spec
CONSTANTS
  MaxWrites = 3
  MaxFaults = 1
  MaxCrashes = 2
  ClassSel = "sched3"
  Defects = {"deleteBeforeFlush", "renorm"}
  Emit = TRUE
INVARIANTS TypeOK EmitInv
CHECK_DEADLOCK FALSE

SPECIFICATION Spec
CONSTANTS
  MaxWrites = 1
  MaxFaults = 0
  MaxCrashes = 1
  ClassSel = "entry"
  Defects = {"deleteBeforeFlush", "renorm"}
  Emit = TRUE
INVARIANTS TypeOK EmitInv
CHECK_DEADLOCK FALSE

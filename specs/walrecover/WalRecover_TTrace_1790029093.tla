---- MODULE WalRecover_TTrace_1790029093 ----
EXTENDS WalRecover, Sequences, TLCExt, Toolbox, Naturals, TLC

_expression ==
    LET WalRecover_TEExpression == INSTANCE WalRecover_TEExpression
    IN WalRecover_TEExpression!expression
----

_trace ==
    LET WalRecover_TETrace == INSTANCE WalRecover_TETrace
    IN WalRecover_TETrace!trace
----

_inv ==
    ~(
        TLCGet("level") = Len(_TETrace)
        /\
        phase = ("done")
        /\
        cur = ([f |-> 3, e |-> 1])
        /\
        pq = ({})
        /\
        buf = ({})
        /\
        sched = (<<"w", "p", "x", "s", "r", "d", "R", "x", "s", "d", "R", "F">>)
        /\
        reached = ({1})
        /\
        files = (<<[ents |-> <<1>>, alive |-> FALSE], [ents |-> <<>>, alive |-> FALSE], [ents |-> <<>>, alive |-> TRUE]>>)
        /\
        crashes = (2)
        /\
        writes = (<<[kind |-> "raw", db |-> "d1", ts |-> "normal", sp |-> "none", mk |-> "str"]>>)
        /\
        chan = (<<>>)
        /\
        flushed = ({})
    )
----

_init ==
    /\ phase = _TETrace[1].phase
    /\ cur = _TETrace[1].cur
    /\ writes = _TETrace[1].writes
    /\ pq = _TETrace[1].pq
    /\ sched = _TETrace[1].sched
    /\ files = _TETrace[1].files
    /\ buf = _TETrace[1].buf
    /\ chan = _TETrace[1].chan
    /\ crashes = _TETrace[1].crashes
    /\ reached = _TETrace[1].reached
    /\ flushed = _TETrace[1].flushed
----

_next ==
    /\ \E i,j \in DOMAIN _TETrace:
        /\ \/ /\ j = i + 1
              /\ i = TLCGet("level")
        /\ phase  = _TETrace[i].phase
        /\ phase' = _TETrace[j].phase
        /\ cur  = _TETrace[i].cur
        /\ cur' = _TETrace[j].cur
        /\ writes  = _TETrace[i].writes
        /\ writes' = _TETrace[j].writes
        /\ pq  = _TETrace[i].pq
        /\ pq' = _TETrace[j].pq
        /\ sched  = _TETrace[i].sched
        /\ sched' = _TETrace[j].sched
        /\ files  = _TETrace[i].files
        /\ files' = _TETrace[j].files
        /\ buf  = _TETrace[i].buf
        /\ buf' = _TETrace[j].buf
        /\ chan  = _TETrace[i].chan
        /\ chan' = _TETrace[j].chan
        /\ crashes  = _TETrace[i].crashes
        /\ crashes' = _TETrace[j].crashes
        /\ reached  = _TETrace[i].reached
        /\ reached' = _TETrace[j].reached
        /\ flushed  = _TETrace[i].flushed
        /\ flushed' = _TETrace[j].flushed

\* Uncomment the ASSUME below to write the states of the error trace
\* to the given file in Json format. Note that you can pass any tuple
\* to `JsonSerialize`. For example, a sub-sequence of _TETrace.
    \* ASSUME
    \*     LET J == INSTANCE Json
    \*         IN J!JsonSerialize("WalRecover_TTrace_1790029093.json", _TETrace)

=============================================================================

 Note that you can extract this module `WalRecover_TEExpression`
  to a dedicated file to reuse `expression` (the module in the 
  dedicated `WalRecover_TEExpression.tla` file takes precedence 
  over the module `WalRecover_TEExpression` below).

---- MODULE WalRecover_TEExpression ----
EXTENDS WalRecover, Sequences, TLCExt, Toolbox, Naturals, TLC

expression == 
    [
        \* To hide variables of the `WalRecover` spec from the error trace,
        \* remove the variables below.  The trace will be written in the order
        \* of the fields of this record.
        phase |-> phase
        ,cur |-> cur
        ,writes |-> writes
        ,pq |-> pq
        ,sched |-> sched
        ,files |-> files
        ,buf |-> buf
        ,chan |-> chan
        ,crashes |-> crashes
        ,reached |-> reached
        ,flushed |-> flushed
        
        \* Put additional constant-, state-, and action-level expressions here:
        \* ,_stateNumber |-> _TEPosition
        \* ,_phaseUnchanged |-> phase = phase'
        
        \* Format the `phase` variable as Json value.
        \* ,_phaseJson |->
        \*     LET J == INSTANCE Json
        \*     IN J!ToJson(phase)
        
        \* Lastly, you may build expressions over arbitrary sets of states by
        \* leveraging the _TETrace operator.  For example, this is how to
        \* count the number of times a spec variable changed up to the current
        \* state in the trace.
        \* ,_phaseModCount |->
        \*     LET F[s \in DOMAIN _TETrace] ==
        \*         IF s = 1 THEN 0
        \*         ELSE IF _TETrace[s].phase # _TETrace[s-1].phase
        \*             THEN 1 + F[s-1] ELSE F[s-1]
        \*     IN F[_TEPosition - 1]
    ]

=============================================================================



Parsing and semantic processing can take forever if the trace below is long.
 In this case, it is advised to uncomment the module below to deserialize the
 trace from a generated binary file.

\*
\*---- MODULE WalRecover_TETrace ----
\*EXTENDS WalRecover, IOUtils, TLC
\*
\*trace == IODeserialize("WalRecover_TTrace_1790029093.bin", TRUE)
\*
\*=============================================================================
\*

---- MODULE WalRecover_TETrace ----
EXTENDS WalRecover, TLC

trace == 
    <<
    ([phase |-> "live",cur |-> [f |-> 1, e |-> 1],pq |-> {},buf |-> {},sched |-> <<>>,reached |-> {},files |-> <<[ents |-> <<>>, alive |-> TRUE]>>,crashes |-> 0,writes |-> <<>>,chan |-> <<>>,flushed |-> {}]),
    ([phase |-> "live",cur |-> [f |-> 1, e |-> 1],pq |-> {},buf |-> {[db |-> "d1", id |-> 1, meas |-> "m", tm |-> "x1", drop |-> "none"]},sched |-> <<"w">>,reached |-> {},files |-> <<[ents |-> <<>>, alive |-> TRUE]>>,crashes |-> 0,writes |-> <<[kind |-> "raw", db |-> "d1", ts |-> "normal", sp |-> "none", mk |-> "str"]>>,chan |-> <<1>>,flushed |-> {}]),
    ([phase |-> "live",cur |-> [f |-> 1, e |-> 1],pq |-> {},buf |-> {[db |-> "d1", id |-> 1, meas |-> "m", tm |-> "x1", drop |-> "none"]},sched |-> <<"w", "p">>,reached |-> {1},files |-> <<[ents |-> <<1>>, alive |-> TRUE]>>,crashes |-> 0,writes |-> <<[kind |-> "raw", db |-> "d1", ts |-> "normal", sp |-> "none", mk |-> "str"]>>,chan |-> <<>>,flushed |-> {}]),
    ([phase |-> "down",cur |-> [f |-> 1, e |-> 1],pq |-> {},buf |-> {},sched |-> <<"w", "p", "x">>,reached |-> {1},files |-> <<[ents |-> <<1>>, alive |-> TRUE]>>,crashes |-> 1,writes |-> <<[kind |-> "raw", db |-> "d1", ts |-> "normal", sp |-> "none", mk |-> "str"]>>,chan |-> <<>>,flushed |-> {}]),
    ([phase |-> "rec",cur |-> [f |-> 1, e |-> 1],pq |-> {},buf |-> {},sched |-> <<"w", "p", "x", "s">>,reached |-> {1},files |-> <<[ents |-> <<1>>, alive |-> TRUE], [ents |-> <<>>, alive |-> TRUE]>>,crashes |-> 1,writes |-> <<[kind |-> "raw", db |-> "d1", ts |-> "normal", sp |-> "none", mk |-> "str"]>>,chan |-> <<>>,flushed |-> {}]),
    ([phase |-> "rec",cur |-> [f |-> 1, e |-> 2],pq |-> {},buf |-> {[db |-> "d1", id |-> 1, meas |-> "m", tm |-> "x1", drop |-> "none"]},sched |-> <<"w", "p", "x", "s", "r">>,reached |-> {1},files |-> <<[ents |-> <<1>>, alive |-> TRUE], [ents |-> <<>>, alive |-> TRUE]>>,crashes |-> 1,writes |-> <<[kind |-> "raw", db |-> "d1", ts |-> "normal", sp |-> "none", mk |-> "str"]>>,chan |-> <<>>,flushed |-> {}]),
    ([phase |-> "rec",cur |-> [f |-> 2, e |-> 1],pq |-> {},buf |-> {[db |-> "d1", id |-> 1, meas |-> "m", tm |-> "x1", drop |-> "none"]},sched |-> <<"w", "p", "x", "s", "r", "d">>,reached |-> {1},files |-> <<[ents |-> <<1>>, alive |-> FALSE], [ents |-> <<>>, alive |-> TRUE]>>,crashes |-> 1,writes |-> <<[kind |-> "raw", db |-> "d1", ts |-> "normal", sp |-> "none", mk |-> "str"]>>,chan |-> <<>>,flushed |-> {}]),
    ([phase |-> "live",cur |-> [f |-> 2, e |-> 1],pq |-> {},buf |-> {[db |-> "d1", id |-> 1, meas |-> "m", tm |-> "x1", drop |-> "none"]},sched |-> <<"w", "p", "x", "s", "r", "d", "R">>,reached |-> {1},files |-> <<[ents |-> <<1>>, alive |-> FALSE], [ents |-> <<>>, alive |-> TRUE]>>,crashes |-> 1,writes |-> <<[kind |-> "raw", db |-> "d1", ts |-> "normal", sp |-> "none", mk |-> "str"]>>,chan |-> <<>>,flushed |-> {}]),
    ([phase |-> "down",cur |-> [f |-> 2, e |-> 1],pq |-> {},buf |-> {},sched |-> <<"w", "p", "x", "s", "r", "d", "R", "x">>,reached |-> {1},files |-> <<[ents |-> <<1>>, alive |-> FALSE], [ents |-> <<>>, alive |-> TRUE]>>,crashes |-> 2,writes |-> <<[kind |-> "raw", db |-> "d1", ts |-> "normal", sp |-> "none", mk |-> "str"]>>,chan |-> <<>>,flushed |-> {}]),
    ([phase |-> "rec",cur |-> [f |-> 2, e |-> 1],pq |-> {},buf |-> {},sched |-> <<"w", "p", "x", "s", "r", "d", "R", "x", "s">>,reached |-> {1},files |-> <<[ents |-> <<1>>, alive |-> FALSE], [ents |-> <<>>, alive |-> TRUE], [ents |-> <<>>, alive |-> TRUE]>>,crashes |-> 2,writes |-> <<[kind |-> "raw", db |-> "d1", ts |-> "normal", sp |-> "none", mk |-> "str"]>>,chan |-> <<>>,flushed |-> {}]),
    ([phase |-> "rec",cur |-> [f |-> 3, e |-> 1],pq |-> {},buf |-> {},sched |-> <<"w", "p", "x", "s", "r", "d", "R", "x", "s", "d">>,reached |-> {1},files |-> <<[ents |-> <<1>>, alive |-> FALSE], [ents |-> <<>>, alive |-> FALSE], [ents |-> <<>>, alive |-> TRUE]>>,crashes |-> 2,writes |-> <<[kind |-> "raw", db |-> "d1", ts |-> "normal", sp |-> "none", mk |-> "str"]>>,chan |-> <<>>,flushed |-> {}]),
    ([phase |-> "live",cur |-> [f |-> 3, e |-> 1],pq |-> {},buf |-> {},sched |-> <<"w", "p", "x", "s", "r", "d", "R", "x", "s", "d", "R">>,reached |-> {1},files |-> <<[ents |-> <<1>>, alive |-> FALSE], [ents |-> <<>>, alive |-> FALSE], [ents |-> <<>>, alive |-> TRUE]>>,crashes |-> 2,writes |-> <<[kind |-> "raw", db |-> "d1", ts |-> "normal", sp |-> "none", mk |-> "str"]>>,chan |-> <<>>,flushed |-> {}]),
    ([phase |-> "done",cur |-> [f |-> 3, e |-> 1],pq |-> {},buf |-> {},sched |-> <<"w", "p", "x", "s", "r", "d", "R", "x", "s", "d", "R", "F">>,reached |-> {1},files |-> <<[ents |-> <<1>>, alive |-> FALSE], [ents |-> <<>>, alive |-> FALSE], [ents |-> <<>>, alive |-> TRUE]>>,crashes |-> 2,writes |-> <<[kind |-> "raw", db |-> "d1", ts |-> "normal", sp |-> "none", mk |-> "str"]>>,chan |-> <<>>,flushed |-> {}])
    >>
----


=============================================================================

---- CONFIG WalRecover_TTrace_1790029093 ----
CONSTANTS
    MaxWrites = 2
    MaxCrashes = 2
    ClassSel = "sched"
    Defects = { "deleteBeforeFlush" , "renorm" , "keyCollision" , "intM" }
    Emit = FALSE

INVARIANT
    _inv

CHECK_DEADLOCK
    \* CHECK_DEADLOCK off because of PROPERTY or INVARIANT above.
    FALSE

INIT
    _init

NEXT
    _next

CONSTANT
    _TETrace <- _trace

ALIAS
    _expression
=============================================================================
\* Generated on Mon Sep 21 22:18:20 UTC 2026
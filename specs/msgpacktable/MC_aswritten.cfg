SPECIFICATION Spec
CONSTANTS
  AsWritten = TRUE
  MaxCells = 1
  MaxTimeCells = 1
  Emit = FALSE
INVARIANTS EquivalentStrict
CHECK_DEADLOCK FALSE

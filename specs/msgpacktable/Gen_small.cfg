SPECIFICATION Spec
CONSTANTS
  AsWritten = FALSE
  MaxCells = 3
  MaxTimeCells = 2
  Emit = TRUE
INVARIANTS Equivalent DivergenceShape EmitInv
CHECK_DEADLOCK FALSE

---------------------------- MODULE MsgPackTable ----------------------------
(***************************************************************************)
(* C02 -- typed MessagePack decoding is indistinguishable from generic     *)
(* decoding.                                                               *)
(*                                                                         *)
(* Decision-table model of the two decoders AS WRITTEN, over payload       *)
(* *shapes* (element classes, not bytes):                                  *)
(*   Generic  = msgpack.Unmarshal -> decodeMapPayload -> decodeColumnar    *)
(*              -> normalizeTimestampColumns -> convertColumnsToTyped      *)
(*   Typed    = tryDecodeColumnarTyped / decodeTypedColumns /              *)
(*              decodeTimeColumnTyped / decodeValueColumnTyped, which      *)
(*              either produces a result or falls back to Generic.         *)
(* Three actions per payload (TryTyped, RunGeneric, Judge) mirror          *)
(* MessagePackDecoder.Decode.  Invariant Equivalent: whenever Typed does   *)
(* not fall back, its outcome equals Generic's -- except for the class     *)
(* KnownDivergent (a value the typed path skips with Decoder.Skip but the  *)
(* generic path must decode, and cannot).  The verdict of the check is the *)
(* real-vs-real comparison in Go; this table generates the shapes, proves  *)
(* that every row of the table is visited, and its prediction of the       *)
(* generic outcome is the drift detector.                                  *)
(*                                                                         *)
(* Element classes.  value cells: i int in int64 range (any of the 10      *)
(* integer widths), ub uint64 > MaxInt64, fi integer-valued float, ff      *)
(* fractional float, fh float beyond +-2^63, fn NaN, s string, sb string   *)
(* with invalid UTF-8, bin, b bool, n nil, ext (unknown id), arr, map.     *)
(* time cells: integer magnitudes around the unit thresholds 1e10 / 1e13 / *)
(* 1e16, negatives, ub, floats, and the non-numeric classes.               *)
(***************************************************************************)
EXTENDS Naturals, Sequences, FiniteSets, TLC, Json

CONSTANTS AsWritten,     \* FALSE: the typed path as repaired by arc commit 237ecc3 (default);
                         \* TRUE: as first written (Decoder.Skip on ignored values) -- negative control
          MaxCells,      \* cells of the swept value column
          MaxTimeCells,  \* cells of the swept time column
          Emit

VClasses == {"i", "ub", "fi", "ff", "fh", "fn", "s", "sb", "bin", "b", "n", "ext", "arr", "map"}
RClasses == {"i", "ub", "ff", "s", "b", "n", "bin"}          \* reduced set for two-column products
TNum     == {"sec", "ms", "us", "ns", "b10lo", "b10", "b13lo", "b13", "b16lo", "b16", "neg", "zero",
             "ub", "fsec", "ffrac", "fh", "fn"}
TClasses == TNum \cup {"s", "n", "b", "bin"}

Col(name, shape, cells) == [name |-> name, shape |-> shape, cells |-> cells]
CanonTime(n) == Col("time", "cells", [k \in 1..n |-> "us"])
CanonV(n)    == Col("v", "cells", [k \in 1..n |-> "i"])

Base == [fam |-> "", top |-> "map", m |-> "str", order |-> "mfirst", dup |-> "none", extra |-> "none",
         colskind |-> "map", cols |-> <<>>, trailing |-> FALSE]

VColPayloads ==
    { [Base EXCEPT !.fam = "vcol",
                   !.cols = (IF withTime THEN <<CanonTime(Len(c))>> ELSE <<>>) \o <<Col("v", "cells", c)>>]
      : c \in UNION {[1..n -> VClasses] : n \in 1..MaxCells}, withTime \in BOOLEAN }
TColPayloads ==
    { [Base EXCEPT !.fam = "tcol", !.cols = <<Col("time", "cells", c), CanonV(Len(c))>>]
      : c \in UNION {[1..n -> TClasses] : n \in 1..MaxTimeCells} }
TwoColPayloads ==
    { [Base EXCEPT !.fam = "two", !.cols = <<Col("v", "cells", c1), Col("w", "cells", c2)>>]
      : c1 \in [1..2 -> RClasses], c2 \in [1..2 -> RClasses] }
MKinds    == {"str", "str8", "int", "ub", "float", "nil", "absent", "bin"}
DupKinds  == {"none", "m", "columns", "batch_scalar", "batch_arr"}
Extras    == {"none", "opaque_ok", "opaque_bad", "intkey"}
ColsKinds == {"map", "scalar", "emptymap"}
StructPayloads ==
    { [Base EXCEPT !.fam = "struct", !.m = mk, !.order = ord, !.dup = d, !.extra = x, !.colskind = ck,
                   !.trailing = tr, !.cols = <<CanonTime(2), CanonV(2)>>]
      : mk \in MKinds, ord \in {"mfirst", "mlast"}, d \in DupKinds, x \in Extras, ck \in ColsKinds, tr \in BOOLEAN }
ColShapePayloads ==
    { [Base EXCEPT !.fam = "colshape", !.cols = cs]
      : cs \in { <<CanonTime(2), CanonV(2), Col("w", sh, <<>>)>> : sh \in {"nonarray_ok", "nonarray_bad", "empty"} }
          \cup { <<Col("w", sh, <<>>)>> : sh \in {"nonarray_ok", "nonarray_bad"} }
          \cup { <<Col("time", sh, <<>>), CanonV(2)>> : sh \in {"nonarray_ok", "nonarray_bad"} }
          \cup { <<CanonTime(2), Col("v", "cells", <<"i", "i", "i">>)>>,                 \* length mismatch
                 <<CanonTime(2), CanonV(2), Col("v", "cells", <<"s", "s">>)>>,          \* duplicate column key
                 <<CanonTime(2), CanonV(2), Col("v", "nonarray_ok", <<>>)>>,            \* duplicate key, later value not an array
                 <<CanonTime(2), Col("v", "nonarray_ok", <<>>), CanonV(2)>>,            \* ... the other way round
                 <<CanonTime(2), Col("", "cells", <<"i", "i">>)>>,                      \* empty column name
                 <<Col("v", "cells", <<"i", "i">>), Col("w", "cells", <<"n", "n">>)>> } }
TopPayloads ==
    { [Base EXCEPT !.fam = "top", !.top = t, !.cols = <<CanonTime(2), CanonV(2)>>]
      : t \in {"array1", "array2", "array_mixed", "scalar", "nil", "row", "emptymap"} }

Payloads == VColPayloads \cup TColPayloads \cup TwoColPayloads \cup StructPayloads \cup ColShapePayloads \cup TopPayloads

-----------------------------------------------------------------------------
\* ---- generic path (decodeColumnar + normalizeTimestampColumns + convertColumnsToTyped) ----
Reject(why) == [acc |-> "no", why |-> why, cols |-> {}]
Fallback == [acc |-> "fallback", why |-> "", cols |-> {}]
None == [acc |-> "none", why |-> "", cols |-> {}]
FirstNonNil(c) == IF \A k \in 1..Len(c) : c[k] = "n" THEN "none"
                  ELSE c[CHOOSE k \in 1..Len(c) : c[k] # "n" /\ \A j \in 1..(k-1) : c[j] = "n"]
Nulls(c) == {k \in 1..Len(c) : c[k] = "n"}
All(c, S) == \A k \in 1..Len(c) : c[k] \in S

\* type of a value column in the generic path, or "reject"
GenericValType(c) ==
    LET f == FirstNonNil(c) IN
    IF f = "none" THEN "nullstr"
    ELSE IF f \in {"i", "ub"} THEN (IF All(c, {"i", "fi", "ff", "fn", "n"}) THEN "int" ELSE "reject")
    ELSE IF f \in {"fi", "ff", "fh", "fn"} THEN (IF All(c, {"i", "ub", "fi", "ff", "fh", "fn", "n"}) THEN "float" ELSE "reject")
    ELSE IF f \in {"s", "sb"} THEN (IF All(c, {"s", "sb", "n"}) THEN "string" ELSE "reject")
    ELSE IF f = "b" THEN (IF All(c, {"b", "n"}) THEN "bool" ELSE "reject")
    ELSE "reject"                                  \* bin, arr, map: unsupported column type

\* unit class of the time column (from element 0) or "reject"
UnitOf(t) == IF t \in {"sec", "b10lo", "neg", "zero", "fsec", "ffrac"} THEN "x1000000"
             ELSE IF t \in {"b10", "ms", "b13lo"} THEN "x1000"
             ELSE IF t \in {"b13", "us", "b16lo"} THEN "x1"
             ELSE IF t \in {"b16", "ns"} THEN "div1000"
             ELSE "impl"                           \* ub wraps, fh/fn convert implementation-defined: real-vs-real only
GenericTimeUnit(c) == IF All(c, TNum) THEN UnitOf(c[1]) ELSE "reject"

Undecodable(p) ==     \* msgpack.Unmarshal into interface{} fails: unknown ext id / heterogeneous nested map
    \/ p.extra = "opaque_bad"
    \/ \E k \in 1..Len(p.cols) : p.cols[k].shape = "nonarray_bad"
    \/ \E k \in 1..Len(p.cols) : p.cols[k].shape = "cells" /\ \E j \in 1..Len(p.cols[k].cells) : p.cols[k].cells[j] = "ext"

\* the columns map as the generic decoder sees it: later duplicate wins, non-arrays dropped
EffCols(p) == LET live == {k \in 1..Len(p.cols) : p.cols[k].shape \in {"cells", "empty"}
                               /\ ~\E j \in (k+1)..Len(p.cols) : p.cols[j].name = p.cols[k].name}
              IN {p.cols[k] : k \in live}

\* a duplicate "m" key: the later one (a string) wins in the generic map decode
EffM(p) == IF p.dup = "m" THEN "str" ELSE p.m
\* an empty column name makes ArrowWriter.getSchema index name[0] and panic at flush time, with the
\* typed path on or off alike: outside this property (reported for C04), no prediction
EmptyName == [acc |-> "unspecified", why |-> "empty column name panics at flush", cols |-> {}]

GenericColumnar(p) ==
    LET cs == EffCols(p)
        lens == {Len(c.cells) : c \in cs}
        tcs == {c \in cs : c.name = "time"}
        vcs == {c \in cs : c.name # "time"}
    IN
    IF EffM(p) \in {"float", "nil", "absent", "bin"} THEN Reject("measurement")
    ELSE IF cs = {} THEN Reject("no columns")
    ELSE IF Cardinality(lens) > 1 THEN Reject("length mismatch")
    ELSE IF lens = {0} THEN [acc |-> "unspecified", why |-> "zero rows", cols |-> {}]
    ELSE IF \E c \in cs : c.name = "" THEN EmptyName
    ELSE IF \E c \in tcs : GenericTimeUnit(c.cells) = "reject" THEN Reject("time")
    ELSE IF \E c \in vcs : GenericValType(c.cells) = "reject" THEN Reject("column type")
    ELSE [acc |-> "yes", why |-> "",
          cols |-> {[name |-> c.name, type |-> GenericValType(c.cells), nulls |-> Nulls(c.cells)] : c \in vcs}
                   \cup {[name |-> "time", type |-> IF tcs = {} THEN "generated" ELSE GenericTimeUnit((CHOOSE c \in tcs : TRUE).cells),
                          nulls |-> {}]}]

Generic(p) ==
    IF p.top \in {"scalar", "nil"} THEN Reject("top-level type")
    ELSE IF p.top = "emptymap" THEN Reject("no measurement")
    ELSE IF p.top = "row" THEN [acc |-> "yes", why |-> "row format", cols |-> {}]
    ELSE IF p.top \in {"array1", "array2", "array_mixed"} THEN [acc |-> "yes", why |-> "array format", cols |-> {}]
    ELSE IF Undecodable(p) THEN Reject("unmarshal")
    ELSE IF p.extra = "intkey" THEN Reject("non-string key")
    ELSE IF p.dup = "batch_arr" THEN [acc |-> "yes", why |-> "batch format", cols |-> {}]
    ELSE IF p.dup = "columns" THEN      \* the later "columns" key wins: {time, z}
         (IF EffM(p) \in {"float", "nil", "absent", "bin"} THEN Reject("measurement")
          ELSE [acc |-> "yes", why |-> "", cols |-> {[name |-> "z", type |-> "int", nulls |-> {}],
                                                      [name |-> "time", type |-> "x1", nulls |-> {}]}])
    ELSE IF p.colskind = "scalar" THEN Reject("row format without fields")
    ELSE IF p.colskind = "emptymap" THEN Reject("empty columns")
    ELSE GenericColumnar(p)

\* ---- typed path as written ----
TypedValType(c) ==
    LET f == FirstNonNil(c) IN
    IF f = "none" THEN "nullstr"
    ELSE IF f \in {"i", "ub"} THEN (IF All(c, {"i", "fi", "ff", "fn", "n"}) THEN "int" ELSE "fallback")
    ELSE IF f \in {"fi", "ff", "fh", "fn"} THEN (IF All(c, {"i", "ub", "fi", "ff", "fh", "fn", "n"}) THEN "float" ELSE "fallback")
    ELSE IF f \in {"s", "sb"} THEN (IF All(c, {"s", "sb", "n"}) THEN "string" ELSE "fallback")
    ELSE IF f = "b" THEN (IF All(c, {"b", "n"}) THEN "bool" ELSE "fallback")
    ELSE "fallback"
TypedTimeUnit(c) == IF All(c, TNum) THEN UnitOf(c[1]) ELSE "fallback"

SkipsUndecodable(p) == p.extra = "opaque_bad" \/ \E k \in 1..Len(p.cols) : p.cols[k].shape = "nonarray_bad"
\* ... and a non-array column value is skipped BEFORE the duplicate-key check, so an earlier array
\* column of the same name survives in the typed path while the generic map decode lets the later
\* (non-array, then dropped) value win
SkipsDuplicate(p) == \E a, b \in 1..Len(p.cols) : a < b /\ p.cols[a].name = p.cols[b].name
                        /\ p.cols[a].shape = "cells" /\ p.cols[b].shape \in {"nonarray_ok", "nonarray_bad"}

Typed(p) ==
    LET arrs == {k \in 1..Len(p.cols) : p.cols[k].shape \in {"cells", "empty"}}
        cs   == {p.cols[k] : k \in arrs}
        lens == {Len(c.cells) : c \in cs}
        dupc == \E a, b \in arrs : a # b /\ p.cols[a].name = p.cols[b].name
        tcs  == {c \in cs : c.name = "time"}
        vcs  == {c \in cs : c.name # "time"}
    IN
    IF p.top # "map" THEN Fallback                       \* not a map / row format has no columns / empty map
    \* since 237ecc3 ignored values are decoded (DecodeInterface), not skipped: an undecodable one
    \* falls back, and so does a non-array value that repeats the key of an earlier array column
    ELSE IF ~AsWritten /\ (SkipsUndecodable(p) \/ SkipsDuplicate(p)) THEN Fallback
    ELSE IF p.extra = "intkey" THEN Fallback             \* non-string key
    ELSE IF p.dup # "none" /\ ~(p.dup = "m" /\ p.m = "absent") THEN Fallback   \* duplicate m/columns, any batch key
    ELSE IF EffM(p) \in {"float", "nil", "absent", "bin"} THEN Fallback
    ELSE IF p.colskind # "map" THEN Fallback
    ELSE IF cs = {} \/ 0 \in lens \/ Cardinality(lens) > 1 \/ dupc THEN Fallback
    ELSE IF \E c \in tcs : TypedTimeUnit(c.cells) = "fallback" THEN Fallback
    ELSE IF \E c \in vcs : TypedValType(c.cells) = "fallback" THEN Fallback
    ELSE IF \E c \in cs : c.name = "" THEN EmptyName
    ELSE [acc |-> "yes", why |-> "",
          cols |-> {[name |-> c.name, type |-> TypedValType(c.cells), nulls |-> Nulls(c.cells)] : c \in vcs}
                   \cup {[name |-> "time", type |-> IF tcs = {} THEN "generated" ELSE TypedTimeUnit((CHOOSE c \in tcs : TRUE).cells),
                          nulls |-> {}]}]

\* values the typed path passes over with Decoder.Skip() while the generic path must decode them
KnownDivergent(p) == AsWritten /\ (SkipsUndecodable(p) \/ SkipsDuplicate(p))

-----------------------------------------------------------------------------
VARIABLES p, pc, typed, generic
vars == <<p, pc, typed, generic>>

Init == p \in Payloads /\ pc = "start" /\ typed = None /\ generic = None

\* Decode(): if d.typedEnabled { if rec, ok := tryDecodeColumnarTyped(data); ok { return rec } }
TryTyped   == pc = "start" /\ typed' = Typed(p) /\ pc' = "typed" /\ UNCHANGED <<p, generic>>
TypedHit   == pc = "typed" /\ typed # Fallback /\ generic' = Generic(p) /\ pc' = "done" /\ UNCHANGED <<p, typed>>
\* ... otherwise the generic path decides (and is what the typed-off configuration always runs)
RunGeneric == pc = "typed" /\ typed = Fallback /\ generic' = Generic(p) /\ pc' = "done" /\ UNCHANGED <<p, typed>>
Done       == pc = "done" /\ UNCHANGED vars
Next == TryTyped \/ TypedHit \/ RunGeneric \/ Done
Spec == Init /\ [][Next]_vars

Equivalent == (pc = "done" /\ typed # Fallback /\ ~KnownDivergent(p)) => typed = generic
\* the divergence is exactly: typed accepts what generic cannot unmarshal
DivergenceShape == (pc = "done" /\ typed # Fallback /\ KnownDivergent(p)) =>
                       /\ typed.acc = "yes" /\ typed # generic
                       /\ SkipsUndecodable(p) => generic.acc = "no"

\* negative control (MC_aswritten.cfg, AsWritten = TRUE): TLC must find the divergence
EquivalentStrict == (pc = "done" /\ typed # Fallback) => typed = generic

EmitInv ==
    (Emit /\ pc = "done") =>
        PrintT(<<"TRACE", ToJson([fam |-> p.fam, top |-> p.top, m |-> p.m, order |-> p.order, dup |-> p.dup,
                                  extra |-> p.extra, colskind |-> p.colskind, cols |-> p.cols, trailing |-> p.trailing,
                                  typed |-> IF typed = Fallback THEN "fallback" ELSE "hit",
                                  divergent |-> KnownDivergent(p) /\ typed # Fallback,
                                  pred |-> [acc |-> generic.acc, why |-> generic.why,
                                            cols |-> generic.cols]])>>)
=============================================================================

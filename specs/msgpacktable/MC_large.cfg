SPECIFICATION Spec
CONSTANTS
  AsWritten = FALSE
  MaxCells = 4
  MaxTimeCells = 3
  Emit = FALSE
INVARIANTS Equivalent DivergenceShape
CHECK_DEADLOCK FALSE

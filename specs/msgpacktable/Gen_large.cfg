SPECIFICATION Spec
CONSTANTS
  MaxCells = 4
  MaxTimeCells = 3
  Emit = TRUE
INVARIANTS Equivalent DivergenceShape EmitInv
CHECK_DEADLOCK FALSE

SPECIFICATION Spec
CONSTANTS
  AsWritten = FALSE
  MaxCells = 4
  MaxTimeCells = 3
  Emit = TRUE
INVARIANTS Equivalent DivergenceShape EmitInv
CHECK_DEADLOCK FALSE

SPECIFICATION Spec
CONSTANTS
  AsWritten = FALSE
  MaxCells = 3
  MaxTimeCells = 2
  Emit = FALSE
INVARIANTS Equivalent DivergenceShape
CHECK_DEADLOCK FALSE

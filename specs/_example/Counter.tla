---- MODULE Counter ----
EXTENDS Naturals
VARIABLE x
Init == x = 0
Inc(n) == x' = x + n
Reset == x' = 0
====

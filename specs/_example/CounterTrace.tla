---- MODULE CounterTrace ----
EXTENDS Naturals, Sequences, TLC, Json
VARIABLES x, l
INSTANCE Counter
Trace == ndJsonDeserialize("trace.ndjson")
TraceInit == Init /\ l = 1 /\ TLCSet(1, 0)
IsEvent(e) == l <= Len(Trace) /\ Trace[l].ev = e /\ l' = l + 1
TInc   == IsEvent("inc") /\ Inc(Trace[l].n) /\ x' = Trace[l].x    \* logged post-state is checked
TReset == IsEvent("end") /\ Reset                                   \* run separator
TraceNext == TInc \/ TReset
TraceSpec == TraceInit /\ [][TraceNext]_<<x, l>>
HW == TLCSet(1, IF l > TLCGet(1) THEN l ELSE TLCGet(1))             \* CONSTRAINT: high-water mark
TraceAccepted == IF TLCGet(1) = Len(Trace) + 1 THEN TRUE                \* POSTCONDITION
                 ELSE PrintT(<<"REJECTED_AT", TLCGet(1)>>) /\ FALSE     \* line number of the first unexplained event
====

CONSTANTS
  Emit = TRUE
  JoinKinds = {"JOIN", "INNER JOIN", "LEFT JOIN", "LEFT OUTER JOIN", "RIGHT JOIN", "FULL OUTER JOIN", "NATURAL JOIN", "CROSS JOIN", "SEMI JOIN", "ANTI JOIN", "NATURAL LEFT JOIN"}
INIT Init
NEXT Next
INVARIANT WellFormed
INVARIANT EmitTrace
CHECK_DEADLOCK FALSE

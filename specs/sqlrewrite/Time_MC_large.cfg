CONSTANTS
  TPS = 4
  MaxExh = 3600
  Win = 3
  Emit = FALSE
INIT Init
NEXT Next
INVARIANT ClassesExact
CHECK_DEADLOCK FALSE

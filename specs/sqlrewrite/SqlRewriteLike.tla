--------------------------- MODULE SqlRewriteLike ---------------------------
(***************************************************************************)
(* C17, predicate-reordering fragment: internal/api/like_optimizer.go.     *)
(*                                                                         *)
(* A WHERE clause is a disjunction of conjunctions ("chains") of factors,  *)
(* written on one line without redundant parentheses:                      *)
(*     f11 AND f12 ... OR f21 AND f22 ... OR ...  <tail>                   *)
(* A factor is one of                                                      *)
(*   L   a bare  col [NOT] LIKE 'pat'                                      *)
(*   E   a bare  col <> ''                                                 *)
(*   X   anything else without the word LIKE (other comparison, NOT ...,   *)
(*       a parenthesised sub-tree, NOT col <> '', (col <> '') ...)         *)
(*   XL  anything else containing the word LIKE (NOT col LIKE .., a        *)
(*       parenthesised sub-tree with a LIKE ...) but not the word OR       *)
(*   XO  a parenthesised sub-tree containing the words LIKE and OR         *)
(*   XP  a parenthesised group -- under NOT, bare, or the WHERE of a nested*)
(*       subquery ( id IN (SELECT .. WHERE .. AND col <> '') ) -- whose    *)
(*       text contains LIKE, no OR, and ENDS with a bare  col <> ''  right *)
(*       before the closing parenthesis.  Rule 2's terminator is           *)
(*       GROUP|ORDER|LIMIT|end-of-text, so the ')' keeps the inner check   *)
(*       where it is: XP is opaque like XL.  (A paren-blind terminator     *)
(*       would hoist the inner check out of its group / subquery.)         *)
(* and evaluates to a Kleene value per row, independently of the others.   *)
(* The tail is end-of-text, a keyword (ORDER BY / GROUP BY / LIMIT) or ';'.*)
(*                                                                         *)
(* OptimizeLikePatterns as written (two regular expressions on the text):  *)
(*  Rule1 reorderEmptyCheckBeforeLike: WHERE L AND E ...  ->  WHERE E AND L*)
(*        (first two factors of the first chain).                          *)
(*  Rule2 optimizeMultiplePredicates:  WHERE <mid> AND E <tail>            *)
(*        with tail in {end, GROUP, ORDER, LIMIT} and the word LIKE in mid *)
(*        ->  WHERE E AND <mid> <tail>.  <mid> is matched by .*? on the    *)
(*        text, i.e. it spans OR connectives: the last factor of the last  *)
(*        chain becomes the first factor of the first chain.               *)
(*        Since /repo 9f6402e (OrGuard = TRUE) the rule is skipped when    *)
(*        <mid> contains the word OR (\bOR\b on the text: a top-level OR   *)
(*        or one inside parentheses).  OrGuard = FALSE is the code as it   *)
(*        was written before; Like_AsWritten.cfg keeps it as a negative    *)
(*        control that TLC must reject.                                    *)
(* Property: for every row (every valuation of the factors) the filter     *)
(* decision (value = TRUE) is unchanged.                                   *)
(***************************************************************************)
EXTENDS SqlRewrite, Json

CONSTANTS MaxChains, MaxFactors, Emit,
          OrGuard       \* TRUE: rule 2 is skipped when an OR precedes the trailing check (current code)

VARIABLES st
vars == <<st>>

Kinds == {"L", "E", "X", "XL", "XO", "XP"}
Tails == {"end", "kw", "semi"}      \* kw: GROUP BY / ORDER BY / LIMIT (one regex alternation)

\* all sequences over S of length 1..n
RECURSIVE SeqsUpTo(_, _)
SeqsUpTo(S, n) == IF n = 0 THEN {<<>>}
                  ELSE LET R == SeqsUpTo(S, n - 1) IN R \cup { Append(r, e) : <<r, e>> \in {q \in R : Len(q) = n - 1} \X S }
NonEmptySeqs(S, n) == SeqsUpTo(S, n) \ {<<>>}

KindChains == NonEmptySeqs(Kinds, MaxFactors)
Shapes     == NonEmptySeqs(KindChains, MaxChains)

\* give every factor an identity 1..n in text order
RECURSIVE Offset(_, _)
Offset(shape, i) == IF i = 1 THEN 0 ELSE Offset(shape, i - 1) + Len(shape[i - 1])
Number(shape) == [i \in 1..Len(shape) |-> [j \in 1..Len(shape[i]) |-> [k |-> shape[i][j], id |-> Offset(shape, i) + j]]]
NFactors(shape) == Offset(shape, Len(shape)) + Len(shape[Len(shape)])

-----------------------------------------------------------------------------
\* Rule 1: WHERE L AND E ...  (first chain, first two factors)
Rule1Matches(ch) == Len(ch[1]) >= 2 /\ ch[1][1].k = "L" /\ ch[1][2].k = "E"
Rule1(ch) == [ch EXCEPT ![1] = [j \in 1..Len(ch[1]) |-> IF j = 1 THEN ch[1][2] ELSE IF j = 2 THEN ch[1][1] ELSE ch[1][j]]]

\* Rule 2: ... AND E <tail>
LastChain(ch) == ch[Len(ch)]
HasLike(f)    == f.k \in {"L", "XL", "XO", "XP"}
MidHasLike(ch) ==
    \/ \E i \in 1..(Len(ch) - 1) : \E j \in 1..Len(ch[i]) : HasLike(ch[i][j])
    \/ \E j \in 1..(Len(LastChain(ch)) - 1) : HasLike(LastChain(ch)[j])
MidHasOr(ch) ==
    \/ Len(ch) >= 2
    \/ \E j \in 1..(Len(LastChain(ch)) - 1) : LastChain(ch)[j].k = "XO"
Rule2MatchesG(ch, tail, guard) ==
    /\ tail \in {"end", "kw"}
    /\ Len(LastChain(ch)) >= 2
    /\ LastChain(ch)[Len(LastChain(ch))].k = "E"
    /\ MidHasLike(ch)
    /\ ~(guard /\ MidHasOr(ch))
Rule2Matches(ch, tail) == Rule2MatchesG(ch, tail, OrGuard)
Rule2(ch) ==
    LET n  == Len(ch)
        lc == LastChain(ch)
        e  == lc[Len(lc)]
        cut == SubSeq(lc, 1, Len(lc) - 1)
    IN IF n = 1 THEN << <<e>> \o cut >>
       ELSE [i \in 1..n |-> IF i = 1 THEN <<e>> \o ch[1] ELSE IF i = n THEN cut ELSE ch[i]]

-----------------------------------------------------------------------------
RECURSIVE EvalChain(_, _, _), EvalChains(_, _, _)
EvalChain(c, v, j)   == IF j > Len(c) THEN "T" ELSE KAnd(v[c[j].id], EvalChain(c, v, j + 1))
EvalChains(ch, v, i) == IF i > Len(ch) THEN "F" ELSE KOr(EvalChain(ch[i], v, 1), EvalChains(ch, v, i + 1))
Keeps(ch, v) == EvalChains(ch, v, 1) = "T"           \* the row passes the filter

Disagreeing(o, r, n) == { v \in [1..n -> K3] : Keeps(o, v) # Keeps(r, v) }

Init == \E shape \in Shapes : \E tail \in Tails :
           st = [phase |-> "rule1", orig |-> Number(shape), tail |-> tail, cur |-> Number(shape),
                 fired |-> {}, ndis |-> 0, witness |-> <<>>, cls |-> "", aw |-> Number(shape), awcls |-> ""]

ApplyRule1 ==
    /\ st.phase = "rule1"
    /\ st' = IF Rule1Matches(st.cur)
               THEN [st EXCEPT !.phase = "rule2", !.cur = Rule1(st.cur), !.fired = {"rule1"}]
               ELSE [st EXCEPT !.phase = "rule2"]
\* aw / awcls: what the code as written before 9f6402e would produce (regression signature for the driver)
AwOf(cur, tail) == IF Rule2MatchesG(cur, tail, FALSE) THEN Rule2(cur) ELSE cur
AwCls(cur, tail, orig) == IF Rule2MatchesG(cur, tail, FALSE) /\ Len(orig) >= 2 THEN "trailing-empty-check-hoisted-across-OR" ELSE ""
ApplyRule2 ==
    /\ st.phase = "rule2"
    /\ st' = IF Rule2Matches(st.cur, st.tail)
               THEN [st EXCEPT !.phase = "judge", !.cur = Rule2(st.cur), !.fired = st.fired \cup {"rule2"},
                               !.aw = AwOf(st.cur, st.tail), !.awcls = AwCls(st.cur, st.tail, st.orig)]
               ELSE [st EXCEPT !.phase = "judge", !.aw = AwOf(st.cur, st.tail), !.awcls = AwCls(st.cur, st.tail, st.orig)]
Judge ==
    /\ st.phase = "judge"
    /\ LET n == NFactors([i \in 1..Len(st.orig) |-> [j \in 1..Len(st.orig[i]) |-> st.orig[i][j].k]])
           D == IF st.cur = st.orig THEN {} ELSE Disagreeing(st.orig, st.cur, n)
       IN st' = [st EXCEPT !.phase = "done", !.ndis = Cardinality(D),
                           !.witness = IF D = {} THEN <<>> ELSE CHOOSE v \in D : TRUE,
                           !.cls = IF "rule2" \in st.fired /\ Len(st.orig) >= 2 THEN "trailing-empty-check-hoisted-across-OR"
                                   ELSE IF "rule2" \in st.fired THEN "agree:hoisted-inside-one-conjunction"
                                   ELSE IF "rule1" \in st.fired THEN "agree:swapped-inside-one-conjunction"
                                   ELSE "agree:unchanged"]
Done == st.phase = "done" /\ UNCHANGED st
Next == ApplyRule1 \/ ApplyRule2 \/ Judge \/ Done
Spec == Init /\ [][Next]_vars

\* the filter decision changes for some row exactly when rule 2 carries the check across an OR
ClassesExact == st.phase = "done" => ((st.ndis > 0) <=> (st.cls = "trailing-empty-check-hoisted-across-OR"))
\* the property: holds with OrGuard = TRUE; Like_AsWritten.cfg (OrGuard = FALSE) must be rejected by TLC
Equivalent   == st.phase = "done" => st.ndis = 0

KindsOf(ch) == [i \in 1..Len(ch) |-> [j \in 1..Len(ch[i]) |-> ch[i][j]]]
EmitTrace ==
    (Emit /\ st.phase = "done") =>
        PrintT(<<"TRACE", ToJson([orig |-> KindsOf(st.orig), rew |-> KindsOf(st.cur), tail |-> st.tail,
                                  fired |-> st.fired, ndis |-> st.ndis, witness |-> st.witness, cls |-> st.cls,
                                  rewaw |-> KindsOf(st.aw), clsaw |-> st.awcls])>>)
=============================================================================

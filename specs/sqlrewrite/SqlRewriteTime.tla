--------------------------- MODULE SqlRewriteTime ---------------------------
(***************************************************************************)
(* C17, arithmetic fragment.  internal/api/query.go rewrites               *)
(*    time_bucket(INTERVAL 'n unit', c)         ->                         *)
(*        to_timestamp((epoch(c)::BIGINT // s) * s)                        *)
(*    time_bucket(INTERVAL 'n unit', c, 'o')    ->                         *)
(*        to_timestamp(O + ((epoch(c)::BIGINT - O) // s) * s)   O = Unix(o)*)
(*    date_trunc('unit', c)                     -> as the 2-argument form  *)
(* with s = intervalToSeconds(n, unit)  (months are left alone).           *)
(*                                                                         *)
(* Time is counted in ticks of 1/TPS second.  A case is (fn, s, oo, ro, era)*)
(*   s   bucket width in seconds,                                          *)
(*   oo  the origin DuckDB uses, in ticks (2-arg time_bucket: 2000-01-03   *)
(*       00:00:00 modulo the width; date_trunc: 0, week: Monday = 4 days;  *)
(*       3-arg: the origin literal, sub-second part included),             *)
(*   ro  the origin the rewrite uses, in seconds (0, or Unix(o) = floor),  *)
(*   era -1 | 0 | +1: the points lie 4 widths before the epoch, around the *)
(*       epoch, 4 widths after it (for the 2-argument forms this decides   *)
(*       on which side of the rewrite's origin 0 a point is; a .5 tie of   *)
(*       ::BIGINT goes to the even second, whatever the sign).             *)
(*       The driver realises era +1 with bases in 2024 / 2200 / 9999, era 0*)
(*       with base 1970-01-01, era -1 with bases in 1969 / 1901 / 1011; a  *)
(*       base is an even multiple of every width: grids and parity kept.   *)
(* x is the timestamp in ticks relative to the base; t = x + Shift.        *)
(*   Orig(t) = oo + floor((t - oo) / W) * W          W = s * TPS           *)
(*   Rew(t)  = (ro + trunc((round(t / TPS) - ro) / s) * s) * TPS           *)
(* TLC checks, for every case and every x of the range, that the two       *)
(* differ exactly when Predicted says so (the closed form below), i.e.     *)
(* that the list of disagreement classes is complete and exact.            *)
(***************************************************************************)
EXTENDS SqlRewrite, Json

CONSTANTS TPS,        \* ticks per second (4: fractions .0 .25 .5 .75)
          MaxExh,     \* widths up to this many seconds are explored exhaustively over -2W..2W
          Win,        \* half-width (seconds) of the windows around bucket boundaries otherwise
          Emit        \* TRUE: one TRACE line per evaluated point (generation)

VARIABLES st
vars == <<st>>

DuckDefaultOrigin == 946857600          \* 2000-01-03 00:00:00 UTC in seconds (time_bucket.cpp)
MondayOffset      == 345600             \* 1970-01-05 00:00:00 UTC: date_trunc('week') grid

UnitSeconds == [second |-> 1, minute |-> 60, hour |-> 3600, day |-> 86400, week |-> 604800]

\* intervalToSeconds as written (strconv.Atoi(amount) * unit)
IntervalToSeconds(n, u) == n * UnitSeconds[u]

Amounts == [second |-> {1, 2, 5, 7, 30}, minute |-> {1, 5, 7, 15}, hour |-> {1, 2, 7, 12},
            day |-> {1, 2, 7}, week |-> {1, 2}]
Units == {"second", "minute", "hour", "day", "week"}
Eras  == {-1, 0, 1}

\* 3-argument origins: [sec |-> whole seconds, sub |-> ticks] relative to the base
Origins == { [name |-> "whole",     sec |-> 0,    sub |-> 0],
             [name |-> "offset",    sec |-> 1800, sub |-> 0],       \* 00:30:00
             [name |-> "subsecond", sec |-> 0,    sub |-> 2] }      \* 00:00:00.5

Cases ==
    { [fn |-> "time_bucket2", unit |-> u[1], amount |-> u[2], origin |-> "default", era |-> e,
       s |-> IntervalToSeconds(u[2], u[1]), wt |-> IntervalToSeconds(u[2], u[1]) * TPS, amt |-> ToString(u[2]), native |-> FALSE,
       oo |-> (DuckDefaultOrigin % IntervalToSeconds(u[2], u[1])) * TPS, ro |-> 0] :
          <<u, e>> \in (UNION { {<<un, n>> : n \in Amounts[un]} : un \in Units }) \X Eras }
    \cup
    { [fn |-> "date_trunc", unit |-> u, amount |-> 1, origin |-> "default", era |-> e,
       s |-> IntervalToSeconds(1, u), wt |-> IntervalToSeconds(1, u) * TPS, amt |-> "1", native |-> FALSE,
       oo |-> (IF u = "week" THEN MondayOffset * TPS ELSE 0), ro |-> 0] : <<u, e>> \in Units \X Eras }
    \cup
    { [fn |-> "time_bucket3", unit |-> z[1][1], amount |-> z[1][2], origin |-> z[2].name, era |-> z[3],
       s |-> IntervalToSeconds(z[1][2], z[1][1]), wt |-> IntervalToSeconds(z[1][2], z[1][1]) * TPS, amt |-> ToString(z[1][2]), native |-> FALSE,
       oo |-> z[2].sec * TPS + z[2].sub, ro |-> z[2].sec] :
          z \in {<<"second", 1>>, <<"second", 30>>, <<"minute", 5>>, <<"hour", 1>>, <<"day", 1>>, <<"week", 1>>}
                  \X Origins \X Eras }
    \cup
    \* interval amounts that are not plain integers.  The patterns of rewriteTimeBucket capture (\d+) only, so such
    \* a call is left to DuckDB (native = TRUE: rewritten = original); DuckDB's width is the exact fraction.
    \* Amount classes: fractional with an integer number of seconds (1.5 hours, 0.5 days, 2.25 minutes = 135 s; every width divides the driver's base unit of 14 days)
    \* and fractional with a non-integer number of seconds (2.5 s, 1.5 s).  wt = DuckDB's width in ticks.
    { [fn |-> f[1], unit |-> f[2], amount |-> 0, origin |-> f[5], era |-> e,
       s |-> f[4] \div TPS, wt |-> f[4], amt |-> f[3], native |-> TRUE,
       oo |-> IF f[1] = "time_bucket2" THEN ((DuckDefaultOrigin % f[4]) * TPS) % f[4] ELSE 0, ro |-> 0] :
          <<f, e>> \in { <<"time_bucket2", "second", "2.5", 10, "default">>, <<"time_bucket2", "second", "1.5", 6, "default">>,
                         <<"time_bucket2", "minute", "2.25", 540, "default">>, <<"time_bucket2", "hour", "1.5", 21600, "default">>,
                         <<"time_bucket2", "day", "0.5", 172800, "default">>, <<"time_bucket3", "second", "2.5", 10, "whole">>,
                         <<"time_bucket3", "hour", "1.5", 21600, "whole">> } \X Eras }

W(c)        == c.wt
Anchored(c) == c.fn = "time_bucket3"          \* the origin literal moves with the base
Shift(c)    == c.era * 4 * W(c)               \* ticks; a multiple of the width
RoAbs(c)    == IF Anchored(c) THEN c.ro + (c.era * 4 * c.wt) \div TPS ELSE 0     \* seconds (wt of the anchored cases is a whole number of seconds)
OoAbs(c)    == IF Anchored(c) THEN c.oo + Shift(c) ELSE c.oo              \* ticks

\* points explored for a case: everything for small widths; otherwise Win seconds around every
\* bucket boundary of both grids in -2W..2W and around the middle of each bucket
Boundaries(c) == { k * W(c) + d : <<k, d>> \in (-2..2) \X {0, c.oo % W(c), (c.ro * TPS) % W(c), W(c) \div 2} }
Range(c) ==
    IF c.s <= MaxExh THEN (-2 * W(c) + c.ro * TPS) .. (2 * W(c) + c.ro * TPS)
    ELSE UNION { (b - Win * TPS + c.ro * TPS) .. (b + Win * TPS + c.ro * TPS) : b \in Boundaries(c) }

-----------------------------------------------------------------------------
T(c, x)      == x + Shift(c)                                        \* absolute ticks
OrigAbs(c, t) == OoAbs(c) + FloorDiv(t - OoAbs(c), W(c)) * W(c)
Rounded(t)    == RoundHalfEven(t, TPS)                              \* epoch(c)::BIGINT
RewAbs(c, t)  == IF c.native THEN OrigAbs(c, t)                     \* not matched by the patterns: left to DuckDB
                 ELSE (RoAbs(c) + TruncDiv(Rounded(t) - RoAbs(c), c.s) * c.s) * TPS
Orig(c, x)    == OrigAbs(c, T(c, x)) - Shift(c)
Rew(c, x)     == RewAbs(c, T(c, x)) - Shift(c)

\* features of a point, relative to the rewrite's origin
Rel(c, x)      == T(c, x) - RoAbs(c) * TPS
FloorSec(c, x) == FloorDiv(Rel(c, x), TPS)
Frac(c, x)     == Rel(c, x) % TPS                                  \* 0 .. TPS-1
Misaligned(c)  == (OoAbs(c) - RoAbs(c) * TPS) % W(c) # 0
\* ::BIGINT yields floor+1: fraction above one half, or exactly one half above an odd second (ties to even)
RoundsUp(c, x) == 2 * Frac(c, x) > TPS \/ (2 * Frac(c, x) = TPS /\ FloorDiv(T(c, x), TPS) % 2 = 1)

Class(c, x) ==
    IF c.native THEN "agree:fractional-amount-left-native"
    ELSE IF Misaligned(c) THEN
        (IF c.fn = "time_bucket2" THEN "grid-misaligned:default-origin-2000-01-03"
         ELSE IF c.fn = "date_trunc" THEN "grid-misaligned:week-starts-monday"
         ELSE "grid-misaligned:subsecond-origin")
    ELSE IF Rel(c, x) >= 0 THEN
        (IF RoundsUp(c, x) /\ (FloorSec(c, x) + 1) % c.s = 0 THEN "round-up-across-bucket-boundary"
         ELSE IF RoundsUp(c, x) THEN "agree:rounds-up-inside-bucket"
         ELSE IF FloorSec(c, x) % c.s = 0 /\ Frac(c, x) = 0 THEN "agree:on-boundary"
         ELSE "agree:rounds-down")
    ELSE
        (IF FloorSec(c, x) % c.s # 0 THEN "truncation-below-origin"
         ELSE IF RoundsUp(c, x) THEN "round-up-below-origin"
         ELSE "agree:below-origin-first-half-second-of-bucket")

Predicted(c, x) == SubSeq(Class(c, x), 1, 6) # "agree:"

FracName(c, x) == IF 2 * Frac(c, x) < TPS THEN "lt_half" ELSE IF 2 * Frac(c, x) = TPS THEN "half" ELSE "gt_half"

-----------------------------------------------------------------------------
Init == \E c \in Cases : \E x \in Range(c) :
            st = [phase |-> "input", c |-> c, x |-> x, orig |-> 0, rew |-> 0, cls |-> ""]

Evaluate == /\ st.phase = "input"
            /\ st' = [st EXCEPT !.phase = "done", !.orig = Orig(st.c, st.x), !.rew = Rew(st.c, st.x),
                                !.cls = Class(st.c, st.x)]
Done == st.phase = "done" /\ UNCHANGED st
Next == Evaluate \/ Done
Spec == Init /\ [][Next]_vars

\* the classification is exact: the rewrite differs from DuckDB's function precisely in the listed classes
ClassesExact == st.phase = "done" => ((st.orig # st.rew) <=> Predicted(st.c, st.x))

\* the property itself (Orig = Rew); violated -- Time_Equiv.cfg lets TLC print a witness
Equivalent == st.phase = "done" => st.orig = st.rew

EmitTrace ==
    (Emit /\ st.phase = "done") =>
        PrintT(<<"TRACE", ToJson([fn |-> st.c.fn, unit |-> st.c.unit, amount |-> st.c.amount, amt |-> st.c.amt, origin |-> st.c.origin,
                                  era |-> st.c.era, s |-> st.c.s, ro |-> st.c.ro, oosub |-> st.c.oo % TPS, x |-> st.x,
                                  frac |-> FracName(st.c, st.x), cls |-> st.cls,
                                  orig |-> st.orig, rew |-> st.rew])>>)
=============================================================================

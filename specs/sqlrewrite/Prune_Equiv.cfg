CONSTANTS
  MaxFiles = 2
  Depth2 = FALSE
  Emit = FALSE
INIT Init
NEXT Next
INVARIANT NeededSubsetPruned
CHECK_DEADLOCK FALSE

CONSTANTS
  MaxFiles = 2
  Depth2 = FALSE
  EndInclusiveFix = TRUE
  Emit = FALSE
INIT Init
NEXT Next
INVARIANT NeededSubsetPruned
CHECK_DEADLOCK FALSE

CONSTANTS
  MaxChains = 2
  MaxFactors = 2
  Emit = TRUE
INIT Init
NEXT Next
INVARIANT ClassesExact
INVARIANT EmitTrace
CHECK_DEADLOCK FALSE

--------------------------- MODULE SqlRewritePrune --------------------------
(***************************************************************************)
(* C18, pruning fragment: internal/pruning/partition_pruner.go             *)
(* (ExtractTimeRange, GeneratePartitionPaths, OptimizeTablePath) as used   *)
(* by internal/api/query.go buildReadParquetExpr: the ORIGINAL SQL text is *)
(* handed to the pruner for EVERY table reference of the query.            *)
(*                                                                         *)
(* Time axis: hours relative to day 0 00:00 (2020-01-03 in the driver, so   *)
(* that the pruner's 2020-01-01 floor is 48 h away and the real pruner     *)
(* globs a few hundred paths per query, not 40000); a row sits exactly on  *)
(* the hour (pos 0) or at half past (pos 1), so a time value is            *)
(* 2*hour+pos.  Files: hour partitions at Past (2019-12-30 05h, before the *)
(* 2020 floor), 1, 2, 23, 24, 25, Fut (now + 3 days) and compacted day     *)
(* files of day 0 and day 1.  The clock is Now = hour 36.                  *)
(* Every file holds a row with x = 1 and one with x = 0; event_time =      *)
(* time + 24 h.                                                            *)
(*                                                                         *)
(* WHERE = tree over AND / OR / NOT of atoms                               *)
(*   T  time <op> 'c'            B  time BETWEEN 'c' AND 'c2'              *)
(*   S  event_time <op> 'c'      O  x = 1                                  *)
(*   R  time <op> NOW() - INTERVAL 'n hours'                               *)
(*   Z  time <op> 'c+02:00'  (RFC 3339 literal with a UTC offset, written  *)
(*      with the wall-clock digits of hour c+2: Go's parseDateTime converts*)
(*      it to UTC = hour c, DuckDB's cast to TIMESTAMP keeps the digits =  *)
(*      hour c+2 -- verified: '2024-03-15T10:00:00+02:00'::TIMESTAMP =     *)
(*      2024-03-15 10:00:00)                                               *)
(* wrapped as  plain:  SELECT .. FROM m WHERE tree                         *)
(*             subq :  SELECT .. FROM m WHERE x IN (SELECT x FROM m WHERE tree)*)
(*             join :  SELECT .. FROM m a JOIN m b ON a.x = b.x WHERE tree(a)*)
(*                                                                         *)
(* ExtractTimeRange as written works on the TEXT of the WHERE clause:      *)
(*   start = literal of the first  "time >= '..'" in text order, else of   *)
(*           the first "time > '..'"  ("event_time >= .." matches as well);*)
(*   end   = first "time < '..'", else first "time <= '..'";               *)
(*   a BETWEEN overrides both; NOW()-relative bounds fill what is missing; *)
(*   start only => end = now + 24 h;  end only => start = 2020-01-01.      *)
(* GeneratePartitionPaths: hours h with start <= h < end (and their days); *)
(* since /repo 757b147 (EndInclusiveFix = TRUE) also h = end when the end  *)
(* came from <= or BETWEEN and start < end.  EndInclusiveFix = FALSE is the*)
(* code as written before; it is always evaluated as well (the "aw" fields *)
(* of a case give the driver the old finding's signature should the        *)
(* behaviour return) and Prune_AsWritten.cfg keeps it as a negative control*)
(* for the invariant NoInclusiveLoss.                                      *)
(* more than 50000 paths, an empty range or no existing path => unpruned.  *)
(*                                                                         *)
(* Property: Needed(q, layout) \subseteq Pruned(q, layout) where Needed are *)
(* the files holding a row that contributes to the result.                 *)
(***************************************************************************)
EXTENDS SqlRewrite, Json

CONSTANTS MaxFiles,     \* layouts of 1..MaxFiles files (plus the full layout)
          Depth2,       \* TRUE: also (a o b) o c
          EndInclusiveFix, \* TRUE: current code (757b147)
          Emit

VARIABLES st
vars == <<st>>

Past      == -91             \* 2019-12-30 05:00
Floor2020 == -48             \* 2020-01-01 00:00
Now       == 36              \* 2020-01-04 12:00
Fut       == 108             \* 2020-01-07 12:00
MaxPaths  == 50000

\* MonthBack / MonthFwd: partitions just inside the CALENDAR month bounds around the clock (2020-01-04 12:00):
\* now - 1 month = 2019-12-04 12:00 = Now - 744 h (December has 31 days), now + 1 month = 2020-02-04 12:00 =
\* Now + 744 h; 30-day arithmetic would give Now -/+ 720 h.  MonthBack = Now - 736 h, MonthFwd = Now + 734 h.
MonthBack == -700
MonthFwd  == 770
HourFiles == { [k |-> "h", n |-> h] : h \in {Past, 1, 2, 23, 24, 25, Fut, MonthBack, MonthFwd} }
DayFiles  == { [k |-> "d", n |-> d] : d \in {0, 1} }
Files     == HourFiles \cup DayFiles

\* rows of a file: [t |-> 2*hour+pos, x |-> 0/1]; event_time = t + 48
RowsOf(f) == IF f.k = "h" THEN { [t |-> 2 * f.n, x |-> 1], [t |-> 2 * f.n + 1, x |-> 0] }
             ELSE { [t |-> 2 * (24 * f.n), x |-> 1], [t |-> 2 * (24 * f.n + 13) + 1, x |-> 0] }
Et(r) == r.t + 48

Layouts == { L \in SUBSET Files : Cardinality(L) \in 1..MaxFiles } \cup {Files}

-----------------------------------------------------------------------------
\* R atoms: time <op> NOW() -/+ INTERVAL 'n u'; c = the CALENDAR offset in hours at the fixed clock (c < 0: NOW() + ..)
\* unit classes: hours, and months (calendar arithmetic: evaluateRelativeTime uses AddDate, DuckDB likewise);
\* days and weeks are fixed-length in UTC and rendered by the driver as alternatives of the hour atoms' amounts
RAtom(op, c, u, n) == [k |-> "R", op |-> op, c |-> c, c2 |-> 0, u |-> u, n |-> n]
Atoms == { [k |-> "T", op |-> o[1], c |-> o[2], c2 |-> 0, u |-> "", n |-> 0] :
              o \in {<<"ge", 2>>, <<"ge", 24>>, <<"gt", 2>>, <<"lt", 24>>, <<"lt", 25>>, <<"le", 24>>} }
         \cup { [k |-> "B", op |-> "between", c |-> 2, c2 |-> 24, u |-> "", n |-> 0] }
         \cup { [k |-> "S", op |-> o[1], c |-> o[2], c2 |-> 0, u |-> "", n |-> 0] : o \in {<<"ge", 24>>, <<"lt", 24>>} }
         \cup { [k |-> "O", op |-> "eq", c |-> 1, c2 |-> 0, u |-> "", n |-> 0] }
         \cup { RAtom("ge", 13, "hours", 13), RAtom("lt", 11, "hours", 11),          \* now-13h = 23, now-11h = 25
                RAtom("ge", 744, "months", 1), RAtom("lt", -744, "months", 1) }      \* now -/+ 1 calendar month
         \cup { [k |-> "Z", op |-> o[1], c |-> o[2], c2 |-> 0, u |-> "", n |-> 0] : o \in {<<"ge", 23>>, <<"lt", 23>>} }

Leaf(a)      == [op |-> "atom", a |-> a]
Not(t)       == [op |-> "not", l |-> t]
Bin(o, l, r) == [op |-> o, l |-> l, r |-> r]
Conn == {"and", "or"}

T0 == { Leaf(a) : a \in Atoms }
T1 == { Not(t) : t \in T0 } \cup { Bin(z[1], z[2], z[3]) : z \in Conn \X T0 \X T0 }
T2a == { Not(t) : t \in { u \in T1 : u.op # "not" } }
       \cup { Bin(z[1], Not(z[2]), z[3]) : z \in Conn \X T0 \X T0 }
T2b == { Bin(z[1], z[2], z[3]) : z \in Conn \X { u \in T1 : u.op # "not" } \X T0 }      \* (a o b) o c
Trees == T0 \cup T1 \cup T2a \cup (IF Depth2 THEN T2b ELSE {})
Wrappers == {"plain", "subq", "join"}

-----------------------------------------------------------------------------
Cmp(op, a, b) == CASE op = "ge" -> a >= b [] op = "gt" -> a > b [] op = "lt" -> a < b [] op = "le" -> a <= b

EvalAtom(a, r) ==
    CASE a.k = "T" -> Cmp(a.op, r.t, 2 * a.c)
      [] a.k = "S" -> Cmp(a.op, Et(r), 2 * a.c)
      [] a.k = "B" -> r.t >= 2 * a.c /\ r.t <= 2 * a.c2
      [] a.k = "O" -> r.x = 1
      [] a.k = "R" -> Cmp(a.op, r.t, 2 * (Now - a.c))
      [] a.k = "Z" -> Cmp(a.op, r.t, 2 * (a.c + 2))            \* DuckDB ignores the offset

RECURSIVE Eval(_, _)
Eval(t, r) == CASE t.op = "atom" -> EvalAtom(t.a, r)
                [] t.op = "not"  -> ~Eval(t.l, r)
                [] t.op = "and"  -> Eval(t.l, r) /\ Eval(t.r, r)
                [] t.op = "or"   -> Eval(t.l, r) \/ Eval(t.r, r)

\* leaves in text order with their context
RECURSIVE Leaves(_, _, _)
Leaves(t, neg, or) ==
    CASE t.op = "atom" -> << [a |-> t.a, neg |-> neg, or |-> or] >>
      [] t.op = "not"  -> Leaves(t.l, ~neg, or)
      [] t.op = "and"  -> Leaves(t.l, neg, or) \o Leaves(t.r, neg, or)
      [] t.op = "or"   -> Leaves(t.l, neg, TRUE) \o Leaves(t.r, neg, TRUE)

First(seq, P(_)) == LET I == { i \in 1..Len(seq) : P(seq[i]) } IN
                    IF I = {} THEN 0 ELSE CHOOSE i \in I : \A j \in I : i <= j

NoSrc == [kind |-> "none", op |-> "", h |-> 0, neg |-> FALSE, or |-> FALSE]
Src(l, h) == [kind |-> l.a.k, op |-> l.a.op, h |-> h, neg |-> l.neg, or |-> l.or]

\* ExtractTimeRange as written
Extract(tree) ==
    LET ls  == Leaves(tree, FALSE, FALSE)
        IsLit(l, o) == l.a.k \in {"T", "S", "Z"} /\ l.a.op = o
        ige == First(ls, LAMBDA l : IsLit(l, "ge"))
        igt == First(ls, LAMBDA l : IsLit(l, "gt"))
        ilt == First(ls, LAMBDA l : IsLit(l, "lt"))
        ile == First(ls, LAMBDA l : IsLit(l, "le"))
        ib  == First(ls, LAMBDA l : l.a.k = "B")
        \* the NOW() - INTERVAL pattern is tried before the NOW() + INTERVAL pattern
        irsS == First(ls, LAMBDA l : l.a.k = "R" /\ l.a.op \in {"ge", "gt"} /\ l.a.c >= 0)
        irsA == First(ls, LAMBDA l : l.a.k = "R" /\ l.a.op \in {"ge", "gt"} /\ l.a.c < 0)
        ireS == First(ls, LAMBDA l : l.a.k = "R" /\ l.a.op \in {"lt", "le"} /\ l.a.c >= 0)
        ireA == First(ls, LAMBDA l : l.a.k = "R" /\ l.a.op \in {"lt", "le"} /\ l.a.c < 0)
        irs == IF irsS # 0 THEN irsS ELSE irsA
        ire == IF ireS # 0 THEN ireS ELSE ireA
        s0  == IF ige # 0 THEN Src(ls[ige], ls[ige].a.c) ELSE IF igt # 0 THEN Src(ls[igt], ls[igt].a.c) ELSE NoSrc
        e0  == IF ilt # 0 THEN Src(ls[ilt], ls[ilt].a.c) ELSE IF ile # 0 THEN Src(ls[ile], ls[ile].a.c) ELSE NoSrc
        s1  == IF ib # 0 THEN Src(ls[ib], ls[ib].a.c)  ELSE s0
        e1  == IF ib # 0 THEN Src(ls[ib], ls[ib].a.c2) ELSE e0
        s2  == IF s1.kind = "none" /\ irs # 0 THEN Src(ls[irs], Now - ls[irs].a.c) ELSE s1
        e2  == IF e1.kind = "none" /\ ire # 0 THEN Src(ls[ire], Now - ls[ire].a.c) ELSE e1
    IN IF s2.kind = "none" /\ e2.kind = "none" THEN [found |-> FALSE, s |-> 0, e |-> 0, ssrc |-> NoSrc, esrc |-> NoSrc]
       ELSE [found |-> TRUE,
             s |-> IF s2.kind = "none" THEN Floor2020 ELSE s2.h,
             e |-> IF e2.kind = "none" THEN Now + 24 ELSE e2.h,
             ssrc |-> IF s2.kind = "none" THEN [NoSrc EXCEPT !.kind = "default"] ELSE s2,
             esrc |-> IF e2.kind = "none" THEN [NoSrc EXCEPT !.kind = "default"] ELSE e2]

Incl(x, fix) == fix /\ x.esrc.op \in {"le", "between"} /\ x.esrc.kind \in {"T", "S", "Z", "B"} /\ x.s < x.e
InRange(f, s, e, incl) == IF f.k = "h" THEN s <= f.n /\ (f.n < e \/ (incl /\ f.n = e))
                          ELSE s < e /\ s < 24 * f.n + 24 /\ (e > 24 * f.n \/ (incl /\ e = 24 * f.n))
TooWide(s, e) == s < e /\ (e - s) + (e - s) \div 24 + 1 > MaxPaths

\* OptimizeTablePath: the files read for one table reference
PrunedF(x, L, fix) == IF ~x.found \/ TooWide(x.s, x.e) THEN L
                      ELSE LET P == { f \in L : InRange(f, x.s, x.e, Incl(x, fix)) } IN IF P = {} THEN L ELSE P
Pruned(x, L) == PrunedF(x, L, EndInclusiveFix)

Qual(tree, L) == { f \in L : \E r \in RowsOf(f) : Eval(tree, r) }
\* files holding a row that contributes to the result (every file has an x = 0 and an x = 1 row)
Needed(tree, w, L) == IF w = "plain" THEN Qual(tree, L) ELSE IF Qual(tree, L) = {} THEN {} ELSE L

\* mechanism that lost file f
Below(f, s) == IF f.k = "h" THEN f.n < s ELSE 24 * f.n + 24 <= s
Blame(x, w, f) ==
    LET below == Below(f, x.s)
        src   == IF below THEN x.ssrc ELSE x.esrc
    IN CASE src.kind = "default" /\ below  -> "end-only-range-assumed-to-start-2020-01-01"
         [] src.kind = "default" /\ ~below -> "start-only-range-assumed-to-end-now-plus-1-day"
         [] src.kind = "S"                 -> "column-ending-in-time-taken-as-time"
         [] src.kind = "Z"                 -> "utc-offset-literal-converted-by-pruner-but-not-by-duckdb"
         [] src.neg                        -> "time-predicate-under-NOT"
         [] src.or                         -> "time-predicate-under-OR"
         [] w # "plain"                    -> "time-range-applied-to-every-table-reference"
         [] ~below /\ src.op \in {"le", "between"} -> "inclusive-upper-bound-on-the-hour-excludes-that-hour"
         [] OTHER                          -> "unexplained"

Lost(tree, w, x, L) == Needed(tree, w, L) \ Pruned(x, L)
LostAW(tree, w, x, L) == Needed(tree, w, L) \ PrunedF(x, L, FALSE)     \* before 757b147

-----------------------------------------------------------------------------
\* three-atom trees are explored for the single-table wrapper only (state budget)
Init == \E t \in Trees : \E w \in Wrappers :
           /\ (t \in T2b /\ t \notin T1) => w = "plain"
           /\ st = [phase |-> "query", tree |-> t, w |-> w, x |-> [found |-> FALSE, s |-> 0, e |-> 0, ssrc |-> NoSrc, esrc |-> NoSrc],
                 bad |-> {}, labels |-> {}]
ExtractRange == /\ st.phase = "query"
                /\ st' = [st EXCEPT !.phase = "range", !.x = Extract(st.tree)]
Judge == /\ st.phase = "range"
         /\ LET B == { L \in Layouts : Lost(st.tree, st.w, st.x, L) # {} }
            IN st' = [st EXCEPT !.phase = "done", !.bad = B,
                                !.labels = UNION { { Blame(st.x, st.w, f) : f \in Lost(st.tree, st.w, st.x, L) } : L \in B }]
Done == st.phase = "done" /\ UNCHANGED st
Next == ExtractRange \/ Judge \/ Done
Spec == Init /\ [][Next]_vars

\* every loss the model predicts has a named mechanism: a positive, conjunctive bound on the real time column
\* of a single-table query never loses a file, except for the inclusive upper bound on the hour
Explained == st.phase = "done" => "unexplained" \notin st.labels
\* small-scope argument used by the driver: whatever is lost in some layout is lost in a layout of at most 2 files
SmallScope == st.phase = "done" => (st.bad # {} => \E L \in st.bad : Cardinality(L) <= 2)
\* the mechanism repaired by 757b147 no longer loses anything (Prune_AsWritten.cfg: must be rejected)
NoInclusiveLoss == st.phase = "done" => "inclusive-upper-bound-on-the-hour-excludes-that-hour" \notin st.labels
\* the property (violated in the model; Prune_Equiv.cfg prints a witness)
NeededSubsetPruned == st.phase = "done" => st.bad = {}

FileName(f) == IF f.k = "d" THEN (IF f.n = 0 THEN "d0" ELSE "d1")
               ELSE CASE f.n = Past -> "hP" [] f.n = Fut -> "hF" [] f.n = 1 -> "h1" [] f.n = 2 -> "h2"
                      [] f.n = 23 -> "h23" [] f.n = 24 -> "h24" [] f.n = 25 -> "h25"
                      [] f.n = MonthBack -> "hM" [] f.n = MonthFwd -> "hN"
Names(S) == { FileName(f) : f \in S }
Case(L) == [files |-> Names(L), pruned |-> Names(Pruned(st.x, L)), needed |-> Names(Needed(st.tree, st.w, L)),
            lost |-> { [file |-> FileName(f), why |-> Blame(st.x, st.w, f)] : f \in Lost(st.tree, st.w, st.x, L) },
            lostaw |-> { [file |-> FileName(f), why |-> Blame(st.x, st.w, f)] : f \in LostAW(st.tree, st.w, st.x, L) }]
Smallest(S) == CHOOSE L \in S : \A M \in S : Cardinality(L) <= Cardinality(M)
EmitTrace ==
    (Emit /\ st.phase = "done") =>
        LET good == { L \in Layouts : L \notin st.bad /\ Cardinality(L) = 2 /\ Pruned(st.x, L) # L }
            cases == {Case(Files)}
                     \cup (IF st.bad = {} THEN {} ELSE {Case(Smallest(st.bad))})
                     \cup (IF good = {} THEN {} ELSE {Case(CHOOSE L \in good : TRUE)})
        IN PrintT(<<"TRACE", ToJson([tree |-> st.tree, w |-> st.w, found |-> st.x.found, s |-> st.x.s, e |-> st.x.e,
                                     nbad |-> Cardinality(st.bad), labels |-> st.labels, cases |-> cases])>>)
=============================================================================

CONSTANTS
  Emit = TRUE
  JoinKinds = {"JOIN", "LEFT JOIN", "FULL OUTER JOIN", "NATURAL JOIN", "CROSS JOIN"}
INIT Init
NEXT Next
INVARIANT WellFormed
INVARIANT EmitTrace
CHECK_DEADLOCK FALSE

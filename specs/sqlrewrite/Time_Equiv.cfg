CONSTANTS
  TPS = 4
  MaxExh = 0
  Win = 2
  Emit = FALSE
INIT Init
NEXT Next
INVARIANT Equivalent
CHECK_DEADLOCK FALSE

CONSTANTS
  TPS = 4
  MaxExh = 0
  Win = 2
  Emit = TRUE
INIT Init
NEXT Next
INVARIANT ClassesExact
INVARIANT EmitTrace
CHECK_DEADLOCK FALSE

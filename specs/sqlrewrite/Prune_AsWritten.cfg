\* negative control: GeneratePartitionPaths as written before /repo 757b147; TLC must report NoInclusiveLoss violated
CONSTANTS
  MaxFiles = 2
  Depth2 = FALSE
  EndInclusiveFix = FALSE
  Emit = FALSE
INIT Init
NEXT Next
INVARIANT NoInclusiveLoss
CHECK_DEADLOCK FALSE

CONSTANTS
  MaxChains = 3
  MaxFactors = 2
  Emit = TRUE
  OrGuard = TRUE
INIT Init
NEXT Next
INVARIANT ClassesExact
INVARIANT Equivalent
INVARIANT EmitTrace
CHECK_DEADLOCK FALSE

--------------------------- MODULE SqlRewriteRefs ---------------------------
(***************************************************************************)
(* C16, rewrite-site grammar.  A query is a derivation of the grammar of   *)
(* supported shapes below; RefSites(q) is the ground truth the grammar     *)
(* knows by construction: the table positions that denote STORED           *)
(* measurements, in text order, each resolved to (database, measurement).  *)
(* NonSites(q) are the words that follow a FROM/JOIN keyword (or look like *)
(* it) but are NOT measurement references: CTE names (also when a CTE      *)
(* shadows a measurement name), operands of EXTRACT/SUBSTRING/TRIM(..FROM..)*)
(* and names inside string literals and comments.                          *)
(* Expected behaviour of convertSQLToStoragePaths[WithHeaderDB]: exactly   *)
(* the RefSites are replaced by read_parquet of <root>/<db>/<m> (glob)     *)
(* and nothing else changes.  TLC enumerates every derivation inside the   *)
(* bounds and checks the grammar's own sanity (WellFormed); the driver     *)
(* renders each derivation to SQL text and judges arc by EXECUTION against *)
(* plain DuckDB views -- the structural comparison only ranks.             *)
(*                                                                         *)
(* shapes  single | join | comma | subq_from | subq_in | cte | cte_shadow  *)
(*         | union                                                         *)
(*   single     SELECT <fn> host, v, n FROM R1 WHERE v > 1 <decoy>         *)
(*   join       SELECT .. FROM R1 a <JK> R2 b [ON a.host = b.host]         *)
(*   comma      SELECT .. FROM R1 a, R2 b WHERE a.host = b.host            *)
(*   subq_from  SELECT .. FROM (SELECT host, count(1) c FROM R1 GROUP BY host) s  *)
(*   subq_in    SELECT .. FROM R1 WHERE host IN (SELECT host FROM R2 ..)   *)
(*   cte        WITH x AS (SELECT .. FROM R1) SELECT .. FROM x JOIN R2 b ON ..*)
(*   cte_shadow WITH <name of R1> AS (SELECT .. FROM R2) SELECT .. FROM <name of R1>*)
(*              (R2 may be the measurement of the same name: in DuckDB the *)
(*              body of a non-recursive CTE sees the base table)           *)
(*   union      SELECT .. FROM R1 UNION ALL SELECT .. FROM R2              *)
(* style = (fn, decoy, ws, kw): function body with a FROM keyword in the   *)
(* select list, a decoy "FROM mem" in a string / block comment / line      *)
(* comment, the white space between FROM/JOIN and the name (space, two     *)
(* spaces, newline, tab, newline+indent, block comment), keyword case.     *)
(* Styles vary one dimension at a time around the plain style, plus two    *)
(* combinations.  header = none | default | db2 (x-arc-database).          *)
(***************************************************************************)
EXTENDS SqlRewrite, Json

CONSTANTS Emit, JoinKinds

VARIABLES st
vars == <<st>>

Stored == [default |-> {"cpu", "mem", "Sensor_Data"}, db2 |-> {"cpu", "events"}]
Headers == {"none", "default", "db2"}

Ref(db, name, q) == [db |-> db, name |-> name, q |-> q]
RefsFor(h) ==
    IF h = "db2" THEN {Ref("", "cpu", FALSE), Ref("", "cpu", TRUE), Ref("", "events", FALSE)}
    ELSE {Ref("", "cpu", FALSE), Ref("", "cpu", TRUE), Ref("", "mem", FALSE), Ref("", "Sensor_Data", FALSE), Ref("", "Sensor_Data", TRUE)}
         \cup (IF h = "none" THEN {Ref("db2", "events", FALSE), Ref("db2", "cpu", FALSE)} ELSE {})
Resolve(r, h) == [db |-> IF r.db # "" THEN r.db ELSE IF h = "none" THEN "default" ELSE h, name |-> r.name]

Shapes1 == {"single", "subq_from"}
Shapes2 == {"join", "comma", "subq_in", "cte", "cte_shadow", "union"}

Plain == [fn |-> "none", decoy |-> "none", ws |-> "sp", kw |-> "upper"]
Styles == {Plain}
          \* FROM-bearing function bodies, also nested: a function call inside the body BEFORE the outer FROM
          \* (SUBSTRING(TRIM(host) FROM 1 FOR 2), TRIM(BOTH SUBSTRING(host FROM 1 FOR 1) FROM host)) and after it
          \* (TRIM(BOTH 'h' FROM SUBSTRING(host FROM 1 FOR 3)))
          \cup { [Plain EXCEPT !.fn = f]    : f \in {"extract", "substring", "trim", "substring_of_trim", "trim_nested_before", "trim_of_substring"} }
          \cup { [Plain EXCEPT !.decoy = d] : d \in {"string", "string_join", "block", "line"} }
          \* a string literal holding a keyword look-alike ('x from mem y', 'x join mem y') combined with the white
          \* space classes after the real FROM (text searches for "from " then find the literal first)
          \cup { [fn |-> "none", decoy |-> z[1], ws |-> z[2], kw |-> "upper"] : z \in {"string", "string_join"} \X {"nl", "tab", "nlsp", "sp2"} }
          \* "tight": the EMPTY white-space class wherever SQL allows it: AS( of a CTE, )SELECT after a CTE body,
          \* IN( and FROM( before a subquery
          \cup { [Plain EXCEPT !.ws = w]    : w \in {"sp2", "nl", "tab", "nlsp", "cmt", "tight"} }
          \cup { [Plain EXCEPT !.kw = k]    : k \in {"lower", "mixed"} }
          \cup { [fn |-> "extract", decoy |-> "none", ws |-> "nl", kw |-> "lower"],
                 [fn |-> "none", decoy |-> "string", ws |-> "cmt", kw |-> "upper"] }

Queries ==
    UNION { { [shape |-> sh, r1 |-> r, r2 |-> r, jk |-> "JOIN", style |-> s, header |-> h] :
                <<sh, r, s>> \in Shapes1 \X RefsFor(h) \X Styles }
            \cup
            { [shape |-> z[1], r1 |-> z[2], r2 |-> z[3], jk |-> z[4], style |-> z[5], header |-> h] :
                z \in { y \in Shapes2 \X RefsFor(h) \X RefsFor(h) \X JoinKinds \X Styles :
                          /\ (y[1] # "join" => y[4] = "JOIN")
                          /\ (y[1] = "cte_shadow" => y[2].db = "" /\ ~y[2].q) } }
          : h \in Headers }

\* ground truth, in text order
RefSites(q) ==
    LET a == Resolve(q.r1, q.header)
        b == Resolve(q.r2, q.header)
    IN CASE q.shape \in Shapes1        -> <<a>>
         [] q.shape = "cte_shadow"     -> <<b>>
         [] OTHER                      -> <<a, b>>

NonSites(q) ==
    (IF q.shape = "cte" THEN <<"x">> ELSE IF q.shape = "cte_shadow" THEN <<q.r1.name>> ELSE <<>>)
    \o (CASE q.style.fn = "extract" -> <<"time">> [] q.style.fn = "substring" -> <<"1">>
          [] q.style.fn = "trim" -> <<"host">> [] q.style.fn = "substring_of_trim" -> <<"1">>
          [] q.style.fn = "trim_nested_before" -> <<"1", "host">> [] q.style.fn = "trim_of_substring" -> <<"SUBSTRING", "1">>
          [] OTHER -> <<>>)
    \o (IF q.style.decoy # "none" THEN <<"mem">> ELSE <<>>)

Init == \E q \in Queries : st = [phase |-> "query", q |-> q, sites |-> <<>>, nonsites |-> <<>>]
Derive == /\ st.phase = "query"
          /\ st' = [st EXCEPT !.phase = "done", !.sites = RefSites(st.q), !.nonsites = NonSites(st.q)]
Done == st.phase = "done" /\ UNCHANGED st
Next == Derive \/ Done
Spec == Init /\ [][Next]_vars

\* sanity of the grammar: every reference site denotes a stored measurement of the resolved database,
\* there is at least one, and a shadowing CTE's name is a site only when its body reads the measurement itself
WellFormed ==
    st.phase = "done" =>
        /\ Len(st.sites) >= 1
        /\ \A i \in 1..Len(st.sites) : st.sites[i].name \in Stored[st.sites[i].db]
        /\ (st.q.shape = "cte_shadow" => Len(st.sites) = 1 /\ st.sites[1] = Resolve(st.q.r2, st.q.header))
        /\ (st.q.header # "none" => \A i \in 1..Len(st.sites) : st.sites[i].db = st.q.header)

EmitTrace ==
    (Emit /\ st.phase = "done") =>
        PrintT(<<"TRACE", ToJson([shape |-> st.q.shape, r1 |-> st.q.r1, r2 |-> st.q.r2, jk |-> st.q.jk,
                                  fn |-> st.q.style.fn, decoy |-> st.q.style.decoy, ws |-> st.q.style.ws, kw |-> st.q.style.kw,
                                  header |-> st.q.header, sites |-> st.sites, nonsites |-> st.nonsites])>>)
=============================================================================

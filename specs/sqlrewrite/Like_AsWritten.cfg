\* negative control: like_optimizer.go as written before /repo 9f6402e; TLC must report Equivalent violated
CONSTANTS
  MaxChains = 2
  MaxFactors = 2
  Emit = FALSE
  OrGuard = FALSE
INIT Init
NEXT Next
INVARIANT Equivalent
CHECK_DEADLOCK FALSE

----------------------------- MODULE SqlRewrite -----------------------------
(***************************************************************************)
(* Shared definitions of the sqlrewrite family (C16, C17, C18):            *)
(* integer division flavours used by DuckDB, Kleene three-valued logic.    *)
(* The fragments are separate modules that EXTEND this one:                *)
(*   SqlRewriteTime  (C17) epoch arithmetic of time_bucket / date_trunc    *)
(*   SqlRewriteLike  (C17) LIKE / <> '' predicate reordering               *)
(*   SqlRewritePrune (C18) partition pruning                               *)
(*   SqlRewriteRefs  (C16) table-reference rewrite sites                   *)
(***************************************************************************)
EXTENDS Integers, Sequences, FiniteSets, TLC

Abs(x) == IF x < 0 THEN -x ELSE x

\* TLC's \div is floor division for a positive divisor
FloorDiv(a, b) == a \div b
Mod(a, b)      == a % b

\* DuckDB's integer division operator // truncates toward zero   (verified: -5 // 2 = -2)
TruncDiv(a, b) == IF a >= 0 THEN a \div b ELSE -((-a) \div b)

\* DuckDB's DOUBLE -> BIGINT cast rounds to nearest, ties to even (nearbyint).  Verified on the real
\* engine by the C17 driver: epoch(TIMESTAMP '1969-11-19 23:59:57.5')::BIGINT = -3628802, and
\* 0.5::DOUBLE::BIGINT = 0, 1.5::DOUBLE::BIGINT = 2.  (DECIMAL literals such as 10.5::BIGINT round half away
\* from zero instead -- epoch() returns DOUBLE, so that rule does not apply here.)   value = n / d, d > 0
RoundHalfEven(n, d) == LET q == n \div d
                           r == n % d
                       IN IF 2 * r < d THEN q ELSE IF 2 * r > d THEN q + 1 ELSE IF q % 2 = 0 THEN q ELSE q + 1

\* Kleene logic over {"T","F","N"}
K3 == {"T", "F", "N"}
KNot(a)    == CASE a = "T" -> "F" [] a = "F" -> "T" [] OTHER -> "N"
KAnd(a, b) == IF a = "F" \/ b = "F" THEN "F" ELSE IF a = "T" /\ b = "T" THEN "T" ELSE "N"
KOr(a, b)  == IF a = "T" \/ b = "T" THEN "T" ELSE IF a = "F" /\ b = "F" THEN "F" ELSE "N"

Min2(a, b) == IF a < b THEN a ELSE b
Max2(a, b) == IF a > b THEN a ELSE b
=============================================================================

CONSTANTS
  MaxChains = 2
  MaxFactors = 2
  Emit = FALSE
  OrGuard = TRUE
INIT Init
NEXT Next
INVARIANT ClassesExact
INVARIANT Equivalent
CHECK_DEADLOCK FALSE

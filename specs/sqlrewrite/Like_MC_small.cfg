CONSTANTS
  MaxChains = 2
  MaxFactors = 2
  Emit = FALSE
INIT Init
NEXT Next
INVARIANT ClassesExact
CHECK_DEADLOCK FALSE

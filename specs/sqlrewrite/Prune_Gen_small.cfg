CONSTANTS
  MaxFiles = 2
  Depth2 = FALSE
  EndInclusiveFix = TRUE
  Emit = TRUE
INIT Init
NEXT Next
INVARIANT Explained
INVARIANT SmallScope
INVARIANT NoInclusiveLoss
INVARIANT EmitTrace
CHECK_DEADLOCK FALSE

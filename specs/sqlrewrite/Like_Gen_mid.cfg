CONSTANTS
  MaxChains = 2
  MaxFactors = 3
  Emit = TRUE
  OrGuard = TRUE
INIT Init
NEXT Next
INVARIANT ClassesExact
INVARIANT Equivalent
INVARIANT EmitTrace
CHECK_DEADLOCK FALSE

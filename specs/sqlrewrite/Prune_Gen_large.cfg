CONSTANTS
  MaxFiles = 2
  Depth2 = TRUE
  Emit = TRUE
INIT Init
NEXT Next
INVARIANT Explained
INVARIANT SmallScope
INVARIANT EmitTrace
CHECK_DEADLOCK FALSE

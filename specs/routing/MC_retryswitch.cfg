SPECIFICATION Spec
CONSTANTS
  MaxNodes = 3
  WriteEps = {"msgpack"}
  QueryEps = {"query"}
  NoPrologue = {}
  Emit = FALSE
  Retries = 2
  RetrySwitchesPeer = TRUE
  RemembersPrimary = FALSE
INVARIANTS TypeOK Safety
CHECK_DEADLOCK FALSE

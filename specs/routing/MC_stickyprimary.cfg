SPECIFICATION Spec
CONSTANTS
  MaxNodes = 2
  WriteEps = {"msgpack"}
  QueryEps = {"query"}
  NoPrologue = {}
  Emit = FALSE
  Retries = 2
  RetrySwitchesPeer = FALSE
  RemembersPrimary = TRUE
INVARIANTS TypeOK Safety
CHECK_DEADLOCK FALSE

SPECIFICATION Spec
CONSTANTS
  MaxNodes = 3
  WriteEps = {"msgpack", "lp_v1", "lp_v2", "lp_simple", "tle"}
  QueryEps = {"query", "query_msgpack", "estimate", "arrow"}
  NoPrologue = {}
  Emit = FALSE
  Retries = 2
  RetrySwitchesPeer = FALSE
  RemembersPrimary = FALSE
INVARIANTS TypeOK Safety
CHECK_DEADLOCK FALSE

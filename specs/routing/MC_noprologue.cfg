SPECIFICATION Spec
CONSTANTS
  MaxNodes = 2
  WriteEps = {"msgpack"}
  QueryEps = {"query", "estimate", "arrow"}
  NoPrologue = {"estimate", "arrow"}
  Emit = FALSE
  Retries = 2
  RetrySwitchesPeer = FALSE
  RemembersPrimary = FALSE
INVARIANTS TypeOK Safety
CHECK_DEADLOCK FALSE

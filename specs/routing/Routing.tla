------------------------------ MODULE Routing ------------------------------
(***************************************************************************)
(* C30 -- requests are served by a capable node after at most one forward. *)
(*                                                                         *)
(* Implementation-shaped model of the routing prologue shared by the write *)
(* and query handlers (internal/api/routing.go decideForward, the          *)
(* `switch WriteForwardDecision/QueryForwardDecision` blocks in msgpack.go,*)
(* lineprotocol.go, query.go) and of target selection in                   *)
(* internal/cluster/router.go (RouteWrite, RouteQuery, doForward) with the *)
(* capability table of internal/cluster/role.go.                           *)
(*                                                                         *)
(* A configuration is a sequence of 1..MaxNodes node types.  Node 1 is the *)
(* node the client talks to; the other nodes are interchangeable, so they  *)
(* are kept sorted (symmetry reduction by construction).  A node type is a *)
(* kind x health:                                                          *)
(*   nr  standalone, clustering off  -> handlers have router == nil        *)
(*   sa  standalone role inside a cluster (router present)                 *)
(*   wp / ws / wn  writer with writer-state primary / standby / none       *)
(*   rd  reader          cp  compactor                                     *)
(* (a router exists exactly when clustering is on, and without clustering  *)
(* the role is standalone: cmd/arc/main.go, coordinator.go NewCoordinator) *)
(* A peer's status is one of: registry-healthy and reachable, registry-     *)
(* healthy but dead at transport level (crashed after the last health      *)
(* check: connection refused), registry-unhealthy.  Registry health only   *)
(* matters for target selection, reachability for the forward attempt.     *)
(* The entry node is reachable (the client talks to it).                   *)
(*                                                                         *)
(* One action per decision point as the code is written:                   *)
(*   Decide      decideForward (router nil / CanRouteLocally / header)     *)
(*   RouteWrite  primary writer, else any healthy writer, else 503         *)
(*   RouteQuery  healthy readers, else healthy writers, else 503           *)
(*   Attempt     forwardRequest's loop: doForward to the chosen node; on a *)
(*               transport error retry (cfg.Retries times) -- as written   *)
(*               against the SAME node -- then 502                         *)
(*   (forwarding = BuildHTTPRequest strips the client's marker, doForward  *)
(*    sets X-Arc-Forwarded-By to the local node id)                        *)
(*   Reconfig    between two requests on the SAME routers the node that    *)
(*               served the first (forwarded) request re-registers with    *)
(*               another role / writer state or changes health; the same   *)
(*               request is then sent again (round 2).  As written the     *)
(*               router keeps no memory of earlier targets.                *)
(* Endpoints in NoPrologue are handlers that have no routing prologue in   *)
(* the code (they always process locally); they are modelled as they are.  *)
(***************************************************************************)
EXTENDS Naturals, Sequences, FiniteSets, TLC, Json

CONSTANTS MaxNodes,       \* 1..4
          WriteEps,       \* set of write endpoint names
          QueryEps,       \* set of query endpoint names
          NoPrologue,     \* subset of endpoints whose handler has no routing prologue
          Retries,        \* RouterConfig.Retries (attempts = Retries + 1)
          RemembersPrimary, \* FALSE = as written: RouteWrite asks the registry for the primary on every call;
                          \* TRUE = negative control: the router reuses the last primary's id while that
                          \* node is registry-healthy, whatever role / writer state it has now
          RetrySwitchesPeer, \* FALSE = as written: every retry goes to the same node; TRUE = negative control:
                          \* a retry moves to another healthy non-compactor peer whatever the request kind
          Emit            \* TRUE: print one TRACE line per terminal state

KindSeq == <<"nr", "sa", "wp", "ws", "wn", "rd", "cp">>
NTypes  == 3 * Len(KindSeq)
Types   == 1..NTypes
KindOf(t)  == KindSeq[((t - 1) \div 3) + 1]
Stat(t)    == (t - 1) % 3              \* 0 healthy+reachable, 1 healthy+dead, 2 unhealthy
Healthy(t) == Stat(t) # 2              \* what the registries report
Reach(t)   == Stat(t) # 1              \* does a connection to its API address succeed
EntryTypes == { t \in Types : Stat(t) = 0 }

HasRouter(k) == k # "nr"
IsWriterK(k) == k \in {"wp", "ws", "wn"}
\* role.go GetCapabilities
CanIngestK(k) == k \in {"nr", "sa", "wp", "ws", "wn"}
CanQueryK(k)  == k # "cp"

Hdrs == {"none", "junk", "self", "peer"}   \* client-supplied X-Arc-Forwarded-By
Eps  == WriteEps \cup QueryEps

SortedPeers(k) == { s \in [1..k -> Types] : \A i \in 1..k, j \in 1..k : i < j => s[i] <= s[j] }
Configs == UNION { { <<e>> \o p : e \in EntryTypes, p \in SortedPeers(k) } : k \in 0..(MaxNodes - 1) }

VARIABLES cfg,      \* Seq(Types); node 1 is the entry node
          ep, hdr,  \* the request
          at,       \* node currently holding the request
          marked,   \* does the request (as seen by `at`) carry X-Arc-Forwarded-By
          phase,    \* "recv" | "route" | "done"
          hops,     \* number of forwards so far
          proc,     \* node that processed the request locally (0 = none)
          outcome,  \* "pending" | "local" | "loop508" | "none503" | "fail502"
          tgt,      \* node the router is currently trying to forward to (0 = none)
          tries,    \* failed attempts so far
          round,    \* 1 | 2
          cfg0,     \* configuration of round 1
          r1,       \* outcome of round 1 (history)
          chg,      \* <<node, new type>> applied between the rounds (<<0, 0>> = none)
          lastPrimary \* entry router's remembered primary (only used when RemembersPrimary)

aux  == <<round, cfg0, r1, chg>>
vars == <<cfg, ep, hdr, at, marked, phase, hops, proc, outcome, tgt, tries, round, cfg0, r1, chg, lastPrimary>>

N        == Len(cfg)
Kind(i)  == KindOf(cfg[i])
Up(i)    == Healthy(cfg[i])
IsWrite  == ep \in WriteEps
Capable(i) == IF IsWrite THEN CanIngestK(Kind(i)) ELSE CanQueryK(Kind(i))

Init == /\ cfg \in Configs
        /\ ep \in Eps
        /\ hdr \in Hdrs
        /\ at = 1 /\ marked = (hdr # "none")
        /\ phase = "recv" /\ hops = 0 /\ proc = 0 /\ outcome = "pending" /\ tgt = 0 /\ tries = 0
        /\ round = 1 /\ cfg0 = cfg /\ r1 = [outcome |-> "", proc |-> 0, hops |-> 0] /\ chg = <<0, 0>> /\ lastPrimary = 0

Finish(o, p) == /\ phase' = "done" /\ outcome' = o /\ proc' = p
                /\ UNCHANGED <<cfg, ep, hdr, at, marked, hops, tgt, tries, aux>>

\* decideForward + the handler's switch
Decide ==
    /\ phase = "recv" /\ UNCHANGED lastPrimary
    /\ IF ep \in NoPrologue \/ ~HasRouter(Kind(at)) THEN Finish("local", at)     \* router == nil / no prologue
       ELSE IF Capable(at) THEN Finish("local", at)                              \* CanRouteLocally: header not consulted
       ELSE IF marked THEN Finish("loop508", 0)                                  \* ForwardAlreadyForwarded
       ELSE /\ phase' = "route"                                                  \* ForwardToPeer
            /\ UNCHANGED <<cfg, ep, hdr, at, marked, hops, proc, outcome, tgt, tries, aux>>

\* forwardRequest(node): start the attempt loop against the selected node
Forward(t) == /\ tgt' = t /\ tries' = 0 /\ phase' = "fwd"
              /\ UNCHANGED <<cfg, ep, hdr, at, marked, hops, proc, outcome, aux>>

\* where the next attempt goes after a failed one
NextTarget(failed) ==
    IF ~RetrySwitchesPeer THEN {failed}
    ELSE LET c == { i \in 1..Len(cfg) : i # failed /\ i # at /\ Healthy(cfg[i]) /\ KindOf(cfg[i]) # "cp" }
         IN IF c = {} THEN {failed} ELSE c

\* one doForward attempt
Attempt ==
    /\ phase = "fwd"
    /\ IF Reach(cfg[tgt])
         THEN /\ at' = tgt /\ marked' = TRUE /\ hops' = hops + 1 /\ phase' = "recv" /\ tgt' = 0
              /\ UNCHANGED <<cfg, ep, hdr, proc, outcome, tries, aux, lastPrimary>>
         ELSE IF tries < Retries
         THEN /\ tries' = tries + 1 /\ tgt' \in NextTarget(tgt)
              /\ UNCHANGED <<cfg, ep, hdr, at, marked, hops, phase, proc, outcome, aux, lastPrimary>>
         ELSE Finish("fail502", 0) /\ UNCHANGED lastPrimary       \* ErrRoutingFailed

Primaries == { i \in 1..N : Kind(i) = "wp" /\ Up(i) }      \* Registry.GetPrimaryWriter
Writers   == { i \in 1..N : IsWriterK(Kind(i)) /\ Up(i) }  \* Registry.GetWriters
Readers   == { i \in 1..N : Kind(i) = "rd" /\ Up(i) }      \* Registry.GetReaders

Remembered   == RemembersPrimary /\ lastPrimary # 0 /\ Up(lastPrimary)
WriteTargets == IF Remembered THEN {lastPrimary} ELSE IF Primaries # {} THEN Primaries ELSE Writers
QueryTargets == IF Readers # {} THEN Readers ELSE Writers

RouteWrite ==
    /\ phase = "route" /\ IsWrite
    /\ IF CanIngestK(Kind(at)) THEN Finish("local", at) /\ UNCHANGED lastPrimary   \* ErrLocalNodeCanHandle
       ELSE IF WriteTargets = {} THEN Finish("none503", 0) /\ UNCHANGED lastPrimary  \* ErrNoWriterAvailable
       ELSE \E t \in WriteTargets :
              /\ Forward(t)
              /\ lastPrimary' = IF RemembersPrimary /\ (Remembered \/ Primaries # {}) THEN t
                                ELSE IF RemembersPrimary THEN 0 ELSE lastPrimary

RouteQuery ==
    /\ phase = "route" /\ ~IsWrite
    /\ UNCHANGED lastPrimary
    /\ IF CanQueryK(Kind(at)) THEN Finish("local", at)
       ELSE IF QueryTargets = {} THEN Finish("none503", 0)     \* ErrNoReaderAvailable
       ELSE \E t \in QueryTargets : Forward(t)

\* the node that served the forwarded request re-registers / changes health; same request again
NewTypes(t) == { u \in Types : u # t /\ ( (Stat(u) = 0 /\ KindOf(u) \in {"wp", "ws", "wn", "rd", "cp"})
                                         \/ (KindOf(u) = KindOf(t) /\ Stat(u) # 0) ) }
Reconfig ==
    /\ phase = "done" /\ round = 1 /\ hops = 1 /\ outcome = "local"
    /\ \E nt \in NewTypes(cfg[at]) : /\ cfg' = [cfg EXCEPT ![at] = nt] /\ chg' = <<at, nt>>
    /\ r1' = [outcome |-> outcome, proc |-> proc, hops |-> hops]
    /\ round' = 2 /\ at' = 1 /\ marked' = (hdr # "none") /\ phase' = "recv"
    /\ hops' = 0 /\ proc' = 0 /\ outcome' = "pending" /\ tgt' = 0 /\ tries' = 0
    /\ UNCHANGED <<ep, hdr, cfg0, lastPrimary>>

Done == phase = "done" /\ UNCHANGED vars

Next == Decide \/ RouteWrite \/ RouteQuery \/ Attempt \/ Reconfig \/ Done
Spec == Init /\ [][Next]_vars

-----------------------------------------------------------------------------
\* the property (properties.jsonl C30)
AtMostOneForward   == hops <= 1
ProcessedByCapable == proc # 0 => Capable(proc)
ServedWhereReceived == (phase = "done" /\ Capable(1)) => (proc = 1 /\ hops = 0 /\ outcome = "local")
\* a request that arrives carrying the forwarded-by marker is never forwarded (again), whatever the value
MarkedNeverForwarded == hdr # "none" => hops = 0
ForwardedToCapable == hops = 1 => Capable(at)
ForwardedIsServed  == (phase = "done" /\ hops = 1) => (proc = at /\ outcome = "local")
\* an incapable entry node never serves; with a client marker it answers 508 whatever else holds
SpoofedMarker      == (phase = "done" /\ ~Capable(1) /\ hdr # "none" /\ HasRouter(Kind(1)) /\ ep \notin NoPrologue)
                         => (outcome = "loop508" /\ proc = 0 /\ hops = 0)
Safety == AtMostOneForward /\ ProcessedByCapable /\ ServedWhereReceived /\ MarkedNeverForwarded /\ ForwardedToCapable
          /\ ForwardedIsServed /\ SpoofedMarker

TypeOK == /\ at \in 1..N /\ proc \in 0..N /\ hops \in 0..2
          /\ round \in 1..2 /\ lastPrimary \in 0..N
          /\ phase \in {"recv", "route", "fwd", "done"} /\ tgt \in 0..N /\ tries \in 0..Retries
          /\ outcome \in {"pending", "local", "loop508", "none503", "fail502"}

EmitInv ==
    (Emit /\ phase = "done") =>
        PrintT(<<"TRACE", ToJson([round |-> round, nodes |-> [i \in 1..N |-> cfg0[i]], ep |-> ep, hdr |-> hdr,
                                  outcome |-> outcome, proc |-> proc, hops |-> hops,
                                  r1proc |-> r1.proc, chgnode |-> chg[1], chgtype |-> chg[2]])>>)
=============================================================================

SPECIFICATION Spec
CONSTANTS
  Modes = {"csv", "parquet"}
  MaxCols = 2
  MaxRows = 2
  Classes = {"int", "b01", "float", "boolw", "str", "empty", "qd"}
  FixedCols <- NoCols
  TimeFmts = {"", "epoch_s", "epoch_ms", "epoch_us", "epoch_ns"}
  TimeClasses = {"eint", "efrac", "rfc", "rfcoff", "dt", "date"}
  Delims = {",", ";", "|", "tab"}
  Skips = {0, 1, 2}
  TNames = {"time"}
  TPos = {"first"}
  Bads = {"none"}
  PqTypes = {"int8", "int16", "int32", "int64", "uint8", "uint16", "uint32", "uint64", "float32", "float64", "decimal", "string", "binary", "fsb", "bool", "ts_s", "ts_ms", "ts_us", "ts_ns", "date32"}
  PqTimeTypes = {"ts_s", "ts_ms", "ts_us", "ts_ns", "int64", "int32", "int16", "uint64", "uint32", "float64", "float32", "string", "binary", "fsb", "int8", "date32"}
  PqNulls = {TRUE, FALSE}
  PqRanges = {"mid"}
  Families = {"csv_cols", "csv_opts", "csv_wide", "pq_cols", "pq_groups", "pq_time"}
  PqFamCols = 2
  PqGroups = {1}
  PqBads = {"none"}
  U64Check = TRUE
  Emit = TRUE
INVARIANTS Safety EmitInv
CHECK_DEADLOCK FALSE

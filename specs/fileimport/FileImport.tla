----------------------------- MODULE FileImport -----------------------------
(***************************************************************************)
(* C31 -- file imports store every data row of the uploaded file.          *)
(*                                                                         *)
(* Implementation-shaped model of internal/api/import_inprocess.go:        *)
(*                                                                         *)
(* CSV (importCSV): skip_rows, header (time column by name, renamed to     *)
(* "time"), ALL rows read into per-column string slices, then              *)
(*   1. stringsToTimeMicros on the time column -- any bad cell rejects the *)
(*      whole file before anything is written;                             *)
(*   2. inferAndConvertColumn per data column: one scan with the flags     *)
(*      isInt/isFloat/isBool/hasValue/hasEmpty exactly as written (float   *)
(*      is only tried once int is ruled out; the scan stops when all three *)
(*      are ruled out), then the precedence int > float > bool > string;   *)
(*      empty cells are NULL in int/float/bool columns and "" in string    *)
(*      columns;                                                           *)
(*   3. one WriteTypedColumnarDirect + FlushAll.                           *)
(* Cells are abstracted to classes:                                        *)
(*   int    integer literal other than 0/1        b01   "0" or "1"          *)
(*   float  non-integer number                    boolw true/false (any case)*)
(*   str    anything else                         qd    quoted field holding *)
(*   empty  ""                                           the delimiter       *)
(* Time cells: eint (integer epoch in unit tunit), efrac (x.5 epoch),      *)
(* rfc (RFC3339 Z), rfcoff (RFC3339 +02:00), dt ("YYYY-MM-DD HH:MM:SS"),   *)
(* date ("YYYY-MM-DD"); the last row may carry a bad time cell (garbage    *)
(* or empty).                                                              *)
(*                                                                         *)
(* Parquet (importParquet): columns are converted in file order by         *)
(* arrowColumnToTyped / parquetColumnToTimeMicros; the first unsupported   *)
(* column, uint64 value above 2^63-1 or bad time value rejects the file;   *)
(* nothing is written before every column is converted.                    *)
(***************************************************************************)
EXTENDS Naturals, Sequences, FiniteSets, TLC, Json

CONSTANTS Modes,        \* subset of {"csv", "parquet"}
          MaxCols, MaxRows,
          Classes,      \* CSV cell classes in play
          FixedCols,    \* <<>> or a fixed sequence of columns (then Classes/MaxCols are not used)
          TimeFmts, TimeClasses, Delims, Skips, TNames, TPos, Bads,
          PqTypes, PqTimeTypes, PqNulls, PqRanges,
          Families,     \* which families of files Init contains (see Init)
          PqFamCols,    \* columns per file in family pq_cols
          PqGroups, PqBads, \* row groups per file ({1, 2}); bad value in the last row ({"none", "nulltime"})
          U64Check,     \* TRUE: the code as it is now (repo commit 4025fa4): a uint64 value above 2^63-1 refuses the
                        \* file. FALSE: the code as first written (plain int64() cast) -- negative control MC_pq_u64.cfg
          Emit

VARIABLES mode, cols, tfmt, tcls, tunit, bad, skip, tname, tpos, delim,   \* the uploaded file + options
          pq,                                                              \* parquet: [types, nulls, ttype, range]
          phase, c, i, isInt, isFloat, isBool, hasValue, hasEmpty,         \* the scan
          types, outcome, stored,
          buffered                                                         \* rows sitting in the ArrowBuffer, not yet flushed

vars == <<mode, cols, tfmt, tcls, tunit, bad, skip, tname, tpos, delim, pq,
          phase, c, i, isInt, isFloat, isBool, hasValue, hasEmpty, types, outcome, stored, buffered>>

Units      == {"s", "ms", "us", "ns"}
FmtUnit(f) == CASE f = "epoch_s" -> "s" [] f = "epoch_ms" -> "ms" [] f = "epoch_us" -> "us" [] f = "epoch_ns" -> "ns" [] OTHER -> "auto"
TextTimes  == {"rfc", "rfcoff", "dt", "date"}

\* cfg-selectable values for FixedCols
NoCols      == <<>>
DefaultCols == << <<"int", "float", "empty">>, <<"qd", "str", "b01">> >>

SeqsUpTo(S, n) == UNION {[1..k -> S] : k \in 1..n}
ColChoices == IF FixedCols # <<>> THEN {FixedCols}
              ELSE UNION {[1..nc -> [1..nr -> Classes]] : <<nc, nr>> \in (1..MaxCols) \X (1..MaxRows)}

NRows == IF mode = "csv" THEN Len(cols[1]) ELSE 2

-----------------------------------------------------------------------------
\* Parquet decision tables, as written in arrowColumnToTyped / parquetColumnToTimeMicros
PqStored(t) == CASE t \in {"int8", "int16", "int32", "int64", "uint8", "uint16", "uint32", "uint64"} -> "int"
                 [] t \in {"float32", "float64", "decimal"}   -> "float"
                 [] t \in {"string", "binary", "fsb"}         -> "string"
                 [] t = "bool"                                 -> "bool"
                 [] t \in {"ts_s", "ts_ms", "ts_us", "ts_ns"} -> "int"      \* microseconds
                 [] OTHER                                      -> "unsupported"
PqTimeSupported(t) == t \in {"ts_s", "ts_ms", "ts_us", "ts_ns", "int64", "int32", "int16", "uint64", "uint32",
                             "float64", "float32", "string", "binary", "fsb"}
\* a value of the column's physical type that the stored type cannot hold
PqOverflows(t, range) == t = "uint64" /\ range = "top"

\* One family of uploaded files: every set is a parameter
InitWith(M, CC, TF, TC, DL, SK, TN, TP, BD, PT, PTT, PN, PR, PC, PG, PB) ==
    /\ mode \in M
    /\ tfmt \in TF
    /\ IF mode = "csv"
         THEN /\ cols \in CC
              /\ tcls \in TC
              /\ tunit \in IF tcls \in TextTimes THEN {"s"}
                           ELSE IF tcls = "efrac" THEN (IF tfmt = "" THEN {"s"} ELSE {FmtUnit(tfmt)} \cap {"s", "ms"})
                           ELSE IF tfmt = "" THEN Units ELSE {FmtUnit(tfmt)}
              /\ bad \in BD /\ skip \in SK /\ tname \in TN /\ tpos \in TP /\ delim \in DL
              /\ pq = [types |-> <<>>, nulls |-> FALSE, ttype |-> "none", range |-> "mid", groups |-> 1, bad |-> "none"]
         ELSE /\ cols = <<>> /\ tcls = "none" /\ bad = "none" /\ skip = 0 /\ tname \in TN /\ tpos \in TP /\ delim = ","
              /\ pq \in [types : SeqsUpTo(PT, PC), nulls : PN, ttype : PTT, range : PR, groups : PG, bad : PB]
              /\ tunit \in IF pq.ttype \in {"ts_s", "ts_ms", "ts_us", "ts_ns", "string", "binary", "fsb"} THEN {"s"}
                           ELSE IF tfmt = "" THEN (IF pq.ttype \in {"int32", "int16", "uint32", "float32"} THEN {"s"} ELSE Units)
                           ELSE {FmtUnit(tfmt)}
    /\ phase = "time" /\ c = 1 /\ i = 1
    /\ isInt = TRUE /\ isFloat = TRUE /\ isBool = TRUE /\ hasValue = FALSE /\ hasEmpty = FALSE
    /\ types = <<>> /\ outcome = "pending" /\ stored = 0 /\ buffered = 0

AllClasses == {"int", "b01", "float", "boolw", "str", "empty", "qd"}
AllFmts    == {"", "epoch_s", "epoch_ms", "epoch_us", "epoch_ns"}
AllTimes   == {"eint", "efrac", "rfc", "rfcoff", "dt", "date"}
AllPq      == {"int8", "int16", "int32", "int64", "uint8", "uint16", "uint32", "uint64", "float32", "float64", "decimal",
               "string", "binary", "fsb", "bool", "ts_s", "ts_ms", "ts_us", "ts_ns", "date32"}
AllPqTime  == {"ts_s", "ts_ms", "ts_us", "ts_ns", "int64", "int32", "int16", "uint64", "uint32", "float64", "float32",
               "string", "binary", "fsb", "int8", "date32"}
WidePatterns == {<<"int", "float", "empty">>, <<"b01", "boolw", "empty">>, <<"qd", "str", "int">>,
                 <<"empty", "empty", "empty">>, <<"int", "int", "b01">>, <<"float", "b01", "boolw">>}
OneColUpTo(n) == UNION {[1..1 -> [1..nr -> AllClasses]] : nr \in 1..n}

\* Families: "cfg" = the family described by the constants of the configuration file; the others are
\* the fixed generation families of the replay (several families in one TLC run: JVM start is slow)
Init ==
    \/ "cfg" \in Families /\
          InitWith(Modes, ColChoices, TimeFmts, TimeClasses, Delims, Skips, TNames, TPos, Bads,
                   PqTypes, PqTimeTypes, PqNulls, PqRanges, MaxCols, PqGroups, PqBads)
    \/ "csv_cols" \in Families /\          \* every column of <= 3 cells, default options
          InitWith({"csv"}, OneColUpTo(3), {""}, {"rfc"}, {","}, {0}, {"time"}, {"first"}, {"none"}, {}, {}, {}, {}, 1, {1}, {"none"})
    \/ "csv_opts" \in Families /\          \* every option combination, two fixed columns
          InitWith({"csv"}, {DefaultCols}, AllFmts, AllTimes, Delims, Skips, {"time", "ts"}, {"first", "last"},
                   {"none", "garbage", "empty"}, {}, {}, {}, {}, 1, {1}, {"none"})
    \/ "csv_wide" \in Families /\          \* three columns at once, non-default options (column order, renamed time column)
          InitWith({"csv"}, [1..3 -> WidePatterns], {"epoch_ns"}, {"eint"}, {";"}, {1}, {"ts"}, {"last"}, {"none"},
                   {}, {}, {}, {}, 1, {1}, {"none"})
    \/ "pq_cols" \in Families /\           \* every pair of parquet column types, with nulls, both value ranges
          InitWith({"parquet"}, {}, {""}, {}, {}, {}, {"time"}, {"first", "last"}, {},
                   AllPq, {"ts_us"}, {TRUE}, {"mid", "top"}, PqFamCols, {1}, {"none"})
    \/ "pq_groups" \in Families /\         \* one or two row groups; the LAST row (alone in the last group) may have a NULL time
          InitWith({"parquet"}, {}, {""}, {}, {}, {}, {"time"}, {"first", "last"}, {},
                   {"int64", "float64", "string", "uint64"}, {"ts_us", "int64", "string"}, {TRUE, FALSE}, {"mid"}, 1,
                   {1, 2}, {"none", "nulltime"})
    \/ "pq_time" \in Families /\           \* every time column type x time_format x unit
          InitWith({"parquet"}, {}, AllFmts, {}, {}, {}, {"time", "ts"}, {"first", "last"}, {},
                   {"int64"}, AllPqTime, {FALSE}, {"mid", "top"}, 1, {1}, {"none"})

-----------------------------------------------------------------------------
\* stringsToTimeMicros / oneTimeValueToMicros: does the whole time column convert?
CsvTimeOK == /\ bad = "none"
             /\ (tcls \in TextTimes => tfmt = "")      \* an explicit epoch format refuses text

Reject == /\ phase' = "done" /\ outcome' = "rejected" /\ stored' = 0 /\ buffered' = 0
          /\ UNCHANGED <<c, i, isInt, isFloat, isBool, hasValue, hasEmpty, types>>

CsvTime == /\ mode = "csv" /\ phase = "time"
           /\ IF CsvTimeOK
                THEN /\ phase' = "scan"
                     /\ UNCHANGED <<c, i, isInt, isFloat, isBool, hasValue, hasEmpty, types, outcome, stored, buffered>>
                ELSE Reject
           /\ UNCHANGED <<mode, cols, tfmt, tcls, tunit, bad, skip, tname, tpos, delim, pq>>

ParsesInt(k)   == k \in {"int", "b01"}
ParsesFloat(k) == k \in {"int", "b01", "float"}
BoolLit(k)     == k \in {"b01", "boolw"}

\* one iteration of the for-loop of inferAndConvertColumn
CsvScan ==
    /\ mode = "csv" /\ phase = "scan" /\ i <= Len(cols[c])
    /\ LET k == cols[c][i] IN
       IF k = "empty"
         THEN /\ hasEmpty' = TRUE /\ i' = i + 1
              /\ UNCHANGED <<isInt, isFloat, isBool, hasValue, phase>>
         ELSE LET ni == isInt /\ ParsesInt(k)
                  nf == IF ~ni /\ isFloat THEN ParsesFloat(k) ELSE isFloat   \* float is parsed only once int is ruled out
                  nb == isBool /\ BoolLit(k)
              IN /\ hasValue' = TRUE /\ isInt' = ni /\ isFloat' = nf /\ isBool' = nb
                 /\ UNCHANGED hasEmpty
                 /\ IF ~ni /\ ~nf /\ ~nb THEN phase' = "decide" /\ i' = i        \* break
                                          ELSE phase' = phase /\ i' = i + 1
    /\ UNCHANGED <<mode, cols, tfmt, tcls, tunit, bad, skip, tname, tpos, delim, pq, c, types, outcome, stored, buffered>>

CsvScanEnd == /\ mode = "csv" /\ phase = "scan" /\ i > Len(cols[c])
              /\ phase' = "decide"
              /\ UNCHANGED <<mode, cols, tfmt, tcls, tunit, bad, skip, tname, tpos, delim, pq,
                             c, i, isInt, isFloat, isBool, hasValue, hasEmpty, types, outcome, stored, buffered>>

Decided == IF ~hasValue \/ (~isInt /\ ~isFloat /\ ~isBool) THEN "string"
           ELSE IF isInt THEN "int" ELSE IF isFloat THEN "float" ELSE "bool"

CsvDecide ==
    /\ mode = "csv" /\ phase = "decide"
    /\ types' = Append(types, Decided)
    /\ IF c < Len(cols)
         THEN /\ c' = c + 1 /\ i' = 1 /\ phase' = "scan"
              /\ isInt' = TRUE /\ isFloat' = TRUE /\ isBool' = TRUE /\ hasValue' = FALSE /\ hasEmpty' = FALSE
              /\ UNCHANGED <<outcome, stored, buffered>>
         ELSE /\ phase' = "done" /\ outcome' = "stored" /\ stored' = NRows /\ buffered' = 0     \* WriteTypedColumnarDirect + FlushAll
              /\ UNCHANGED <<c, i, isInt, isFloat, isBool, hasValue, hasEmpty>>
    /\ UNCHANGED <<mode, cols, tfmt, tcls, tunit, bad, skip, tname, tpos, delim, pq>>

-----------------------------------------------------------------------------
\* parquet: the time column sits first or last in the file; columns are converted in file order
PqTimeOK == /\ PqTimeSupported(pq.ttype)
            /\ pq.bad = "none"          \* a NULL time value refuses the file, in whichever row group it sits: ReadTable reads
                                       \* the whole file and every column is converted before anything is buffered
            /\ ~(U64Check /\ PqOverflows(pq.ttype, pq.range))                \* uint64 time value above 2^63-1 (4025fa4)
            /\ (pq.ttype \in {"string", "binary", "fsb"} => tfmt = "")     \* RFC3339 text under an explicit epoch format fails

PqStep ==
    /\ mode = "parquet" /\ phase \in {"time", "scan"}
    /\ LET n      == Len(pq.types)
           atTime == (tpos = "first" /\ phase = "time") \/ (tpos = "last" /\ c > n)
       IN IF atTime
            THEN IF PqTimeOK
                   THEN IF tpos = "first" THEN /\ phase' = "scan" /\ UNCHANGED <<c, types, outcome, stored, buffered>>
                        ELSE /\ phase' = "done" /\ outcome' = "stored" /\ stored' = NRows /\ buffered' = 0 /\ UNCHANGED <<c, types>>
                   ELSE /\ phase' = "done" /\ outcome' = "rejected" /\ stored' = 0 /\ buffered' = 0 /\ UNCHANGED <<c, types>>
          ELSE IF c > n
            THEN /\ phase' = "done" /\ outcome' = "stored" /\ stored' = NRows /\ buffered' = 0 /\ UNCHANGED <<c, types>>
          ELSE IF PqStored(pq.types[c]) = "unsupported" \/ (U64Check /\ PqOverflows(pq.types[c], pq.range))
            THEN /\ phase' = "done" /\ outcome' = "rejected" /\ stored' = 0 /\ buffered' = 0 /\ UNCHANGED <<c, types>>
          ELSE /\ types' = Append(types, PqStored(pq.types[c])) /\ c' = c + 1
               /\ phase' = "scan" /\ UNCHANGED <<outcome, stored, buffered>>
    /\ UNCHANGED <<mode, cols, tfmt, tcls, tunit, bad, skip, tname, tpos, delim, pq, i, isInt, isFloat, isBool, hasValue, hasEmpty>>

\* whatever happens next on the server (another import, the periodic flush, shutdown) flushes the ArrowBuffer:
\* rows a refused request left behind in it would be stored now
FollowUp == /\ phase = "done" /\ phase' = "final"
            /\ stored' = stored + buffered /\ buffered' = 0
            /\ UNCHANGED <<mode, cols, tfmt, tcls, tunit, bad, skip, tname, tpos, delim, pq,
                           c, i, isInt, isFloat, isBool, hasValue, hasEmpty, types, outcome>>

Done == phase = "final" /\ UNCHANGED vars

Next == CsvTime \/ CsvScan \/ CsvScanEnd \/ CsvDecide \/ PqStep \/ FollowUp \/ Done
Spec == Init /\ [][Next]_vars

-----------------------------------------------------------------------------
\* can a cell of class k be held by a column of type t without loss ("empty" is NULL / "")
Holds(t, k) == CASE t = "int"   -> k \in {"int", "b01", "empty"}
                 [] t = "float" -> k \in {"int", "b01", "float", "empty"}
                 [] t = "bool"  -> k \in {"b01", "boolw", "empty"}
                 [] OTHER       -> TRUE

CsvLossless == (mode = "csv" /\ outcome = "stored") =>
                   \A cc \in 1..Len(cols) : \A r \in 1..Len(cols[cc]) : Holds(types[cc], cols[cc][r])

\* narrowest type that fits the whole column (the documented contract of inferAndConvertColumn)
Fits(t, col) == \A r \in 1..Len(col) : Holds(t, col[r])
AllEmpty(col) == \A r \in 1..Len(col) : col[r] = "empty"
CsvNarrowest == (mode = "csv" /\ outcome = "stored") =>
                   \A cc \in 1..Len(cols) :
                      types[cc] = IF AllEmpty(cols[cc]) THEN "string"
                                  ELSE IF Fits("int", cols[cc]) THEN "int"
                                  ELSE IF Fits("float", cols[cc]) THEN "float"
                                  ELSE IF Fits("bool", cols[cc]) THEN "bool" ELSE "string"

AllOrNothing == /\ (outcome = "rejected" => stored = 0 /\ buffered = 0)
                /\ (outcome = "stored" => stored = NRows /\ (mode = "csv" => Len(types) = Len(cols)))

\* a file is refused only for a reason the statement allows: it cannot be imported completely
RejectJustified == (outcome = "rejected") =>
                      IF mode = "csv" THEN ~CsvTimeOK
                      ELSE \/ ~PqTimeOK        \* includes a NULL time value
                           \/ \E k \in 1..Len(pq.types) : PqStored(pq.types[k]) = "unsupported" \/ PqOverflows(pq.types[k], pq.range)

\* every parquet value of an accepted file fits the stored type. Holds since arrowColumnToTyped refuses
\* uint64 values above 2^63-1 (U64Check); with U64Check = FALSE (int64(a.Value(i)) wraps) TLC rejects it:
\* MC_pq_u64.cfg is that negative control.
PqLossless == (mode = "parquet" /\ outcome = "stored") =>
                  \A k \in 1..Len(pq.types) : ~PqOverflows(pq.types[k], pq.range)

Safety == CsvLossless /\ CsvNarrowest /\ AllOrNothing /\ RejectJustified /\ PqLossless

EmitInv == (Emit /\ phase = "final") =>
    PrintT(<<"TRACE", ToJson([mode |-> mode, cols |-> cols, tfmt |-> tfmt, tcls |-> tcls, tunit |-> tunit, bad |-> bad,
                              skip |-> skip, tname |-> tname, tpos |-> tpos, delim |-> delim, pq |-> pq,
                              types |-> types, outcome |-> outcome])>>)
=============================================================================

SPECIFICATION Spec
CONSTANTS
  Modes = {"parquet"}
  MaxCols = 1
  MaxRows = 2
  Classes = {"int", "b01", "float", "boolw", "str", "empty", "qd"}
  FixedCols <- NoCols
  TimeFmts = {""}
  TimeClasses = {"eint", "efrac", "rfc", "rfcoff", "dt", "date"}
  Delims = {","}
  Skips = {0}
  TNames = {"time"}
  TPos = {"first"}
  Bads = {"none"}
  PqTypes = {"uint64", "int64"}
  PqTimeTypes = {"ts_us"}
  PqNulls = {TRUE, FALSE}
  PqRanges = {"mid", "top"}
  Families = {"cfg"}
  PqFamCols = 1
  PqGroups = {1}
  PqBads = {"none"}
  U64Check = FALSE
  Emit = FALSE
INVARIANTS PqLossless
CHECK_DEADLOCK FALSE

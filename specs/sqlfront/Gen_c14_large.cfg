SPECIFICATION Spec
CONSTANTS
  Jobs <- JobsC14Thorough
  Macros <- MacrosC14
  Paths <- PathsC14
  StripLastByteBug = FALSE
  EmitMode = "live"
INVARIANTS Sane EmitInv
CHECK_DEADLOCK FALSE

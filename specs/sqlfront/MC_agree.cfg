SPECIFICATION Spec
CONSTANTS
  Jobs <- JobsTiny
  Macros <- NoSyms
  Paths <- NoSyms
  EmitMode = "none"
INVARIANT Agree
CHECK_DEADLOCK FALSE

SPECIFICATION Spec
CONSTANTS
  Jobs <- JobsTiny
  Macros <- NoSyms
  Paths <- NoSyms
  StripLastByteBug = FALSE
  EmitMode = "none"
INVARIANT Agree
CHECK_DEADLOCK FALSE

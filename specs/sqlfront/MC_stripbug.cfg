\* negative control: stripSQLComments as written before arc commit b6c6321; TLC is expected to REJECT NoDrop
SPECIFICATION Spec
CONSTANTS
  Jobs <- JobsBug
  Macros <- NoSyms
  Paths <- NoSyms
  StripLastByteBug = TRUE
  EmitMode = "none"
INVARIANT NoDrop
CHECK_DEADLOCK FALSE

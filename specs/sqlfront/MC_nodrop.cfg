\* the same invariant on the code as it is now: must hold
SPECIFICATION Spec
CONSTANTS
  Jobs <- JobsBug
  Macros <- NoSyms
  Paths <- NoSyms
  StripLastByteBug = FALSE
  EmitMode = "none"
INVARIANT NoDrop
CHECK_DEADLOCK FALSE

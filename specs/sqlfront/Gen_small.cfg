SPECIFICATION Spec
CONSTANTS
  Jobs <- JobsQuick
  Macros <- NoSyms
  Paths <- NoSyms
  EmitMode = "all"
INVARIANTS Sane EmitInv
CHECK_DEADLOCK FALSE

SPECIFICATION Spec
CONSTANTS
  Jobs <- JobsQuick
  Macros <- NoSyms
  Paths <- NoSyms
  StripLastByteBug = FALSE
  EmitMode = "all"
INVARIANTS Sane EmitInv
CHECK_DEADLOCK FALSE

SPECIFICATION Spec
CONSTANTS
  Jobs <- JobsThorough
  Macros <- NoSyms
  Paths <- NoSyms
  EmitMode = "all"
INVARIANTS Sane EmitInv
CHECK_DEADLOCK FALSE

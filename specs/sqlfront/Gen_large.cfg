SPECIFICATION Spec
CONSTANTS
  Jobs <- JobsThorough
  Macros <- NoSyms
  Paths <- NoSyms
  StripLastByteBug = FALSE
  EmitMode = "all"
INVARIANTS Sane EmitInv
CHECK_DEADLOCK FALSE

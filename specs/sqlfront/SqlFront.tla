------------------------------ MODULE SqlFront ------------------------------
(***************************************************************************)
(* C15 / C14 -- arc's SQL normalisation versus DuckDB's lexer.             *)
(*                                                                         *)
(* A string is a sequence of symbols (one symbol = one character class,    *)
(* concretised by the Go driver):                                          *)
(*   q '   d "   b `   k \   D $   E E   m -   s /   a *   n LF   r CR     *)
(*   P1 __STR_1__                                                          *)
(*   W Z (upper case)   9 1 (digit)   U _ (underscore)                      *)
(*   _ TAB   w x   u e-acute (2 bytes, >=0x80)   ; ;   P __STR_0__         *)
(*   J __IDENT_0__   Macros: space-padded plain code (keywords, names,     *)
(*   parentheses)   Paths: a file path without quote/comment characters.   *)
(*                                                                         *)
(* DuckLex  = the lexical grammar of DuckDB (PostgreSQL scan.l as shipped  *)
(*   in DuckDB 1.5): '..' with '' only, E'..' with backslash escapes,      *)
(*   ".." with "", $tag$..$tag$ (tag = identifier characters, bytes >=0x80 *)
(*   included, not after an identifier character), -- to LF *or CR*,       *)
(*   NESTED block comments, backtick and backslash are ordinary code.      *)
(*   It is the ground truth the property names; the driver confirms it     *)
(*   against the real DuckDB parser on every string it judges.             *)
(* ArcNorm  = internal/sql/mask.go MaskStringLiterals (+dollarQuoteTag,    *)
(*   scanQuoted) followed by internal/api/query.go stripSQLComments on the *)
(*   MASKED text, each transliterated loop by loop (same branch order,     *)
(*   same byte-length conditions), and UnmaskStringLiterals.               *)
(*                                                                         *)
(* Every lexer assigns a ROLE to every symbol of the input                 *)
(*   c code   X.o opener  X.i inside  X.e doubled/escaped  X.c closer      *)
(*   X.b (arc only) quote kept open because the previous byte is a         *)
(*   backslash   lc.* line comment   bc.* block comment (bc.n nested       *)
(*   opener, DuckLex only)   X dropped by the stripper outside a comment   *)
(* and a VIEW: the code symbols that survive, literals bracketed, comments *)
(* and whitespace outside literals collapsed to "~".  Agree == the two views are equal.     *)
(* TLC enumerates every string (templates with holes filled from Alphabet, *)
(* at most MaxLen hole symbols) and prints both views, the predicted       *)
(* intermediate texts and the class of the first role divergence.          *)
(***************************************************************************)
EXTENDS Integers, Sequences, FiniteSets, TLC, Json

CONSTANTS Jobs,         \* sequence of [tpl, alpha, max]: a template (sequence of symbols and "H" = hole),
                        \* the symbols its holes may be filled with, the total number of hole symbols
          Macros,       \* multi-byte plain symbols that begin and end with a space
          Paths,        \* multi-byte plain symbols that begin with '/' and end with a letter
          StripLastByteBug, \* FALSE: stripSQLComments as it is now; TRUE: as written before b6c6321 (negative control)
          EmitMode      \* "none" | "all" | "live" (only strings DuckLex accepts with the whole template live)

VARIABLES tid, idx, s, left, fixedAt

vars == <<tid, idx, s, left, fixedAt>>

-----------------------------------------------------------------------------
WS == {"_", "n", "r", "~"}       \* TAB, LF, CR, space (0x20)
Cls(ident) == IF ident THEN "I" ELSE "S"
Nx(x, i) == IF i < Len(x) THEN x[i+1] ELSE "$end"
Pv(x, i) == IF i > 1 THEN x[i-1] ELSE "$start"
Rep(n, v) == [t \in 1..n |-> v]

\* identifier characters: DuckDB (letters, digits, _, bytes >= 0x80) / arc's isIdentifierByte on the LAST byte
\* W = upper-case letter (Z), 9 = digit (1), U = underscore
DIdent(c) == c \in {"w", "W", "9", "U", "E", "P", "P1", "J", "u"} \cup Paths
AIdent(c) == c \in {"w", "W", "9", "U", "E", "P", "P1", "J"} \cup Paths
Width(c)  == CASE c = "u" -> 2 [] c \in {"P", "P1"} -> 9 [] c = "J" -> 11
               [] c \in Macros \cup Paths -> 8 [] OTHER -> 1

Role == [q |-> [o |-> "q.o", i |-> "q.i", e |-> "q.e", c |-> "q.c", b |-> "q.b"],
         E |-> [o |-> "E.o", i |-> "E.i", e |-> "E.e", c |-> "E.c", b |-> "E.b"],
         d |-> [o |-> "d.o", i |-> "d.i", e |-> "d.e", c |-> "d.c", b |-> "d.b"]]
QuoteOf(kind) == IF kind = "d" THEN "d" ELSE "q"

\* first index p >= from with SubSeq(x, p, p+Len(pat)-1) = pat, or 0
FindSub(x, pat, from) ==
    LET L == Len(pat)
        C == {p \in from..(Len(x) - L + 1) : SubSeq(x, p, p + L - 1) = pat}
    IN IF C = {} THEN 0 ELSE CHOOSE p \in C : \A p2 \in C : p <= p2

-----------------------------------------------------------------------------
(* DuckLex *)
\* index of the `$` that closes a dollar-quote OPENER starting at x[i] = "D", or 0
DTagEnd(x, i) ==
    \* tag = identifier characters (digits allowed, but not as the first character)
    LET C == {j \in (i+1)..Len(x) : x[j] = "D" /\ (\A t \in (i+1)..(j-1) : DIdent(x[t])) /\ (j > i+1 => x[i+1] # "9")}
    IN IF C = {} THEN 0 ELSE CHOOSE j \in C : \A j2 \in C : j <= j2

RECURSIVE DCode(_, _, _, _), DStr(_, _, _, _), DDol(_, _, _, _), DLine(_, _, _), DBlock(_, _, _, _)

DCode(x, i, r, inId) ==
    IF i > Len(x) THEN [r |-> r, end |-> "code"]
    ELSE LET c == x[i] nx == Nx(x, i) IN
      CASE c = "q" -> DStr(x, i+1, Append(r, "q.o"), "q")
        [] c = "E" /\ ~inId /\ nx = "q" -> DStr(x, i+2, r \o <<"E.o", "E.o">>, "E")
        [] c = "d" -> DStr(x, i+1, Append(r, "d.o"), "d")
        [] c = "D" /\ ~inId /\ DTagEnd(x, i) > 0 ->
               LET j == DTagEnd(x, i) IN DDol(x, j+1, r \o Rep(j-i+1, "D.o"), SubSeq(x, i, j))
        [] c = "m" /\ nx = "m" -> DLine(x, i+2, r \o <<"lc.o", "lc.o">>)
        [] c = "s" /\ nx = "a" -> DBlock(x, i+2, r \o <<"bc.o", "bc.o">>, 1)
        [] OTHER -> DCode(x, i+1, Append(r, "c"), DIdent(c) \/ (c = "D" /\ inId))

\* '..' (kind q: '' only), E'..' (kind E: '' and backslash-anything), ".." (kind d: "" only)
DStr(x, i, r, kind) ==
    IF i > Len(x) THEN [r |-> r, end |-> "str"]
    ELSE LET c == x[i] nx == Nx(x, i) IN
      IF c = QuoteOf(kind)
        THEN IF nx = c THEN DStr(x, i+2, r \o <<Role[kind].e, Role[kind].e>>, kind)
             ELSE DCode(x, i+1, Append(r, Role[kind].c), FALSE)
      ELSE IF kind = "E" /\ c = "k" /\ i < Len(x)       \* backslash escapes the next character, whatever it is
        THEN DStr(x, i+2, r \o <<"E.i", IF nx = "q" THEN "E.e" ELSE "E.i">>, kind)
      ELSE DStr(x, i+1, Append(r, Role[kind].i), kind)

DDol(x, i, r, delim) ==
    LET p == FindSub(x, delim, i) IN
    IF p = 0 THEN [r |-> r \o Rep(Len(x) - i + 1, "D.i"), end |-> "dollar"]
    ELSE DCode(x, p + Len(delim), r \o Rep(p - i, "D.i") \o Rep(Len(delim), "D.c"), FALSE)

DLine(x, i, r) ==
    IF i > Len(x) THEN [r |-> r, end |-> "line"]
    ELSE IF x[i] \in {"n", "r"} THEN DCode(x, i+1, Append(r, "c"), FALSE)
    ELSE DLine(x, i+1, Append(r, "lc.i"))

DBlock(x, i, r, depth) ==
    IF i > Len(x) THEN [r |-> r, end |-> "block"]
    ELSE LET c == x[i] nx == Nx(x, i) IN
      IF c = "s" /\ nx = "a" THEN DBlock(x, i+2, r \o <<"bc.n", "bc.n">>, depth + 1)
      ELSE IF c = "a" /\ nx = "s"
        THEN IF depth = 1 THEN DCode(x, i+2, r \o <<"bc.c", "bc.c">>, FALSE)
             ELSE DBlock(x, i+2, r \o <<"bc.c", "bc.c">>, depth - 1)
      ELSE DBlock(x, i+1, Append(r, "bc.i"), depth)

DuckLex(x) == DCode(x, 1, <<>>, FALSE)

-----------------------------------------------------------------------------
(* ArcNorm, phase 1: MaskStringLiterals.  Elements of the masked text are    *)
(* [sym, lo, hi, k]: a code symbol (k = -1, lo = hi = its index) or the      *)
(* placeholder of masks[k+1] standing for x[lo..hi].                         *)

\* dollarQuoteTag: x[i] = "D"; previous byte not an identifier byte; tag bytes ASCII letters/_/digits
ATagEnd(x, i) ==
    IF AIdent(Pv(x, i)) THEN 0
    ELSE LET C == {j \in (i+1)..Len(x) : x[j] = "D"} IN
         IF C = {} THEN 0
         ELSE LET j == CHOOSE j \in C : \A j2 \in C : j <= j2 IN
              \* isAlpha (letters, _) or a digit that is not the first tag byte
              IF \A t \in (i+1)..(j-1) : x[t] \in {"w", "W", "U", "E", "P", "J"} \/ (x[t] = "9" /\ t > i+1) THEN j ELSE 0

\* the quote loop shared by scanQuoted and the inline ' / " branch: i = first index after the opening
\* quote; returns e = index just past the literal and the roles of x[start+1 .. e-1]
RECURSIVE AScan(_, _, _, _)
AScan(x, i, kind, r) ==
    IF i > Len(x) THEN [e |-> Len(x) + 1, r |-> r]
    ELSE LET c == x[i] IN
      IF c = QuoteOf(kind)
        THEN IF Nx(x, i) = c THEN AScan(x, i+2, kind, r \o <<Role[kind].e, Role[kind].e>>)   \* '' first
             ELSE IF x[i-1] = "k" THEN AScan(x, i+1, kind, Append(r, Role[kind].b))           \* then \'
             ELSE [e |-> i + 1, r |-> Append(r, Role[kind].c)]
      ELSE AScan(x, i+1, kind, Append(r, Role[kind].i))

IdentSlot(masks, orig) ==
    LET C == {k \in 1..Len(masks) : masks[k].ident /\ masks[k].orig = orig} IN
    IF C = {} THEN 0 ELSE CHOOSE k \in C : TRUE

RECURSIVE AMask(_, _, _, _, _)
AMask(x, i, els, masks, ar) ==
    IF i > Len(x) THEN [els |-> els, masks |-> masks, ar |-> ar]
    ELSE LET c == x[i] nx == Nx(x, i) IN
      CASE c = "D" /\ ATagEnd(x, i) > 0 ->
             LET j     == ATagEnd(x, i)
                 delim == SubSeq(x, i, j)
                 p     == FindSub(x, delim, j + 1)
                 stop  == IF p = 0 THEN Len(x) + 1 ELSE p + Len(delim)
                 rr    == IF p = 0 THEN Rep(j-i+1, "D.o") \o Rep(Len(x) - j, "D.i")
                          ELSE Rep(j-i+1, "D.o") \o Rep(p - j - 1, "D.i") \o Rep(Len(delim), "D.c")
             IN AMask(x, stop, Append(els, [sym |-> "#", lo |-> i, hi |-> stop-1, k |-> Len(masks)]),
                      Append(masks, [orig |-> SubSeq(x, i, stop-1), ident |-> FALSE]), ar \o rr)
        [] c = "E" /\ nx = "q" /\ ~AIdent(Pv(x, i)) ->
             LET sc == AScan(x, i+2, "E", <<"E.o", "E.o">>) IN
             AMask(x, sc.e, Append(els, [sym |-> "#", lo |-> i, hi |-> sc.e-1, k |-> Len(masks)]),
                   Append(masks, [orig |-> SubSeq(x, i, sc.e-1), ident |-> FALSE]), ar \o sc.r)
        [] c = "q" ->
             LET sc == AScan(x, i+1, "q", <<"q.o">>) IN
             AMask(x, sc.e, Append(els, [sym |-> "#", lo |-> i, hi |-> sc.e-1, k |-> Len(masks)]),
                   Append(masks, [orig |-> SubSeq(x, i, sc.e-1), ident |-> FALSE]), ar \o sc.r)
        [] c = "d" ->
             LET sc   == AScan(x, i+1, "d", <<"d.o">>)
                 orig == SubSeq(x, i, sc.e-1)
                 slot == IdentSlot(masks, orig)
             IN IF slot > 0
                  THEN AMask(x, sc.e, Append(els, [sym |-> "#", lo |-> i, hi |-> sc.e-1, k |-> slot-1]), masks, ar \o sc.r)
                  ELSE AMask(x, sc.e, Append(els, [sym |-> "#", lo |-> i, hi |-> sc.e-1, k |-> Len(masks)]),
                             Append(masks, [orig |-> orig, ident |-> TRUE]), ar \o sc.r)
        [] OTHER -> AMask(x, i+1, Append(els, [sym |-> c, lo |-> i, hi |-> i, k |-> -1]), masks, Append(ar, "c"))

-----------------------------------------------------------------------------
(* ArcNorm, phase 2: stripSQLComments on the masked text (byte-length       *)
(* conditions kept: a placeholder is >= 9 bytes, "u" is 2).                  *)
EW(e) == IF e.k >= 0 THEN 9 ELSE Width(e.sym)
IsSym(e, c) == e.k = -1 /\ e.sym = c
RECURSIVE BytesFrom(_, _)
BytesFrom(els, i) == IF i > Len(els) THEN 0 ELSE EW(els[i]) + BytesFrom(els, i+1)

\* out: surviving elements (an inserted blank is Blank);
\* sr: role per element index ("c" kept)
\* bug = TRUE is stripSQLComments BEFORE arc commit b6c6321 (negative control): after a closed block comment
\* `if i+1 >= len(sql) { i = len(sql) }` also fired when exactly one byte was left and dropped it.
\* bug = FALSE (the code as it is now): the rest is skipped only when the comment was NOT closed.
RECURSIVE AStrip(_, _, _, _, _), AStripLine(_, _, _, _, _), AStripBlock(_, _, _, _, _)
AStrip(els, i, out, sr, bug) ==
    IF i > Len(els) THEN [out |-> out, sr |-> sr]
    ELSE IF i < Len(els) /\ IsSym(els[i], "m") /\ IsSym(els[i+1], "m")
      THEN AStripLine(els, i+2, out, sr \o <<"lc.o", "lc.o">>, bug)
    ELSE IF i < Len(els) /\ IsSym(els[i], "s") /\ IsSym(els[i+1], "a")
      THEN AStripBlock(els, i+2, out, sr \o <<"bc.o", "bc.o">>, bug)
    ELSE AStrip(els, i+1, Append(out, els[i]), Append(sr, "c"), bug)

AStripLine(els, i, out, sr, bug) ==
    IF i > Len(els) THEN [out |-> out, sr |-> sr]
    ELSE IF IsSym(els[i], "n") THEN AStrip(els, i+1, Append(out, els[i]), Append(sr, "c"), bug)   \* the newline is kept
    ELSE AStripLine(els, i+1, out, Append(sr, "lc.i"), bug)

Blank == [sym |-> "~", lo |-> 0, hi |-> 0, k |-> -2]     \* the stripper writes a space (0x20)
\* for i+1 < len(sql): scan for "*/"; the scan never looks at the LAST byte as a first byte
AStripBlock(els, i, out, sr, bug) ==
    IF i > Len(els) THEN [out |-> Append(out, Blank), sr |-> sr]                   \* unterminated: rest skipped
    ELSE IF i < Len(els) /\ IsSym(els[i], "a") /\ IsSym(els[i+1], "s")
      THEN IF bug /\ BytesFrom(els, i+2) <= 1
             THEN [out |-> Append(out, Blank), sr |-> sr \o <<"bc.c", "bc.c">> \o Rep(Len(els) - (i+1), "X")]
             ELSE AStrip(els, i+2, Append(out, Blank), sr \o <<"bc.c", "bc.c">>, bug)
    ELSE AStripBlock(els, i+1, out, Append(sr, "bc.i"), bug)

MapBt(x) == [i \in 1..Len(x) |-> IF x[i] = "b" THEN "d" ELSE x[i]]

\* pipe = "P": checkQueryPermissions / convertSQLToStoragePaths / hasCrossDatabaseSyntax
\* pipe = "V": ValidateSQLRequest / normalizeSQLForShow (backticks mapped to double quotes first)
ArcNormB(x0, pipe, bug) ==
    LET x  == IF pipe = "V" THEN MapBt(x0) ELSE x0
        m  == AMask(x, 1, <<>>, <<>>, <<>>)
        st == AStrip(m.els, 1, <<>>, <<>>, bug)
        \* role of every input symbol: the mask role inside a masked span, else the stripper's role
        elOf(i) == CHOOSE e \in 1..Len(m.els) : m.els[e].lo <= i /\ i <= m.els[e].hi
        roles == [i \in 1..Len(x) |-> IF m.els[elOf(i)].k >= 0 THEN m.ar[i] ELSE st.sr[elOf(i)]]
    IN [els |-> m.els, masks |-> m.masks, out |-> st.out, r |-> roles]
ArcNorm(x0, pipe) == ArcNormB(x0, pipe, StripLastByteBug)

-----------------------------------------------------------------------------
(* Views *)
RECURSIVE Collapse(_, _, _)
Collapse(v, i, acc) ==
    IF i > Len(v) THEN (IF Len(acc) > 0 /\ acc[Len(acc)] = "~" THEN SubSeq(acc, 1, Len(acc)-1) ELSE acc)
    ELSE IF v[i] = "~" THEN (IF Len(acc) = 0 \/ acc[Len(acc)] = "~" THEN Collapse(v, i+1, acc)
                             ELSE Collapse(v, i+1, Append(acc, "~")))
    ELSE Collapse(v, i+1, Append(acc, v[i]))

IsOpen(r)  == r \in {"q.o", "E.o", "d.o", "D.o"}
IsClose(r) == r \in {"q.c", "E.c", "d.c", "D.c"}
IsLit(r)   == r \in {"q.o", "q.i", "q.e", "q.c", "E.o", "E.i", "E.e", "E.c", "d.o", "d.i", "d.e", "d.c", "D.o", "D.i", "D.c"}

RECURSIVE DView(_, _, _, _)
DView(x, r, i, acc) ==
    IF i > Len(x) THEN acc
    ELSE LET pre  == IF IsOpen(r[i]) /\ (i = 1 \/ ~IsOpen(r[i-1])) THEN <<"[">> ELSE <<>>
             post == IF IsLit(r[i]) /\ (i = Len(x) \/ (IsClose(r[i]) /\ ~IsClose(r[i+1]))) THEN <<"]">> ELSE <<>>
             mid  == IF IsLit(r[i]) THEN <<x[i]>>
                     ELSE IF r[i] = "c" THEN (IF x[i] \in WS THEN <<"~">> ELSE <<x[i]>>)
                     ELSE <<"~">>
         IN DView(x, r, i+1, acc \o pre \o mid \o post)
DuckView(x, d) == Collapse(DView(x, d.r, 1, <<>>), 1, <<>>)

RECURSIVE AViewR(_, _, _, _)
AViewR(x, out, i, acc) ==
    IF i > Len(out) THEN acc
    ELSE LET e == out[i] IN
         AViewR(x, out, i+1,
                acc \o (IF e.k >= 0 THEN <<"[">> \o SubSeq(x, e.lo, e.hi) \o <<"]">>
                        ELSE IF e.sym \in WS \cup {"~"} THEN <<"~">> ELSE <<e.sym>>))
ArcView(x, a) == Collapse(AViewR(x, a.out, 1, <<>>), 1, <<>>)

\* the predicted masked / stripped texts (placeholders as "#S<k>" / "#I<k>" -- here "#", k, ident)
ElText(a, e) == IF e.k >= 0 THEN <<"#", Cls(a.masks[e.k+1].ident), e.k>> ELSE <<e.sym>>
RECURSIVE Flat(_, _, _, _)
Flat(a, els, i, acc) == IF i > Len(els) THEN acc ELSE Flat(a, els, i+1, acc \o ElText(a, els[i]))

-----------------------------------------------------------------------------
(* UnmaskStringLiterals on the masked text: masks in order; a string mask    *)
(* replaces the FIRST occurrence of its placeholder text, an identifier mask *)
(* ALL occurrences.  "P" typed by the user is the text of placeholder 0 of   *)
(* string class, "J" of identifier class.                                    *)
KeyOf(masks, e) == IF e.k >= 0 THEN <<Cls(masks[e.k+1].ident), e.k>>
                   ELSE IF e.sym = "P" THEN <<"S", 0>> ELSE IF e.sym = "P1" THEN <<"S", 1>> ELSE IF e.sym = "J" THEN <<"I", 0>> ELSE <<"none", 0>>
Expand(orig) == [t \in 1..Len(orig) |-> [sym |-> orig[t], lo |-> 0, hi |-> 0, k |-> -1]]
RECURSIVE ReplAll(_, _, _, _, _), Unmask(_, _, _)
ReplAll(masks, els, key, orig, all) ==
    LET C == {p \in 1..Len(els) : KeyOf(masks, els[p]) = key} IN
    IF C = {} THEN els
    ELSE LET p == CHOOSE p \in C : \A p2 \in C : p <= p2
             one == SubSeq(els, 1, p-1) \o Expand(orig)
         IN IF all THEN one \o ReplAll(masks, SubSeq(els, p+1, Len(els)), key, orig, all)
            ELSE one \o SubSeq(els, p+1, Len(els))
Unmask(masks, els, j) ==
    IF j > Len(masks) THEN els
    ELSE Unmask(masks, ReplAll(masks, els, <<Cls(masks[j].ident), j-1>>, masks[j].orig, masks[j].ident), j+1)
RoundTrip(x, a) == [t \in 1..Len(Unmask(a.masks, a.els, 1)) |-> Unmask(a.masks, a.els, 1)[t].sym] = x

-----------------------------------------------------------------------------
(* classification of the first role divergence (the mechanism) *)
FirstDiff(dr, ar) ==
    \* inside E'..' a quote kept open by a preceding backslash (E.b) is DuckDB's escaped quote (E.e)
    LET C == {i \in 1..Len(dr) : dr[i] # (IF ar[i] = "E.b" THEN "E.e" ELSE ar[i])} IN
    IF C = {} THEN 0 ELSE CHOOSE i \in C : \A i2 \in C : i <= i2

InComment(r) == r \in {"lc.o", "lc.i", "bc.o", "bc.i", "bc.n", "bc.c"}
DivClass(x, dr, ar) ==
    LET i == FirstDiff(dr, ar) IN
    IF i = 0 THEN "none"
    ELSE LET d == dr[i] a == ar[i] IN
      CASE x[i] = "b" /\ a = "d.o"                               -> "backtick-as-quote"   \* pipe V only
        [] d \in {"q.c", "d.c"} /\ a \in {"q.b", "d.b"}           -> "bslash-quote"
        [] d = "E.c" /\ a = "E.b"                                  -> "estring-escaped-backslash"
        [] d = "E.c" /\ a = "E.e"                                  -> "estring-backslash-then-doubled-quote"
        [] d \in {"lc.i", "lc.o"} /\ IsOpen(a)                     -> "quote-in-line-comment"
        [] d \in {"bc.i", "bc.o", "bc.n", "bc.c"} /\ IsOpen(a)     -> "quote-in-block-comment"
        [] d \in {"d.i", "d.e"} /\ IsOpen(a)                       -> "quote-inside-quoted-identifier"
        [] d = "bc.n"                                              -> "nested-block-comment"
        [] d = "c" /\ x[i] = "r" /\ a = "lc.i"                     -> "cr-ends-line-comment"
        [] d = "D.o" /\ ~IsOpen(a)                                 -> "dollar-tag-non-ascii"
        [] d = "c" /\ a = "D.o"                                    -> "dollar-after-non-ascii-identifier"
        [] a = "X"                                                 -> "strip-drops-last-byte"
        [] d = "c" /\ x[i] = "b" /\ a = "d.o"                      -> "backtick-as-quote"
        [] d = "c" /\ a = "E.o"                                   -> "estring-after-non-ascii-identifier"
        [] a \in {"d.o", "d.e", "d.c", "d.i"} /\ (x[i] = "b" \/ Nx(x, i) = "b" \/ Pv(x, i) = "b") -> "backtick-as-quote"
        [] OTHER                                                   -> "other"

-----------------------------------------------------------------------------
Tpl == Jobs[tid].tpl
Init == /\ tid \in 1..Len(Jobs)
        /\ idx = 1 /\ s = <<>> /\ left = Jobs[tid].max /\ fixedAt = <<>>

Complete == idx > Len(Tpl) \/ (idx = Len(Tpl) /\ Tpl[idx] = "H")

\* the maximal run of fixed template symbols is appended in one step
NextHole(i) == LET C == {j \in i..Len(Tpl) : Tpl[j] = "H"} IN
               IF C = {} THEN Len(Tpl) + 1 ELSE CHOOSE j \in C : \A j2 \in C : j <= j2
Fixed ==    /\ idx <= Len(Tpl) /\ Tpl[idx] # "H"
            /\ LET j == NextHole(idx) IN
               /\ s' = s \o SubSeq(Tpl, idx, j-1)
               /\ fixedAt' = fixedAt \o [t \in 1..(j-idx) |-> Len(s) + t]
               /\ idx' = j
            /\ UNCHANGED <<tid, left>>
HoleChar == /\ idx <= Len(Tpl) /\ Tpl[idx] = "H" /\ left > 0
            /\ \E c \in Jobs[tid].alpha : s' = Append(s, c)
            /\ left' = left - 1 /\ UNCHANGED <<tid, idx, fixedAt>>
HoleEnd ==  /\ idx < Len(Tpl) /\ Tpl[idx] = "H"      \* a trailing hole is never closed: every prefix is a string
            /\ idx' = idx + 1 /\ UNCHANGED <<tid, s, left, fixedAt>>
Done ==     Complete /\ UNCHANGED vars

Next == Fixed \/ HoleChar \/ HoleEnd \/ Done
Spec == Init /\ [][Next]_vars

-----------------------------------------------------------------------------

\* the template without its holes, and the roles its symbols have when nothing disguises them
RECURSIVE Bare(_, _)
Bare(t, i) == IF i > Len(t) THEN <<>> ELSE (IF t[i] = "H" THEN <<>> ELSE <<t[i]>>) \o Bare(t, i+1)
LiveIn(r, bareRoles) == \A j \in 1..Len(fixedAt) : r[fixedAt[j]] = bareRoles[j]

\* ioDenylistNormalise: `"` and backtick are deleted from the text BEFORE masking (pipe "I"); kp = kept positions
RECURSIVE Keep(_, _)
Keep(x, i) == IF i > Len(x) THEN <<>> ELSE (IF x[i] \in {"d", "b"} THEN <<>> ELSE <<i>>) \o Keep(x, i+1)

Analysis ==
    LET d    == DuckLex(s)
        kp   == Keep(s, 1)
        hasDB == Len(kp) # Len(s)
        xs   == [j \in 1..Len(kp) |-> s[kp[j]]]
        aI   == ArcNorm(xs, "P")
        drF  == [j \in 1..Len(kp) |-> d.r[kp[j]]]
        inv(p) == CHOOSE j \in 1..Len(kp) : kp[j] = p
        visI == (\E j \in 1..Len(fixedAt) : s[fixedAt[j]] \in {"d", "b"}) \/      \* (lexical templates: not applicable)
                \A j \in 1..Len(fixedAt) : aI.r[inv(fixedAt[j])] = ArcNorm(Bare(Tpl, 1), "P").r[j]
        aP   == ArcNorm(s, "P")
        hasB == \E i \in 1..Len(s) : s[i] = "b"
        aV   == IF hasB THEN ArcNorm(s, "V") ELSE aP
        dv   == DuckView(s, d)
        avP  == ArcView(s, aP)
        avV  == IF hasB THEN ArcView(s, aV) ELSE avP
        bare == Bare(Tpl, 1)
        hasBlk == \E i \in 1..(Len(s)-1) : s[i] = "a" /\ s[i+1] = "s"
        aB   == IF hasBlk THEN ArcNormB(s, "P", ~StripLastByteBug) ELSE aP      \* the other variant of the stripper
        avB  == IF hasBlk THEN ArcView(s, aB) ELSE avP
    IN [t |-> tid, s |-> s, dend |-> d.end, dv |-> dv,
        av |-> avP, lab |-> IF avP = dv THEN "none" ELSE DivClass(s, d.r, aP.r),
        avV |-> avV, labV |-> IF avV = dv THEN "none" ELSE DivClass(s, d.r, aV.r),
        mk |-> Flat(aP, aP.els, 1, <<>>), st |-> Flat(aP, aP.out, 1, <<>>), nm |-> Len(aP.masks),
        rt |-> RoundTrip(s, aP),
        avB |-> avB, labB |-> IF avB = dv THEN "none" ELSE DivClass(s, d.r, aB.r),
        dlive |-> LiveIn(d.r, DuckLex(bare).r) /\ d.end \in {"code", "line"},
        avis  |-> LiveIn(aP.r, ArcNorm(bare, "P").r),
        avisI |-> IF hasDB THEN visI ELSE LiveIn(aP.r, ArcNorm(bare, "P").r),
        \* getTransformedSQLForParallel takes the header-database single-table fast path (no CTE handling)
        \* unless the text contains "with " -- WITH followed by TAB/LF is not seen
        shape |-> IF \E i \in 1..(Len(s)-1) : s[i] = "K:with" /\ s[i+1] \in {"_", "n", "r"}
                  THEN "cte-keyword-not-followed-by-space" ELSE "none",
        labI  |-> IF hasDB /\ ~visI THEN DivClass(xs, drF, aI.r) ELSE "none"]

\* the candidate property: arc's view of the text equals DuckDB's (violated by the model as written --
\* used only with allow_violation to obtain a candidate; verdicts come from the real code)
Agree == Complete => (LET d == DuckLex(s) IN d.end \in {"code", "line"} => ArcView(s, ArcNorm(s, "P")) = DuckView(s, d))

\* no byte outside a comment is dropped by the stripper (violated iff StripLastByteBug -- MC_stripbug.cfg)
NoDrop == \A i \in 1..Len(s) : ArcNorm(s, "P").r[i] # "X"

\* structural invariants of the model itself (must hold)
Sane ==
    LET d == DuckLex(s) a == ArcNorm(s, "P") IN
    /\ Len(d.r) = Len(s) /\ Len(a.r) = Len(s)
    /\ Len(a.masks) <= Len(s)
    \* masking never loses a byte: concatenating code symbols and mask originals gives the input back
    /\ \A e \in 1..Len(a.els) : a.els[e].lo <= a.els[e].hi /\ (e > 1 => a.els[e].lo = a.els[e-1].hi + 1)
    /\ (Len(s) > 0 => a.els[1].lo = 1 /\ a.els[Len(a.els)].hi = Len(s))
    \* without a placeholder look-alike in the input, unmask(mask(s)) = s in the model
    /\ ((\A i \in 1..Len(s) : s[i] \notin {"P", "P1", "J"}) => RoundTrip(s, a))

EmitInv ==
    (Complete /\ EmitMode # "none") =>
        LET an == Analysis IN
        (EmitMode = "all" \/ an.dlive) => PrintT(<<"TRACE", ToJson(an)>>)

-----------------------------------------------------------------------------
(* constant values for the .cfg files (a cfg cannot write a sequence) *)
NoSyms == {}
L == <<"H">>
AlphaAll     == {"q","d","b","k","D","E","m","s","a","n","r","_","w","u",";","P"}
AlphaQuotes  == {"q","d","k","E","w","D","P","_"}
AlphaComment == {"s","a","m","n","r","q","w"}
AlphaNest    == {"s","a","w"}
AlphaNestQ   == {"s","a","w","q"}
AlphaDollar  == {"D","u","w","q"}
AlphaMisc    == {"b","J","d","q","w"}
JobsBug == << [tpl |-> L, alpha |-> AlphaNest, max |-> 5] >>
JobsTiny == << [tpl |-> L, alpha |-> AlphaAll, max |-> 3] >>
AlphaQ5      == {"q","k","E","w","d"}
AlphaBlockQ  == {"s","a","q","w"}
AlphaLineQ   == {"m","n","r","q","w"}
AlphaPh      == {"P","q","w","_"}
InBlock      == <<"s","a","H","a","s">>          \* a block comment around the hole: nesting witnesses that DuckDB can parse
AfterTag9    == <<"D","w","9","D","H">>          \* after a dollar-quote opener whose tag ends in a digit
AfterTagU    == <<"D","U","W","D","H">>          \* after a dollar-quote opener whose tag starts with an underscore
AfterEsc     == <<"E","q","k","q","w","q","H">>  \* after an E-string that contains a backslash-escaped quote
AfterDolQ    == <<"D","D","q","D","D","H">>      \* after a dollar-quoted string holding one quote character
AfterIdent   == <<"d","w","d","H">>              \* after the quoted identifier "z": repeats, case variants
AfterLit     == <<"q","w","q","H">>              \* after the literal 'z'
AfterUTag    == <<"D","u","D","H">>              \* after a dollar-quote opener with a non-ASCII tag
JobsQuick == << [tpl |-> L, alpha |-> AlphaAll,     max |-> 3],
                [tpl |-> L, alpha |-> AlphaQ5,      max |-> 6],
                [tpl |-> L, alpha |-> AlphaBlockQ,  max |-> 6],
                [tpl |-> L, alpha |-> AlphaLineQ,   max |-> 5],
                [tpl |-> InBlock,   alpha |-> AlphaNest,   max |-> 5],
                [tpl |-> AfterUTag, alpha |-> AlphaDollar, max |-> 4],
                [tpl |-> L, alpha |-> AlphaDollar,  max |-> 5],
                [tpl |-> L, alpha |-> AlphaMisc,    max |-> 5],
                [tpl |-> L, alpha |-> AlphaPh,      max |-> 4],
                [tpl |-> L, alpha |-> {"u","E","q","w"}, max |-> 4],
                [tpl |-> AfterTag9, alpha |-> {"D","9","w","q"}, max |-> 4],      \* $z1$ ... : digits in a dollar tag
                [tpl |-> L, alpha |-> {"D","9","U","W","q"}, max |-> 5],
                [tpl |-> AfterTagU, alpha |-> {"D","U","W","m"}, max |-> 6],       \* $_Z$ ... with NO other quote character
                [tpl |-> AfterEsc,  alpha |-> {"m","w","s","a","n"}, max |-> 4],    \* E'\'z' then a real comment
                [tpl |-> AfterDolQ, alpha |-> {"m","w","s","a","n"}, max |-> 4],    \* $$'$$ then a real comment
                [tpl |-> AfterIdent, alpha |-> {"d","w","W","_"}, max |-> 4],    \* "z" then the same / case-different identifier
                [tpl |-> AfterLit,   alpha |-> {"q","w","W","_"}, max |-> 4] >>
JobsThorough == << [tpl |-> L, alpha |-> AlphaAll,     max |-> 4],
                   [tpl |-> L, alpha |-> AlphaQuotes,  max |-> 5],
                   [tpl |-> L, alpha |-> AlphaQ5,      max |-> 7],
                   [tpl |-> L, alpha |-> AlphaComment, max |-> 5],
                   [tpl |-> L, alpha |-> AlphaBlockQ,  max |-> 7],
                   [tpl |-> L, alpha |-> AlphaLineQ,   max |-> 6],
                   [tpl |-> L, alpha |-> AlphaNest,    max |-> 9],
                   [tpl |-> InBlock,   alpha |-> AlphaNestQ,  max |-> 6],
                   [tpl |-> AfterUTag, alpha |-> AlphaDollar \cup {"_"}, max |-> 5],
                   [tpl |-> L, alpha |-> AlphaDollar,  max |-> 7],
                   [tpl |-> L, alpha |-> AlphaMisc \cup {"m","r"}, max |-> 5],
                   [tpl |-> L, alpha |-> AlphaPh \cup {"d", "J"}, max |-> 5],
                   [tpl |-> AfterTag9, alpha |-> {"D","9","w","q","U"}, max |-> 5],
                   [tpl |-> L, alpha |-> {"D","9","U","W","q","w"}, max |-> 6],
                   [tpl |-> AfterTagU, alpha |-> {"D","U","W","m","s","a"}, max |-> 6],
                   [tpl |-> AfterEsc,  alpha |-> {"m","w","s","a","n","q"}, max |-> 5],
                   [tpl |-> AfterDolQ, alpha |-> {"m","w","s","a","n","q"}, max |-> 5],
                   [tpl |-> AfterIdent, alpha |-> {"d","w","W","_","q"}, max |-> 6],
                   [tpl |-> AfterLit,   alpha |-> {"q","w","W","_","d"}, max |-> 6] >>

(* C14: statement templates.  The payload (a file-reading table function, a string in table position, *)
(* a foreign db.table) is fixed; the holes are filled with lexical disguises.                          *)
MacrosC14 == {"K:cjdb", "K:fsec", "K:cjstar", "K:fstar", "K:tagcpu", "K:with", "K:cte", "K:tagwhere", "K:inj", "K:cmt", "K:trim", "K:as", "K:btag", "K:join", "K:fcpu", "K:subq", "K:subend", "K:sel", "K:one", "K:tagrp", "K:close", "K:tagfrom", "K:tagdbt", "K:end", "K:tagcj", "K:b"}
PathsC14  == {"F:foreign"}
TBrp  == <<"K:sel", "H", "K:tagrp", "q", "F:foreign", "q", "K:close">>            \* SELECT <lit> , tag FROM read_parquet( '<file>' )
TArp  == <<"K:sel", "H", "K:one", "K:tagrp", "q", "F:foreign", "q", "K:close">>   \* SELECT <comment> 1 , tag FROM read_parquet( '<file>' )
TBrp2 == TBrp \o <<"H">>
TArp2 == TArp \o <<"H">>
TBsc  == <<"K:sel", "H", "K:tagfrom", "q", "F:foreign", "q", "K:end">>            \* ... FROM '<file>'   (replacement scan)
TAsc  == <<"K:sel", "H", "K:one", "K:tagfrom", "q", "F:foreign", "q", "K:end">>
TBcj  == <<"K:sel", "H", "K:tagcj", "q", "F:foreign", "q", "K:b">>              \* ... FROM allowed.cpu a , '<file>' b   (comma join)
TDsc  == <<"K:sel", "H", "K:tagfrom", "D", "w", "9", "D", "F:foreign", "D", "w", "9", "D", "K:end">>   \* FROM $z1$<file>$z1$
TDsc2 == <<"K:sel", "H", "K:tagfrom", "D", "U", "W", "D", "F:foreign", "D", "U", "W", "D", "K:end">>   \* FROM $_Z$<file>$_Z$
TDrp  == <<"K:sel", "H", "K:tagrp", "D", "w", "9", "D", "F:foreign", "D", "w", "9", "D", "K:close">>   \* read_parquet ( $z1$<file>$z1$ )
\* comma join with the text `trim(` (a FROM-keyword builtin followed by a parenthesis) available to the hole
TAcj  == <<"K:sel", "H", "K:one", "K:tagcj", "q", "F:foreign", "q", "K:b">>       \* SELECT <comment> 1 , b.tag FROM allowed.cpu a , '<file>' b
TQcj  == <<"K:sel", "K:one", "K:as", "H", "K:tagcj", "q", "F:foreign", "q", "K:b">>   \* SELECT 1 AS <quoted alias> , b.tag FROM ...
\* foreign db.measurement in JOIN / scalar-subquery position, the keyword set off by any whitespace class
TJoin == <<"K:sel", "K:btag", "H", "K:join", "H", "K:fcpu">>     \* SELECT b.tag FROM allowed.cpu a<ws>JOIN<ws>foreign.cpu b ON true
TSubq == <<"K:sel", "K:subq", "H", "K:subend">>                  \* SELECT ( SELECT max(tag) FROM<ws>foreign.cpu ) AS t FROM allowed.cpu
WsAll == {"~", "_", "n"}
\* comma join whose LATER element is a plain db.measurement of the foreign database (with / without aliases)
TCj2  == <<"K:sel", "K:cjdb", "H", "K:fsec">>                    \* SELECT s.tag FROM allowed.cpu c ,<ws>foreign.cpu s
TCj3  == <<"K:sel", "K:cjstar", "H", "K:fstar">>                 \* SELECT * FROM allowed.cpu ,<ws>foreign.cpu
\* an unqualified measurement: the driver also posts it as a two-request SEQUENCE (owner of database `default`
\* without header, then the restricted caller with x-arc-database: allowed) on the same handler instance
TPlain == <<"K:sel", "K:tagcpu", "H">>                           \* SELECT tag FROM cpu<ws>
\* a CTE named like a measurement; posted with x-arc-database set to the FOREIGN database
TCte  == <<"K:with", "H", "K:cte">>                              \* WITH<ws>cpu AS ( SELECT 1 AS one ) SELECT tag FROM cpu
\* a literal holding placeholder-shaped text before a second literal that holds a replacement scan
TPh   == <<"K:sel", "q", "H", "q", "K:tagwhere", "q", "K:inj", "D", "D", "F:foreign", "D", "D", "K:cmt", "q">>
TBdb  == <<"K:sel", "H", "K:tagdbt">>                                             \* ... FROM foreign.cpu
TAdb  == <<"K:sel", "H", "K:one", "K:tagdbt">>
LitA  == {"q","k","m","E","d","D","u"}
LitE  == {"q","k","E"}
LitD  == {"D","u","q"}
CmtB  == {"s","a","q","d","b"}
CmtL  == {"m","q","n","r","d"}
JobsC14Quick == << [tpl |-> TBrp,  alpha |-> LitA, max |-> 4],
                   [tpl |-> TBrp,  alpha |-> LitE, max |-> 5],
                   [tpl |-> TBrp,  alpha |-> LitD, max |-> 7],
                   [tpl |-> TArp,  alpha |-> CmtB, max |-> 5],
                   [tpl |-> TArp,  alpha |-> CmtL, max |-> 4],
                   [tpl |-> TBrp2, alpha |-> {"q","k","m"}, max |-> 5],
                   [tpl |-> TBsc,  alpha |-> {"q","k","m","E","d"}, max |-> 4],
                   [tpl |-> TAsc,  alpha |-> {"s","a","q","m","n"}, max |-> 5],
                   [tpl |-> TBcj,  alpha |-> {"q","k","E","d"}, max |-> 3],
                   [tpl |-> TDsc,  alpha |-> {"q","k","9"}, max |-> 3],
                   [tpl |-> TDsc2, alpha |-> {"q","k","9"}, max |-> 3],
                   [tpl |-> TDrp,  alpha |-> {"q","k","9"}, max |-> 3],
                   [tpl |-> TAcj,  alpha |-> {"s","a","K:trim","q"}, max |-> 5],
                   [tpl |-> TQcj,  alpha |-> {"d","K:trim","w"}, max |-> 4],
                   [tpl |-> TCj2,  alpha |-> WsAll, max |-> 2],
                   [tpl |-> TCj3,  alpha |-> WsAll, max |-> 2],
                   [tpl |-> TPlain, alpha |-> WsAll, max |-> 1],
                   [tpl |-> TCte,  alpha |-> WsAll, max |-> 2],
                   [tpl |-> TPh,   alpha |-> {"P", "P1", "w"}, max |-> 2],
                   [tpl |-> TJoin, alpha |-> WsAll, max |-> 3],
                   [tpl |-> TSubq, alpha |-> WsAll, max |-> 2],
                   [tpl |-> TBdb,  alpha |-> {"q","k","m","E","d"}, max |-> 4],
                   [tpl |-> TAdb,  alpha |-> {"s","a","q","m","n"}, max |-> 5] >>
JobsC14Thorough == << [tpl |-> TBrp,  alpha |-> LitA \cup {"b", "P"}, max |-> 4],
                      [tpl |-> TBrp,  alpha |-> LitA, max |-> 5],
                      [tpl |-> TBrp,  alpha |-> LitE, max |-> 7],
                      [tpl |-> TBrp,  alpha |-> LitD \cup {"w"}, max |-> 7],
                      [tpl |-> TArp,  alpha |-> CmtB \cup {"w"}, max |-> 5],
                      [tpl |-> TArp,  alpha |-> CmtL \cup {"w"}, max |-> 5],
                      [tpl |-> TBrp2, alpha |-> {"q","k","m","E"}, max |-> 5],
                      [tpl |-> TArp2, alpha |-> {"s","a","q","m"}, max |-> 5],
                      [tpl |-> TBsc,  alpha |-> LitA, max |-> 5],
                      [tpl |-> TAsc,  alpha |-> CmtB \cup CmtL, max |-> 4],
                      [tpl |-> TBcj,  alpha |-> LitA, max |-> 4],
                      [tpl |-> TDsc,  alpha |-> {"q","k","9","D","w"}, max |-> 4],
                      [tpl |-> TDsc2, alpha |-> {"q","k","9","D","w"}, max |-> 4],
                      [tpl |-> TDrp,  alpha |-> {"q","k","9","D","w"}, max |-> 4],
                      [tpl |-> TAcj,  alpha |-> {"s","a","K:trim","q","d","m"}, max |-> 5],
                      [tpl |-> TQcj,  alpha |-> {"d","K:trim","w","s","a"}, max |-> 5],
                      [tpl |-> TCj2,  alpha |-> WsAll \cup {"r"}, max |-> 3],
                      [tpl |-> TCj3,  alpha |-> WsAll \cup {"r"}, max |-> 3],
                      [tpl |-> TPlain, alpha |-> WsAll \cup {"r"}, max |-> 2],
                      [tpl |-> TCte,  alpha |-> WsAll \cup {"r"}, max |-> 3],
                      [tpl |-> TPh,   alpha |-> {"P", "P1", "w", "_", "J"}, max |-> 3],
                      [tpl |-> TJoin, alpha |-> WsAll \cup {"r"}, max |-> 4],
                      [tpl |-> TSubq, alpha |-> WsAll \cup {"r"}, max |-> 3],
                      [tpl |-> TBdb,  alpha |-> LitA, max |-> 5],
                      [tpl |-> TAdb,  alpha |-> CmtB \cup CmtL, max |-> 4] >>
=============================================================================

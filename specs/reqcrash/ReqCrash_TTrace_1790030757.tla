---- MODULE ReqCrash_TTrace_1790030757 ----
EXTENDS Sequences, TLCExt, Toolbox, ReqCrash, Naturals, TLC

_expression ==
    LET ReqCrash_TEExpression == INSTANCE ReqCrash_TEExpression
    IN ReqCrash_TEExpression!expression
----

_trace ==
    LET ReqCrash_TETrace == INSTANCE ReqCrash_TETrace
    IN ReqCrash_TETrace!trace
----

_inv ==
    ~(
        TLCGet("level") = Len(_TETrace)
        /\
        acc = (<<TRUE, TRUE>>)
        /\
        buf = (<<[ep |-> "mpcol", codec |-> "none", name |-> "plain", typ |-> "str"]>>)
        /\
        panicked = (TRUE)
        /\
        seq = (<<[ep |-> "mpcol", codec |-> "none", name |-> "empty", typ |-> "str"], [ep |-> "mpcol", codec |-> "none", name |-> "plain", typ |-> "str"]>>)
        /\
        flushed = (FALSE)
    )
----

_init ==
    /\ seq = _TETrace[1].seq
    /\ panicked = _TETrace[1].panicked
    /\ buf = _TETrace[1].buf
    /\ acc = _TETrace[1].acc
    /\ flushed = _TETrace[1].flushed
----

_next ==
    /\ \E i,j \in DOMAIN _TETrace:
        /\ \/ /\ j = i + 1
              /\ i = TLCGet("level")
        /\ seq  = _TETrace[i].seq
        /\ seq' = _TETrace[j].seq
        /\ panicked  = _TETrace[i].panicked
        /\ panicked' = _TETrace[j].panicked
        /\ buf  = _TETrace[i].buf
        /\ buf' = _TETrace[j].buf
        /\ acc  = _TETrace[i].acc
        /\ acc' = _TETrace[j].acc
        /\ flushed  = _TETrace[i].flushed
        /\ flushed' = _TETrace[j].flushed

\* Uncomment the ASSUME below to write the states of the error trace
\* to the given file in Json format. Note that you can pass any tuple
\* to `JsonSerialize`. For example, a sub-sequence of _TETrace.
    \* ASSUME
    \*     LET J == INSTANCE Json
    \*         IN J!JsonSerialize("ReqCrash_TTrace_1790030757.json", _TETrace)

=============================================================================

 Note that you can extract this module `ReqCrash_TEExpression`
  to a dedicated file to reuse `expression` (the module in the 
  dedicated `ReqCrash_TEExpression.tla` file takes precedence 
  over the module `ReqCrash_TEExpression` below).

---- MODULE ReqCrash_TEExpression ----
EXTENDS Sequences, TLCExt, Toolbox, ReqCrash, Naturals, TLC

expression == 
    [
        \* To hide variables of the `ReqCrash` spec from the error trace,
        \* remove the variables below.  The trace will be written in the order
        \* of the fields of this record.
        seq |-> seq
        ,panicked |-> panicked
        ,buf |-> buf
        ,acc |-> acc
        ,flushed |-> flushed
        
        \* Put additional constant-, state-, and action-level expressions here:
        \* ,_stateNumber |-> _TEPosition
        \* ,_seqUnchanged |-> seq = seq'
        
        \* Format the `seq` variable as Json value.
        \* ,_seqJson |->
        \*     LET J == INSTANCE Json
        \*     IN J!ToJson(seq)
        
        \* Lastly, you may build expressions over arbitrary sets of states by
        \* leveraging the _TETrace operator.  For example, this is how to
        \* count the number of times a spec variable changed up to the current
        \* state in the trace.
        \* ,_seqModCount |->
        \*     LET F[s \in DOMAIN _TETrace] ==
        \*         IF s = 1 THEN 0
        \*         ELSE IF _TETrace[s].seq # _TETrace[s-1].seq
        \*             THEN 1 + F[s-1] ELSE F[s-1]
        \*     IN F[_TEPosition - 1]
    ]

=============================================================================



Parsing and semantic processing can take forever if the trace below is long.
 In this case, it is advised to uncomment the module below to deserialize the
 trace from a generated binary file.

\*
\*---- MODULE ReqCrash_TETrace ----
\*EXTENDS IOUtils, ReqCrash, TLC
\*
\*trace == IODeserialize("ReqCrash_TTrace_1790030757.bin", TRUE)
\*
\*=============================================================================
\*

---- MODULE ReqCrash_TETrace ----
EXTENDS ReqCrash, TLC

trace == 
    <<
    ([acc |-> <<>>,buf |-> <<>>,panicked |-> FALSE,seq |-> <<>>,flushed |-> FALSE]),
    ([acc |-> <<TRUE>>,buf |-> <<[ep |-> "mpcol", codec |-> "none", name |-> "empty", typ |-> "str"]>>,panicked |-> FALSE,seq |-> <<[ep |-> "mpcol", codec |-> "none", name |-> "empty", typ |-> "str"]>>,flushed |-> FALSE]),
    ([acc |-> <<TRUE, TRUE>>,buf |-> <<[ep |-> "mpcol", codec |-> "none", name |-> "plain", typ |-> "str"]>>,panicked |-> TRUE,seq |-> <<[ep |-> "mpcol", codec |-> "none", name |-> "empty", typ |-> "str"], [ep |-> "mpcol", codec |-> "none", name |-> "plain", typ |-> "str"]>>,flushed |-> FALSE])
    >>
----


=============================================================================

---- CONFIG ReqCrash_TTrace_1790030757 ----
CONSTANTS
    MaxLen = 2
    Alpha = "core"
    Defects = { "underscoreSig" , "emptyName" }
    Emit = FALSE

INVARIANT
    _inv

CHECK_DEADLOCK
    \* CHECK_DEADLOCK off because of PROPERTY or INVARIANT above.
    FALSE

INIT
    _init

NEXT
    _next

CONSTANT
    _TETrace <- _trace

ALIAS
    _expression
=============================================================================
\* Generated on Mon Sep 21 22:46:11 UTC 2026
------------------------------ MODULE ReqCrash ------------------------------
(***************************************************************************)
(* C04 -- no request payload can crash the server.                         *)
(*                                                                         *)
(* Sequence space of write requests to ONE buffer key (database,           *)
(* measurement) followed by a flush, and the buffering mechanism of        *)
(* internal/ingest/arrow_writer.go that decides which batches of different *)
(* requests are merged by one flush:                                       *)
(*                                                                         *)
(*   Send(r, acc)   the handler answers; when it accepts (acc) the typed   *)
(*                  batch joins the shard buffer of the key.  If the       *)
(*                  buffer's schema signature differs from the batch's     *)
(*                  (flushOnSchemaChangeLocked) the old buffer is flushed   *)
(*                  first.  Whether a request is accepted is decided by    *)
(*                  the real handlers; the model explores both outcomes    *)
(*                  and the driver selects the one it observed.            *)
(*   Flush          FlushAll: mergeBatches over the buffer, schema         *)
(*                  inference, Parquet write                               *)
(*                                                                         *)
(* getColumnSignature encodes NAME:TYPE of every column EXCEPT names that  *)
(* are empty or start with '_' ("skip empty and internal columns").  Two   *)
(* batches that differ only in the Go type of such a column therefore      *)
(* share a buffer and mergeBatches type-asserts one against the other      *)
(* (defect "underscoreSig"); getSchema/inferSchema index name[0] of every  *)
(* column name (defect "emptyName").  With Defects = {} the model is the   *)
(* repaired design and NoPanic holds; as built TLC finds the shortest      *)
(* request sequence that reaches the panic -- a candidate the driver must  *)
(* reproduce on the real handlers before anything is reported.             *)
(***************************************************************************)
EXTENDS Naturals, Sequences, FiniteSets, TLC, Json

CONSTANTS MaxLen,     \* requests per sequence
          Alpha,      \* "full" | "core"
          Defects,    \* subset of {"underscoreSig", "emptyName"}
          Emit

\* lp2m: two measurements, the second carries the column under test; lpbadm: six valid measurements plus
\* one whose NAME is invalid ("bad.name") and carries the column under test
Endpoints == {"mpcol", "mprow", "mpbatch", "lp", "lpv1", "lpv2", "lp2m", "lpbadm"}
CoreEps   == {"mpcol", "mprow", "lp"}
Codecs    == {"none", "gzip", "zstd", "badgzip", "badzstd"}
Names     == {"plain", "empty", "underscore", "time", "reserved"}
Types     == {"int", "float", "str", "bool", "nil", "mixed"}

Req(e, c, n, t) == [ep |-> e, codec |-> c, name |-> n, typ |-> t]

\* the codec dimension is orthogonal to the column dimension: it is crossed with one column class
FullAlphabet ==
    {Req(e, "none", n, t) : e \in Endpoints, n \in Names, t \in Types}
    \cup {Req(e, c, "plain", "int") : e \in Endpoints, c \in Codecs}
    \cup {Req(e, c, "underscore", "float") : e \in CoreEps, c \in Codecs \ {"none"}}
CoreAlphabet ==
    {Req(e, "none", n, t) : e \in CoreEps, n \in Names, t \in Types}

Alphabet == IF Alpha = "full" THEN FullAlphabet ELSE CoreAlphabet

VARIABLES seq,       \* requests sent so far
          acc,       \* acc[i]: request i was accepted (2xx)
          buf,       \* accepted batches in the key's shard buffer
          flushed,   \* the final FlushAll ran
          panicked   \* a flush hit one of the two panic sites

vars == <<seq, acc, buf, flushed, panicked>>

LpEps == {"lp", "lpv1", "lpv2", "lp2m", "lpbadm"}
\* the line-protocol parser never produces a field with an empty key: the column does not exist
HasCol(r)  == ~(r.ep \in LpEps /\ r.name = "empty")
Skipped(n) == n \in {"empty", "underscore"}          \* names getColumnSignature ignores
\* Go slice type of the typed column: the line-protocol "nil" class is a sparse int field (int64
\* slice + validity); an all-nil msgpack column is typed as a string column
EffType(r) == IF r.typ = "nil" THEN (IF r.ep \in LpEps THEN "int" ELSE "str") ELSE r.typ
\* the msgpack row format always adds a "host" tag column, so its batches never share a
\* signature (hence a buffer) with the other request shapes
Shape(r) == IF r.ep = "mprow" THEN "row" ELSE "col"
Sig(r) == IF ~HasCol(r) \/ Skipped(r.name) THEN <<Shape(r), "-", "-">> ELSE <<Shape(r), r.name, EffType(r)>>

\* what one flush of the batches bs does
FlushPanics(bs) ==
    \/ /\ "underscoreSig" \in Defects
       /\ \E i, j \in 1..Len(bs) : /\ bs[i].name = bs[j].name /\ Skipped(bs[i].name)
                                   /\ HasCol(bs[i]) /\ HasCol(bs[j])
                                   /\ EffType(bs[i]) # EffType(bs[j])
    \/ /\ "emptyName" \in Defects
       /\ \E i \in 1..Len(bs) : bs[i].name = "empty" /\ HasCol(bs[i])

Init == seq = <<>> /\ acc = <<>> /\ buf = <<>> /\ flushed = FALSE /\ panicked = FALSE

Send(r, a) ==
    /\ ~flushed /\ ~panicked /\ Len(seq) < MaxLen
    /\ seq' = Append(seq, r) /\ acc' = Append(acc, a)
    /\ IF ~a THEN UNCHANGED <<buf, panicked>>
       ELSE IF buf # <<>> /\ Sig(buf[1]) # Sig(r)
              THEN /\ panicked' = FlushPanics(buf)          \* schema change: flush the old buffer first
                   /\ buf' = <<r>>
              ELSE /\ buf' = Append(buf, r) /\ UNCHANGED panicked
    /\ UNCHANGED flushed

Flush ==
    /\ ~flushed /\ ~panicked /\ Len(seq) >= 1
    /\ flushed' = TRUE
    /\ panicked' = (buf # <<>> /\ FlushPanics(buf))
    /\ buf' = <<>>
    /\ UNCHANGED <<seq, acc>>

Done == (flushed \/ panicked) /\ UNCHANGED vars

Next == (\E r \in Alphabet, a \in BOOLEAN : Send(r, a)) \/ Flush \/ Done
Spec == Init /\ [][Next]_vars

NoPanic == ~panicked
TypeOK  == Len(seq) = Len(acc) /\ Len(seq) <= MaxLen /\ Len(buf) <= Len(seq)

EmitInv ==
    (Emit /\ (flushed \/ panicked)) =>
        PrintT(<<"TRACE", ToJson([seq |-> seq, acc |-> acc, panic |-> panicked])>>)
=============================================================================

SPECIFICATION Spec
CONSTANTS
  MaxLen = 2
  Alpha = "core"
  Defects = {"underscoreSig", "emptyName"}
  Emit = FALSE
INVARIANTS TypeOK NoPanic
CHECK_DEADLOCK FALSE

SPECIFICATION Spec
CONSTANTS
  MaxLen = 3
  Alpha = "core"
  Defects = {}
  Emit = FALSE
INVARIANTS TypeOK NoPanic
CHECK_DEADLOCK FALSE

SPECIFICATION Spec
CONSTANTS
  MaxLen = 1
  Alpha = "full"
  Defects = {}
  Emit = TRUE
INVARIANTS TypeOK EmitInv
CHECK_DEADLOCK FALSE

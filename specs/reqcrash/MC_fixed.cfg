SPECIFICATION Spec
CONSTANTS
  MaxLen = 2
  Alpha = "core"
  Defects = {}
  Emit = FALSE
INVARIANTS TypeOK NoPanic
CHECK_DEADLOCK FALSE

SPECIFICATION Spec
CONSTANTS
  MaxLen = 2
  Alpha = "core"
  Defects = {}
  Emit = TRUE
INVARIANTS TypeOK EmitInv
CHECK_DEADLOCK FALSE

SPECIFICATION Spec
CONSTANTS
  NW = 1
  NBatch = 2
  RPB = 2
  NSigs = 2
  NHours = 2
  MaxBuf = 2
  QCap = 2
  NWorkers = 1
  MaxIters = 2
  WalOn = FALSE
  FailKinds = {"error"}
  MaxDown = 0
  MaxRot = 0
  MaxTick = 0
  MaxAged = 0
  Ops = {"flushall", "close"}
  CloseAfterWrites = TRUE
  CloseDrains = TRUE
  Coarse = TRUE
  Emit = TRUE
INVARIANTS EmitInv
CHECK_DEADLOCK FALSE

SPECIFICATION Spec
CONSTANTS
  NW = 1
  NBatch = 4
  RPB = 1
  NSigs = 1
  NHours = 1
  NKeys = 1
  MaxBuf = 1
  QCap = 2
  NWorkers = 1
  MaxIters = 2
  WalOn = TRUE
  FailKinds = {"error"}
  MaxDown = 0
  MaxRot = 0
  MaxTick = 0
  MaxAged = 0
  Ops = {"shutdown"}
  CloseAfterWrites = FALSE
  CloseDrains = TRUE
  Coarse = TRUE
  Emit = TRUE
INVARIANTS EmitInv
CHECK_DEADLOCK FALSE

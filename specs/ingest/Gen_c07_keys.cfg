SPECIFICATION Spec
CONSTANTS
  NW = 1
  NBatch = 2
  RPB = 1
  NSigs = 1
  NHours = 1
  NKeys = 2
  MaxBuf = 3
  QCap = 1
  NWorkers = 1
  MaxIters = 2
  WalOn = FALSE
  FailKinds = {"error"}
  MaxDown = 1
  MaxRot = 0
  MaxTick = 0
  MaxAged = 0
  Ops = {"flushall"}
  CloseAfterWrites = FALSE
  CloseDrains = TRUE
  Coarse = TRUE
  Emit = TRUE
INVARIANTS EmitInv
CHECK_DEADLOCK FALSE

SPECIFICATION Spec
CONSTANTS
  NW = 2
  NBatch = 4
  RPB = 1
  NSigs = 1
  NHours = 1
  NKeys = 2
  MaxBuf = 2
  QCap = 1
  NWorkers = 1
  MaxIters = 2
  WalOn = FALSE
  FailKinds = {"error"}
  MaxDown = 1
  MaxRot = 0
  MaxTick = 0
  MaxAged = 1
  Ops = {"flushall", "shutdown"}
  CloseAfterWrites = FALSE
  CloseDrains = TRUE
  Coarse = FALSE
  Emit = FALSE
VIEW view
INVARIANTS TypeOK Accounted LossExplained DupOnlyByReplay FlushAckHonest
CHECK_DEADLOCK FALSE

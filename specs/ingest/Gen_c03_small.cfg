SPECIFICATION Spec
CONSTANTS
  NW = 2
  NBatch = 4
  RPB = 1
  NSigs = 2
  NHours = 1
  NKeys = 1
  MaxBuf = 2
  QCap = 4
  NWorkers = 1
  MaxIters = 2
  WalOn = FALSE
  FailKinds = {"error"}
  MaxDown = 0
  MaxRot = 0
  MaxTick = 0
  MaxAged = 0
  Ops = {"flushall", "close"}
  CloseAfterWrites = TRUE
  CloseDrains = TRUE
  Coarse = TRUE
  Emit = TRUE
INVARIANTS EmitInv
CHECK_DEADLOCK FALSE

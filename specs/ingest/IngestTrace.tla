----------------------------- MODULE IngestTrace ----------------------------
(***************************************************************************)
(* Validation of recorded executions of the real ArrowBuffer (+ WAL,       *)
(* maintenance tick, shutdown coordinator) against IngestProp.  One line   *)
(* of trace.ndjson per observation; runs are separated by "end" events.    *)
(* Every event must be explained by an IngestProp action (high-water mark).*)
(* A guard of IngestProp that is false at an event is a property violation *)
(* observed in the real code: it is collected in `viol` and printed at the *)
(* run's "end" event as a TRACE line (kind, rows, index of the event).     *)
(***************************************************************************)
EXTENDS Naturals, Sequences, FiniteSets, TLC, Json
VARIABLES submitted, acked, stored, viol, l
INSTANCE IngestProp

Trace == ndJsonDeserialize("trace.ndjson")
E     == Trace[l]
SetOf(s) == {s[i] : i \in 1..Len(s)}

TraceInit == PInit /\ viol = {} /\ l = 1 /\ TLCSet(1, 0)
IsEvent(e) == l <= Len(Trace) /\ Trace[l].ev = e /\ l' = l + 1
V(kind, rows) == [kind |-> kind, rows |-> rows, at |-> l]

TCall  == IsEvent("call") /\ Call(SetOf(E.rows)) /\ UNCHANGED viol
TRet   == IsEvent("ret") /\ Ret(SetOf(E.rows), E.ok) /\ UNCHANGED viol
TStore == /\ IsEvent("store") /\ E.ok
          /\ Store(E.rows)
          /\ viol' = viol
                \cup (IF NotFabricated(E.rows) THEN {} ELSE {V("fabricated", SetOf(E.rows) \ submitted)})
                \cup (IF NotStoredTwice(E.rows) THEN {} ELSE {V("duplicate", Duplicated(E.rows))})
                \cup (IF E.hourok THEN {} ELSE {V("wrong-hour", SetOf(E.rows))})
                \cup (IF E.sorted THEN {} ELSE {V("unsorted", SetOf(E.rows))})
                \cup (IF E.valok THEN {} ELSE {V("value-changed", SetOf(E.rows))})
TStoreFail == IsEvent("store") /\ ~E.ok /\ UNCHANGED <<submitted, acked, stored, viol>>
TQuiesce == /\ IsEvent("quiesce")
            /\ viol' = viol \cup (IF AllAckedStored THEN {} ELSE {V("lost", Missing)})
            /\ UNCHANGED <<submitted, acked, stored>>
TOverwrite == IsEvent("overwrite") /\ Unstore(E.rows) /\ UNCHANGED viol
\* the backend accepted an object that is not a readable Parquet file: none of the rows it was meant to carry is stored
TUnreadable == /\ IsEvent("unreadable")
               /\ viol' = viol \cup {V("stored-object-unreadable", SetOf(E.rows))}
               /\ UNCHANGED <<submitted, acked, stored>>
TFlushRet == /\ IsEvent("flushret")
             /\ viol' = viol \cup (IF FlushAckHonest(E.ok, SetOf(E.rows), E.what = "wal=off") THEN {}
                                   ELSE {V("flush-acknowledged-although-rows-dropped", SetOf(E.rows))})
             /\ UNCHANGED <<submitted, acked, stored>>
TInfo  == IsEvent("info") /\ UNCHANGED <<submitted, acked, stored, viol>>
TEnd   == /\ IsEvent("end")
          /\ submitted' = {} /\ acked' = {} /\ stored' = <<>> /\ viol' = {}
          /\ PrintT(<<"TRACE", ToJson([run |-> E.run, viol |-> viol])>>)

TraceNext == TCall \/ TRet \/ TStore \/ TStoreFail \/ TQuiesce \/ TOverwrite \/ TUnreadable \/ TFlushRet \/ TInfo \/ TEnd
TraceSpec == TraceInit /\ [][TraceNext]_<<submitted, acked, stored, viol, l>>
HW == TLCSet(1, IF l > TLCGet(1) THEN l ELSE TLCGet(1))
TraceAccepted == IF TLCGet(1) = Len(Trace) + 1 THEN TRUE
                 ELSE PrintT(<<"REJECTED_AT", TLCGet(1)>>) /\ FALSE
=============================================================================

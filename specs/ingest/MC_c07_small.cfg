SPECIFICATION Spec
CONSTANTS
  NW = 1
  NBatch = 2
  RPB = 1
  NSigs = 1
  NHours = 1
  NKeys = 1
  MaxBuf = 1
  QCap = 1
  NWorkers = 1
  MaxIters = 2
  WalOn = TRUE
  FailKinds = {"error", "timeout"}
  MaxDown = 1
  MaxRot = 1
  MaxTick = 1
  MaxAged = 0
  Ops = {"flushall", "shutdown", "restart"}
  CloseAfterWrites = FALSE
  CloseDrains = TRUE
  Coarse = FALSE
  Emit = FALSE
VIEW view
INVARIANTS TypeOK Accounted LossExplained DupOnlyByReplay
CHECK_DEADLOCK FALSE

SPECIFICATION Spec
CONSTANTS
  NW = 2
  NBatch = 3
  RPB = 2
  NSigs = 2
  NHours = 2
  NKeys = 1
  MaxBuf = 3
  QCap = 3
  NWorkers = 1
  MaxIters = 2
  WalOn = FALSE
  FailKinds = {"error"}
  MaxDown = 0
  MaxRot = 0
  MaxTick = 0
  MaxAged = 1
  Ops = {"flushall", "close"}
  CloseAfterWrites = TRUE
  CloseDrains = FALSE
  Coarse = FALSE
  Emit = FALSE
VIEW view
INVARIANTS NoLoss
CHECK_DEADLOCK FALSE

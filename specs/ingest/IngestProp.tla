----------------------------- MODULE IngestProp -----------------------------
(***************************************************************************)
(* C03 / C07 -- property-level model: what a client and the storage        *)
(* backend can observe.  A row is identified by its unique id.             *)
(*   Call(rows)   a write carrying these rows was issued                   *)
(*   Ret(rows,ok) the write returned; ok = acknowledged as successful      *)
(*   Store(ids,.) a Parquet object with these rows reached the backend     *)
(*   Quiesce      storage works, explicit flush / shutdown / maintenance / *)
(*                restart have completed: nothing is left to be done       *)
(* The property is the conjunction of the guards: a behaviour of this      *)
(* module in which every guard holds is a behaviour that satisfies C03/C07.*)
(***************************************************************************)
EXTENDS Naturals, Sequences, FiniteSets

VARIABLES submitted,   \* rows of every write issued so far
          acked,       \* rows of writes acknowledged as successful
          stored       \* function row -> number of stored copies (domain grows)

Cnt(r)        == IF r \in DOMAIN stored THEN stored[r] ELSE 0
Occ(ids, r)   == Cardinality({i \in 1..Len(ids) : ids[i] = r})
IdSet(ids)    == {ids[i] : i \in 1..Len(ids)}

PInit == submitted = {} /\ acked = {} /\ stored = <<>>

Call(rows)    == submitted' = submitted \cup rows /\ UNCHANGED <<acked, stored>>
Ret(rows, ok) == acked' = (IF ok THEN acked \cup rows ELSE acked) /\ UNCHANGED <<submitted, stored>>
Store(ids)    == /\ stored' = [r \in (DOMAIN stored) \cup IdSet(ids) |-> Cnt(r) + Occ(ids, r)]
                 /\ UNCHANGED <<submitted, acked>>

\* an object written under the key of an existing object replaces it: its rows are gone
Unstore(ids)  == /\ stored' = [r \in DOMAIN stored |-> IF Occ(ids, r) > Cnt(r) THEN 0 ELSE Cnt(r) - Occ(ids, r)]
                 /\ UNCHANGED <<submitted, acked>>

\* guards = the property
NotFabricated(ids) == IdSet(ids) \subseteq submitted
NotStoredTwice(ids) == \A r \in IdSet(ids) : Cnt(r) + Occ(ids, r) <= 1
Duplicated(ids)    == {r \in IdSet(ids) : Cnt(r) + Occ(ids, r) > 1}
\* an explicit flush is acknowledged as successful only if no storage write it issued failed (WAL disabled:
\* the dropped rows have no other copy)
FlushAckHonest(ok, failedRows, walOff) == ~(walOff /\ ok /\ failedRows # {})
Missing            == {r \in acked : Cnt(r) = 0}
AllAckedStored     == Missing = {}
=============================================================================

------------------------------- MODULE Ingest -------------------------------
(***************************************************************************)
(* C03 / C07 -- implementation-shaped model of internal/ingest.ArrowBuffer *)
(* (one buffer key, one shard) with, for C07, the WAL directory, the       *)
(* periodic WAL maintenance tick and the shutdown coordinator of           *)
(* cmd/arc/main.go.                                                        *)
(*                                                                         *)
(* One action per critical section / decision point as the code is written:*)
(*  WStart   WAL append (before buffering; rotation right after the entry) *)
(*  WLock    shard.mu critical section of writeColumnarInternal:           *)
(*           flushOnSchemaChangeLocked (extract + *unlock* -> I/O -> lock  *)
(*           again, <= MaxIters, then ErrSchemaChurnExceeded), append,     *)
(*           size-triggered extract                                        *)
(*  WEnq     tryEnqueueFlush: closing.Load()                               *)
(*  WSel     tryEnqueueFlush: select { send | <-ctx.Done() | default } --  *)
(*           every non-queued arm DISCARDS the extracted rows and the      *)
(*           write still returns nil                                       *)
(*  WkTake / WkExit   flushWorker select { <-ctx.Done() | task } (random   *)
(*           choice when both are ready: queued tasks can be abandoned)    *)
(*  IO       one storage.Write (one per hour of the flushed rows); on      *)
(*           failure the remaining rows are dropped from memory and        *)
(*           hasFlushFailure is set                                        *)
(*  FA*      FlushAll;  Ag*  flushAgedBuffers;  C*  Close (closing=true,   *)
(*           cancel, wg.Wait, flush what is still queued, flush the shards) *)
(*  Tick*    maintenance: flag ? PurgeOlderThan(safeAge) ; replay every    *)
(*           rotated file older than MinFileAge (file deleted after its    *)
(*           entries were re-BUFFERED, without WAL) ; reset flag           *)
(*                        : PurgeOlderThan(safeAge)                        *)
(*  Sh*      shutdown.Coordinator: ALL hooks (stop ticks; wal-purge =      *)
(*           PurgeAll) and only then the components (ArrowBuffer.Close,    *)
(*           wal.Close)                                                    *)
(*  Restart  new process: startup recovery replays every remaining file    *)
(*                                                                         *)
(* A row instance is <<row, gen>>: gen 0 is the client's write, gen g > 0  *)
(* the g-th replay of its WAL entry.                                       *)
(***************************************************************************)
EXTENDS Naturals, Sequences, FiniteSets, TLC, Json

CONSTANTS NW,           \* number of writers ("w1".."w3")
          NBatch,       \* batch b is written by Writers[((b-1) % NW)+1]
          RPB,          \* rows per batch
          NSigs,        \* schema signatures (chosen per batch in Init)
          NHours,       \* row j of a batch lies in hour ((j-1) % NHours)+1
          NKeys,        \* buffer keys (database/measurement) in the ONE shard; batch b goes to key (((b-1) \div NW) % NKeys)+1
          MaxBuf, QCap, NWorkers, MaxIters,
          WalOn,
          FailKinds,    \* how a storage write fails while storage is down: subset of {"error", "timeout"}
                        \* (immediate error / the per-flush context deadline expires in a hung write);
                        \* both raise hasFlushFailure in the code as written -- the kind is part of the schedule
          MaxDown,      \* storage outages
          MaxRot,       \* WAL entries that trigger a rotation
          MaxTick, MaxAged,
          Ops,          \* subset of {"flushall","close","shutdown","restart"}
          CloseAfterWrites, \* Close/Shutdown only after every write returned (C03's quantifier)
          CloseDrains,  \* TRUE = the code since d59f85d: Close flushes what is still queued after wg.Wait();
                        \* FALSE = the code before it (negative control NEG_c03_aswritten.cfg: TLC must reject NoLoss)
          Coarse,       \* generation mode: internal steps run to quiescence between commands
          Emit

Writers    == SubSeq(<<"w1", "w2", "w3">>, 1, NW)
BatchIds   == 1..NBatch
Rows       == 1..(NBatch * RPB)
RowsOf(b)  == {(b-1)*RPB + j : j \in 1..RPB}
BatchOf(r) == ((r-1) \div RPB) + 1
HourOf(r)  == (((r-1) % RPB) % NHours) + 1
Keys       == 1..NKeys
KeyOf(b)   == (((b-1) \div NW) % NKeys) + 1
WNames     == {Writers[i] : i \in 1..Len(Writers)}
Owner(b)   == Writers[((b-1) % Len(Writers)) + 1]
WP         == WNames \cup {"tick"}
Workers    == {"k1", "k2", "k3"}
WK         == IF NWorkers = 1 THEN {"k1"} ELSE IF NWorkers = 2 THEN {"k1","k2"} ELSE Workers
IOP        == WP \cup WK \cup {"fa", "aged", "close"}
MaxGen     == MaxTick + 1
Inst       == Rows \X (0..MaxGen)
Tags       == {"qfull", "closing", "cxl", "ffail"}

VARIABLES started, sig, rotAfter,
          wpc, wb, wit, wext,          \* write machines (writers and the replaying tick)
          io,                          \* [IOP -> SUBSET Inst] rows of the flush a process is writing
          cur,                         \* [IOP -> SUBSET Inst] the (one-hour) object being written right now
          buf, bsig,                   \* per key: buffered row instances, schema signature (0 = no buffer)
          fa,                          \* FlushAll: [keys: snapshot still to flush, err: lastErr # nil, ret: "none"|"ok"|"err"]
          agkeys,                      \* flushAgedBuffers: keys still to visit
          queue, wkst,
          ack, stored,
          closing, cancelled, fapc, agpc, nag, clpc,
          up, ndown, flag, walA, walR, nrot,
          tpc, tq, ntick, tstop, rgen,
          shpc, restarted,
          fate, hist

vars == <<started, sig, rotAfter, wpc, wb, wit, wext, io, cur, buf, bsig, fa, agkeys, queue, wkst, ack, stored,
          closing, cancelled, fapc, agpc, nag, clpc, up, ndown, flag, walA, walR, nrot,
          tpc, tq, ntick, tstop, rgen, shpc, restarted, fate, hist>>

view == <<started, sig, rotAfter, wpc, wb, wit, wext, io, cur, buf, bsig, fa, agkeys, queue, wkst, ack, stored,
          closing, cancelled, fapc, agpc, nag, clpc, up, ndown, flag, walA, walR, nrot,
          tpc, tq, ntick, tstop, rgen, shpc, restarted>>

-----------------------------------------------------------------------------
Init ==
    /\ started = {} /\ sig \in {f \in [BatchIds -> 1..NSigs] : f[1] = 1}   \* signature names are symmetric
    /\ rotAfter \in {S \in SUBSET BatchIds : Cardinality(S) <= MaxRot /\ (~WalOn => S = {})}
    /\ wpc = [p \in WP |-> "idle"] /\ wb = [p \in WP |-> 0] /\ wit = [p \in WP |-> 0]
    /\ wext = [p \in WP |-> {}]
    /\ io = [p \in IOP |-> {}] /\ cur = [p \in IOP |-> {}]
    /\ buf = [k \in Keys |-> {}] /\ bsig = [k \in Keys |-> 0]
    /\ fa = [keys |-> {}, err |-> FALSE, ret |-> "none"] /\ agkeys = {}
    /\ queue = <<>> /\ wkst = [k \in WK |-> "run"]
    /\ ack = [b \in BatchIds |-> "none"] /\ stored = [r \in Rows |-> 0]
    /\ closing = FALSE /\ cancelled = FALSE /\ fapc = "idle" /\ agpc = "idle" /\ nag = 0 /\ clpc = "idle"
    /\ up = TRUE /\ ndown = 0 /\ flag = FALSE /\ walA = {} /\ walR = {} /\ nrot = 0
    /\ tpc = "idle" /\ tq = <<>> /\ ntick = 0 /\ tstop = FALSE /\ rgen = [b \in BatchIds |-> 0]
    /\ shpc = "idle" /\ restarted = FALSE
    /\ fate = [r \in Rows |-> {}] /\ hist = <<>>

AllBuf      == UNION {buf[k] : k \in Keys}
RowsIn(S)   == {i[1] : i \in S}
Discard(S, tag) == fate' = [r \in Rows |-> IF r \in RowsIn(S) THEN fate[r] \cup {tag} ELSE fate[r]]
Busy        == {w \in WNames : wpc[w] # "idle"}
               \cup (IF fapc = "io" THEN {"fa"} ELSE {})
               \cup (IF tpc # "idle" \/ wpc["tick"] # "idle" THEN {"tick"} ELSE {})
               \cup (IF clpc \notin {"idle", "done"} \/ shpc \notin {"idle", "done"} THEN {"close"} ELSE {})
Cmd(c)      == hist' = IF Emit THEN Append(hist, c @@ [busy |-> Busy]) ELSE hist
\* what the driver can see before it issues the next command: the storage writes being held
Pending     == {RowsIn(cur[p]) : p \in {q \in IOP : cur[q] # {}}}
\* ... and which of its own asynchronous calls have not returned yet

\* Coarse (generation) mode: the steps the driver cannot schedule (everything but WStart, IOStep,
\* storage up/down, FlushAll, aged flush, Close, file ageing, tick, shutdown, restart) run to
\* quiescence before the next command is issued.  InternalEnabled is ENABLED of those steps.
InternalEnabled ==
    \/ \E p \in IOP : io[p] # {} /\ cur[p] = {}
    \/ \E p \in WP : wpc[p] \in {"lock", "enq", "sel"} \/ (wpc[p] = "io" /\ io[p] = {})
    \/ \E k \in WK : wkst[k] = "run" /\ io[k] = {} /\ (queue # <<>> \/ cancelled)
    \/ (fapc = "io" /\ io["fa"] = {}) \/ (agpc = "io" /\ io["aged"] = {})
    \/ clpc = "flag"
    \/ (clpc \in {"wait", "io"} /\ io["close"] = {} /\ (\A k \in WK : wkst[k] = "exit") /\ agpc = "idle")
    \/ (tpc = "replay" /\ wpc["tick"] = "idle")
    \/ shpc = "hooks" \/ (shpc = "close" /\ clpc = "done")
CmdOK == ~Coarse \/ ~InternalEnabled

-----------------------------------------------------------------------------
\* ---- write path (client writers, and the tick replaying WAL entries with skipWAL)
NextBatch(w) == LET c == {b \in BatchIds \ started : Owner(b) = w} IN
                IF c = {} THEN 0 ELSE CHOOSE b \in c : \A d \in c : b <= d

WStart(w) ==
    /\ CmdOK
    /\ wpc[w] = "idle" /\ NextBatch(w) # 0
    /\ clpc = "idle" /\ shpc = "idle" /\ ~restarted
    /\ LET b == NextBatch(w) IN
       /\ started' = started \cup {b}
       /\ wb' = [wb EXCEPT ![w] = b] /\ wit' = [wit EXCEPT ![w] = 0]
       /\ wpc' = [wpc EXCEPT ![w] = "lock"]
       /\ IF WalOn
            THEN IF b \in rotAfter
                   THEN /\ walR' = walR \cup {[id |-> nrot + 1, bs |-> walA \cup {b}, age |-> "young"]}
                        /\ walA' = {} /\ nrot' = nrot + 1
                   ELSE /\ walA' = walA \cup {b} /\ UNCHANGED <<walR, nrot>>
            ELSE UNCHANGED <<walA, walR, nrot>>
       /\ Cmd([c |-> "write", w |-> w, b |-> b, sig |-> sig[b], rot |-> b \in rotAfter, pend |-> Pending])
    /\ UNCHANGED <<fa, agkeys, cur, sig, rotAfter, wext, io, buf, bsig, queue, wkst, ack, stored, closing, cancelled, fapc,
                   agpc, nag, clpc, up, ndown, flag, tpc, tq, ntick, tstop, rgen, shpc, restarted, fate>>

Finish(p, res) ==
    /\ wpc' = [wpc EXCEPT ![p] = "idle"] /\ wb' = [wb EXCEPT ![p] = 0]
    /\ ack' = IF p = "tick" THEN ack ELSE [ack EXCEPT ![wb[p]] = res]

InstOf(p) == {<<r, IF p = "tick" THEN rgen[wb[p]] ELSE 0>> : r \in RowsOf(wb[p])}

WLock(p) ==
    /\ wpc[p] = "lock" \/ (wpc[p] = "io" /\ io[p] = {})
    /\ LET b == wb[p] s == sig[b] k == KeyOf(b) IN
       IF wit[p] >= MaxIters /\ bsig[k] \notin {0, s} /\ p # "tick"
         THEN /\ Finish(p, "err") /\ UNCHANGED <<wit, wext, io, buf, bsig>>   \* ErrSchemaChurnExceeded: not accepted
       ELSE IF bsig[k] \notin {0, s}
         THEN /\ io' = [io EXCEPT ![p] = buf[k]] /\ buf' = [buf EXCEPT ![k] = {}] /\ bsig' = [bsig EXCEPT ![k] = 0]   \* flushBufferLocked: extract, unlock, I/O
              /\ wit' = [wit EXCEPT ![p] = IF p = "tick" THEN 0 ELSE @ + 1]
              /\ wpc' = [wpc EXCEPT ![p] = "io"] /\ UNCHANGED <<wb, ack, wext>>
       ELSE LET nb == buf[k] \cup InstOf(p) IN
            IF Cardinality(nb) >= MaxBuf
              THEN /\ wext' = [wext EXCEPT ![p] = nb] /\ buf' = [buf EXCEPT ![k] = {}] /\ bsig' = [bsig EXCEPT ![k] = 0]
                   /\ wpc' = [wpc EXCEPT ![p] = "enq"] /\ UNCHANGED <<wb, ack, wit, io>>
              ELSE /\ buf' = [buf EXCEPT ![k] = nb] /\ bsig' = [bsig EXCEPT ![k] = s] /\ Finish(p, "ok") /\ UNCHANGED <<wit, wext, io>>
    /\ UNCHANGED <<fa, agkeys, cur, started, sig, rotAfter, queue, wkst, stored, closing, cancelled, fapc, agpc, nag, clpc,
                   up, ndown, flag, walA, walR, nrot, tpc, tq, ntick, tstop, rgen, shpc, restarted, fate, hist>>

WEnq(p) ==
    /\ wpc[p] = "enq"
    /\ IF closing
         THEN /\ Discard(wext[p], "closing") /\ wext' = [wext EXCEPT ![p] = {}] /\ Finish(p, "ok")
         ELSE /\ wpc' = [wpc EXCEPT ![p] = "sel"] /\ UNCHANGED <<wext, wb, ack, fate>>
    /\ UNCHANGED <<fa, agkeys, cur, started, sig, rotAfter, wit, io, buf, bsig, queue, wkst, stored, closing, cancelled, fapc,
                   agpc, nag, clpc, up, ndown, flag, walA, walR, nrot, tpc, tq, ntick, tstop, rgen, shpc,
                   restarted, hist>>

WSel(p) ==
    /\ wpc[p] = "sel"
    /\ \/ /\ Len(queue) < QCap /\ queue' = Append(queue, wext[p]) /\ UNCHANGED fate
       \/ /\ cancelled /\ Discard(wext[p], "cxl") /\ UNCHANGED queue
       \/ /\ Len(queue) >= QCap /\ ~cancelled /\ Discard(wext[p], "qfull") /\ UNCHANGED queue
    /\ wext' = [wext EXCEPT ![p] = {}] /\ Finish(p, "ok")
    /\ UNCHANGED <<fa, agkeys, cur, started, sig, rotAfter, wit, io, buf, bsig, wkst, stored, closing, cancelled, fapc, agpc, nag,
                   clpc, up, ndown, flag, walA, walR, nrot, tpc, tq, ntick, tstop, rgen, shpc, restarted, hist>>

\* ---- flush workers
WkTake(k) ==
    /\ wkst[k] = "run" /\ io[k] = {} /\ queue # <<>>
    /\ io' = [io EXCEPT ![k] = Head(queue)] /\ queue' = Tail(queue)
    /\ UNCHANGED <<fa, agkeys, cur, started, sig, rotAfter, wpc, wb, wit, wext, buf, bsig, wkst, ack, stored, closing, cancelled,
                   fapc, agpc, nag, clpc, up, ndown, flag, walA, walR, nrot, tpc, tq, ntick, tstop, rgen, shpc,
                   restarted, fate, hist>>

WkExit(k) ==
    /\ wkst[k] = "run" /\ io[k] = {} /\ cancelled
    /\ wkst' = [wkst EXCEPT ![k] = "exit"]
    /\ UNCHANGED <<fa, agkeys, cur, started, sig, rotAfter, wpc, wb, wit, wext, io, buf, bsig, queue, ack, stored, closing,
                   cancelled, fapc, agpc, nag, clpc, up, ndown, flag, walA, walR, nrot, tpc, tq, ntick, tstop,
                   rgen, shpc, restarted, fate, hist>>

\* ---- one storage.Write of process p (one object per hour, in map-iteration order)
IOPick(p) ==
    /\ io[p] # {} /\ cur[p] = {}
    /\ \E h \in {HourOf(i[1]) : i \in io[p]} : cur' = [cur EXCEPT ![p] = {i \in io[p] : HourOf(i[1]) = h}]
    /\ UNCHANGED <<fa, agkeys, started, sig, rotAfter, wpc, wb, wit, wext, io, buf, bsig, queue, wkst, ack, stored, closing,
                   cancelled, fapc, agpc, nag, clpc, up, ndown, flag, walA, walR, nrot, tpc, tq, ntick, tstop, rgen,
                   shpc, restarted, fate, hist>>
IOStep(p) ==
    /\ CmdOK
    /\ cur[p] # {}
    /\ IF up THEN /\ stored' = [r \in Rows |-> stored[r] + Cardinality({i \in cur[p] : i[1] = r})]
                  /\ io' = [io EXCEPT ![p] = @ \ cur[p]] /\ UNCHANGED <<flag, fate>>
                  /\ Cmd([c |-> "io", p |-> p, rows |-> RowsIn(cur[p]), ok |-> TRUE, kind |-> "ok", pend |-> Pending])
             ELSE /\ io' = [io EXCEPT ![p] = {}] /\ flag' = TRUE   \* markFlushFailure
                  /\ Discard(io[p], IF p = "fa" THEN "ffail_fa" ELSE "ffail")
                  /\ UNCHANGED stored
                  /\ \E k \in (IF p \in WK THEN FailKinds ELSE {"error"}) :   \* only worker flushes carry the flush timeout
                        Cmd([c |-> "io", p |-> p, rows |-> RowsIn(cur[p]), ok |-> FALSE, kind |-> k, pend |-> Pending])
    /\ cur' = [cur EXCEPT ![p] = {}]
    /\ fa' = IF p = "fa" /\ ~up THEN [fa EXCEPT !.err = TRUE] ELSE fa                  \* lastErr = err
    /\ UNCHANGED <<agkeys, started, sig, rotAfter, wpc, wb, wit, wext, buf, bsig, queue, wkst, ack, closing, cancelled,
                   fapc, agpc, nag, clpc, up, ndown, walA, walR, nrot, tpc, tq, ntick, tstop, rgen, shpc, restarted>>

StorageDown == /\ CmdOK /\ up /\ ndown < MaxDown /\ up' = FALSE /\ ndown' = ndown + 1
               /\ Cmd([c |-> "down", pend |-> Pending])
               /\ UNCHANGED <<fa, agkeys, cur, started, sig, rotAfter, wpc, wb, wit, wext, io, buf, bsig, queue, wkst, ack, stored,
                              closing, cancelled, fapc, agpc, nag, clpc, flag, walA, walR, nrot, tpc, tq, ntick,
                              tstop, rgen, shpc, restarted, fate>>
StorageUp   == /\ CmdOK /\ ~up /\ up' = TRUE
               /\ Cmd([c |-> "up", pend |-> Pending])
               /\ UNCHANGED <<fa, agkeys, cur, started, sig, rotAfter, wpc, wb, wit, wext, io, buf, bsig, queue, wkst, ack, stored,
                              closing, cancelled, fapc, agpc, nag, clpc, ndown, flag, walA, walR, nrot, tpc, tq,
                              ntick, tstop, rgen, shpc, restarted, fate>>

\* ---- FlushAll / flushAgedBuffers: extract under the lock, unlock, I/O, lock again
FAStart ==          \* shard.mu.Lock(); snapshot of the keys in shard.buffers
    /\ CmdOK
    /\ "flushall" \in Ops /\ fapc = "idle" /\ clpc = "idle" /\ shpc \in {"idle", "done"}
    /\ shpc = "done" => (restarted /\ tpc = "idle")
    /\ fa' = [keys |-> {k \in Keys : buf[k] # {}}, err |-> FALSE, ret |-> "none"] /\ fapc' = "io"
    /\ Cmd([c |-> "flushall", pend |-> Pending])
    /\ UNCHANGED <<agkeys, cur, started, sig, rotAfter, wpc, wb, wit, wext, io, buf, bsig, queue, wkst, ack, stored, closing,
                   cancelled, agpc, nag, clpc, up, ndown, flag, walA, walR, nrot, tpc, tq, ntick, tstop, rgen, shpc,
                   restarted, fate>>
FANext ==           \* still under the lock: next key of the snapshot (map order) -> flushBufferLocked; or return lastErr
    /\ fapc = "io" /\ io["fa"] = {}
    /\ IF fa.keys = {}
         THEN /\ fapc' = "done" /\ fa' = [fa EXCEPT !.ret = IF fa.err THEN "err" ELSE "ok"]
              /\ UNCHANGED <<io, buf, bsig>>
         ELSE \E k \in fa.keys :
              /\ fa' = [fa EXCEPT !.keys = @ \ {k}]
              /\ io' = [io EXCEPT !["fa"] = buf[k]] /\ buf' = [buf EXCEPT ![k] = {}] /\ bsig' = [bsig EXCEPT ![k] = 0]
              /\ UNCHANGED fapc
    /\ UNCHANGED <<agkeys, cur, started, sig, rotAfter, wpc, wb, wit, wext, queue, wkst, ack, stored, closing,
                   cancelled, agpc, nag, clpc, up, ndown, flag, walA, walR, nrot, tpc, tq, ntick, tstop, rgen,
                   shpc, restarted, fate, hist>>
AgStart ==
    /\ CmdOK
    /\ nag < MaxAged /\ agpc = "idle" /\ ~cancelled /\ \E k \in Keys : buf[k] # {}
    /\ agkeys' = {k \in Keys : buf[k] # {}} /\ agpc' = "io" /\ nag' = nag + 1
    /\ Cmd([c |-> "aged", pend |-> Pending])
    /\ UNCHANGED <<fa, cur, started, sig, rotAfter, wpc, wb, wit, wext, io, buf, bsig, queue, wkst, ack, stored, closing, cancelled, fapc,
                   clpc, up, ndown, flag, walA, walR, nrot, tpc, tq, ntick, tstop, rgen, shpc, restarted, fate>>
AgNext ==
    /\ agpc = "io" /\ io["aged"] = {}
    /\ IF agkeys = {}
         THEN /\ agpc' = "idle" /\ UNCHANGED <<agkeys, io, buf, bsig>>
         ELSE \E k \in agkeys :
              /\ agkeys' = agkeys \ {k}
              /\ io' = [io EXCEPT !["aged"] = buf[k]] /\ buf' = [buf EXCEPT ![k] = {}] /\ bsig' = [bsig EXCEPT ![k] = 0]
              /\ UNCHANGED agpc
    /\ UNCHANGED <<fa, cur, started, sig, rotAfter, wpc, wb, wit, wext, queue, wkst, ack, stored, closing,
                   cancelled, fapc, nag, clpc, up, ndown, flag, walA, walR, nrot, tpc, tq, ntick, tstop, rgen,
                   shpc, restarted, fate, hist>>

\* ---- Close
WritersQuiet == \A w \in WNames : wpc[w] = "idle"
AllWritten   == WritersQuiet /\ started = BatchIds
CStartBody ==
    /\ clpc = "idle" /\ clpc' = "flag" /\ closing' = TRUE
CStart ==
    /\ CmdOK
    /\ "close" \in Ops /\ shpc = "idle" /\ fapc # "io"
    /\ CloseAfterWrites => AllWritten
    /\ CStartBody
    /\ Cmd([c |-> "close", pend |-> Pending])
    /\ UNCHANGED <<fa, agkeys, cur, started, sig, rotAfter, wpc, wb, wit, wext, io, buf, bsig, queue, wkst, ack, stored, cancelled,
                   fapc, agpc, nag, up, ndown, flag, walA, walR, nrot, tpc, tq, ntick, tstop, rgen, shpc,
                   restarted, fate>>
CCancel ==
    /\ clpc = "flag" /\ cancelled' = TRUE /\ clpc' = "wait"
    /\ UNCHANGED <<fa, agkeys, cur, started, sig, rotAfter, wpc, wb, wit, wext, io, buf, bsig, queue, wkst, ack, stored, closing,
                   fapc, agpc, nag, up, ndown, flag, walA, walR, nrot, tpc, tq, ntick, tstop, rgen, shpc,
                   restarted, fate, hist>>
CFlush ==   \* after wg.Wait(): flush what is in the shard (and, if repaired, what is still queued)
    /\ clpc \in {"wait", "io"} /\ io["close"] = {}
    /\ \A k \in WK : wkst[k] = "exit"
    /\ agpc = "idle"
    /\ IF CloseDrains /\ queue # <<>>
         THEN /\ io' = [io EXCEPT !["close"] = Head(queue)] /\ queue' = Tail(queue) /\ clpc' = "io"
              /\ UNCHANGED <<buf, bsig>>
       ELSE IF \E k \in Keys : buf[k] # {}
         THEN /\ \E k \in {x \in Keys : buf[x] # {}} :
                    io' = [io EXCEPT !["close"] = buf[k]] /\ buf' = [buf EXCEPT ![k] = {}] /\ bsig' = [bsig EXCEPT ![k] = 0]
              /\ clpc' = "io" /\ UNCHANGED queue
         ELSE /\ clpc' = "done" /\ UNCHANGED <<io, buf, bsig, queue>>
    /\ UNCHANGED <<fa, agkeys, cur, started, sig, rotAfter, wpc, wb, wit, wext, wkst, ack, stored, closing, cancelled, fapc, agpc,
                   nag, up, ndown, flag, walA, walR, nrot, tpc, tq, ntick, tstop, rgen, shpc, restarted, fate, hist>>

\* ---- WAL file ages (controlled by the environment: time passes)
AgeFile ==
    /\ CmdOK
    /\ \E f \in walR : /\ f.age # "old"
                       /\ walR' = (walR \ {f}) \cup {[f EXCEPT !.age = IF f.age = "young" THEN "mid" ELSE "old"]}
                       /\ Cmd([c |-> "age", file |-> f.id, to |-> IF f.age = "young" THEN "mid" ELSE "old", pend |-> Pending])
    /\ UNCHANGED <<fa, agkeys, cur, started, sig, rotAfter, wpc, wb, wit, wext, io, buf, bsig, queue, wkst, ack, stored, closing,
                   cancelled, fapc, agpc, nag, clpc, up, ndown, flag, walA, nrot, tpc, tq, ntick, tstop, rgen, shpc,
                   restarted, fate>>

\* ---- periodic WAL maintenance (the ticker case of the goroutine in main.go)
FileSeq(S) == LET RECURSIVE mk(_)
                  mk(T) == IF T = {} THEN <<>>
                           ELSE LET f == CHOOSE x \in T : \A y \in T : x.id <= y.id IN
                                <<[id |-> f.id, todo |-> f.bs]>> \o mk(T \ {f})
              IN mk(S)
TickStart ==
    /\ CmdOK
    /\ WalOn /\ tpc = "idle" /\ ntick < MaxTick /\ ~tstop /\ ~restarted
    /\ ntick' = ntick + 1
    /\ LET keep == {f \in walR : f.age # "old"} IN       \* PurgeOlderThan(safeAge) comes first in both branches
       /\ walR' = keep
       /\ IF flag THEN /\ tq' = FileSeq({f \in keep : f.age = "mid"}) /\ tpc' = "replay"
                  ELSE /\ UNCHANGED <<tq, tpc>>
    /\ Cmd([c |-> "tick", flag |-> flag, pend |-> Pending])
    /\ UNCHANGED <<fa, agkeys, cur, started, sig, rotAfter, wpc, wb, wit, wext, io, buf, bsig, queue, wkst, ack, stored, closing,
                   cancelled, fapc, agpc, nag, clpc, up, ndown, flag, walA, nrot, tstop, rgen, shpc, restarted, fate>>
TickNext ==
    /\ tpc = "replay" /\ wpc["tick"] = "idle"
    /\ IF tq = <<>>
         THEN /\ tpc' = "idle" /\ flag' = IF restarted THEN flag ELSE FALSE    \* ResetFlushFailure
              /\ UNCHANGED <<tq, walR, wpc, wb, rgen>>
       ELSE IF Head(tq).todo = {}
         THEN /\ walR' = {f \in walR : f.id # Head(tq).id} /\ tq' = Tail(tq)   \* file deleted after its entries were re-buffered
              /\ UNCHANGED <<tpc, flag, wpc, wb, rgen>>
         ELSE LET b == CHOOSE x \in Head(tq).todo : \A y \in Head(tq).todo : x <= y IN
              /\ tq' = [tq EXCEPT ![1].todo = @ \ {b}]
              /\ rgen' = [rgen EXCEPT ![b] = @ + 1]
              /\ wb' = [wb EXCEPT !["tick"] = b] /\ wpc' = [wpc EXCEPT !["tick"] = "lock"]
              /\ UNCHANGED <<tpc, flag, walR>>
    /\ UNCHANGED <<fa, agkeys, cur, started, sig, rotAfter, wit, wext, io, buf, bsig, queue, wkst, ack, stored, closing, cancelled,
                   fapc, agpc, nag, clpc, up, ndown, walA, nrot, ntick, tstop, shpc, restarted, fate, hist>>

\* ---- graceful shutdown: every hook first, then every component
ShStart ==
    /\ CmdOK
    /\ "shutdown" \in Ops /\ shpc = "idle" /\ clpc = "idle" /\ WritersQuiet /\ fapc # "io"
    /\ CloseAfterWrites => AllWritten
    /\ shpc' = "hooks" /\ tstop' = TRUE                          \* wal-periodic-maintenance hook (30)
    /\ Cmd([c |-> "shutdown", pend |-> Pending])
    /\ UNCHANGED <<fa, agkeys, cur, started, sig, rotAfter, wpc, wb, wit, wext, io, buf, bsig, queue, wkst, ack, stored, closing,
                   cancelled, fapc, agpc, nag, clpc, up, ndown, flag, walA, walR, nrot, tpc, tq, ntick, rgen,
                   restarted, fate>>
ShPurge ==                                                       \* wal-purge hook (35): PurgeAll, before any flush
    /\ shpc = "hooks" /\ shpc' = "close"
    /\ IF WalOn THEN walA' = {} /\ walR' = {} ELSE UNCHANGED <<walA, walR>>
    /\ CStartBody                                                \* component arrow-buffer (30)
    /\ UNCHANGED <<fa, agkeys, cur, started, sig, rotAfter, wpc, wb, wit, wext, io, buf, bsig, queue, wkst, ack, stored, cancelled,
                   fapc, agpc, nag, up, ndown, flag, nrot, tpc, tq, ntick, tstop, rgen, restarted, fate, hist>>
ShDone ==                                                        \* component wal (40)
    /\ shpc = "close" /\ clpc = "done" /\ shpc' = "done"
    /\ UNCHANGED <<fa, agkeys, cur, started, sig, rotAfter, wpc, wb, wit, wext, io, buf, bsig, queue, wkst, ack, stored, closing,
                   cancelled, fapc, agpc, nag, clpc, up, ndown, flag, walA, walR, nrot, tpc, tq, ntick, tstop, rgen,
                   restarted, fate, hist>>
Restart ==
    /\ CmdOK
    /\ "restart" \in Ops /\ shpc = "done" /\ ~restarted /\ tpc = "idle" /\ wpc["tick"] = "idle"
    /\ restarted' = TRUE
    /\ buf' = [k \in Keys |-> {}] /\ bsig' = [k \in Keys |-> 0] /\ queue' = <<>> /\ wkst' = [k \in WK |-> "run"]
    /\ fa' = [keys |-> {}, err |-> FALSE, ret |-> "none"]
    /\ closing' = FALSE /\ cancelled' = FALSE /\ clpc' = "idle" /\ fapc' = "idle" /\ flag' = FALSE
    /\ LET all == walR \cup (IF walA = {} THEN {} ELSE {[id |-> nrot + 1, bs |-> walA, age |-> "old"]}) IN
       /\ walR' = all /\ walA' = {} /\ tq' = FileSeq(all) /\ tpc' = "replay"
    /\ fate' = [r \in Rows |-> fate[r] \cup (IF \E i \in 1..Len(queue) : r \in RowsIn(queue[i]) THEN {"abandoned"} ELSE {})
                                        \cup (IF r \in RowsIn(AllBuf) THEN {"stranded"} ELSE {})]
    /\ Cmd([c |-> "restart", pend |-> Pending])
    /\ UNCHANGED <<agkeys, cur, started, sig, rotAfter, wpc, wb, wit, wext, io, ack, stored, agpc, nag, up, ndown, nrot, ntick,
                   tstop, rgen, shpc>>

-----------------------------------------------------------------------------
Next == \/ \E p \in WP : WLock(p) \/ WEnq(p) \/ WSel(p)
        \/ \E k \in WK : WkTake(k) \/ WkExit(k)
        \/ \E p \in IOP : IOPick(p)
        \/ FANext \/ AgNext \/ CCancel \/ CFlush \/ TickNext \/ ShPurge \/ ShDone
        \/ \E w \in WNames : WStart(w)
        \/ \E p \in IOP : IOStep(p)
        \/ StorageDown \/ StorageUp \/ FAStart \/ AgStart \/ CStart \/ AgeFile \/ TickStart \/ ShStart \/ Restart
Spec == Init /\ [][Next]_vars

-----------------------------------------------------------------------------
InMem(r) == \/ r \in RowsIn(AllBuf)
            \/ \E p \in IOP : r \in RowsIn(io[p])
            \/ \E p \in WP : r \in RowsIn(wext[p]) \/ (wb[p] # 0 /\ r \in RowsOf(wb[p]))
            \/ \E i \in 1..Len(queue) : r \in RowsIn(queue[i])
InWal(b) == b \in walA \/ \E f \in walR : b \in f.bs

\* every accepted row is stored, still held somewhere, or was dropped by one of the modelled mechanisms
Accounted == \A b \in BatchIds : ack[b] = "ok" =>
                 \A r \in RowsOf(b) : stored[r] >= 1 \/ InMem(r) \/ InWal(b) \/ fate[r] # {}

\* copies that can still reach storage without outside help
QueueLive == (\E k \in WK : wkst[k] = "run") \/ (CloseDrains /\ clpc # "done")
BufLive   == clpc # "done"
Recoverable(r) ==
    \/ (r \in RowsIn(AllBuf) /\ BufLive)
    \/ \E p \in IOP : r \in RowsIn(io[p])
    \/ \E p \in WP : r \in RowsIn(wext[p]) \/ (wb[p] # 0 /\ r \in RowsOf(wb[p]))
    \/ (QueueLive /\ \E i \in 1..Len(queue) : r \in RowsIn(queue[i]))
    \/ InWal(BatchOf(r))
NoLoss == \A b \in BatchIds : ack[b] = "ok" => \A r \in RowsOf(b) : stored[r] >= 1 \/ Recoverable(r)
NoDup  == \A r \in Rows : stored[r] <= 1
\* as written, rows are lost only by these mechanisms
Lost(r) == ack[BatchOf(r)] = "ok" /\ stored[r] = 0 /\ ~Recoverable(r)
Abandoned(r) == \E i \in 1..Len(queue) : r \in RowsIn(queue[i])
Stranded(r)  == r \in RowsIn(AllBuf)
LossExplained == \A r \in Rows : Lost(r) => (fate[r] # {} \/ Abandoned(r) \/ Stranded(r))
DupOnlyByReplay == \A r \in Rows : stored[r] > 1 => rgen[BatchOf(r)] > 0
C03LossOnlyAbandoned == \A r \in Rows : Lost(r) => Abandoned(r)
\* FlushAll's return value is the acknowledgement of /flush and of imports: nil only if nothing it flushed was dropped
FlushAckHonest == fa.ret = "ok" => \A r \in Rows : "ffail_fa" \notin fate[r]
TypeOK == /\ \A p \in IOP : io[p] \subseteq Inst
          /\ AllBuf \subseteq Inst /\ Len(queue) <= QCap
          /\ \A k \in Keys : (bsig[k] = 0) = (buf[k] = {})

Terminal == ~ENABLED Next
Outcome  == [r \in Rows |-> stored[r]]
EmitInv ==
    (Emit /\ Terminal) =>
        PrintT(<<"TRACE", ToJson([hist |-> hist, stored |-> Outcome, ack |-> ack, sig |-> sig,
                                  lost |-> {r \in Rows : Lost(r)}, fate |-> fate])>>)
=============================================================================

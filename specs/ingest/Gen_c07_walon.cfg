SPECIFICATION Spec
CONSTANTS
  NW = 1
  NBatch = 3
  RPB = 1
  NSigs = 1
  NHours = 1
  NKeys = 1
  MaxBuf = 1
  QCap = 1
  NWorkers = 1
  MaxIters = 2
  WalOn = TRUE
  FailKinds = {"error"}
  MaxDown = 1
  MaxRot = 2
  MaxTick = 2
  MaxAged = 0
  Ops = {"shutdown", "restart"}
  CloseAfterWrites = FALSE
  CloseDrains = TRUE
  Coarse = TRUE
  Emit = TRUE
INVARIANTS EmitInv
CHECK_DEADLOCK FALSE

SPECIFICATION Spec
CONSTANTS
  MaxAtoms = 2
  NTags = {0, 1, 2}
  NFields = {1, 2}
  Pairs = TRUE
  Lenient = TRUE
  SeqDense = 16
  Emit = TRUE
INVARIANTS RoundTrip Deterministic EmitInv
CHECK_DEADLOCK FALSE

------------------------------ MODULE LineProto ------------------------------
(***************************************************************************)
(* C01 -- line-protocol points are stored exactly as written.              *)
(*                                                                         *)
(* This module is the ORACLE the property names: the published InfluxDB    *)
(* line-protocol escaping rules, written twice and checked against each    *)
(* other by TLC:                                                           *)
(*                                                                         *)
(*  (1) a grammar-directed GENERATOR: a point is measurement, tags, fields *)
(*      and an optional timestamp; every name / string value is a sequence *)
(*      of atoms  lit(ch) | esc(ch) | keep(ch)  and Render() writes the    *)
(*      atoms with the escapes the rules prescribe for that section;       *)
(*  (2) a reference LEXER: the left-to-right automaton over the rendered   *)
(*      character-class string (one action per lexical decision), with the *)
(*      per-section escape tables of the InfluxDB documentation:           *)
(*         measurement            \, \space                                *)
(*         tag key/value, field key   \, \= \space                         *)
(*         string field value     \" \\                                    *)
(*      a backslash that does not start one of these is a literal          *)
(*      backslash; a double quote outside a string field value is part of  *)
(*      the name.                                                          *)
(*                                                                         *)
(* Invariant RoundTrip: the lexer reads back exactly the generated point   *)
(* (so the generated language is unambiguous under the rules) and never    *)
(* reaches "invalid".  Every terminal state is emitted (raw tokens +       *)
(* denotation) and replayed on the real parser and write path.             *)
(*                                                                         *)
(* Alphabet = character classes: c ','  s ' '  e '='  q '"'  b '\'         *)
(* p = any other character (the driver concretises p-symbols with letters, *)
(* digits, punctuation and non-ASCII UTF-8, distinct per symbol), and the  *)
(* value classes float/int/uint/bool/tsint whose spelling is atomic.       *)
(*                                                                         *)
(* NOT generated because the published rules do not fix them (DESIGN C01): *)
(* a name or string ending in a lone backslash, a doubled backslash        *)
(* outside a string field value, an unescaped '=' in a tag or field key or *)
(* tag value, negative nanosecond timestamps that are not multiples of     *)
(* 1000, timestamps whose microsecond value does not fit int64.  Generated *)
(* only when Lenient=TRUE and then never asserted by the check (strict =   *)
(* FALSE in the output): backslash before a character that is special      *)
(* somewhere else but not escapable in this section (\= in a measurement,  *)
(* \" outside strings, \, \= \space inside strings).                       *)
(***************************************************************************)
EXTENDS Naturals, Sequences, FiniteSets, TLC, Json

CONSTANTS MaxAtoms,   \* length bound (atoms) of the focused name
          NTags,      \* set of tag counts explored
          NFields,    \* set of field counts explored
          Pairs,      \* also two single-atom foci in one line
          Lenient,    \* also the constructs the rules leave open (see above)
          SeqDense,   \* rows of the dense first request of the two-request sequence (0 = no sequence)
          Emit

Tok(c, t) == [c |-> c, t |-> t]
Comma == Tok("c", ",")
Space == Tok("s", " ")
Eq    == Tok("e", "=")
Quote == Tok("q", "\"")
Bsl   == Tok("b", "\\")
ClassTok(c) == CASE c = "c" -> Comma [] c = "s" -> Space [] c = "e" -> Eq
                 [] c = "q" -> Quote [] c = "b" -> Bsl

NameSecs == {"meas", "tagkey", "tagval", "fieldkey"}
KeySecs  == {"tagkey", "tagval", "fieldkey"}

\* ---- the escaping tables (InfluxDB line protocol reference, "Special characters") ----
EscSet(sec) == IF sec = "meas" THEN {"c", "s"}
               ELSE IF sec \in KeySecs THEN {"c", "s", "e"}
               ELSE {"q", "b"}                                   \* "str"
LitSet(sec) == IF sec = "meas" THEN {"p", "e", "q"}              \* '=' and '"' are ordinary in a measurement
               ELSE IF sec \in KeySecs THEN {"p", "q"}           \* '"' is part of the name
               ELSE {"p", "c", "s", "e"}                         \* inside a string only '"' and '\' are special
KeepLenient(sec) == IF sec = "meas" THEN {"e", "q"}
                    ELSE IF sec \in KeySecs THEN {"q"}
                    ELSE {"c", "s", "e"}
AtomKinds(sec) ==
    {[m |-> "lit", c |-> c] : c \in LitSet(sec)}
    \cup {[m |-> "esc", c |-> c] : c \in EscSet(sec)}
    \cup {[m |-> "keep", c |-> c] : c \in {"p"} \cup (IF Lenient THEN KeepLenient(sec) ELSE {})}
    \* "dbl": a backslash written as the pair \\ in a measurement, tag key/value or field key.  The
    \* published tables do not list '\' as escapable there, while the property statement speaks of
    \* escaped backslashes in names: the exact denotation is left open (one backslash or two), but
    \* under either the pair does not escape what follows it.  Such points are emitted with
    \* weak = TRUE and judged only on the consequences both readings share (see docs/asbuilt/C01.md).
    \cup (IF Lenient /\ sec \in NameSecs THEN {[m |-> "dbl", c |-> "b"]} ELSE {})

\* ---- generator ----
PX == <<"x1", "x2", "x3", "x4">>        \* plain symbols of the first focus, by atom index
PY == <<"y1", "y2", "y3", "y4">>        \* ... of the second focus
KName == <<"K1", "K2">>                 \* canonical tag keys
VName == <<"V1", "V2">>                 \* canonical tag values
FName == <<"F1", "F2">>                 \* canonical field keys

Positions(nt, nf) ==
    {[sec |-> "meas", i |-> 0]}
    \cup {[sec |-> s, i |-> i] : s \in {"tagkey", "tagval"}, i \in 1..nt}
    \cup {[sec |-> s, i |-> i] : s \in {"fieldkey", "str"}, i \in 1..nf}

PosRank(pos) == (CASE pos.sec = "meas" -> 0 [] pos.sec = "tagkey" -> 10 [] pos.sec = "tagval" -> 20
                   [] pos.sec = "fieldkey" -> 30 [] pos.sec = "str" -> 40) + pos.i
AtomSeqs(sec, n) == [1..n -> AtomKinds(sec)]

\* values of non-focused fields: ctx "num" -> floats, ctx "str" -> a string with the delimiters inside
Values ==
    {[c |-> "float", t |-> t] : t \in {"0", "1", "-1.5", "1.0", "3e2", "-2.5E-1", "12345.678"}}
    \cup {[c |-> "int", t |-> t] : t \in {"0", "1", "-1", "42", "9223372036854775807", "-9223372036854775808"}}
    \cup {[c |-> "uint", t |-> t] : t \in {"0", "7", "9223372036854775807"}}
    \cup {[c |-> "bool", t |-> t] : t \in {"t", "T", "true", "True", "TRUE", "f", "F", "false", "False", "FALSE"}}

\* timestamps are digit sequences so that TLC does the precision arithmetic exactly
TsMax64 == <<9,2,2,3,3,7,2,0,3,6,8,5,4,7,7,5,8,0,7>>
TsMin64 == <<9,2,2,3,3,7,2,0,3,6,8,5,4,7,7,5,8,0,8>>
TsMaxMs == <<9,2,2,3,3,7,2,0,3,6,8,5,4,7,7,5>>
TsMaxS  == <<9,2,2,3,3,7,2,0,3,6,8,5,4>>
TsNsNegMin == <<9,2,2,3,3,7,2,0,3,6,8,5,4,7,7,5,0,0,0>>
TsTyp   == <<1,7,0,0,0,0,0,0,0,0,1,2,3,4,5,6,7,8,9>>
Precisions == {"ns", "us", "ms", "s"}
TsMags(prec, neg) ==
    {<<0>>, <<1,0,0,0>>, <<2,0,0,0,0,0,0>>}
    \cup (IF prec = "ns" /\ neg THEN {TsNsNegMin}       \* negative ns: multiples of 1000 only
          ELSE {<<1>>})
    \cup (IF prec = "ns" /\ neg THEN {}
          ELSE IF prec = "ns" THEN {<<9,9,9>>, <<1,0,0,1>>, <<1,9,9,9>>, TsMax64, TsTyp}
          ELSE IF prec = "us" THEN {<<9,9,9>>, <<1,0,0,1>>, IF neg THEN TsMin64 ELSE TsMax64}
          ELSE IF prec = "ms" THEN {<<9,9,9>>, <<1,0,0,1>>, TsMaxMs}
          ELSE {<<9,9,9>>, <<1,0,0,1>>, TsMaxS})
IsZero(d) == \A k \in 1..Len(d) : d[k] = 0
\* microseconds denoted by (neg, digits) at the given precision
ToMicros(prec, neg, d) ==
    LET m == IF prec = "us" THEN d
             ELSE IF prec = "ms" THEN (IF IsZero(d) THEN <<0>> ELSE d \o <<0,0,0>>)
             ELSE IF prec = "s"  THEN (IF IsZero(d) THEN <<0>> ELSE d \o <<0,0,0,0,0,0>>)
             ELSE IF Len(d) <= 3 THEN <<0>> ELSE SubSeq(d, 1, Len(d) - 3)     \* ns: exact for multiples, floor for positives
    IN [neg |-> neg /\ ~IsZero(m), digits |-> m]
NoTs == [present |-> FALSE, prec |-> "ns", neg |-> FALSE, digits |-> <<0>>]

\* a point of the "focus" family: canonical line with one (or two) sections replaced by atom sequences
FocusPoints ==
    UNION { UNION { UNION {
        { [fam |-> "focus", nt |-> nt, nf |-> nf, ctx |-> ctx,
           foci |-> << [pos |-> pos, atoms |-> a, sym |-> PX] >>,
           val |-> [c |-> "none", t |-> ""], vfield |-> 0, req |-> 0, copy |-> 0,
           ts |-> [present |-> hasTs, prec |-> "ns", neg |-> FALSE, digits |-> TsTyp]]
          : a \in UNION {AtomSeqs(pos.sec, n) : n \in 1..MaxAtoms} }
        : pos \in Positions(nt, nf) }
        : <<nt, nf>> \in NTags \X NFields }
        : <<ctx, hasTs>> \in {"num", "str"} \X BOOLEAN }

PairPoints ==
    IF ~Pairs THEN {} ELSE
    UNION { UNION {
        { [fam |-> "pair", nt |-> nt, nf |-> nf, ctx |-> "num",
           foci |-> << [pos |-> pp[1], atoms |-> <<a1>>, sym |-> PX], [pos |-> pp[2], atoms |-> <<a2>>, sym |-> PY] >>,
           val |-> [c |-> "none", t |-> ""], vfield |-> 0, req |-> 0, copy |-> 0,
           ts |-> [present |-> TRUE, prec |-> "ns", neg |-> FALSE, digits |-> TsTyp]]
          : <<a1, a2>> \in AtomKinds(pp[1].sec) \X AtomKinds(pp[2].sec) }
        : pp \in {q \in Positions(nt, nf) \X Positions(nt, nf) : PosRank(q[1]) < PosRank(q[2])} }
        : <<nt, nf>> \in {<<1, 1>>, <<1, 2>>} }

ValuePoints ==
    { [fam |-> "value", nt |-> 1, nf |-> nf, ctx |-> "num", foci |-> <<>>,
       val |-> v, vfield |-> j, req |-> 0, copy |-> 0,
       ts |-> [present |-> hasTs, prec |-> "ns", neg |-> FALSE, digits |-> TsTyp]]
      : v \in Values, nf \in {1, 2}, j \in {1, 2}, hasTs \in BOOLEAN } \ {x \in {} : TRUE}

TsPoints ==
    UNION { UNION {
        { [fam |-> "ts", nt |-> 1, nf |-> 1, ctx |-> "num", foci |-> <<>>,
           val |-> [c |-> "none", t |-> ""], vfield |-> 0, req |-> 0, copy |-> 0,
           ts |-> [present |-> TRUE, prec |-> prec, neg |-> neg, digits |-> d]]
          : d \in TsMags(prec, neg) }
        : neg \in BOOLEAN } : prec \in Precisions }

\* sequence dimension (C01 quantifies over batches; arc's handler is long-lived): two consecutive
\* requests to one handler instance for ONE measurement.  Request 1 is dense -- SeqDense points that
\* all carry both tags and both fields, with distinctive values -- request 2 is sparse: every
\* combination of 0-2 tags x 1-2 fields x timestamp yes/no, so that columns K1, K2, F2 have cells no
\* point of request 2 sets.  A stored value in such a cell (left over from request 1) is a phantom
\* tag/field: the point is not stored "with exactly the tag keys/values and field keys/values".
SeqPoints ==
    { [fam |-> "seq", nt |-> 2, nf |-> 2, ctx |-> "num", foci |-> <<>>,
       val |-> [c |-> "none", t |-> ""], vfield |-> 0, req |-> 1, copy |-> k,
       ts |-> [present |-> TRUE, prec |-> "ns", neg |-> FALSE, digits |-> TsTyp]] : k \in 1..SeqDense }
    \cup
    { [fam |-> "seq", nt |-> nt, nf |-> nf, ctx |-> "num", foci |-> <<>>,
       val |-> [c |-> "none", t |-> ""], vfield |-> 0, req |-> 2, copy |-> 1,
       ts |-> [present |-> hasTs, prec |-> "ns", neg |-> FALSE, digits |-> TsTyp]]
      : nt \in 0..2, nf \in 1..2, hasTs \in BOOLEAN }

FocusAt(pt, sec, i) == {k \in 1..Len(pt.foci) : pt.foci[k].pos.sec = sec /\ pt.foci[k].pos.i = i}

AtomTok(a, sym, idx) == IF a.c = "p" THEN Tok("p", sym[idx]) ELSE ClassTok(a.c)
RECURSIVE RenderAtoms(_, _, _)
RenderAtoms(atoms, sym, from) ==
    IF from > Len(atoms) THEN <<>>
    ELSE (IF atoms[from].m = "lit" THEN <<AtomTok(atoms[from], sym, from)>>
          ELSE <<Bsl, AtomTok(atoms[from], sym, from)>>) \o RenderAtoms(atoms, sym, from + 1)
RECURSIVE DenoteAtoms(_, _, _)
DenoteAtoms(atoms, sym, from) ==
    IF from > Len(atoms) THEN <<>>
    ELSE (IF atoms[from].m = "keep" THEN <<Bsl, AtomTok(atoms[from], sym, from)>>
          ELSE <<AtomTok(atoms[from], sym, from)>>) \o DenoteAtoms(atoms, sym, from + 1)

\* rendered / denoted name of a section (focus or canonical)
NameOf(pt, sec, i, canon, render) ==
    LET f == FocusAt(pt, sec, i) IN
    IF f = {} THEN <<Tok("p", canon)>>
    ELSE LET k == CHOOSE k \in f : TRUE IN
         IF render THEN RenderAtoms(pt.foci[k].atoms, pt.foci[k].sym, 1)
         ELSE DenoteAtoms(pt.foci[k].atoms, pt.foci[k].sym, 1)

CanonStrDen == <<Tok("p", "S1"), Comma, Space, Tok("p", "S2"), Eq, Tok("p", "S3")>>   \* the text  S1, S2=S3
\* value of field j : [kind, render tokens, denotation]
FieldVal(pt, j) ==
    IF FocusAt(pt, "str", j) # {}
      THEN [kind |-> "string", r |-> <<Quote>> \o NameOf(pt, "str", j, "", TRUE) \o <<Quote>>,
            d |-> NameOf(pt, "str", j, "", FALSE)]
    ELSE IF pt.vfield = j
      THEN [kind |-> pt.val.c, r |-> <<pt.val>>, d |-> <<pt.val>>]
    ELSE IF pt.ctx = "str" \/ j = 2
      THEN [kind |-> "string", r |-> <<Quote>> \o CanonStrDen \o <<Quote>>, d |-> CanonStrDen]
    ELSE [kind |-> "float", r |-> <<Tok("float", "1.5")>>, d |-> <<Tok("float", "1.5")>>]

RECURSIVE JoinWith(_, _)
JoinWith(seqs, sep) == IF Len(seqs) = 0 THEN <<>>
                       ELSE IF Len(seqs) = 1 THEN seqs[1]
                       ELSE seqs[1] \o <<sep>> \o JoinWith(Tail(seqs), sep)

RenderMT(pt) == JoinWith(<<NameOf(pt, "meas", 0, "M", TRUE)>> \o
                         [i \in 1..pt.nt |-> NameOf(pt, "tagkey", i, KName[i], TRUE) \o <<Eq>> \o
                                             NameOf(pt, "tagval", i, VName[i], TRUE)], Comma)
RenderFS(pt) == JoinWith([j \in 1..pt.nf |-> NameOf(pt, "fieldkey", j, FName[j], TRUE) \o <<Eq>> \o FieldVal(pt, j).r], Comma)
TsTok(pt)    == Tok("tsint", "")
RenderTS(pt) == IF pt.ts.present THEN <<TsTok(pt)>> ELSE <<>>
Render(pt)   == RenderMT(pt) \o <<Space>> \o RenderFS(pt) \o (IF pt.ts.present THEN <<Space>> \o RenderTS(pt) ELSE <<>>)

Expected(pt) ==
    [meas   |-> NameOf(pt, "meas", 0, "M", FALSE),
     tags   |-> [i \in 1..pt.nt |-> [k |-> NameOf(pt, "tagkey", i, KName[i], FALSE),
                                     v |-> NameOf(pt, "tagval", i, VName[i], FALSE)]],
     fields |-> [j \in 1..pt.nf |-> [k |-> NameOf(pt, "fieldkey", j, FName[j], FALSE),
                                     kind |-> FieldVal(pt, j).kind, v |-> FieldVal(pt, j).d]],
     hasTs  |-> pt.ts.present]

\* reserved / ill-formed combinations the property excludes: equal keys (tag = tag, field = field, field = tag)
AllKeys(pt) == [i \in 1..pt.nt |-> NameOf(pt, "tagkey", i, KName[i], FALSE)] \o
               [j \in 1..pt.nf |-> NameOf(pt, "fieldkey", j, FName[j], FALSE)]
DistinctKeys(pt) == \A a, b \in 1..(pt.nt + pt.nf) : a # b => AllKeys(pt)[a] # AllKeys(pt)[b]
IsStrict(pt) == \A k \in 1..Len(pt.foci) : \A n \in 1..Len(pt.foci[k].atoms) :
                   /\ pt.foci[k].atoms[n].m = "keep" => pt.foci[k].atoms[n].c = "p"
                   /\ pt.foci[k].atoms[n].m # "dbl"
HasDbl(pt) == \E k \in 1..Len(pt.foci) : \E n \in 1..Len(pt.foci[k].atoms) : pt.foci[k].atoms[n].m = "dbl"
\* weak: the only non-strict construct is the doubled backslash
IsWeak(pt) == HasDbl(pt) /\ \A k \in 1..Len(pt.foci) : \A n \in 1..Len(pt.foci[k].atoms) :
                   pt.foci[k].atoms[n].m = "keep" => pt.foci[k].atoms[n].c = "p"

Points == {p \in FocusPoints \cup PairPoints \cup ValuePoints \cup TsPoints \cup SeqPoints : DistinctKeys(p) /\ p.vfield <= p.nf}

-----------------------------------------------------------------------------
\* ---- the reference lexer ----
VARIABLES pt,     \* the generated point (history; hidden by the VIEW)
          raw,    \* rendered token string
          i,      \* next token
          sec,    \* lexer section
          cur,    \* literal tokens of the element being read
          key,    \* completed key of the tag/field being read
          den,    \* denotation so far
          pc      \* "lex" | "done" | "invalid"
vars == <<pt, raw, i, sec, cur, key, den, pc>>

EmptyDen == [meas |-> <<>>, tags |-> <<>>, fields |-> <<>>, hasTs |-> FALSE]

Init == /\ pt \in Points
        /\ raw = Render(pt)
        /\ i = 1 /\ sec = "meas" /\ cur = <<>> /\ key = <<>> /\ den = EmptyDen /\ pc = "lex"

Tk     == raw[i]
NextC  == IF i + 1 <= Len(raw) THEN raw[i + 1].c ELSE "eof"
LexSec == IF sec = "str" THEN "str" ELSE sec
InName == sec \in NameSecs \cup {"str"}
\* what a backslash escapes here; for points with a doubled backslash the lexer uses the pairing
\* reading (\\ is one unit that escapes nothing after it)
Esc(section) == EscSet(section) \cup (IF HasDbl(pt) THEN {"b"} ELSE {})

\* a backslash followed by a character this section lets you escape: the pair denotes that character
LexEscape ==
    /\ pc = "lex" /\ i <= Len(raw) /\ InName
    /\ Tk.c = "b" /\ NextC \in Esc(sec)
    /\ cur' = Append(cur, raw[i + 1]) /\ i' = i + 2
    /\ UNCHANGED <<pt, raw, sec, key, den, pc>>

\* section delimiters
IsDelim == \/ sec = "meas"     /\ Tk.c \in {"c", "s"}
           \/ sec = "tagkey"   /\ Tk.c \in {"e", "c", "s"}
           \/ sec = "tagval"   /\ Tk.c \in {"c", "s", "e"}
           \/ sec = "fieldkey" /\ Tk.c \in {"e", "c", "s"}
           \/ sec = "str"      /\ Tk.c = "q"

\* any other character (including a backslash that escapes nothing, and '"' outside strings) is literal
LexLiteral ==
    /\ pc = "lex" /\ i <= Len(raw) /\ InName
    /\ ~(Tk.c = "b" /\ NextC \in Esc(sec))
    /\ ~IsDelim
    /\ Tk.c \in {"p", "c", "s", "e", "q", "b"}
    /\ cur' = Append(cur, Tk) /\ i' = i + 1
    /\ UNCHANGED <<pt, raw, sec, key, den, pc>>

LexDelim ==
    /\ pc = "lex" /\ i <= Len(raw) /\ sec \in NameSecs /\ IsDelim
    /\ i' = i + 1 /\ cur' = <<>> /\ UNCHANGED <<pt, raw>>
    /\ CASE sec = "meas" /\ cur # <<>> ->
              /\ den' = [den EXCEPT !.meas = cur] /\ key' = key /\ pc' = pc
              /\ sec' = IF Tk.c = "c" THEN "tagkey" ELSE "fieldkey"
         [] sec = "tagkey" /\ Tk.c = "e" /\ cur # <<>> ->
              /\ key' = cur /\ sec' = "tagval" /\ UNCHANGED <<den, pc>>
         [] sec = "tagval" /\ Tk.c \in {"c", "s"} /\ cur # <<>> ->
              /\ den' = [den EXCEPT !.tags = Append(@, [k |-> key, v |-> cur])] /\ key' = <<>> /\ pc' = pc
              /\ sec' = IF Tk.c = "c" THEN "tagkey" ELSE "fieldkey"
         [] sec = "fieldkey" /\ Tk.c = "e" /\ cur # <<>> ->
              /\ key' = cur /\ sec' = "fieldval" /\ UNCHANGED <<den, pc>>
         [] OTHER -> /\ pc' = "invalid" /\ UNCHANGED <<sec, key, den>>

\* field value: a quote opens a string, anything else is an atomic typed spelling
LexQuoteOpen ==
    /\ pc = "lex" /\ i <= Len(raw) /\ sec = "fieldval" /\ Tk.c = "q"
    /\ sec' = "str" /\ i' = i + 1 /\ cur' = <<>>
    /\ UNCHANGED <<pt, raw, key, den, pc>>
LexQuoteClose ==
    /\ pc = "lex" /\ i <= Len(raw) /\ sec = "str" /\ Tk.c = "q"
    /\ den' = [den EXCEPT !.fields = Append(@, [k |-> key, kind |-> "string", v |-> cur])]
    /\ sec' = "afterval" /\ i' = i + 1 /\ cur' = <<>> /\ key' = <<>>
    /\ UNCHANGED <<pt, raw, pc>>
LexValue ==
    /\ pc = "lex" /\ i <= Len(raw) /\ sec = "fieldval" /\ Tk.c # "q"
    /\ i' = i + 1 /\ cur' = <<>> /\ UNCHANGED <<pt, raw>>
    /\ IF Tk.c \in {"float", "int", "uint", "bool"}
         THEN /\ den' = [den EXCEPT !.fields = Append(@, [k |-> key, kind |-> Tk.c, v |-> <<Tk>>])]
              /\ sec' = "afterval" /\ key' = <<>> /\ pc' = pc
         ELSE pc' = "invalid" /\ UNCHANGED <<sec, key, den>>
LexAfterValue ==
    /\ pc = "lex" /\ i <= Len(raw) /\ sec = "afterval"
    /\ i' = i + 1 /\ UNCHANGED <<pt, raw, cur, key, den>>
    /\ IF Tk.c = "c" THEN sec' = "fieldkey" /\ pc' = pc
       ELSE IF Tk.c = "s" THEN sec' = "ts" /\ pc' = pc
       ELSE pc' = "invalid" /\ sec' = sec
LexTs ==
    /\ pc = "lex" /\ i <= Len(raw) /\ sec = "ts"
    /\ i' = i + 1 /\ UNCHANGED <<pt, raw, cur, key>>
    /\ IF Tk.c = "tsint" /\ ~den.hasTs THEN den' = [den EXCEPT !.hasTs = TRUE] /\ sec' = "end" /\ pc' = pc
       ELSE pc' = "invalid" /\ UNCHANGED <<sec, den>>
LexEnd ==
    /\ pc = "lex" /\ i > Len(raw)
    /\ pc' = IF sec \in {"afterval", "end"} /\ den.fields # <<>> THEN "done" ELSE "invalid"
    /\ UNCHANGED <<pt, raw, i, sec, cur, key, den>>
Stutter == pc # "lex" /\ UNCHANGED vars

Next == LexEscape \/ LexLiteral \/ LexDelim \/ LexQuoteOpen \/ LexQuoteClose \/ LexValue
        \/ LexAfterValue \/ LexTs \/ LexEnd \/ Stutter
Spec == Init /\ [][Next]_vars

-----------------------------------------------------------------------------
\* the generated language is read back exactly: the rules are unambiguous on it
RoundTrip == /\ pc # "invalid"
             /\ pc = "done" => den = Expected(pt)
\* the lexer is deterministic: at most one action is enabled (checked as a state predicate)
Deterministic ==
    pc = "lex" /\ i <= Len(raw) =>
       Cardinality({a \in {"esc", "lit", "delim"} :
                       \/ a = "esc"   /\ InName /\ Tk.c = "b" /\ NextC \in Esc(sec)
                       \/ a = "lit"   /\ InName /\ ~(Tk.c = "b" /\ NextC \in Esc(sec)) /\ ~IsDelim
                       \/ a = "delim" /\ InName /\ IsDelim}) <= 1

EmitInv ==
    (Emit /\ pc = "done") =>
        PrintT(<<"TRACE", ToJson([fam |-> pt.fam, req |-> pt.req, copy |-> pt.copy, strict |-> IsStrict(pt), weak |-> IsWeak(pt),
                                  foci |-> [k \in 1..Len(pt.foci) |->
                                              [sec |-> pt.foci[k].pos.sec, i |-> pt.foci[k].pos.i,
                                               atoms |-> pt.foci[k].atoms]],
                                  mt |-> RenderMT(pt), fs |-> RenderFS(pt),
                                  ts |-> pt.ts,
                                  micros |-> ToMicros(pt.ts.prec, pt.ts.neg, pt.ts.digits),
                                  den |-> den])>>)
=============================================================================

SPECIFICATION Spec
CONSTANTS
  MaxAtoms = 3
  NTags = {0, 1, 2}
  NFields = {1, 2}
  Pairs = TRUE
  Lenient = TRUE
  SeqDense = 16
  Emit = FALSE
INVARIANTS RoundTrip Deterministic
CHECK_DEADLOCK FALSE

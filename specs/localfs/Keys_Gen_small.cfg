SPECIFICATION Spec
CONSTANTS
  MaxLen = 6
  RejectAlias = TRUE
  Emit = TRUE
INVARIANTS ResolvedInside SiblingRejected StagingInside ManifestStagingInside SyncNeverAlias EmitInv
CHECK_DEADLOCK FALSE

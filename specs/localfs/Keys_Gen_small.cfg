SPECIFICATION Spec
CONSTANTS
  MaxLen = 6
  Emit = TRUE
INVARIANTS ResolvedInside SyncNeverAlias EmitInv
CHECK_DEADLOCK FALSE

SPECIFICATION Spec
CONSTANTS
  MaxChunks = 3
  Emit = TRUE
INVARIANTS Atomic Publishes FailureKeepsPrior EmitInv
CHECK_DEADLOCK FALSE

SPECIFICATION Spec
CONSTANTS
  MaxChunks = 3
  Emit = TRUE
INVARIANTS Atomic Publishes FailureKeepsPrior CannotStageKeepsPrior EmitInv
CHECK_DEADLOCK FALSE

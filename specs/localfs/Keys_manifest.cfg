SPECIFICATION Spec
CONSTANTS
  MaxLen = 4
  Emit = FALSE
INVARIANTS ManifestStagingInside
CHECK_DEADLOCK FALSE

--------------------------- MODULE LocalFSTrace ---------------------------
(***************************************************************************)
(* C08 (b), trace validation.  The trace is the strace log of the real     *)
(* LocalBackend.Write / WriteReader / AppendReader (one "begin".."end"     *)
(* block per run, many runs concatenated), reduced by the driver to the    *)
(* calls that touch the three names F (final path), P (F.part), T (a       *)
(* .arc-*.tmp file in F's directory).  This module is a small POSIX name / *)
(* inode / descriptor semantics: it replays the calls and evaluates the    *)
(* atomicity invariant in the state after EVERY call -- each such state is *)
(* what a crash at that point leaves on disk.  It knows nothing about how  *)
(* the backend is implemented: any order of calls is accepted; only the    *)
(* content reachable through the final name is judged.                     *)
(* Content = [base, k]: base "none" (created/truncated in this run), "old" *)
(* (previous complete object), "stale" (staging bytes of an earlier        *)
(* attempt), k = bytes written in this run.                                *)
(***************************************************************************)
EXTENDS Naturals, Sequences, TLC, Json

VARIABLES nm,     \* [F, P, T] -> inode number, 0 = no such name
          ino,    \* sequence of contents, indexed by inode number
          fds,    \* descriptor -> inode number, 0 = closed
          prior,  \* content of F before the operation
          want,   \* [ok, base, k]: complete intended content (ok = FALSE: the source fails, nothing may be published)
          l

vars == <<nm, ino, fds, prior, want, l>>

Trace == ndJsonDeserialize("trace.ndjson")
Roles == {"F", "P", "T"}
NoFile == [base |-> "absent", k |-> 0]
MaxFd == 63

Content(r) == IF nm[r] = 0 THEN NoFile ELSE ino[nm[r]]

TraceInit ==
    /\ nm = [r \in Roles |-> 0] /\ ino = <<>> /\ fds = [f \in 0..MaxFd |-> 0]
    /\ prior = NoFile /\ want = [ok |-> FALSE, base |-> "none", k |-> 0]
    /\ l = 1 /\ TLCSet(1, 0)

IsEvent(e) == l <= Len(Trace) /\ Trace[l].ev = e /\ l' = l + 1
E == Trace[l]

TBegin ==
    /\ IsEvent("begin")
    /\ ino' = << [base |-> "old", k |-> 0], [base |-> "stale", k |-> 0] >>
    /\ nm' = [F |-> IF E.pF = "old" THEN 1 ELSE 0, P |-> IF E.pP = "stale" THEN 2 ELSE 0, T |-> 0]
    /\ fds' = [f \in 0..MaxFd |-> 0]
    /\ prior' = IF E.pF = "old" THEN [base |-> "old", k |-> 0] ELSE NoFile
    /\ want' = [ok |-> E.wok, base |-> E.wbase, k |-> E.wk]

TOpen ==
    /\ IsEvent("open")
    /\ UNCHANGED <<prior, want>>
    /\ IF ~E.ok THEN UNCHANGED <<nm, ino, fds>>
       ELSE LET fresh == nm[E.role] = 0
                i     == IF fresh THEN Len(ino) + 1 ELSE nm[E.role]
                ino1  == IF fresh THEN Append(ino, [base |-> "none", k |-> 0]) ELSE ino
            IN /\ ino' = IF E.trunc THEN [ino1 EXCEPT ![i] = [base |-> "none", k |-> 0]] ELSE ino1
               /\ nm'  = [nm EXCEPT ![E.role] = i]
               /\ fds' = [fds EXCEPT ![E.fd] = i]

TWrite ==
    /\ IsEvent("write")
    /\ UNCHANGED <<nm, fds, prior, want>>
    /\ ino' = IF fds[E.fd] = 0 THEN ino ELSE [ino EXCEPT ![fds[E.fd]].k = @ + E.n]

\* ftruncate(fd, n)
TCut ==
    /\ IsEvent("cut")
    /\ UNCHANGED <<nm, fds, prior, want>>
    /\ ino' = IF fds[E.fd] = 0 THEN ino
              ELSE [ino EXCEPT ![fds[E.fd]] = IF E.n = 0 THEN [base |-> "none", k |-> 0] ELSE [base |-> "cut", k |-> E.n]]

TClose ==
    /\ IsEvent("close")
    /\ fds' = [fds EXCEPT ![E.fd] = 0]
    /\ UNCHANGED <<nm, ino, prior, want>>

TRename ==
    /\ IsEvent("rename")
    /\ UNCHANGED <<ino, fds, prior, want>>
    /\ nm' = IF E.ok /\ nm[E.role] # 0 /\ E.role # E.role2
               THEN [nm EXCEPT ![E.role2] = nm[E.role], ![E.role] = 0] ELSE nm

TLink ==
    /\ IsEvent("link")
    /\ UNCHANGED <<ino, fds, prior, want>>
    /\ nm' = IF E.ok /\ nm[E.role] # 0 THEN [nm EXCEPT ![E.role2] = nm[E.role]] ELSE nm

TUnlink ==
    /\ IsEvent("unlink")
    /\ UNCHANGED <<ino, fds, prior, want>>
    /\ nm' = IF E.ok THEN [nm EXCEPT ![E.role] = 0] ELSE nm

TEnd == IsEvent("end") /\ UNCHANGED <<nm, ino, fds, prior, want>>

TraceNext == TBegin \/ TOpen \/ TWrite \/ TCut \/ TClose \/ TRename \/ TLink \/ TUnlink \/ TEnd
TraceSpec == TraceInit /\ [][TraceNext]_vars

\* the property, evaluated after every call of every recorded run
Atomic == \/ Content("F") = prior
          \/ want.ok /\ Content("F") = [base |-> want.base, k |-> want.k]

\* when it fails, say where (line number of the first call after which the final name is torn)
AtomicInv == Atomic \/ (PrintT(<<"TORN_AT", l - 1>>) /\ FALSE)

HW == TLCSet(1, IF l > TLCGet(1) THEN l ELSE TLCGet(1))
TraceAccepted == IF TLCGet(1) = Len(Trace) + 1 THEN TRUE
                 ELSE PrintT(<<"REJECTED_AT", TLCGet(1)>>) /\ FALSE
=============================================================================

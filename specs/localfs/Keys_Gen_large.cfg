SPECIFICATION Spec
CONSTANTS
  MaxLen = 7
  Emit = TRUE
INVARIANTS ResolvedInside SyncNeverAlias EmitInv
CHECK_DEADLOCK FALSE

------------------------------ MODULE LocalFS ------------------------------
(***************************************************************************)
(* C08 (b) -- files appear atomically under their final name.              *)
(*                                                                         *)
(* LocalBackend.Write / WriteReader / AppendReader (internal/storage/      *)
(* local.go) as the sequences of file-system calls they are written as,    *)
(* over a three-name tree  F (final path), P (F + ".part"), T (the         *)
(* CreateTemp file next to F).  A crash (process death) may happen between *)
(* any two calls; a write call moves one chunk, so a crash between two     *)
(* writes is a crash in the middle of the data.  The source reader may     *)
(* fail after any number of chunks.                                        *)
(*   Write        : open(T, O_EXCL) write* close rename(T,F)               *)
(*   WriteReader  : open(P, O_TRUNC) write* close rename(P,F)   (size arg  *)
(*                  unused; on a reader error P is left behind)            *)
(*   AppendReader : open(P, O_APPEND) write* [written = appendSize: close  *)
(*                  rename(P,F)] close                                     *)
(* Name length class (sc.nm): "short", or "long" = the object's base name  *)
(* is within len(".part") bytes of NAME_MAX, so F is a legal name but P is *)
(* not (ENAMETOOLONG).  As written: Write is unaffected (its temp name     *)
(* does not derive from the object's name); WriteReader and AppendReader   *)
(* fail at the open of P without touching F -- an operation that cannot    *)
(* stage must fail, not write under the final name.                        *)
(* Content of a file = [base, k]: what it started from in this operation   *)
(* ("none" = empty, "old" = previous complete object, "stale" = bytes of   *)
(* an earlier attempt) and how many chunks of the new data were appended.  *)
(***************************************************************************)
EXTENDS Naturals, Sequences, FiniteSets, TLC, Json

CONSTANTS MaxChunks, Emit

Ops == {"Write", "WriteReader", "AppendReader"}
NoFile == [base |-> "absent", k |-> 0]
Old    == [base |-> "old", k |-> 0]
Stale  == [base |-> "stale", k |-> 0]

VARIABLES sc,     \* scenario: [op, n, fail, priorF, priorP, declared, nm]
          fs,     \* [F, P, T] -> content
          pc,     \* "start" | "opened" | "closed" | "renamed" | "done" | "crashed"
          sent,   \* chunks written so far
          calls   \* the file-system calls issued so far (generation / drift detection)

vars == <<sc, fs, pc, sent, calls>>

Scenarios ==
    { x \in [op : Ops, n : 0..MaxChunks, fail : 0..(MaxChunks+1), priorF : {"absent", "old"},
             priorP : {"absent", "stale"}, declared : 0..(MaxChunks+1), nm : {"short", "long"}] :
        /\ x.fail <= x.n + 1                                   \* fail = n+1: the reader never fails
        /\ (x.op = "Write" => x.fail = x.n + 1)
        /\ (x.op = "AppendReader" => x.declared \in {x.n, x.n + 1}) /\ (x.op # "AppendReader" => x.declared = x.n)
        \* a long name cannot have a staging file on disk; its append scenarios all fail at the open: keep one per (n, priorF)
        /\ (x.nm = "long" => x.priorP = "absent")
        /\ ((x.nm = "long" /\ x.op = "AppendReader") => (x.fail = x.n + 1 /\ x.declared = x.n)) }

NoFail == sc.fail = sc.n + 1
Stage  == IF sc.op = "Write" THEN "T" ELSE "P"

Init == /\ sc \in Scenarios
        /\ fs = [F |-> IF sc.priorF = "old" THEN Old ELSE NoFile,
                 P |-> IF sc.priorP = "stale" THEN Stale ELSE NoFile,
                 T |-> NoFile]
        /\ pc = "start" /\ sent = 0 /\ calls = <<>>

Open ==
    /\ pc = "start"
    /\ UNCHANGED <<sc, sent>>
    /\ CASE sc.op = "Write" ->
              /\ fs' = [fs EXCEPT !.T = [base |-> "none", k |-> 0]]
              /\ calls' = Append(calls, <<"open", "T", "excl">>) /\ pc' = "opened"
         [] sc.op = "WriteReader" ->
              IF sc.nm = "long"      \* open("<long name>.part") = ENAMETOOLONG: the operation fails here
                THEN /\ calls' = Append(calls, <<"openfail", "P", "trunc">>) /\ pc' = "done" /\ UNCHANGED fs
                ELSE /\ fs' = [fs EXCEPT !.P = [base |-> "none", k |-> 0]]
                     /\ calls' = Append(calls, <<"open", "P", "trunc">>) /\ pc' = "opened"
         [] sc.op = "AppendReader" ->
              IF fs.P = NoFile
                THEN /\ calls' = Append(calls, <<"openfail", "P", "append">>) /\ pc' = "done" /\ UNCHANGED fs
                ELSE /\ calls' = Append(calls, <<"open", "P", "append">>) /\ pc' = "opened" /\ UNCHANGED fs

WriteChunk ==
    /\ pc = "opened" /\ sent < sc.n /\ sent < sc.fail
    /\ fs' = [fs EXCEPT ![Stage].k = @ + 1]
    /\ sent' = sent + 1
    /\ calls' = Append(calls, <<"write", Stage, "">>)
    /\ UNCHANGED <<sc, pc>>

\* the copy loop ended: clean EOF after n chunks, or the reader's error after `fail` chunks
Close ==
    /\ pc = "opened" /\ (sent = sc.n \/ sent = sc.fail)
    /\ calls' = Append(calls, <<"close", Stage, "">>)
    /\ pc' = IF NoFail /\ sent = sc.n /\ (sc.op = "AppendReader" => sent = sc.declared) THEN "closed" ELSE "done"
    /\ UNCHANGED <<sc, fs, sent>>

Rename ==
    /\ pc = "closed"
    /\ fs' = [fs EXCEPT !.F = fs[Stage], ![Stage] = NoFile]
    /\ calls' = Append(calls, <<"rename", Stage, "F">>)
    /\ pc' = "done"
    /\ UNCHANGED <<sc, sent>>

Crash == /\ pc \in {"start", "opened", "closed"}
         /\ pc' = "crashed" /\ UNCHANGED <<sc, fs, sent, calls>>

Done == pc \in {"done", "crashed"} /\ UNCHANGED vars

Next == Open \/ WriteChunk \/ Close \/ Rename \/ Crash \/ Done
Spec == Init /\ [][Next]_vars

-----------------------------------------------------------------------------
Prior == IF sc.priorF = "old" THEN Old ELSE NoFile
\* the complete intended content (only defined when the source delivers everything)
Intended == IF sc.op = "AppendReader" THEN [base |-> "stale", k |-> sc.n] ELSE [base |-> "none", k |-> sc.n]

\* the final path holds the previous complete object (or nothing), or the complete intended content --
\* at every point of every execution, i.e. whatever the crash point
\* an append that was declared longer than what the source delivers is not complete either
WantOk == /\ NoFail /\ (sc.op = "AppendReader" => (sc.declared = sc.n /\ sc.priorP = "stale"))
          /\ (sc.nm = "long" => sc.op = "Write")
Atomic == fs.F = Prior \/ (WantOk /\ fs.F = Intended)

\* a successful operation really publishes
Publishes == (pc = "done" /\ WantOk) => fs.F = Intended
\* an operation that cannot stage fails without touching the final path
CannotStageKeepsPrior == (sc.nm = "long" /\ sc.op # "Write") => fs.F = Prior
\* a failed operation leaves the final path alone
FailureKeepsPrior == (pc = "done" /\ ~NoFail) => fs.F = Prior

EmitInv == (Emit /\ pc = "done") =>
    PrintT(<<"TRACE", ToJson([sc |-> sc, calls |-> calls, renamed |-> (\E i \in 1..Len(calls) : calls[i][1] = "rename"),
                              part |-> fs.P.base, partk |-> fs.P.k])>>)
=============================================================================

---------------------------- MODULE LocalFSKeys ----------------------------
(***************************************************************************)
(* C08 (a) -- every object key resolves to a location inside the root.     *)
(*                                                                         *)
(* Character-level model of internal/storage/local.go as written:          *)
(*   sanitizePath  = TrimPrefix one "/" ; ReplaceAll("..", "_") left to    *)
(*                   right, non-overlapping ; THEN delete NUL bytes        *)
(*   validatePath  = filepath.Join(base, s) (lexical Clean: drop "" and    *)
(*                   ".", ".." pops) ; filepath.Rel(base, abs) ; reject    *)
(*                   when the relative path has the string prefix ".."     *)
(*   validateObjectPath = validatePath + reject "resolved = base" (the     *)
(*                   object operations; prefix operations -- List*, Exists,*)
(*                   RemoveDirectory, Read*, GetFullPath -- use            *)
(*                   validatePath alone)                                   *)
(*   staging       = resolved path + ".part" (WriteReader, AppendReader,   *)
(*                   and the fall-back of StatFile / ReadToAt) ; Write     *)
(*                   stages in filepath.Dir(resolved path)                 *)
(* and of the two validators that feed cluster-manifest and edge-sync      *)
(* paths into the backend (cluster/raft/path_validation.go,                *)
(* edgesync/receive.go).                                                   *)
(* Alphabet: "/" separator, "." dot, "0" NUL byte, "b" backslash,          *)
(* "a" any other character (the driver substitutes several concrete        *)
(* strings, including multi-byte unicode), "_" produced by the sanitiser,  *)
(* "r" the root directory's base name (see below).                         *)
(* The base directory is Base (two abstract segments: parent, root).       *)
(***************************************************************************)
EXTENDS Naturals, Sequences, FiniteSets, TLC, Json

CONSTANTS MaxLen,       \* maximal key length in characters
          RejectAlias,  \* TRUE = /repo now (814856a): validateObjectPath refuses a key that resolves to the root itself
                        \* for Write, WriteReader, AppendReader, StatFile, ReadToAt, Delete; FALSE = as first written
          Emit

Chars == {"/", ".", "0", "a", "b"}
\* "r" is one more token: the root directory's own base name, as a string.  A segment "r" is the root's name, a
\* segment that merely starts with "r" ("ra", "r.", "r0a" ...) is a SIBLING whose name has the root's name as a
\* string prefix (data-backup next to data).  Containment is decided per segment, never per character.
Base  == << <<"P">>, <<"r">> >>          \* /P/<root> : P is the parent of the configured root

RECURSIVE KeysOfLen(_)
KeysOfLen(n) == IF n = 0 THEN {<<>>} ELSE {Append(k, c) : k \in KeysOfLen(n-1), c \in Chars}
BaseKeys == UNION {KeysOfLen(n) : n \in 0..MaxLen}
InsertAt(k, i, c) == SubSeq(k, 1, i-1) \o <<c>> \o SubSeq(k, i, Len(k))
\* keys of <= MaxLen tokens with the root-name token once, at the start of a segment
RKeys == UNION { { InsertAt(k, i, "r") : i \in {j \in 1..(Len(k)+1) : j = 1 \/ k[j-1] = "/"} }
                 : k \in UNION {KeysOfLen(n) : n \in 0..(MaxLen-1)} }
Keys == BaseKeys \cup RKeys

VARIABLES key,      \* the raw key
          s,        \* the string as the pipeline transforms it
          abs,      \* cleaned absolute path as a sequence of segments (after Join)
          stage     \* "raw" | "trimmed" | "replaced" | "stripped" | "joined" | "accepted" | "rejected"

vars == <<key, s, abs, stage>>

-----------------------------------------------------------------------------
RECURSIVE ReplaceDots(_)
ReplaceDots(t) ==
    IF Len(t) = 0 THEN <<>>
    ELSE IF Len(t) >= 2 /\ t[1] = "." /\ t[2] = "." THEN <<"_">> \o ReplaceDots(SubSeq(t, 3, Len(t)))
    ELSE <<t[1]>> \o ReplaceDots(Tail(t))

StripNul(t) == SelectSeq(t, LAMBDA c : c # "0")

\* split on a set of separator characters; keeps empty segments
RECURSIVE SplitOn(_, _)
SplitOn(t, seps) ==
    IF \A i \in 1..Len(t) : t[i] \notin seps THEN <<t>>
    ELSE LET i == CHOOSE j \in 1..Len(t) : t[j] \in seps /\ \A h \in 1..(j-1) : t[h] \notin seps
         IN <<SubSeq(t, 1, i-1)>> \o SplitOn(SubSeq(t, i+1, Len(t)), seps)

\* lexical Clean of an absolute path given as stack ++ segments
RECURSIVE Walk(_, _)
Walk(stack, segs) ==
    IF Len(segs) = 0 THEN stack
    ELSE LET g == Head(segs)
         IN IF g = <<>> \/ g = <<".">> THEN Walk(stack, Tail(segs))
            ELSE IF g = <<".", ".">> THEN Walk(IF Len(stack) = 0 THEN stack ELSE SubSeq(stack, 1, Len(stack)-1), Tail(segs))
            ELSE Walk(Append(stack, g), Tail(segs))

IsPrefix(p, q) == Len(p) <= Len(q) /\ SubSeq(q, 1, Len(p)) = p
Under(a)      == IsPrefix(Base, a)                               \* a lies in the root (or is the root)
RelOf(a)      == SubSeq(a, Len(Base)+1, Len(a))                  \* meaningful when Under(a)
\* strings.HasPrefix(rel, ".."): rel is "../..." when not Under, else its first segment may start with two dots
RelHasDotDotPrefix(a) ==
    \/ ~Under(a)
    \/ /\ Len(RelOf(a)) > 0
       /\ LET f == RelOf(a)[1] IN Len(f) >= 2 /\ f[1] = "." /\ f[2] = "."

HasSub(t, u) == \E i \in 1..(Len(t) - Len(u) + 1) : SubSeq(t, i, i + Len(u) - 1) = u

-----------------------------------------------------------------------------
Init == key \in Keys /\ s = key /\ abs = <<>> /\ stage = "raw"

Trim    == /\ stage = "raw"
           /\ s' = IF Len(s) > 0 /\ s[1] = "/" THEN Tail(s) ELSE s
           /\ stage' = "trimmed" /\ UNCHANGED <<key, abs>>
Replace == /\ stage = "trimmed"
           /\ s' = ReplaceDots(s)
           /\ stage' = "replaced" /\ UNCHANGED <<key, abs>>
Strip   == /\ stage = "replaced"
           /\ s' = StripNul(s)
           /\ stage' = "stripped" /\ UNCHANGED <<key, abs>>
Join    == /\ stage = "stripped"
           /\ abs' = Walk(Base, SplitOn(s, {"/"}))
           /\ stage' = "joined" /\ UNCHANGED <<key, s>>
Check   == /\ stage = "joined"
           /\ stage' = IF RelHasDotDotPrefix(abs) THEN "rejected" ELSE "accepted"
           /\ UNCHANGED <<key, s, abs>>
Done    == stage \in {"accepted", "rejected"} /\ UNCHANGED vars

Next == Trim \/ Replace \/ Strip \/ Join \/ Check \/ Done
Spec == Init /\ [][Next]_vars

-----------------------------------------------------------------------------
Accepted  == stage = "accepted"                      \* validatePath accepts
RootAlias == Accepted /\ abs = Base
ObjAccepted == Accepted /\ (RejectAlias => ~RootAlias)  \* validateObjectPath accepts

\* where the three write operations put their staging file
PartDirInside  == ~RootAlias                   \* "<resolved>.part": a sibling of the root when resolved = root
WriteDirInside == ~RootAlias                   \* CreateTemp(filepath.Dir(resolved)): the parent when resolved = root

\* ValidateManifestPath(key) = nil
ManifestOK ==
    /\ Len(key) > 0
    /\ \A i \in 1..Len(key) : key[i] # "0"
    /\ key[1] \notin {"/", "b"}
    /\ \A i \in 1..Len(SplitOn(key, {"/", "b"})) : SplitOn(key, {"/", "b"})[i] # <<".", ".">>

\* validateSyncPath(key ++ ".parquet") = nil   (the suffix makes the last segment non-empty and adds a leading dot to it)
SyncOK ==
    /\ \A i \in 1..Len(key) : key[i] \notin {"0", "b"}
    /\ Len(key) > 0 /\ key[1] \notin {"/", "."}
    /\ ~HasSub(key, <<".", ".">>) /\ key[Len(key)] # "."
    /\ ~HasSub(key, <<"/", "/">>)

\* validateSpokeID(key) = nil
SpokeOK ==
    /\ Len(key) > 0
    /\ \A i \in 1..Len(key) : key[i] \notin {"0", "b", "/"}
    /\ key[1] # "."

-----------------------------------------------------------------------------
\* (1) the location an accepted key resolves to is the root or below it
ResolvedInside == Accepted => Under(abs)
\* the second line of defence is needed: the sanitiser alone lets ".." through (NUL between two dots)
\* (2) staging locations of keys the object operations accept are inside the root (rejected by TLC when RejectAlias = FALSE)
StagingInside  == ObjAccepted => (PartDirInside /\ WriteDirInside)
\* (3) a key the cluster manifest validator lets through never stages outside the root (idem)
ManifestStagingInside == (ObjAccepted /\ ManifestOK) => PartDirInside
\* a name that only starts with the root's name is not the root: such a sibling is never accepted
SiblingRejected == (Accepted /\ Len(abs) >= 2) => abs[2] = <<"r">>
\* edge-sync keys are never root aliases (the .parquet suffix is a real last segment)
SyncNeverAlias == (Accepted /\ SyncOK) => ~RootAlias

Terminal == stage \in {"accepted", "rejected"}
EmitInv == (Emit /\ Terminal) =>
    PrintT(<<"TRACE", ToJson([key |-> key, acc |-> Accepted, rel |-> IF Accepted THEN RelOf(abs) ELSE <<>>,
                              alias |-> RootAlias, obj |-> ObjAccepted, man |-> ManifestOK, sync |-> SyncOK, spoke |-> SpokeOK])>>)
=============================================================================

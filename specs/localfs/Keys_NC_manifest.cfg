\* NEGATIVE CONTROL: LocalBackend as written before /repo 814856a (root-alias keys accepted by the object operations) -- TLC is expected to REJECT this configuration
SPECIFICATION Spec
CONSTANTS
  MaxLen = 4
  RejectAlias = FALSE
  Emit = FALSE
INVARIANTS ManifestStagingInside
CHECK_DEADLOCK FALSE

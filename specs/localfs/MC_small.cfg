SPECIFICATION Spec
CONSTANTS
  MaxChunks = 2
  Emit = TRUE
INVARIANTS Atomic Publishes FailureKeepsPrior CannotStageKeepsPrior EmitInv
CHECK_DEADLOCK FALSE

SPECIFICATION Spec
CONSTANTS
  MaxChunks = 2
  Emit = TRUE
INVARIANTS Atomic Publishes FailureKeepsPrior EmitInv
CHECK_DEADLOCK FALSE

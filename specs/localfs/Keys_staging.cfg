SPECIFICATION Spec
CONSTANTS
  MaxLen = 4
  Emit = FALSE
INVARIANTS StagingInside
CHECK_DEADLOCK FALSE

SPECIFICATION TraceSpec
CONSTRAINT HW
INVARIANT AtomicInv
POSTCONDITION TraceAccepted
CHECK_DEADLOCK FALSE

------------------------------ MODULE Retention ------------------------------
(***************************************************************************)
(* C11 -- retention only deletes data older than the cutoff.               *)
(*                                                                         *)
(* Implementation-shaped model of internal/api/retention.go:               *)
(*   cutoff       = now - (retention_days + buffer_days) days              *)
(*                  (ExecutePolicy and handleExecute compute it alike)     *)
(*   scope        = getMeasurementsToProcess: the policy's measurement, or *)
(*                  every first path component under "<db>/"               *)
(*   DryRun/Run   = deleteOldFiles per measurement: list "<db>/<m>/",      *)
(*                  per parquet file MAX(time); eligible iff               *)
(*                  maxTime.Before(cutoff); dry run only counts, a real    *)
(*                  run deletes the eligible files (whole files, never     *)
(*                  rows)                                                  *)
(* Data model: a file is [id, db, meas, loc, pts, cnt]: pts = the axis     *)
(* points of its rows, cnt = its number of rows.  The time axis is 1..NP, strictly      *)
(* increasing, with micro-second, hour and day gaps around the middle; the *)
(* cutoff sits exactly ON an axis point `cut`, so a row at point x is      *)
(* older than the cutoff iff x < cut and "max = cutoff" is a first-class   *)
(* case.  A file only holds rows of its own hour (hour files) or day (day  *)
(* files), as arc's partitioning guarantees.  Hour files live under .../YYYY/MM/DD/HH/, compacted day files    *)
(* under .../YYYY/MM/DD/ ; measurement and database names share prefixes   *)
(* (cpu, cpu_total; prod, prod2).  Between two runs a compaction-like      *)
(* relocation may merge the hour files of one measurement into a day file  *)
(* and the clock may advance (the cutoff moves up the axis).               *)
(*                                                                         *)
(* Behaviour grammar (pc):  build* seal  [compact] dry run  [compact]      *)
(*                          [advance]  dry run  end                        *)
(***************************************************************************)
EXTENDS Naturals, Sequences, FiniteSets, TLC, Json

CONSTANTS MaxFiles,   \* number of files in a layout (1..MaxFiles)
          NP,         \* axis points 1..NP (5 or 7)
          NC,         \* how many (db, measurement) combinations files may use (3 or 4)
          NPol,       \* how many policies (2 or 4)
          InitCuts,   \* initial cutoff positions
          Canon,      \* TRUE: files are added in canonical order (BFS symmetry breaking)
          Older,      \* "lt": eligible iff max < cutoff (as written) ; "le": max <= cutoff (a wrong variant)
          Emit

\* offsets from the time origin as [d]ays, [s]econds, micro-seconds [us] (TLC integers are 32 bit)
AxisAll == << [d |-> 0, s |-> 0,     us |-> 0],
              [d |-> 1, s |-> 82800, us |-> 0],          \* middle - 1 h
              [d |-> 1, s |-> 86399, us |-> 999999],     \* middle - 1 us
              [d |-> 2, s |-> 0,     us |-> 0],          \* middle
              [d |-> 2, s |-> 0,     us |-> 1],          \* middle + 1 us
              [d |-> 2, s |-> 3600,  us |-> 0],          \* middle + 1 h
              [d |-> 4, s |-> 0,     us |-> 0] >>
\* partition of each axis point: its calendar day and its clock hour (arc stores a row under the hour of its
\* timestamp; daily compaction keeps it under its day). A file only holds rows of its own partition.
DayAll  == <<1, 2, 2, 3, 3, 3, 4>>
HourAll == <<1, 2, 2, 3, 3, 4, 5>>
AxisOff == (7 - NP) \div 2
DayOf(x)  == DayAll[AxisOff + x]
HourOf(x) == HourAll[AxisOff + x]
Axis    == [i \in 1..NP |-> AxisAll[AxisOff + i]]
Points  == 1..NP

ComboSeq == << <<"prod", "cpu">>, <<"prod", "cpu_total">>, <<"prod2", "cpu">>, <<"prod2", "cpu_total">> >>
PolSeq   == << [db |-> "prod", meas |-> "cpu", ret |-> 1, buf |-> 0],
               [db |-> "prod", meas |-> "*",   ret |-> 3, buf |-> 2],
               [db |-> "prod", meas |-> "cpu", ret |-> 3, buf |-> 2],
               [db |-> "prod", meas |-> "*",   ret |-> 1, buf |-> 0] >>
Locs == <<"hour", "day">>

VARIABLES pol, cut, n, files, nextId, pc, rep, last, hist, files0, cut0

vars == <<pol, cut, n, files, nextId, pc, rep, last, hist, files0, cut0>>

NoStep == [kind |-> "none"]

Init == /\ pol \in {PolSeq[i] : i \in 1..NPol}
        /\ cut \in InitCuts /\ cut0 = cut
        /\ n \in 1..MaxFiles
        /\ files = {} /\ files0 = {} /\ nextId = 1
        /\ pc = "build"
        /\ rep = [files |-> {}, rows |-> 0]
        /\ last = NoStep
        /\ hist = <<>>

-----------------------------------------------------------------------------
Key(ci, li, a, b) == ((ci * 2 + li) * 10 + a) * 10 + b
KeyOf(f) == LET ci == CHOOSE i \in 1..NC : ComboSeq[i] = <<f.db, f.meas>>
                li == IF f.loc = "hour" THEN 1 ELSE 2
                a  == CHOOSE x \in f.pts : \A y \in f.pts : x <= y
                b  == CHOOSE x \in f.pts : \A y \in f.pts : x >= y
            IN Key(ci, li, a, b)

\* File names: a file is called by its ordinal inside its partition directory, so files of one measurement
\* in DIFFERENT partition directories share a base name (arc's names embed a timestamp, but compaction
\* outputs and imports can collide); only the full path identifies a file.
PartOf(loc, x) == IF loc = "hour" THEN HourOf(x) ELSE DayOf(x)
FilePart(f)    == PartOf(f.loc, CHOOSE x \in f.pts : TRUE)
NameIn(db, m, loc, part) ==
    LET S == {g.name : g \in {g \in files : g.db = db /\ g.meas = m /\ g.loc = loc /\ FilePart(g) = part}}
    IN IF S = {} THEN 0 ELSE 1 + (CHOOSE x \in S : \A y \in S : x >= y)

AddFile ==
    /\ pc = "build" /\ Cardinality(files) < n
    /\ \E ci \in 1..NC, li \in 1..2, a \in Points :
         \E b \in a..NP :
           LET f == [id |-> nextId, db |-> ComboSeq[ci][1], meas |-> ComboSeq[ci][2], loc |-> Locs[li], pts |-> {a, b}, cnt |-> Cardinality({a, b}),
                     name |-> NameIn(ComboSeq[ci][1], ComboSeq[ci][2], Locs[li], PartOf(Locs[li], a))]
           IN /\ IF li = 1 THEN HourOf(a) = HourOf(b) ELSE DayOf(a) = DayOf(b)      \* rows stay inside the partition
              /\ Canon => \A g \in files : KeyOf(g) <= Key(ci, li, a, b)
              /\ files' = files \cup {f}
    /\ nextId' = nextId + 1
    /\ UNCHANGED <<pol, cut, n, pc, rep, last, hist, files0, cut0>>

Seal ==
    /\ pc = "build" /\ Cardinality(files) = n
    /\ pc' = "c0" /\ files0' = files
    /\ UNCHANGED <<pol, cut, n, files, nextId, rep, last, hist, cut0>>

-----------------------------------------------------------------------------
InScope(f)  == f.db = pol.db /\ (pol.meas = "*" \/ f.meas = pol.meas)
MaxPt(f)    == CHOOSE x \in f.pts : \A y \in f.pts : x >= y
IsOld(x, c) == IF Older = "lt" THEN x < c ELSE x <= c
Eligible    == {f \in files : InScope(f) /\ IsOld(MaxPt(f), cut)}
RECURSIVE RowCount(_)
RowCount(S) == IF S = {} THEN 0 ELSE LET f == CHOOSE x \in S : TRUE IN f.cnt + RowCount(S \ {f})
Ids(S)      == {f.id : f \in S}

NextPc(p) == CASE p = "c0" -> "dry1" [] p = "dry1" -> "run1" [] p = "run1" -> "c1" [] p = "c1" -> "adv"
               [] p = "adv" -> "dry2" [] p = "dry2" -> "run2" [] p = "run2" -> "end"

\* compaction-like relocation: the hour files of one (db, measurement, day) become one day file
FileDay(f) == DayOf(CHOOSE x \in f.pts : TRUE)
HourFiles(db, m, d) == {f \in files : f.db = db /\ f.meas = m /\ f.loc = "hour" /\ FileDay(f) = d}
Compact ==
    /\ pc \in {"c0", "c1"}
    /\ \E ci \in 1..NC, d \in 1..4 :
         LET db == ComboSeq[ci][1]  m == ComboSeq[ci][2]  src == HourFiles(db, m, d)
             nf == [id |-> nextId, db |-> db, meas |-> m, loc |-> "day", pts |-> UNION {f.pts : f \in src},
                    cnt |-> RowCount(src), name |-> NameIn(db, m, "day", d)]
         IN /\ src # {}
            /\ files' = (files \ src) \cup {nf}
            /\ last' = [kind |-> "compact", cut |-> cut, before |-> files, after |-> files']
            /\ hist' = Append(hist, [a |-> "compact", db |-> db, meas |-> m, src |-> Ids(src), new |-> nf])
    /\ nextId' = nextId + 1
    /\ pc' = NextPc(pc)
    /\ UNCHANGED <<pol, cut, n, rep, files0, cut0>>

SkipCompact ==
    /\ pc \in {"c0", "c1"}
    /\ pc' = NextPc(pc)
    /\ UNCHANGED <<pol, cut, n, files, nextId, rep, last, hist, files0, cut0>>

\* handleExecute with dry_run = true
DryRun ==
    /\ pc \in {"dry1", "dry2"}
    /\ rep' = [files |-> Ids(Eligible), rows |-> RowCount(Eligible)]
    /\ last' = [kind |-> "dry", cut |-> cut, before |-> files, after |-> files]
    /\ hist' = Append(hist, [a |-> "dry", cut |-> cut, del |-> Ids(Eligible), rows |-> RowCount(Eligible)])
    /\ pc' = NextPc(pc)
    /\ UNCHANGED <<pol, cut, n, files, nextId, files0, cut0>>

\* handleExecute with confirm = true / ExecutePolicy (scheduler)
Run ==
    /\ pc \in {"run1", "run2"}
    /\ files' = files \ Eligible
    /\ last' = [kind |-> "run", cut |-> cut, before |-> files, after |-> files',
                deleted |-> [files |-> Ids(Eligible), rows |-> RowCount(Eligible)]]
    /\ hist' = Append(hist, [a |-> "run", cut |-> cut, del |-> Ids(Eligible), rows |-> RowCount(Eligible), remain |-> Ids(files')])
    /\ pc' = NextPc(pc)
    /\ UNCHANGED <<pol, cut, n, nextId, rep, files0, cut0>>

\* the clock moves: the cutoff reaches a later axis point (k = 0: no time passes)
Advance ==
    /\ pc = "adv"
    /\ \E k \in 0..2 :
         /\ cut + k <= NP
         /\ cut' = cut + k
         /\ hist' = IF k = 0 THEN hist ELSE Append(hist, [a |-> "advance", cut |-> cut + k])
    /\ pc' = NextPc(pc)
    /\ UNCHANGED <<pol, n, files, nextId, rep, last, files0, cut0>>

Next == AddFile \/ Seal \/ Compact \/ SkipCompact \/ DryRun \/ Run \/ Advance
Spec == Init /\ [][Next]_vars

-----------------------------------------------------------------------------
\* the property (C11), stated on the last retention step
Fresh(f, c) == \E x \in f.pts : x >= c                       \* has a row at or after the cutoff

NoFreshRowRemoved  == last.kind = "run" => \A f \in last.before : Fresh(f, last.cut) => f \in last.after
NoStaleFileRemains == last.kind = "run" => \A f \in last.after : InScope(f) => Fresh(f, last.cut)
OutOfScopeKept     == last.kind = "run" => \A f \in last.before : ~InScope(f) => f \in last.after
DryRunInert        == last.kind = "dry" => last.after = last.before
DryRunFaithful     == last.kind = "run" => rep = last.deleted      \* the preceding dry run saw the same state
NothingInvented    == last.kind \in {"run", "dry"} => last.after \subseteq last.before
\* the relocation of this model keeps every row (a sanity check of the scenario generator, not of arc)
RowsOf(S)          == UNION {{<<f.db, f.meas, x>> : x \in f.pts} : f \in S}
CompactKeepsRows   == last.kind = "compact" => /\ RowsOf(last.after) = RowsOf(last.before)
                                                /\ RowCount(last.after) = RowCount(last.before)

Safety == NoFreshRowRemoved /\ NoStaleFileRemains /\ OutOfScopeKept /\ DryRunInert /\ DryRunFaithful
          /\ NothingInvented /\ CompactKeepsRows

AsList(S) == LET RECURSIVE L(_)
                 L(T) == IF T = {} THEN <<>> ELSE LET f == CHOOSE x \in T : \A y \in T : x.id <= y.id IN <<f>> \o L(T \ {f})
             IN L(S)

EmitInv ==
    (Emit /\ pc = "end") =>
        PrintT(<<"TRACE", ToJson([pol |-> pol, cut0 |-> cut0, axis |-> Axis, files |-> AsList(files0), steps |-> hist])>>)
=============================================================================

SPECIFICATION Spec
CONSTANTS
  MaxFiles = 5
  NP = 7
  NC = 4
  NPol = 4
  InitCuts = {2,3,4,5,6}
  Canon = FALSE
  Older = "lt"
  Emit = TRUE
INVARIANTS Safety EmitInv
CHECK_DEADLOCK FALSE

SPECIFICATION Spec
CONSTANTS
  MaxFiles = 2
  NP = 5
  NC = 3
  NPol = 2
  InitCuts = {3}
  Canon = TRUE
  Older = "le"
  Emit = FALSE
INVARIANTS Safety
CHECK_DEADLOCK FALSE

SPECIFICATION Spec
CONSTANTS
  MaxFiles = 2
  NP = 7
  NC = 4
  NPol = 4
  InitCuts = {4}
  Canon = TRUE
  Older = "lt"
  Emit = FALSE
INVARIANTS Safety
CHECK_DEADLOCK FALSE

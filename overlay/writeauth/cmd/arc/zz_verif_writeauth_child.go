//go:build verif

package main

// Child entry for the C32 harness: when ARC_VERIF_WRITEAUTH_REPLAY names a job file, replay the
// WAL payloads of every job through the real recovery path (wal.Writer -> wal.Recovery ->
// createWALRecoveryCallback / createColumnarRecoveryCallback -> ArrowBuffer -> flush) and report
// the storage paths written per job.  Only wiring; every decision is taken by arc's own code.

import (
	"bytes"
	"context"
	"encoding/base64"
	"encoding/json"
	"fmt"
	"io"
	"os"
	"path/filepath"
	"strings"
	"sync"

	"github.com/apache/arrow-go/v18/parquet/file"
	"github.com/basekick-labs/arc/internal/config"
	"github.com/basekick-labs/arc/internal/ingest"
	"github.com/basekick-labs/arc/internal/wal"
	"github.com/rs/zerolog"
)

type verifWAJob struct {
	ID       int      `json:"id"`
	Payloads []string `json:"payloads"` // base64 WAL entry payloads in append order
}

type verifWAOut struct {
	ID      int      `json:"id"`
	Paths   []string       `json:"paths"`
	Rows    map[string]int `json:"rows"` // "db/measurement" -> rows of the Parquet files written there
	Entries int      `json:"entries"`
	Err     string   `json:"err,omitempty"`
}

type verifWABackend struct {
	mu     sync.Mutex
	writes []string
	rows   map[string]int
}

func (b *verifWABackend) Write(ctx context.Context, path string, data []byte) error {
	n := 0
	if len(data) > 0 {
		if rd, err := file.NewParquetReader(bytes.NewReader(data)); err == nil {
			n = int(rd.NumRows())
			rd.Close()
		} else {
			n = -1
		}
	}
	key := path
	if seg := strings.Split(path, "/"); len(seg) >= 3 {
		key = seg[0] + "/" + seg[1]
	}
	b.mu.Lock()
	b.writes = append(b.writes, path)
	if b.rows == nil {
		b.rows = map[string]int{}
	}
	b.rows[key] += n
	b.mu.Unlock()
	return nil
}
func (b *verifWABackend) takeRows() map[string]int {
	b.mu.Lock()
	r := b.rows
	b.rows = nil
	b.mu.Unlock()
	return r
}
func (b *verifWABackend) WriteReader(ctx context.Context, path string, r io.Reader, size int64) error {
	_, _ = io.Copy(io.Discard, r)
	return b.Write(ctx, path, nil)
}
func (b *verifWABackend) take() []string {
	b.mu.Lock()
	w := b.writes
	b.writes = nil
	b.mu.Unlock()
	return w
}
func (b *verifWABackend) Read(ctx context.Context, path string) ([]byte, error) {
	return nil, fmt.Errorf("not found")
}
func (b *verifWABackend) ReadTo(ctx context.Context, path string, w io.Writer) error {
	return fmt.Errorf("not found")
}
func (b *verifWABackend) ReadToAt(ctx context.Context, path string, w io.Writer, off int64) error {
	return fmt.Errorf("not found")
}
func (b *verifWABackend) StatFile(ctx context.Context, path string) (int64, error) { return -1, nil }
func (b *verifWABackend) List(ctx context.Context, prefix string) ([]string, error) {
	return nil, nil
}
func (b *verifWABackend) Delete(ctx context.Context, path string) error         { return nil }
func (b *verifWABackend) Exists(ctx context.Context, path string) (bool, error) { return false, nil }
func (b *verifWABackend) Close() error                                          { return nil }
func (b *verifWABackend) Type() string                                          { return "verifmem" }
func (b *verifWABackend) ConfigJSON() string                                    { return "{}" }

func init() {
	jobFile := os.Getenv("ARC_VERIF_WRITEAUTH_REPLAY")
	if jobFile == "" {
		return
	}
	if err := verifWARun(jobFile, os.Getenv("ARC_VERIF_WRITEAUTH_OUT"), os.Getenv("ARC_VERIF_WRITEAUTH_TMP")); err != nil {
		fmt.Fprintln(os.Stderr, "verif writeauth child:", err)
		os.Exit(3)
	}
	os.Exit(0)
}

func verifWARun(jobFile, outFile, tmp string) error {
	raw, err := os.ReadFile(jobFile)
	if err != nil {
		return err
	}
	var jobs []verifWAJob
	if err := json.Unmarshal(raw, &jobs); err != nil {
		return err
	}
	logger := zerolog.Nop()
	store := &verifWABackend{}
	buf := ingest.NewArrowBuffer(&config.IngestConfig{MaxBufferSize: 1000000, MaxBufferAgeMS: 3600000,
		Compression: "snappy", FlushWorkers: 1, FlushQueueSize: 8, ShardCount: 2}, store, logger)
	rowCB := createWALRecoveryCallback(buf, logger)
	colCB := createColumnarRecoveryCallback(buf, logger)
	outs := make([]verifWAOut, 0, len(jobs))
	for _, j := range jobs {
		o := verifWAOut{ID: j.ID}
		dir := filepath.Join(tmp, fmt.Sprintf("wal_%d", j.ID))
		err := func() error {
			w, err := wal.NewWriter(&wal.WriterConfig{WALDir: dir, SyncMode: wal.SyncModeAsync, Logger: logger})
			if err != nil {
				return err
			}
			for _, p := range j.Payloads {
				b, err := base64.StdEncoding.DecodeString(p)
				if err != nil {
					return err
				}
				if err := w.AppendRaw(b); err != nil {
					return err
				}
			}
			if err := w.Close(); err != nil {
				return err
			}
			st, err := wal.NewRecovery(dir, logger).RecoverWithOptions(context.Background(), rowCB,
				&wal.RecoveryOptions{ColumnarCallback: colCB})
			if err != nil {
				return err
			}
			if st != nil {
				o.Entries = int(st.RecoveredEntries)
			}
			return buf.FlushAll(context.Background())
		}()
		if err != nil {
			o.Err = err.Error()
			_ = buf.FlushAll(context.Background())
		}
		o.Rows = store.takeRows()
		o.Paths = store.take()
		_ = os.RemoveAll(dir)
		outs = append(outs, o)
	}
	f, err := os.Create(outFile)
	if err != nil {
		return err
	}
	defer f.Close()
	return json.NewEncoder(f).Encode(outs)
}

//go:build verif

package cluster

import (
	"github.com/basekick-labs/arc/internal/cluster/replication"
	"github.com/basekick-labs/arc/internal/ingest"
	"github.com/rs/zerolog"
)

// VerifReplicationIngestHandler exposes Coordinator.buildReplicationIngestHandler (the function
// a reader node applies replicated WAL entries with) for the C32 harness.  No logic of its own.
func VerifReplicationIngestHandler(buf *ingest.ArrowBuffer) replication.IngestHandler {
	c := &Coordinator{logger: zerolog.Nop()}
	c.ingestBuffer = buf
	return c.buildReplicationIngestHandler()
}

//go:build verif

package replication

import "context"

// VerifApplyEntry exposes Receiver.applyEntry (the step that hands a verified replicated entry
// to the local WAL and the ingest handler) for the C32 harness.  No logic of its own.
func (r *Receiver) VerifApplyEntry(ctx context.Context, entry *ReplicateEntry) error {
	if r.ctx == nil {
		r.ctx = ctx
	}
	return r.applyEntry(entry)
}

//go:build verif

package cluster

import (
	"net"

	"github.com/basekick-labs/arc/internal/cluster/protocol"
	"github.com/basekick-labs/arc/internal/cluster/security"
)

// Export shims for the C26 driver: the two raw-TCP validate-then-track handlers and the
// nonce cache exactly as Start() constructed it.

func VerifHandleReplicateSync(c *Coordinator, conn net.Conn, req *protocol.ReplicateSync) {
	c.handleReplicateSync(conn, req)
}

func VerifHandleForwardApply(c *Coordinator, conn net.Conn, req *protocol.ForwardApplyRequest) {
	c.handleForwardApply(conn, req)
}

func VerifNonceCache(c *Coordinator) *security.NonceCache { return c.nonceCache }

//go:build verif

package license

// VerifNonceLicensedClient returns a network-free client holding an active licence with the
// given features (C26 driver: cluster.NewCoordinator requires FeatureClustering).
func VerifNonceLicensedClient(features ...string) *Client {
	return &Client{
		offline: true,
		license: &License{Tier: TierEnterprise, Status: "active", Features: features},
		stopCh:  make(chan struct{}),
	}
}

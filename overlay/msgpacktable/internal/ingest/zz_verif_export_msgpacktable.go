//go:build verif

package ingest

// VerifConvertColumnsToTyped exposes the generic typing chokepoint (convertColumnsToTyped) to the
// C02 driver so that a generic Decode result can be brought to the same form as a typed one
// without flushing a Parquet file per mutated payload. Read-only: no behaviour is changed.
func (b *ArrowBuffer) VerifConvertColumnsToTyped(measurement string, columns map[string][]interface{}) (*TypedColumnBatch, int, error) {
	return b.convertColumnsToTyped(measurement, columns)
}

//go:build verif

package raft

import (
	"encoding/json"
	"sort"
)

// VerifDump is a canonical, order-independent dump of every primary map and every secondary
// index of a ClusterFSM (C22/C23 checks). Each slice holds one JSON object per map entry,
// sorted; inner index maps that are empty contribute nothing (an empty bucket and a missing
// bucket answer every lookup identically).
type VerifDump struct {
	Nodes     []string `json:"nodes"`
	Primary   string   `json:"primary"`
	Compactor string   `json:"compactor"`
	Files     []string `json:"files"`
	FDB       []string `json:"fdb"`
	Tokens    []string `json:"tokens"`
	TPre      []string `json:"tpre"`
	TName     []string `json:"tname"`
	Orgs      []string `json:"orgs"`
	OName     []string `json:"oname"`
	Teams     []string `json:"teams"`
	TOrg      []string `json:"torg"`
	Roles     []string `json:"roles"`
	RTeam     []string `json:"rteam"`
	MPerms    []string `json:"mperms"`
	MRole     []string `json:"mrole"`
	Mems      []string `json:"mems"`
	MPair     []string `json:"mpair"`
	MTok      []string `json:"mtok"`
	MTeam     []string `json:"mteam"`
}

func verifJS(v interface{}) string {
	b, err := json.Marshal(v)
	if err != nil {
		return "!marshal:" + err.Error()
	}
	return string(b)
}

type verifKV map[string]interface{}

// VerifDumpState returns the canonical dump. Map keys are dumped next to the entry so that a
// key/entry mismatch is visible.
func (f *ClusterFSM) VerifDumpState() *VerifDump {
	f.mu.RLock()
	defer f.mu.RUnlock()
	d := &VerifDump{Primary: f.primaryWriterID, Compactor: f.activeCompactorID}
	for k, v := range f.nodes {
		d.Nodes = append(d.Nodes, verifJS(verifKV{"key": k, "e": v}))
	}
	for k, v := range f.files {
		d.Files = append(d.Files, verifJS(verifKV{"key": k, "e": v}))
	}
	for db, set := range f.filesByDB {
		for p := range set {
			d.FDB = append(d.FDB, verifJS(verifKV{"db": db, "path": p}))
		}
	}
	for k, v := range f.tokens {
		d.Tokens = append(d.Tokens, verifJS(verifKV{"key": k, "e": v}))
	}
	for p, ids := range f.tokensByPrefix {
		for _, id := range ids {
			d.TPre = append(d.TPre, verifJS(verifKV{"prefix": p, "id": id}))
		}
	}
	for n, id := range f.tokensByName {
		d.TName = append(d.TName, verifJS(verifKV{"name": n, "id": id}))
	}
	for k, v := range f.organizations {
		d.Orgs = append(d.Orgs, verifJS(verifKV{"key": k, "e": v}))
	}
	for n, id := range f.organizationsByName {
		d.OName = append(d.OName, verifJS(verifKV{"name": n, "id": id}))
	}
	for k, v := range f.teams {
		d.Teams = append(d.Teams, verifJS(verifKV{"key": k, "e": v}))
	}
	for org, m := range f.teamsByOrg {
		for n, id := range m {
			d.TOrg = append(d.TOrg, verifJS(verifKV{"org": org, "name": n, "id": id}))
		}
	}
	for k, v := range f.roles {
		d.Roles = append(d.Roles, verifJS(verifKV{"key": k, "e": v}))
	}
	for team, m := range f.rolesByTeam {
		for id := range m {
			d.RTeam = append(d.RTeam, verifJS(verifKV{"team": team, "id": id}))
		}
	}
	for k, v := range f.measurementPermissions {
		d.MPerms = append(d.MPerms, verifJS(verifKV{"key": k, "e": v}))
	}
	for role, m := range f.measurementPermsByRole {
		for id := range m {
			d.MRole = append(d.MRole, verifJS(verifKV{"role": role, "id": id}))
		}
	}
	for k, v := range f.tokenMemberships {
		d.Mems = append(d.Mems, verifJS(verifKV{"key": k, "e": v}))
	}
	for tok, m := range f.tokenMembershipsByPair {
		for team, id := range m {
			d.MPair = append(d.MPair, verifJS(verifKV{"token": tok, "team": team, "id": id}))
		}
	}
	for tok, m := range f.tokenMembershipsByToken {
		for id := range m {
			d.MTok = append(d.MTok, verifJS(verifKV{"token": tok, "id": id}))
		}
	}
	for team, m := range f.tokenMembershipsByTeam {
		for id := range m {
			d.MTeam = append(d.MTeam, verifJS(verifKV{"team": team, "id": id}))
		}
	}
	for _, s := range []*[]string{&d.Nodes, &d.Files, &d.FDB, &d.Tokens, &d.TPre, &d.TName, &d.Orgs, &d.OName,
		&d.Teams, &d.TOrg, &d.Roles, &d.RTeam, &d.MPerms, &d.MRole, &d.Mems, &d.MPair, &d.MTok, &d.MTeam} {
		sort.Strings(*s)
	}
	return d
}

//go:build verif

package replication

// C24 export shim: the coordinator builds the sender with the default checkpoint interval
// (1024); the property quantifies over checkpoint intervals, so the harness overrides it before
// any reader is connected.
func (s *Sender) VerifSetCheckpointInterval(n int) {
	if n > 0 {
		s.cfg.CheckpointInterval = n
	}
}

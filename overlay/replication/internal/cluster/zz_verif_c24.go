//go:build verif

package cluster

// C24 export shim (added by go build -overlay, never part of /repo): builds the smallest
// Coordinator on which the REAL StartReplication (sender construction + WAL hook wiring) and the
// REAL handleReplicateSync / AcceptReplicationConnection (handshake authentication, two-phase
// reader activation) can run, without Raft, registry or listeners.

import (
	"net"

	"github.com/basekick-labs/arc/internal/cluster/protocol"
	"github.com/basekick-labs/arc/internal/cluster/replication"
	"github.com/basekick-labs/arc/internal/config"
	"github.com/basekick-labs/arc/internal/wal"
	"github.com/rs/zerolog"
)

// VerifNewReplicationWriter returns a writer-role coordinator with replication enabled.
func VerifNewReplicationWriter(clusterName, secret, nodeID string, bufSize int, w *wal.Writer, logger zerolog.Logger) *Coordinator {
	return &Coordinator{
		cfg: &config.ClusterConfig{
			Enabled:               true,
			NodeID:                nodeID,
			Role:                  "writer",
			ClusterName:           clusterName,
			SharedSecret:          secret,
			ReplicationEnabled:    true,
			ReplicationBufferSize: bufSize,
		},
		localNode: NewNode(nodeID, nodeID, RoleWriter, clusterName),
		walWriter: w,
		logger:    logger,
	}
}

// VerifHandleReplicateSync runs the real handshake handler on conn.
func (c *Coordinator) VerifHandleReplicateSync(conn net.Conn, req *protocol.ReplicateSync) {
	c.handleReplicateSync(conn, req)
}

// VerifSender exposes the sender created by StartReplication.
func (c *Coordinator) VerifSender() *replication.Sender {
	c.mu.RLock()
	defer c.mu.RUnlock()
	return c.replicationSender
}

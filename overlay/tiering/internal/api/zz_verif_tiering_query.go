//go:build verif

package api

import (
	"context"

	"github.com/basekick-labs/arc/internal/pruning"
	"github.com/basekick-labs/arc/internal/storage"
	"github.com/basekick-labs/arc/internal/tiering"
	"github.com/rs/zerolog"
)

// VerifTieredFromClause returns the FROM clause the query layer builds for
// <database>.<measurement> when a tiering manager is installed: the real
// buildReadParquetExprForMeasurement -> buildMultiTierReadParquet path.
func VerifTieredFromClause(hot storage.Backend, tm *tiering.Manager, logger zerolog.Logger, database, measurement, sql string) string {
	pr := pruning.NewPartitionPruner(logger)
	pr.SetStorageBackend(hot)
	h := &QueryHandler{storage: hot, logger: logger, pruner: pr}
	h.SetTieringManager(tm)
	return h.buildReadParquetExprForMeasurement(context.Background(), database, measurement, sql, "FROM")
}

//go:build verif

package tiering

import "context"

// VerifReconcile runs the migrator's orphan reconciliation on its own (it is otherwise only
// reachable through RunMigrationCycle).
func (m *Manager) VerifReconcile(ctx context.Context) (found, deleted, errors int) {
	return m.migrator.ReconcileOrphanedFiles(ctx)
}

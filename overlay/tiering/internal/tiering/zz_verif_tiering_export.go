//go:build verif

package tiering

import "context"

// VerifReconcile runs the migrator's orphan reconciliation on its own (it is otherwise only
// reachable through RunMigrationCycle).
func (m *Manager) VerifReconcile(ctx context.Context) (found, deleted, errors int) {
	return m.migrator.ReconcileOrphanedFiles(ctx)
}

// VerifOverlappedCycle is RunMigrationCycle with the candidate list worked through twice before
// reconciliation -- what two overlapping cycles (scheduler + manual trigger, neither takes a
// lock) or a retry holding a stale list do: scan, FindCandidates once, MigrateBatch(list),
// MigrateBatch(same list), ReconcileOrphanedFiles.  Returns the number of errors the pieces report.
func (m *Manager) VerifOverlappedCycle(ctx context.Context) int {
	errs := 0
	if _, err := m.ScanAndRegisterFiles(ctx); err != nil {
		errs++
	}
	cands, err := m.migrator.FindCandidates(ctx, TierHot, TierCold)
	if err != nil {
		return errs + 1
	}
	for pass := 0; pass < 2; pass++ {
		_, e := m.migrator.MigrateBatch(ctx, cands)
		errs += e
	}
	_, _, e := m.migrator.ReconcileOrphanedFiles(ctx)
	return errs + e
}

//go:build verif

package license

// VerifTieringClient returns a Client holding an active licence with the tiered-storage
// feature, so tiering.NewManager (which insists on a *license.Client) can be constructed
// without a licence server.
func VerifTieringClient() *Client {
	return &Client{
		offline: true,
		license: &License{Tier: TierEnterprise, Status: "active", Features: []string{FeatureTieredStorage}},
		stopCh:  make(chan struct{}),
	}
}

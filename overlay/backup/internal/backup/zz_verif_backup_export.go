//go:build verif

package backup

import (
	"github.com/basekick-labs/arc/internal/storage"
	"github.com/rs/zerolog"
)

// VerifNewManager builds a Manager exactly like NewManager does, except that the
// backup destination is the backend handed in (NewManager always creates its own
// LocalBackend, which leaves no seam for a fault-injecting proxy).
func VerifNewManager(data, backupStore storage.Backend, logger zerolog.Logger) *Manager {
	return &Manager{
		dataStorage:   data,
		backupStorage: backupStore,
		logger:        logger.With().Str("component", "backup-manager").Logger(),
	}
}

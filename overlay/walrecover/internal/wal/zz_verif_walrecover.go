//go:build verif

package wal

// VerifWRLock / VerifWRUnlock let the C05 child hold the writer mutex across one HTTP write, so
// that "the entry is still in the asynchronous queue when the caller's request-body buffer is
// reused" is a deterministic schedule (the writer goroutine blocks in writeEntry), not a race.
func (w *Writer) VerifWRLock()   { w.mu.Lock() }
func (w *Writer) VerifWRUnlock() { w.mu.Unlock() }

//go:build verif

package edgesync

// Export shims for the C08 driver (harness/cmd/localfs): the edge-sync receive path's
// validators and path builders, unchanged.

func VerifLocalfsValidateSyncPath(p string) error  { return validateSyncPath(p) }
func VerifLocalfsValidateSpokeID(s string) error   { return validateSpokeID(s) }
func VerifLocalfsStagingPathFor(s, p string) string { return stagingPathFor(s, p) }

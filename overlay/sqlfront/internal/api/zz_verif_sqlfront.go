//go:build verif

package api

// Export shims for the sqlfront verification driver (C14/C15). Added through
// `go build -overlay`; nothing here changes behaviour.

// VerifStripSQLComments is stripSQLComments.
func VerifStripSQLComments(sql string, hasComments bool) string {
	return stripSQLComments(sql, hasComments)
}

// VerifScanSQLFeatures is scanSQLFeatures.
func VerifScanSQLFeatures(sql string) (hasQuotes, hasDash, hasBlock bool) {
	f := scanSQLFeatures(sql)
	return f.hasQuotes, f.hasDashComment, f.hasBlockComment
}

// VerifBackticksToDoubleQuotes is backticksToDoubleQuotes.
func VerifBackticksToDoubleQuotes(sql string) string { return backticksToDoubleQuotes(sql) }

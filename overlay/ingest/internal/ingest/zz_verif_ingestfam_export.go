//go:build verif

package ingest

// Observation shims for the C03/C07 driver (harness/cmd/ingest). Read-only with respect to
// the property: they are called only after Close() returned.

func verifIDs(records []interface{}) []int64 {
	var out []int64
	for _, r := range records {
		if tcb, ok := r.(*TypedColumnBatch); ok && tcb != nil {
			if ids, ok := tcb.Data["id"].([]int64); ok {
				out = append(out, ids...)
			}
		}
	}
	return out
}

// VerifAbandonedQueue empties the flush queue and returns the "id" column of every task that
// was still queued (i.e. that no worker ever took).
func (b *ArrowBuffer) VerifAbandonedQueue() [][]int64 {
	var out [][]int64
	for {
		select {
		case t := <-b.flushQueue:
			out = append(out, verifIDs(t.records))
			if t.cancel != nil {
				t.cancel()
			}
		default:
			return out
		}
	}
}

// VerifBuffered returns the "id" column of everything still held in the shard buffers.
func (b *ArrowBuffer) VerifBuffered() []int64 {
	var out []int64
	for _, s := range b.shards {
		s.mu.RLock()
		for _, recs := range s.buffers {
			out = append(out, verifIDs(recs)...)
		}
		s.mu.RUnlock()
	}
	return out
}

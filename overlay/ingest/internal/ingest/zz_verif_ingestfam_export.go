//go:build verif

package ingest

// Observation shims for the C03/C07 driver (harness/cmd/ingest). Read-only with respect to
// the property: they are called only after Close() returned.

func verifIDs(records []interface{}) []int64 {
	var out []int64
	for _, r := range records {
		if tcb, ok := r.(*TypedColumnBatch); ok && tcb != nil {
			if ids, ok := tcb.Data["id"].([]int64); ok {
				out = append(out, ids...)
			}
		}
	}
	return out
}

// VerifAbandonedQueue empties the flush queue and returns the "id" column of every task that
// was still queued (i.e. that no worker ever took).
func (b *ArrowBuffer) VerifAbandonedQueue() [][]int64 {
	var out [][]int64
	for {
		select {
		case t := <-b.flushQueue:
			out = append(out, verifIDs(t.records))
			if t.cancel != nil {
				t.cancel()
			}
		default:
			return out
		}
	}
}

// VerifBuffered returns the "id" column of everything still held in the shard buffers.
func (b *ArrowBuffer) VerifBuffered() []int64 {
	var out []int64
	for _, s := range b.shards {
		s.mu.RLock()
		for _, recs := range s.buffers {
			out = append(out, verifIDs(recs)...)
		}
		s.mu.RUnlock()
	}
	return out
}

// VerifPeekQueue returns the "id" column of every task currently in the flush queue without
// removing anything: each task is taken and put straight back (the channel has room for it,
// it was just taken out). Called by the driver right before Close()/Shutdown while no writer is
// running; a worker that takes a task concurrently only makes the snapshot smaller.
func (b *ArrowBuffer) VerifPeekQueue() [][]int64 {
	var out [][]int64
	n := len(b.flushQueue)
	for i := 0; i < n; i++ {
		select {
		case t := <-b.flushQueue:
			out = append(out, verifIDs(t.records))
			select {
			case b.flushQueue <- t:
			default:
				// cannot happen without a concurrent writer; do not lose the task
				go func(t flushTask) { b.flushQueue <- t }(t)
			}
		default:
			return out
		}
	}
	return out
}

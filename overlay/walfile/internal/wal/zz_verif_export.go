//go:build verif

package wal

// VerifLock/VerifUnlock let the C06 driver hold the writer mutex while it appends and then
// reuses its own payload buffers, so that "entry still queued when the caller's buffer is
// reused" is a deterministic schedule instead of a race (callers such as the HTTP ingest path
// hand the writer a request-body slice that is recycled after the call returns).
func (w *Writer) VerifLock()   { w.mu.Lock() }
func (w *Writer) VerifUnlock() { w.mu.Unlock() }

// VerifBreakFile closes the current WAL file handle (call with VerifLock held): the next entry's write
// fails exactly like a write on a bad handle, which drives writeEntry's failure path (rotate, then
// re-write the entry on the new file) deterministically.
func (w *Writer) VerifBreakFile() { _ = w.currentFile.Close() }

//go:build verif

// Package verifc09 is the C09 observation/kill gate. It exists only in verification builds
// (added through `go build -overlay`, never present in /repo). tools/overlaygen inserts
// verifGate("...") calls at the entry of LocalBackend.Write / WriteReader / Delete and
// immediately before the rename that publishes a WriteReader upload; this package installs
// the function behind those gates:
//
//   - every gate first snapshots the partition directory and _compaction_state/ and appends the
//     difference to <obs>/events.ndjson (so each storage mutation is recorded, in order, by
//     whoever performs the next one; new data files are copied into <obs>/links so that
//     their rows can still be read after a later compaction deleted them);
//   - in the compaction subprocess ("child") the gate counts the mutations of this job and
//     SIGKILLs the process at the entry of the k-th one when <obs>/plan.json says so.
//
// The same code runs in the harness (parent = real compaction.Manager, child = real
// compaction.RunSubprocessJob) and, for the thorough leg, in the overlaid arc binary
// (cmd/arc/zz_verif_c09.go) when it is started as `arc compact --job-stdin`.
package verifc09

import (
	"encoding/json"
	"io"
	"os"
	"path/filepath"
	"sort"
	"strconv"
	"strings"
	"sync"
	"syscall"
	"time"

	"github.com/basekick-labs/arc/internal/compaction"
	"github.com/basekick-labs/arc/internal/storage"
)

type entry struct {
	Ino   uint64 `json:"ino"`
	Size  int64  `json:"size"`
	Mtime int64  `json:"mtime"`
}

type snapshot struct {
	Files     map[string]entry `json:"files"`
	Manifests map[string]bool  `json:"manifests"`
}

var (
	mu     sync.Mutex
	obsDir string
	root   string
	part   string
	role   string
	jobNo  int
	gateN  int
	killAt int
)

// Configure points the gate at one scenario (parent side) and exports it to subprocesses.
func Configure(obs, storageRoot, partition string) {
	mu.Lock()
	defer mu.Unlock()
	obsDir, root, part, role = obs, storageRoot, partition, "parent"
	os.Setenv("C09_OBS", obs)
	os.Setenv("C09_ROOT", storageRoot)
	os.Setenv("C09_PART", partition)
	os.MkdirAll(filepath.Join(obs, "links"), 0o755)
	storage.VerifGate = gate
}

// InstallChild is called at start-up of a compaction subprocess.
func InstallChild() {
	obsDir = os.Getenv("C09_OBS")
	if obsDir == "" {
		return
	}
	root, part, role = os.Getenv("C09_ROOT"), os.Getenv("C09_PART"), "child"
	jobNo = bump(filepath.Join(obsDir, "jobseq"))
	plan := map[string]int{}
	if b, err := os.ReadFile(filepath.Join(obsDir, "plan.json")); err == nil {
		json.Unmarshal(b, &plan)
	}
	killAt = plan[strconv.Itoa(jobNo)]
	emit(map[string]interface{}{"ev": "jobstart", "job": jobNo, "kill_at": killAt})
	storage.VerifGate = gate
	// Controlled clock for Job (overlaygen -clock on internal/compaction/job.go): all jobs of one cycle run inside the
	// SAME wall-clock second, as they do on a fast machine, with strictly increasing nanoseconds (job number * 1ms +
	// 1us per clock read). Nothing may rely on two sibling jobs landing in different seconds.
	if b, err := os.ReadFile(filepath.Join(obsDir, "clock")); err == nil {
		if base, err := strconv.ParseInt(strings.TrimSpace(string(b)), 10, 64); err == nil {
			var calls int64
			var cmu sync.Mutex
			job := int64(jobNo)
			compaction.VerifNow = func() time.Time {
				cmu.Lock()
				defer cmu.Unlock()
				calls++
				return time.Unix(0, base+job*1_000_000+calls*1_000)
			}
		}
	}
}

func bump(path string) int {
	n := 0
	if b, err := os.ReadFile(path); err == nil {
		n, _ = strconv.Atoi(strings.TrimSpace(string(b)))
	}
	n++
	os.WriteFile(path, []byte(strconv.Itoa(n)), 0o644)
	return n
}

func emit(ev map[string]interface{}) {
	f, err := os.OpenFile(filepath.Join(obsDir, "events.ndjson"), os.O_APPEND|os.O_CREATE|os.O_WRONLY, 0o644)
	if err != nil {
		return
	}
	b, _ := json.Marshal(ev)
	f.Write(append(b, '\n'))
	f.Close()
}

// Mark appends a boundary event (cycle start/end) after recording pending differences.
func Mark(ev map[string]interface{}) {
	mu.Lock()
	defer mu.Unlock()
	observe("parent:mark")
	emit(ev)
}

func gate(name string) {
	mu.Lock()
	defer mu.Unlock()
	if obsDir == "" {
		return
	}
	who := role
	if role == "child" {
		who = "job" + strconv.Itoa(jobNo)
	}
	observe(who + ":" + name)
	if role != "child" {
		return
	}
	gateN++
	emit(map[string]interface{}{"ev": "gate", "job": jobNo, "n": gateN, "name": name})
	if killAt > 0 && gateN == killAt {
		emit(map[string]interface{}{"ev": "kill", "job": jobNo, "n": gateN, "name": name})
		syscall.Kill(os.Getpid(), syscall.SIGKILL)
		for {
			time.Sleep(time.Hour)
		}
	}
}

func take() snapshot {
	s := snapshot{Files: map[string]entry{}, Manifests: map[string]bool{}}
	if des, err := os.ReadDir(filepath.Join(root, part)); err == nil {
		for _, de := range des {
			if de.IsDir() || strings.HasPrefix(de.Name(), ".") {
				continue
			}
			fi, err := de.Info()
			if err != nil {
				continue
			}
			e := entry{Size: fi.Size(), Mtime: fi.ModTime().UnixNano()}
			if st, ok := fi.Sys().(*syscall.Stat_t); ok {
				e.Ino = st.Ino
			}
			s.Files[de.Name()] = e
		}
	}
	base := filepath.Join(root, "_compaction_state")
	filepath.WalkDir(base, func(p string, d os.DirEntry, err error) error {
		if err == nil && !d.IsDir() && strings.HasSuffix(p, ".json") {
			rel, _ := filepath.Rel(base, p)
			s.Manifests[rel] = true
		}
		return nil
	})
	return s
}

func observe(by string) {
	prev := snapshot{Files: map[string]entry{}, Manifests: map[string]bool{}}
	sp := filepath.Join(obsDir, "state.json")
	if b, err := os.ReadFile(sp); err == nil {
		json.Unmarshal(b, &prev)
	}
	cur := take()
	var puts, dels, mputs, mdels []string
	for n, e := range cur.Files {
		if pe, ok := prev.Files[n]; !ok || pe != e {
			puts = append(puts, n)
			if ok {
				dels = append(dels, n) // replaced in place: old content is gone
			}
		}
	}
	for n := range prev.Files {
		if _, ok := cur.Files[n]; !ok {
			dels = append(dels, n)
		}
	}
	for n := range cur.Manifests {
		if !prev.Manifests[n] {
			mputs = append(mputs, n)
		}
	}
	for n := range prev.Manifests {
		if !cur.Manifests[n] {
			mdels = append(mdels, n)
		}
	}
	if len(puts)+len(dels)+len(mputs)+len(mdels) == 0 {
		return
	}
	sort.Strings(puts)
	sort.Strings(dels)
	sort.Strings(mputs)
	sort.Strings(mdels)
	n := len(puts) + len(dels)
	// a replaced file: delete of the old content first, then everything that appeared, then the rest of the deletes
	replaced := map[string]bool{}
	for _, f := range puts {
		if _, ok := prev.Files[f]; ok {
			replaced[f] = true
			emit(map[string]interface{}{"ev": "del", "f": f, "by": by, "batch": n, "replaced": true})
		}
	}
	for _, f := range mputs {
		emit(map[string]interface{}{"ev": "mput", "m": f, "by": by})
	}
	for _, f := range puts {
		e := cur.Files[f]
		// a private COPY, never a hard link: a staging file that is later truncated/rewritten in place (same name
		// reused by another job) must neither change what was observed here nor be touched by the observer
		link := filepath.Join(obsDir, "links", strconv.FormatUint(e.Ino, 10)+"_"+strconv.FormatInt(e.Mtime, 10)+"_"+f)
		copyFile(filepath.Join(root, part, f), link)
		emit(map[string]interface{}{"ev": "put", "f": f, "ino": e.Ino, "size": e.Size, "link": link, "by": by, "batch": n})
	}
	for _, f := range dels {
		if !replaced[f] {
			emit(map[string]interface{}{"ev": "del", "f": f, "by": by, "batch": n})
		}
	}
	for _, f := range mdels {
		emit(map[string]interface{}{"ev": "mdel", "m": f, "by": by})
	}
	b, _ := json.Marshal(cur)
	os.WriteFile(sp, b, 0o644)
}

func copyFile(src, dst string) {
	in, err := os.Open(src)
	if err != nil {
		return
	}
	defer in.Close()
	out, err := os.Create(dst)
	if err != nil {
		return
	}
	io.Copy(out, in)
	out.Close()
}

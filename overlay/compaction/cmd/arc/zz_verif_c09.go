//go:build verif

package main

import (
	"os"

	"github.com/basekick-labs/arc/internal/verifc09"
)

// When the overlaid arc binary is started as the real compaction subprocess
// (`arc compact --job-stdin`) by the C09 harness, install the observation/kill gate.
func init() {
	if len(os.Args) >= 2 && os.Args[1] == "compact" && os.Getenv("C09_OBS") != "" {
		verifc09.InstallChild()
	}
}

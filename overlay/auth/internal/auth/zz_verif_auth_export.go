//go:build verif

package auth

// VerifSweep runs the real periodic cache janitor once (it normally runs on a one-minute
// ticker): expired token-data and permission entries are removed from the two RBAC caches.
// Added by the verification overlay only (C20: the two cache levels have independent lifetimes).
func (rm *RBACManager) VerifSweep() { rm.cleanupExpiredCache() }

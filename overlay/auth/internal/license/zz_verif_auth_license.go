//go:build verif

package license

// VerifAuthNewClient returns an offline client holding a preset licence (no network, no
// cache, no periodic validation), so that RBAC -- which the baseline suite never enables --
// can be exercised by the auth family drivers (C20). Added by the verification overlay only.
func VerifAuthNewClient(l *License) *Client {
	return &Client{offline: true, license: l, stopCh: make(chan struct{})}
}

//go:build verif && verif_sched

package scheduler

// VerifTick runs the body of one scheduler tick for cqID exactly as runJob does after the
// ticker fired (licence and cluster gates are not part of C29): executeJob with a job record.
// It lets the C29 driver go through cq_scheduler.go without waiting on a time.Ticker.
func (s *CQScheduler) VerifTick(cqID int64, name string) {
	job := &cqJob{cqID: cqID, cqName: name, stopCh: make(chan struct{})}
	s.executeJob(job)
}

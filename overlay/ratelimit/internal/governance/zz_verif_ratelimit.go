//go:build verif

package governance

import "time"

// Export shims for the C28 driver: the shape of the limiter the Manager really created for a
// token (window, slot width, ring length) so that the TLA+ model is instantiated with the
// constants of the working tree.
type VerifLimiterShape struct {
	Window, Slot time.Duration
	Ring         int
}

func shapeOf(l *slidingWindowCounter) VerifLimiterShape {
	return VerifLimiterShape{Window: l.windowSize, Slot: l.slotDuration, Ring: len(l.slots)}
}

func VerifMinuteLimiterShape(m *Manager, tokenID int64) (VerifLimiterShape, bool) {
	m.minuteLimitersMu.RLock()
	defer m.minuteLimitersMu.RUnlock()
	l, ok := m.minuteLimiters[tokenID]
	if !ok {
		return VerifLimiterShape{}, false
	}
	return shapeOf(l), true
}

func VerifHourLimiterShape(m *Manager, tokenID int64) (VerifLimiterShape, bool) {
	m.hourLimitersMu.RLock()
	defer m.hourLimitersMu.RUnlock()
	l, ok := m.hourLimiters[tokenID]
	if !ok {
		return VerifLimiterShape{}, false
	}
	return shapeOf(l), true
}

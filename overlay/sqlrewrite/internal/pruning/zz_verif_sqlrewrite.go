//go:build verif

package pruning

// VerifSetEnabled switches the pruner off (OptimizeTablePath then returns the unpruned glob:
// the "same query with pruning disabled" of property C18).
func (p *PartitionPruner) VerifSetEnabled(on bool) { p.enabled = on }

//go:build verif

package api

import (
	"context"

	"github.com/basekick-labs/arc/internal/pruning"
)

// Export shims for the sqlrewrite verification family (C16/C17/C18). Nothing here changes
// behaviour: every function forwards to the unexported function of the working tree.

func VerifRewriteTimeBucket(sql string) string { return rewriteTimeBucket(sql) }
func VerifRewriteDateTrunc(sql string) string  { return rewriteDateTrunc(sql) }

// VerifTransform is what executeQuery calls to obtain the SQL it runs.
func (h *QueryHandler) VerifTransform(ctx context.Context, sql, headerDB string) (string, bool, []string) {
	out, par, _ := h.getTransformedSQLForParallel(ctx, sql, headerDB)
	if par != nil {
		return out, true, par.Paths
	}
	return out, false, nil
}

// VerifTransformUncached bypasses the transform cache (convert* directly).
func (h *QueryHandler) VerifTransformUncached(ctx context.Context, sql, headerDB string) string {
	if headerDB != "" {
		return h.convertSQLToStoragePathsWithHeaderDB(ctx, sql, headerDB)
	}
	return h.convertSQLToStoragePaths(ctx, sql)
}

func (h *QueryHandler) VerifPruner() *pruning.PartitionPruner { return h.pruner }

// VerifHasCrossDatabaseSyntax: executeQuery rejects db.table syntax when the x-arc-database header is set.
func VerifHasCrossDatabaseSyntax(sql string) bool { return hasCrossDatabaseSyntax(sql) }

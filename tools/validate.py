#!/usr/bin/env python3-vt
"""Validate MANIFEST.json and every evidence file against the harness schemas."""
import glob, json, sys, jsonschema
ok = True
try:
    jsonschema.validate(json.load(open('/verif/MANIFEST.json')), json.load(open('/root/.vp/MANIFEST.schema.json')))
    print("MANIFEST.json valid")
except Exception as e:
    ok = False; print("MANIFEST.json INVALID:", e)
es = json.load(open('/root/.vp/EVIDENCE.schema.json'))
for f in sorted(glob.glob('/verif/evidence/*.json')):
    try:
        jsonschema.validate(json.load(open(f)), es); print(f, "valid")
    except Exception as e:
        ok = False; print(f, "INVALID:", str(e)[:300])
sys.exit(0 if ok else 1)

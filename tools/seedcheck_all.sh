#!/bin/sh
# tools/seedcheck_all.sh [parallel] : re-run every seeded change against its property's quick check; summary at the end
par=${1:-4}
cd "$(dirname "$0")/.." || exit 2
ls seeded | xargs -P "$par" -I{} sh -c 'tools/seedcheck.sh {} quick >/tmp/seedall-{}.log 2>&1; echo "{} $(tail -20 /tmp/seedall-{}.log | grep -o "rc=[0-9]*" | head -1)"'
python3 - <<'PY'
import json,glob
tot=c=0; miss=[]
for f in sorted(glob.glob('/verif/seeded/*/result.json')):
    r=json.load(open(f)); tot+=1
    if r.get('caught'): c+=1
    else: miss.append(r['seeded'])
print("seeded changes caught by quick tier: %d/%d; not caught: %s" % (c,tot,miss))
PY

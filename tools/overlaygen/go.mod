module overlaygen

go 1.23

// overlaygen generates `go build -overlay` replacement files from /repo's *current working
// tree* (DESIGN.md section 3): syntactic clock substitution and schedule-gate insertion.
// Nothing is written under /repo. Output (last stdout line): JSON map
// repo-relative path -> generated file, to be merged into the overlay by tools/vlib.py.
//
//	overlaygen -repo /repo -out DIR \
//	   -clock internal/governance/sliding_window.go,internal/governance/quota_tracker.go \
//	   -gate 'internal/auth/auth.go|VerifyToken|after-call:am.db.Query|verify.afterQuery'
//
// -clock: time.Now() -> verifNow(), time.Since(x) -> verifNow().Sub(x), time.Until(x) ->
//
//	(x).Sub(verifNow()); adds zz_verif_clock.go to the package with
//	`var VerifNow func() time.Time = time.Now` (the harness assigns it).
//
// -gate FILE|FUNC|ANCHOR|NAME (repeatable): inserts `verifGate("NAME")` in function/method FUNC
//
//	of FILE. ANCHOR = after-call:<expr> | before-call:<expr> (the first statement, in any
//	block of FUNC, containing a call whose callee prints as <expr>) | entry (first
//	statement). Adds zz_verif_gate.go with `var VerifGate func(string)` (nil = no-op).
//	If the anchor is not found the file is left alone and the gate is listed under
//	"missing_gates" in the JSON (key "_missing_gates", value a ;-joined list).
package main

import (
	"bytes"
	"encoding/json"
	"flag"
	"fmt"
	"go/ast"
	"go/parser"
	"go/printer"
	"go/token"
	"os"
	"path/filepath"
	"strings"
)

type multi []string

func (m *multi) String() string     { return strings.Join(*m, ";") }
func (m *multi) Set(s string) error { *m = append(*m, s); return nil }

func exprString(fset *token.FileSet, e ast.Expr) string {
	var b bytes.Buffer
	printer.Fprint(&b, fset, e)
	return b.String()
}

func main() {
	repo := flag.String("repo", "/repo", "")
	out := flag.String("out", "", "")
	clock := flag.String("clock", "", "comma separated repo-relative files")
	var gates multi
	flag.Var(&gates, "gate", "FILE|FUNC|ANCHOR|NAME")
	flag.Parse()
	if *out == "" {
		fmt.Fprintln(os.Stderr, "need -out")
		os.Exit(2)
	}
	result := map[string]string{}
	var missing []string

	type fileState struct {
		fset *token.FileSet
		f    *ast.File
		rel  string
	}
	files := map[string]*fileState{}
	load := func(rel string) (*fileState, error) {
		if fs, ok := files[rel]; ok {
			return fs, nil
		}
		fset := token.NewFileSet()
		f, err := parser.ParseFile(fset, filepath.Join(*repo, rel), nil, parser.ParseComments)
		if err != nil {
			return nil, err
		}
		fs := &fileState{fset, f, rel}
		files[rel] = fs
		return fs, nil
	}
	clockPkgs := map[string]string{} // dir -> package name
	gatePkgs := map[string]string{}

	if *clock != "" {
		for _, rel := range strings.Split(*clock, ",") {
			rel = strings.TrimSpace(rel)
			if rel == "" {
				continue
			}
			fs, err := load(rel)
			if err != nil {
				fmt.Fprintln(os.Stderr, "overlaygen:", err)
				os.Exit(2)
			}
			n := 0
			ast.Inspect(fs.f, func(nd ast.Node) bool {
				call, ok := nd.(*ast.CallExpr)
				if !ok {
					return true
				}
				sel, ok := call.Fun.(*ast.SelectorExpr)
				if !ok {
					return true
				}
				id, ok := sel.X.(*ast.Ident)
				if !ok || id.Name != "time" {
					return true
				}
				switch sel.Sel.Name {
				case "Now":
					if len(call.Args) == 0 {
						call.Fun = ast.NewIdent("verifNow")
						n++
					}
				case "Since":
					if len(call.Args) == 1 {
						arg := call.Args[0]
						call.Fun = &ast.SelectorExpr{X: &ast.CallExpr{Fun: ast.NewIdent("verifNow")}, Sel: ast.NewIdent("Sub")}
						call.Args = []ast.Expr{arg}
						n++
					}
				case "Until":
					if len(call.Args) == 1 {
						arg := call.Args[0]
						call.Fun = &ast.SelectorExpr{X: &ast.ParenExpr{X: arg}, Sel: ast.NewIdent("Sub")}
						call.Args = []ast.Expr{&ast.CallExpr{Fun: ast.NewIdent("verifNow")}}
						n++
					}
				}
				return true
			})
			clockPkgs[filepath.Dir(rel)] = fs.f.Name.Name
			fmt.Fprintf(os.Stderr, "overlaygen: %s: %d clock reads rewritten\n", rel, n)
		}
	}

	for _, g := range gates {
		parts := strings.SplitN(g, "|", 4)
		if len(parts) != 4 {
			fmt.Fprintln(os.Stderr, "overlaygen: bad -gate", g)
			os.Exit(2)
		}
		rel, fn, anchor, name := parts[0], parts[1], parts[2], parts[3]
		fs, err := load(rel)
		if err != nil {
			missing = append(missing, name)
			continue
		}
		gateStmt := func() ast.Stmt {
			return &ast.ExprStmt{X: &ast.CallExpr{Fun: ast.NewIdent("verifGate"),
				Args: []ast.Expr{&ast.BasicLit{Kind: token.STRING, Value: fmt.Sprintf("%q", name)}}}}
		}
		done := false
		for _, d := range fs.f.Decls {
			fd, ok := d.(*ast.FuncDecl)
			if !ok || fd.Name.Name != fn || fd.Body == nil {
				continue
			}
			if anchor == "entry" {
				fd.Body.List = append([]ast.Stmt{gateStmt()}, fd.Body.List...)
				done = true
				break
			}
			mode, want, _ := strings.Cut(anchor, ":")
			containsCall := func(s ast.Stmt) bool {
				found := false
				ast.Inspect(s, func(nd ast.Node) bool {
					if _, isLit := nd.(*ast.FuncLit); isLit {
						return false
					}
					if c, ok := nd.(*ast.CallExpr); ok && exprString(fs.fset, c.Fun) == want {
						found = true
					}
					return !found
				})
				return found
			}
			var visit func(list *[]ast.Stmt) bool
			visitStmt := func(s ast.Stmt) bool { return false }
			visit = func(list *[]ast.Stmt) bool {
				for i, s := range *list {
					if !containsCall(s) {
						continue
					}
					// prefer the innermost block that contains the call
					if visitStmt(s) {
						return true
					}
					nl := make([]ast.Stmt, 0, len(*list)+1)
					if mode == "before-call" {
						nl = append(nl, (*list)[:i]...)
						nl = append(nl, gateStmt())
						nl = append(nl, (*list)[i:]...)
					} else {
						nl = append(nl, (*list)[:i+1]...)
						nl = append(nl, gateStmt())
						nl = append(nl, (*list)[i+1:]...)
					}
					*list = nl
					return true
				}
				return false
			}
			visitStmt = func(s ast.Stmt) bool {
				switch t := s.(type) {
				case *ast.BlockStmt:
					return visit(&t.List)
				case *ast.IfStmt:
					if t.Init != nil && containsCall(t.Init) {
						return false
					}
					if visit(&t.Body.List) {
						return true
					}
					if t.Else != nil {
						return visitStmt(t.Else)
					}
				case *ast.ForStmt:
					return visit(&t.Body.List)
				case *ast.RangeStmt:
					return visit(&t.Body.List)
				case *ast.SwitchStmt:
					for _, c := range t.Body.List {
						if cc, ok := c.(*ast.CaseClause); ok && visit(&cc.Body) {
							return true
						}
					}
				case *ast.SelectStmt:
					for _, c := range t.Body.List {
						if cc, ok := c.(*ast.CommClause); ok && visit(&cc.Body) {
							return true
						}
					}
				}
				return false
			}
			if visit(&fd.Body.List) {
				done = true
			}
			break
		}
		if done {
			gatePkgs[filepath.Dir(rel)] = fs.f.Name.Name
			fs.f.Comments = nil // positions of comments are no longer reliable after insertion
		} else {
			missing = append(missing, name)
		}
	}

	for rel, fs := range files {
		touchedClock := clockPkgs[filepath.Dir(rel)] != ""
		_ = touchedClock
		var b bytes.Buffer
		if err := (&printer.Config{Mode: printer.UseSpaces | printer.TabIndent, Tabwidth: 8}).Fprint(&b, fs.fset, fs.f); err != nil {
			fmt.Fprintln(os.Stderr, "overlaygen:", err)
			os.Exit(2)
		}
		// keep the time import used even if every use was rewritten
		for _, imp := range fs.f.Imports {
			if imp.Path.Value == `"time"` && imp.Name == nil {
				b.WriteString("\nvar _ = time.Now\n")
			}
		}
		dst := filepath.Join(*out, strings.ReplaceAll(rel, "/", "__"))
		if err := os.WriteFile(dst, b.Bytes(), 0o644); err != nil {
			fmt.Fprintln(os.Stderr, "overlaygen:", err)
			os.Exit(2)
		}
		result[rel] = dst
	}
	for dir, pkg := range clockPkgs {
		dst := filepath.Join(*out, strings.ReplaceAll(dir, "/", "__")+"__zz_verif_clock.go")
		src := fmt.Sprintf("//go:build verif\n\npackage %s\n\nimport \"time\"\n\n// VerifNow is the clock read by the files rewritten by overlaygen; the harness assigns it.\nvar VerifNow func() time.Time = time.Now\n\nfunc verifNow() time.Time { return VerifNow() }\n", pkg)
		os.WriteFile(dst, []byte(src), 0o644)
		result[filepath.Join(dir, "zz_verif_clock.go")] = dst
	}
	for dir, pkg := range gatePkgs {
		dst := filepath.Join(*out, strings.ReplaceAll(dir, "/", "__")+"__zz_verif_gate.go")
		src := fmt.Sprintf("//go:build verif\n\npackage %s\n\n// VerifGate, when set by the harness, is called at every inserted gate; it may block.\nvar VerifGate func(name string)\n\nfunc verifGate(name string) {\n\tif g := VerifGate; g != nil {\n\t\tg(name)\n\t}\n}\n", pkg)
		os.WriteFile(dst, []byte(src), 0o644)
		result[filepath.Join(dir, "zz_verif_gate.go")] = dst
	}
	if len(missing) > 0 {
		result["_missing_gates"] = strings.Join(missing, ";")
	}
	b, _ := json.Marshal(result)
	fmt.Println(string(b))
}

#!/usr/bin/env python3
"""Compare a `go test -json` output file with /root/.vp/BASELINE.json stable_pass: list stable tests that did not pass."""
import json, sys
base = set(json.load(open('/root/.vp/BASELINE.json'))['stable_pass'])
res = {}
for line in open(sys.argv[1], errors='replace'):
    try:
        e = json.loads(line)
    except Exception:
        continue
    if e.get('Action') in ('pass', 'fail', 'skip') and e.get('Test'):
        res[e['Package'] + '::' + e['Test']] = e['Action']
bad = sorted(t for t in base if res.get(t) != 'pass')
print("stable_pass=%d passed=%d not-passing=%d" % (len(base), len(base) - len(bad), len(bad)))
for t in bad[:60]:
    print("  ", res.get(t, 'MISSING'), t)
newfail = sorted(t for t, a in res.items() if a == 'fail' and t not in base)
print("failing tests outside stable set:", newfail[:20])

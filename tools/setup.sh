#!/bin/sh
# Run once after a fresh restore, offline. Builds nothing that the checks do not rebuild
# themselves; it only warms the Go build cache so that the quick tier stays quick.
cd "$(dirname "$0")/.." || exit 1
export GOFLAGS=-mod=mod GOPROXY=off
unset GOSUMDB
java -version >/dev/null 2>&1 || { echo "java missing"; exit 1; }
python3 -c 'import json' || exit 1
tmp=$(mktemp -d)
cp -r harness "$tmp/harness" && cp /repo/go.sum "$tmp/harness/go.sum"
( cd "$tmp/harness" && for d in cmd/*/; do
    tags=verif
    [ -f "$d/.tags" ] && tags=$(cat "$d/.tags")
    go build -tags "$tags" -o /dev/null "./$d" >/dev/null 2>&1 || echo "warm-up build of $d failed (checks build with their overlay; ignored)"
  done )
rm -rf "$tmp"
echo "setup done"

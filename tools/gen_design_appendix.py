#!/usr/bin/env python3
"""Regenerate DESIGN.md sections 11.2-11.4 (index of checks, findings, seeded changes) from the
per-property fragments. Development-time tool; everything after the marker line is replaced."""
import glob, json, os, re
V = os.path.dirname(os.path.dirname(os.path.abspath(__file__)))
MARK = "<!-- GENERATED BELOW (tools/gen_design_appendix.py): do not edit by hand -->"
props = [json.loads(l) for l in open(os.path.join(V, "properties.jsonl"))]
man = json.load(open(os.path.join(V, "MANIFEST.json")))
claimed = {c["property_id"]: c for c in man["checks"]}
na = {n["property_id"]: n["reason"] for n in man.get("not_applicable", [])}
kf = {}
for f in glob.glob(os.path.join(V, "known_findings.d", "*.json")):
    for k in json.load(open(f)):
        kf.setdefault(k["property"], []).append(k)
seeded = {}
for d in sorted(glob.glob(os.path.join(V, "seeded", "*"))):
    m = os.path.join(d, "meta.json")
    if not os.path.exists(m):
        continue
    meta = json.load(open(m))
    r = os.path.join(d, "result.json")
    res = json.load(open(r)) if os.path.exists(r) else None
    seeded.setdefault(meta["property"], []).append((os.path.basename(d), meta, res))

out = [MARK, "", "### 11.2 Index of checks", "",
       "| id | family / engine | technique (deciding method) | open findings | fixed | seeded changes caught | as-built notes |",
       "|---|---|---|---|---|---|---|"]
for p in props:
    pid = p["id"]
    if pid in claimed:
        c = claimed[pid]
        ks = kf.get(pid, [])
        o = sum(1 for k in ks if k["status"] == "open")
        fx = sum(1 for k in ks if k["status"] == "fixed")
        ss = seeded.get(pid, [])
        caught = sum(1 for _, _, r in ss if r and r.get("caught"))
        out.append("| %s | %s | %s | %d | %d | %s | docs/asbuilt/%s.md |" % (
            pid, c.get("engine", ""), c.get("technique", "").replace("|", "/"), o, fx,
            ("%d/%d" % (caught, len(ss))) if ss else "-", pid))
    else:
        out.append("| %s | not claimed | %s | | | | |" % (pid, na.get(pid, "").replace("|", "/")[:160]))
out += ["", "### 11.3 Findings (genuine defects reproduced on the real code)", "",
        "`fixed` = repaired by the named `fix:` commit in /repo (the check passes on the repaired tree, prints no KNOWN-FINDING "
        "for it, and reports VIOLATION again when the commit is reverted); `open` = recorded, printed as KNOWN-FINDING on every run "
        "that reproduces it. Failing inputs/schedules are in the per-property notes and in `evidence/replays/<id>/known_*.json`.", ""]
for p in props:
    pid = p["id"]
    ks = kf.get(pid, [])
    if not ks:
        continue
    out.append("**%s — %s**" % (pid, p["title"]))
    for k in ks:
        what = re.sub(r"\s+", " ", k.get("what", ""))[:420]
        out.append("- `%s` — **%s**%s: %s" % (k["signature"], k["status"], (" (" + k["commit"] + ")") if k.get("commit") else "", what))
    out.append("")
out += ["### 11.4 Seeded changes (independently written property-breaking patches) and which checks catch them", "",
        "Each was written by a fresh sub-agent that saw only the property text and a scratch worktree, confirmed by the main agent "
        "(builds, existing tests of the touched packages pass, demonstration fails with / passes without), and stored under "
        "`seeded/<id>/`. `tools/seedcheck.sh <id>` applies it to a scratch worktree and runs the property's quick check against it.", "",
        "| seeded id | property | what it does / what it needs | caught when first tried | caught by quick tier now | violation signatures |",
        "|---|---|---|---|---|---|"]
_tot = sum(len(v) for v in seeded.values())
_first = sum(1 for v in seeded.values() for _, m, _r in v if m.get("first_run", {}).get("caught"))
_now = sum(1 for v in seeded.values() for _, _m, r in v if r and r.get("caught"))
out.insert(len(out) - 2, "Totals: %d seeded changes (three rounds; later rounds were told the earlier mechanisms and asked for different ones); "
           "%d were caught by the quick tier as it stood when they were first tried, %d are caught by the current quick tier. Every miss was "
           "answered by extending the specification (new input class, action, fault kind or sequence dimension) — see the per-property notes." % (_tot, _first, _now))
out.insert(len(out) - 2, "")
for pid in sorted(seeded):
    for sid, meta, res in seeded[pid]:
        s = re.sub(r"\s+", " ", meta.get("summary", ""))[:260].replace("|", "/")
        n = re.sub(r"\s+", " ", meta.get("needs", ""))[:200].replace("|", "/")
        if res is None:
            c, sg = "not run yet", ""
        else:
            c = "yes" if res.get("caught") else "**no**"
            sg = "; ".join(res.get("violation_signatures", [])[:3]).replace("|", "/")[:240]
        fr = meta.get("first_run", {})
        f1 = "yes" if fr.get("caught") else ("no (exit %s)" % fr.get("check_exit") if fr else "?")
        out.append("| %s | %s | %s — needs: %s | %s | %s | %s |" % (sid, pid, s, n, f1, c, sg))
out.append("")
import subprocess
log = subprocess.run(["git", "-C", "/repo", "log", "--reverse", "--format=%h %s", "f51f9d7..HEAD"], capture_output=True, text=True).stdout.strip().splitlines()
out += ["### 11.5 `fix:` commits made in /repo (one per repaired defect, unguarded, existing suite passes)", ""]
for l in log:
    out.append("- `%s` %s" % (l.split(" ", 1)[0], l.split(" ", 1)[1]))
out.append("")
p = os.path.join(V, "DESIGN.md")
s = open(p).read()
i = s.find(MARK)
if i >= 0:
    s = s[:i]
s = s.rstrip("\n") + "\n\n" + "\n".join(out) + "\n"
open(p, "w").write(s)
print("DESIGN.md appendix regenerated: %d claimed, %d with findings, %d seeded" % (len(claimed), len(kf), sum(len(v) for v in seeded.values())))

#!/bin/sh
# tools/quiet.sh Cxx [tier] [seeds...] : run a check on the unchanged tree with several seeds; print rc per seed.
p=$1; tier=${2:-quick}; shift; shift 2>/dev/null
seeds=${*:-1 2 3 7 42}
cd "$(dirname "$0")/.." || exit 2
bad=0
for s in $seeds; do
  out=$(VERIF_SEED=$s bin/check "$p" --tier "$tier" 2>&1); rc=$?
  echo "$p tier=$tier seed=$s rc=$rc $(echo "$out" | grep -c '^VIOLATION') violations, $(echo "$out" | grep -c '^KNOWN-FINDING') known, $(echo "$out" | grep -c '^SPEC-DRIFT') drift; $(echo "$out" | tail -1)"
  [ $rc -ne 0 ] && { bad=1; echo "$out" | tail -30; }
done
exit $bad

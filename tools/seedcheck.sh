#!/bin/sh
# tools/seedcheck.sh <seeded-id> [tier] : apply /verif/seeded/<id>/patch.diff to a scratch worktree of /repo,
# run the check of the property it breaks against it (VERIF_REPO), expect exit 1. Removes the worktree.
id=$1; tier=${2:-quick}
cd "$(dirname "$0")/.." || exit 2
d=seeded/$id
prop=$(python3 -c "import json;print(json.load(open('$d/meta.json'))['property'])")
wt=$(mktemp -d /tmp/seedwt-XXXXXX); rmdir "$wt"
git -C /repo worktree add --detach "$wt" HEAD -q || exit 2
if ! git -C "$wt" apply "$PWD/$d/patch.diff"; then echo "patch does not apply"; git -C /repo worktree remove --force "$wt"; exit 2; fi
VERIF_EVIDENCE_DIR=/tmp/seed-evidence-$id VERIF_REPO=$wt bin/check "$prop" --tier "$tier" > "/tmp/seedcheck-$id.log" 2>&1; rc=$?
git -C /repo worktree remove --force "$wt"; git -C /repo worktree prune
echo "seeded $id property=$prop tier=$tier rc=$rc  $(grep -c '^VIOLATION' /tmp/seedcheck-$id.log) violation lines  (log /tmp/seedcheck-$id.log)"
grep -A1 '^VIOLATION' "/tmp/seedcheck-$id.log" | head -8
python3 - "$id" "$prop" "$tier" "$rc" "/tmp/seedcheck-$id.log" <<'PY'
import json,sys,re,subprocess,time
id_,prop,tier,rc,log=sys.argv[1:6]
sigs=re.findall(r"^  signature: (.*)$", open(log,errors="replace").read(), re.M)
head=subprocess.run(["git","-C","/verif","rev-parse","--short","HEAD"],capture_output=True,text=True).stdout.strip()
repo=subprocess.run(["git","-C","/repo","rev-parse","--short","HEAD"],capture_output=True,text=True).stdout.strip()
json.dump({"seeded":id_,"property":prop,"tier":tier,"check_exit":int(rc),"caught":int(rc)==1,"violation_signatures":sigs[:12],
           "verif_commit":head,"repo_commit":repo,"when":time.strftime("%Y-%m-%dT%H:%M:%SZ",time.gmtime())},
          open("/verif/seeded/%s/result.json"%id_,"w"),indent=1)
PY
[ $rc -eq 1 ] && exit 0 || exit 1

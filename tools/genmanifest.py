#!/usr/bin/env python3
"""Regenerate MANIFEST.json and known_findings.json from per-property fragments
(checks/meta/Cxx.json, checks/meta/not_applicable.json, known_findings.d/Cxx.json).
Run at development time only -- never by a check."""
import json, os, glob
V = os.path.dirname(os.path.dirname(os.path.abspath(__file__)))
props = [json.loads(l)["id"] for l in open(os.path.join(V, "properties.jsonl"))]
na = {}
f = os.path.join(V, "checks", "meta", "not_applicable.json")
if os.path.exists(f):
    na = json.load(open(f))
checks, not_app, engines = [], [], {}
for pid in props:
    m = os.path.join(V, "checks", "meta", pid + ".json")
    c = os.path.join(V, "checks", pid.lower() + ".py")
    if os.path.exists(m) and os.path.exists(c) and pid not in na:
        meta = json.load(open(m))
        e = {"property_id": pid,
             "quick_cmd": "bin/check %s --tier quick" % pid,
             "thorough_cmd": "bin/check %s --tier thorough" % pid,
             "evidence_file": "/verif/evidence/%s.json" % pid,
             "replay_cmd_template": "bin/check %s --replay {path}" % pid}
        e.update(meta)
        checks.append(e)
        if meta.get("engine"):
            engines.setdefault(meta["engine"], []).append(pid)
    else:
        not_app.append({"property_id": pid, "reason": na.get(pid, "check not built yet in this round (DESIGN.md section 10 gives the construction order); not claimed until its check is sensitive and quiet")})
man = {
 "version": 1,
 "setup_cmd": "sh tools/setup.sh",
 "hooks": {"guard": "verif",
           "enable": "go build -tags verif -overlay <generated at check time from /repo's working tree by tools/vlib.py + tools/overlaygen>; no hook is committed to /repo",
           "baseline_off_cmd": "cd /repo && GOFLAGS=-mod=mod go test -vet=off -count=1 -timeout 25m ./...",
           "source_commits": [], "add_only": True},
 "engines": [{"name": k, "path": "/verif/harness/cmd/" + k, "serves_properties": v,
              "kind_free_text": "Go replay/trace driver bound to TLA+ specs under /verif/specs via tools/vlib.py (TLC)"} for k, v in sorted(engines.items())],
 "checks": checks,
 "not_applicable": not_app,
 "notes": "All checks: bin/check <id> --tier quick|thorough; exit 0 held / 1 VIOLATION / 2 infrastructure failure. Specs in /verif/specs, drivers in /verif/harness, shared runner tools/vlib.py. See DESIGN.md."
}
json.dump(man, open(os.path.join(V, "MANIFEST.json"), "w"), indent=1)
kf = []
for p in sorted(glob.glob(os.path.join(V, "known_findings.d", "*.json"))):
    kf.extend(json.load(open(p)))
json.dump({"findings": kf}, open(os.path.join(V, "known_findings.json"), "w"), indent=1)
print("checks:", [c["property_id"] for c in checks], "not_applicable:", len(not_app), "findings:", len(kf))

#!/bin/sh
# tools/runmany.sh <parallel> <tier> C01 C02 ... : run checks, logs in /tmp/runs/<id>.<tier>.log, one summary line each
par=$1; tier=$2; shift 2
mkdir -p /tmp/runs
cd "$(dirname "$0")/.." || exit 2
printf '%s\n' "$@" | xargs -P "$par" -I{} sh -c 'bin/check {} --tier '"$tier"' > /tmp/runs/{}.'"$tier"'.log 2>&1; echo "{} rc=$? viol=$(grep -c "^VIOLATION" /tmp/runs/{}.'"$tier"'.log) known=$(grep -c "^KNOWN-FINDING" /tmp/runs/{}.'"$tier"'.log) notrepro=$(grep -c "^NOTE: .*not reproduced" /tmp/runs/{}.'"$tier"'.log) drift=$(grep -c "^SPEC-DRIFT" /tmp/runs/{}.'"$tier"'.log) $(tail -1 /tmp/runs/{}.'"$tier"'.log | grep -o "wall=.*")"'

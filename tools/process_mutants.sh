#!/bin/sh
# tools/process_mutants.sh Cxx [n] : confirm /tmp/mut-Cxx-out/m1..mn, store as seeded/Cxx-sK, run the check against each
p=$1; n=${2:-2}; pre=${3:-mut}
cd "$(dirname "$0")/.." || exit 2
base=$(ls -d seeded/$p-m* 2>/dev/null | wc -l)
for k in $(seq 1 $n); do
  id=$p-m$((base + k))
  [ -f /tmp/$pre-$p-out/m$k.diff ] || { echo "no m$k for $p"; continue; }
  tools/confirm_mutant.sh /tmp/$pre-$p-out $k $id || continue
  tools/seedcheck.sh $id quick
done
git -C /repo worktree remove --force /tmp/$pre-$p 2>/dev/null

#!/bin/sh
# tools/confirm_mutant.sh <outdir> <k> <seeded-id>
# Confirms a sub-agent's change m<k> independently in a fresh scratch worktree: applies, builds ./..., runs the
# existing tests of the touched packages, runs the demo with the change (must FAIL) and without (must PASS);
# on success stores it as /verif/seeded/<seeded-id>/{patch.diff,demo/,meta.json}.
out=$1; k=$2; id=$3
export GOFLAGS=-mod=mod GOPROXY=off; unset GOSUMDB
j=$out/m$k.json
wt=$(mktemp -d /tmp/confwt-XXXXXX); rmdir "$wt"
git -C /repo worktree add --detach "$wt" HEAD -q || exit 2
cleanup() { git -C /repo worktree remove --force "$wt" 2>/dev/null; git -C /repo worktree prune; }
git -C "$wt" apply "$out/m$k.diff" || { echo "CONFIRM $id: patch does not apply"; cleanup; exit 1; }
pkgs=$(git -C "$wt" diff --name-only | grep '\.go$' | xargs -n1 dirname | sort -u | sed 's|^|./|' | tr '\n' ' ')
demo_pkg=$(python3 -c "import json;print(json.load(open('$j'))['demo_pkg'])")
demo_cmd=$(python3 -c "
import json,re
c=json.load(open('$j'))['demo_cmd']
i=c.find('go test')
print(c[i:] if i>0 else c)")
( cd "$wt" && go build ./... ) > /tmp/confirm-$id.log 2>&1 || { echo "CONFIRM $id: build fails"; tail -5 /tmp/confirm-$id.log; cleanup; exit 1; }
# two timing tests of the repository are flaky under machine load on the ORIGINAL tree too; retry before judging
( cd "$wt" && { go test -vet=off -count=1 -timeout 20m $pkgs || go test -vet=off -count=1 -timeout 20m $pkgs || go test -vet=off -count=1 -timeout 20m $pkgs; } ) >> /tmp/confirm-$id.log 2>&1 || { echo "CONFIRM $id: existing tests of touched packages FAIL with the change"; tail -15 /tmp/confirm-$id.log; cleanup; exit 1; }
cp "$out"/m${k}_demo/*_test.go "$wt/$demo_pkg/" 2>/dev/null
( cd "$wt" && sh -c "$demo_cmd" ) >> /tmp/confirm-$id.log 2>&1 && { echo "CONFIRM $id: demo PASSES with the change (should fail)"; cleanup; exit 1; }
git -C "$wt" apply -R "$out/m$k.diff" || { echo "CONFIRM $id: cannot revert"; cleanup; exit 1; }
( cd "$wt" && sh -c "$demo_cmd" ) >> /tmp/confirm-$id.log 2>&1 || { echo "CONFIRM $id: demo FAILS on the clean tree"; tail -15 /tmp/confirm-$id.log; cleanup; exit 1; }
cleanup
d=/verif/seeded/$id; mkdir -p "$d/demo"
cp "$out/m$k.diff" "$d/patch.diff"; cp -r "$out"/m${k}_demo/* "$d/demo/"
python3 - "$j" "$d/meta.json" "$pkgs" <<PY
import json,sys
m=json.load(open(sys.argv[1]))
m["confirmed_by_main_agent"]={"build":"go build ./... ok with change","existing_tests":"go test -vet=off -count=1 "+sys.argv[3].strip()+" pass with change","demo":"fails with change, passes on clean tree","demo_cmd":m.get("demo_cmd")}
json.dump(m,open(sys.argv[2],"w"),indent=1)
PY
echo "CONFIRM $id: OK (stored in $d)"

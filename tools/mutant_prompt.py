#!/usr/bin/env python3
"""Print the prompt for a fresh 'seeded change' sub-agent: property text + scratch worktree only."""
import json, sys
pid = sys.argv[1]; wt = sys.argv[2]; n = sys.argv[3] if len(sys.argv) > 3 else "2"
p = [json.loads(l) for l in open('/verif/properties.jsonl') if json.loads(l)['id'] == pid][0]
import glob, os, re
prev = []
for d in sorted(glob.glob('/verif/seeded/%s-m*' % pid)):
    try:
        m = json.load(open(os.path.join(d, 'meta.json')))
        prev.append("  - " + re.sub(r"\s+", " ", m.get("summary", ""))[:300])
    except Exception:
        pass
prevtxt = ""
if prev:
    prevtxt = "\nOther people have already proposed the following changes for this property; yours must use DIFFERENT mechanisms and preferably different code sites and different parts of the property statement/quantifier (read the statement again: which clauses are not touched by the list below?):\n" + "\n".join(prev) + "\n"
print(f"""You are helping to evaluate a verification tool for the Go time-series database Basekick-Labs/arc. You have your own scratch git worktree of the repository at {wt} (detached HEAD of the pinned commit). Work ONLY inside {wt} and {wt}-out (create it). Do not read or touch /verif or /repo.

Here is a semantic property that arc is supposed to satisfy:

  id: {p['id']}
  title: {p['title']}
  statement: {p['statement']}
  quantified over: {p['quantifier']['text']}
  code it is anchored in: {', '.join(p['anchors']['files'])}

{prevtxt}
TASK: produce {n} DIFFERENT realistic changes to arc's non-test source code, each of which BREAKS this property while the repository still compiles and its existing tests still pass (run at least `go build ./...` and `go test -vet=off -count=1` for every package you touched and for packages that obviously depend on the touched behaviour; env: `export GOFLAGS=-mod=mod GOPROXY=off; unset GOSUMDB`). The changes should look like plausible refactors/optimisations/bug-fixes-gone-wrong a maintainer could merge, NOT sabotage that ordinary use would expose at once: each must need something specific to manifest — a particular interleaving, a crash or fault at a particular point, a multi-step sequence of operations, an unusual input, or two cooperating sites that each look fine alone. Make the {n} changes differ in mechanism (different code site or different way of breaking the property). Do not change or delete existing tests; do not add build tags; keep each change small (typically < 40 changed lines).

For each change k = 1..{n} deliver in {wt}-out/:
  m<k>.diff     — `git diff` of the change against HEAD (apply one change at a time: reset the worktree with `git checkout -- . && git clean -fdq` between them),
  m<k>_demo/    — a demonstration that FAILS with the change applied and PASSES without it: preferably a Go test file to be copied into a named package directory of the repository (say which, in m<k>.json) and run with `go test -vet=off -count=1 -run <Name> ./<pkg>/`, or a small main program; it must be deterministic (no flaky timing),
  (in m<k>.json give demo_cmd as just the `go test ...` command; the evaluator copies the demo file into demo_pkg itself)
  m<k>.json     — {{"property": "{p['id']}", "summary": "...what the change does...", "needs": "...what it needs in order to manifest...", "demo_pkg": "internal/...", "demo_files": ["..."], "demo_cmd": "go test ...", "tests_run": ["..."]}}.
Verify yourself, for every change: (a) with the diff applied `go build ./...` succeeds and the existing tests of the touched packages pass, (b) the demo fails with the diff and passes on the clean tree. Leave the worktree clean (no diff applied) at the end. The machine is shared and builds are slow (packages linking DuckDB take minutes): be economical with full-repo test runs.
FINAL REPORT (<= 200 words): for each change, one line on mechanism, what it needs to manifest, and the verification you ran.""")

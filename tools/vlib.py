#!/usr/bin/env python3
"""Shared machinery for the /verif checks (see DESIGN.md section 2 and FRAMEWORK.md).

Every check is a python module checks/cNN.py exposing

    LEVEL = "model_checking"            # evidence level
    def run(ctx): ...                   # uses the helpers on `ctx`

and is started by  bin/check CNN --tier quick|thorough [--replay file].

Exit codes (DESIGN section 2):  0 = held on everything explored (known findings printed),
1 = VIOLATION line printed (real-code observation breaks the property and is not a listed
finding), 2 = infrastructure failure (never a verdict).
"""
import hashlib
import json
import os
import re
import shutil
import subprocess
import sys
import tempfile
import time
import traceback

VERIF = os.path.dirname(os.path.dirname(os.path.abspath(__file__)))
REPO = os.environ.get("VERIF_REPO", "/repo")
TLA_CP = "/opt/veriftools/tla/tla2tools.jar:/opt/veriftools/tla/CommunityModules-deps.jar"
NCPU = os.cpu_count() or 4
# evidence/replays go to /verif/evidence unless redirected (used by tools/seedcheck.sh so that a run against a
# mutated scratch worktree never overwrites the evidence of the unchanged tree)
EVID = os.environ.get("VERIF_EVIDENCE_DIR") or os.path.join(VERIF, "evidence")


class InfraError(Exception):
    """Raised for anything that is not a verdict (build failure, TLC crash, timeout)."""


def go_env():
    env = dict(os.environ)
    env["GOFLAGS"] = "-mod=mod"
    env["GOPROXY"] = "off"
    env.pop("GOSUMDB", None)  # GOSUMDB=off breaks the go1.26.4 toolchain switch
    env.setdefault("GOTOOLCHAIN", "auto")
    if env.get("GOTOOLCHAIN") == "local":
        env["GOTOOLCHAIN"] = "auto"
    env.setdefault("HOME", "/root")
    return env


class TLCResult:
    def __init__(self):
        self.ok = False              # finished and no error reported
        self.generated = 0
        self.distinct = 0
        self.depth = 0
        self.error = None            # first "Error: ..." line
        self.violated = None         # name of violated invariant / property
        self.traces = []             # parsed JSON payloads of PrintT(<<"TRACE", json>>) lines
        self.prints = []             # other PrintT tuples (raw text)
        self.coverage = {}           # action name -> (count, distinct)
        self.zero_coverage = []      # spec locations with zero count (coverage mode)
        self.wall_s = 0.0
        self.log = ""
        self.cmd = ""
        self.counterexample = []     # raw text of the error trace, if any


_TRACE_RE = re.compile(r'^<<"TRACE", "(.*)">>$')
_TAGGED_RE = re.compile(r'^<<"([A-Z_]+)", (.*)>>$')


def _unescape_tla(s):
    # TLC prints strings with \" and \\ escaped
    out = []
    i = 0
    while i < len(s):
        c = s[i]
        if c == "\\" and i + 1 < len(s):
            n = s[i + 1]
            if n == "n":
                out.append("\n")
            elif n == "t":
                out.append("\t")
            else:
                out.append(n)
            i += 2
        else:
            out.append(c)
            i += 1
    return "".join(out)


class Ctx:
    def __init__(self, pid, tier, seed, level, replay=None):
        self.pid = pid
        self.tier = tier
        self.seed = seed
        self.level = level
        self.replay = replay
        self.t0 = time.time()
        base = os.environ.get("VERIF_SCRATCH") or None
        self.scratch = tempfile.mkdtemp(prefix="verif-%s-" % pid, dir=base)
        self.keep_scratch = bool(os.environ.get("VERIF_KEEP"))
        self.coverage = {"samples": []}
        self.assumptions = []
        self.violations = []      # (signature, detail)
        self.known_hits = {}      # signature -> detail
        self.drift = []
        self.notes = []
        self._tlc_n = 0
        self._states = 0
        self._transitions = 0
        self._traces_validated = 0
        self._evaluations = 0
        self._nontrivial = set()
        self.known = self._load_known()
        self._harness_copy = None
        self.missing_gates = []
        shutil.rmtree(os.path.join(EVID, "replays", pid), ignore_errors=True)

    # ------------------------------------------------------------------ basics
    def log(self, msg):
        print("[%s %6.1fs] %s" % (self.pid, time.time() - self.t0, msg), flush=True)

    def quick(self):
        return self.tier == "quick"

    def path(self, *p):
        return os.path.join(self.scratch, *p)

    def _load_known(self):
        f = os.path.join(VERIF, "known_findings.json")
        if not os.path.exists(f):
            return []
        with open(f) as fh:
            data = json.load(fh)
        return [k for k in data.get("findings", []) if k.get("property") == self.pid]

    def run(self, cmd, timeout=600, cwd=None, env=None, check=True, input=None, capture=True):
        """Run a command; InfraError on timeout or (if check) on non-zero exit."""
        t = time.time()
        try:
            p = subprocess.run(cmd, cwd=cwd, env=env, timeout=timeout, input=input,
                               stdout=subprocess.PIPE if capture else None,
                               stderr=subprocess.STDOUT if capture else None,
                               text=True, errors="replace")
        except subprocess.TimeoutExpired:
            raise InfraError("timeout after %ss: %s" % (timeout, " ".join(map(str, cmd))[:300]))
        if check and p.returncode != 0:
            raise InfraError("exit %d from %s\n%s" % (p.returncode, " ".join(map(str, cmd))[:300],
                                                        (p.stdout or "")[-4000:]))
        p.wall_s = time.time() - t
        return p

    # ------------------------------------------------------------------ TLC
    def tlc(self, specdir, module, cfg, mode="check", workers=None, num=None, depth=None,
            heap="6g", timeout=900, coverage=False, files=None, dfs=False, deadlock=None,
            allow_violation=False, stack="512m", extra_args=None):
        """Run TLC on specs/<specdir>/<module>.tla with config <cfg> in a scratch copy.

        mode: "check" (BFS exhaustive) or "simulate" (needs num, depth; seeded by VERIF_SEED).
        files: dict name->content (str/bytes) or name->path to place next to the spec (e.g. trace.ndjson).
        Returns TLCResult. Raises InfraError on crash/timeout/parse errors. An invariant
        violation is returned (res.violated) when allow_violation else raises InfraError --
        a TLC counterexample on a model is never by itself a verdict (DESIGN section 7).
        """
        self._tlc_n += 1
        rundir = self.path("tlc_%d_%s" % (self._tlc_n, module))
        src = os.path.join(VERIF, "specs", specdir)
        shutil.copytree(src, rundir)
        common = os.path.join(VERIF, "specs", "common")
        if os.path.isdir(common):
            for f in os.listdir(common):
                if not os.path.exists(os.path.join(rundir, f)):
                    shutil.copy(os.path.join(common, f), rundir)
        for name, content in (files or {}).items():
            dst = os.path.join(rundir, name)
            if isinstance(content, bytes):
                open(dst, "wb").write(content)
            elif isinstance(content, str) and os.path.isabs(content) and os.path.exists(content):
                shutil.copy(content, dst)
            else:
                open(dst, "w").write(content)
        if workers is None:
            workers = min(NCPU, 8)
        cmd = ["java", "-Xmx" + heap, "-Xss" + stack, "-XX:+UseParallelGC"]
        if dfs:
            cmd.append("-Dtlc2.tool.queue.IStateQueue=StateDeque")
        cmd += ["-cp", TLA_CP, "tlc2.TLC", "-metadir", os.path.join(rundir, "meta"),
                "-config", cfg, "-workers", str(workers)]
        if mode == "simulate":
            spec = "num=%d" % (num or 1000)
            cmd += ["-simulate", spec, "-depth", str(depth or 50), "-seed", str(self.seed)]
        if coverage:
            cmd += ["-coverage", "1"]
        if deadlock is False:
            cmd += ["-deadlock"]
        if extra_args:
            cmd += list(extra_args)
        cmd.append(module)
        res = TLCResult()
        res.cmd = " ".join(cmd)
        p = self.run(cmd, timeout=timeout, cwd=rundir, check=False)
        res.wall_s = p.wall_s
        out = p.stdout or ""
        res.log = os.path.join(rundir, "tlc.out")
        open(res.log, "w").write(out)
        self._parse_tlc(out, res)
        if res.error and not (res.violated and allow_violation):
            tail = "\n".join(out.splitlines()[-40:])
            raise InfraError("TLC %s/%s %s: %s\n%s" % (specdir, module, cfg, res.error, tail))
        if not res.error and p.returncode != 0:
            raise InfraError("TLC exit %d without error line (%s)\n%s" % (p.returncode, res.log, out[-3000:]))
        if not res.error and "Model checking completed" not in out and "Finished in" not in out and mode != "simulate":
            raise InfraError("TLC did not complete (%s)\n%s" % (res.log, out[-3000:]))
        res.ok = res.error is None
        self._states += res.distinct
        self._transitions += res.generated
        return res

    def _parse_tlc(self, out, res):
        in_err_trace = False
        for line in out.splitlines():
            m = _TRACE_RE.match(line)
            if m:
                try:
                    res.traces.append(json.loads(_unescape_tla(m.group(1))))
                except Exception as e:  # noqa
                    raise InfraError("cannot parse TRACE line: %s (%s)" % (line[:200], e))
                continue
            if line.startswith("<<\"") and _TAGGED_RE.match(line):
                res.prints.append(line)
                continue
            m = re.match(r"^(\d+) states generated, (\d+) distinct states found", line)
            if m:
                res.generated = int(m.group(1))
                res.distinct = int(m.group(2))
                continue
            m = re.match(r"^The depth of the complete state graph search is (\d+)", line)
            if m:
                res.depth = int(m.group(1))
                continue
            m = re.match(r"^Progress: .*?(\d+) states checked, (\d+) traces generated", line.replace(",", ""))
            if m and not res.generated:
                res.generated = int(m.group(1))
            if line.startswith("Error:") and res.error is None:
                res.error = line
                m2 = re.search(r"Invariant (\S+) is violated", line)
                if m2:
                    res.violated = m2.group(1)
                m2 = re.search(r"Action property (\S+) is violated", line)
                if m2:
                    res.violated = m2.group(1)
                if "Temporal properties were violated" in line:
                    res.violated = "TEMPORAL"
                if "postcondition" in line.lower() or "Postcondition" in line:
                    res.violated = "POSTCONDITION"
                if "Deadlock reached" in line:
                    res.violated = "DEADLOCK"
                in_err_trace = True
                continue
            if in_err_trace:
                res.counterexample.append(line)
            # coverage lines look like:  <Next line 10, col 1 to line 12, col 20 of module X>: 12:345
            m = re.match(r"^<(\w+) line .* of module (\w+)>: (\d+):(\d+)", line)
            if m:
                res.coverage[m.group(1)] = (int(m.group(3)), int(m.group(4)))
            m = re.match(r"^\s*\|*(line \d+, col \d+ to line \d+, col \d+ of module \w+): 0$", line)
            if m:
                res.zero_coverage.append(m.group(1))
        if res.error is None and "java.lang." in out and "Exception" in out and "Finished" not in out:
            res.error = "Error: JVM exception"

    def tlc_validate(self, specdir, module, cfg, trace_path_or_text, timeout=600, heap="4g",
                     trace_name="trace.ndjson", dfs=True, files=None):
        """Trace validation: returns (accepted:bool, TLCResult). The trace spec must use the
        high-water-mark idiom and a POSTCONDITION; -workers 1. Acceptance = TLC finished with
        no error. A rejected trace shows as a violated postcondition/invariant."""
        fl = dict(files or {})
        fl[trace_name] = trace_path_or_text
        res = self.tlc(specdir, module, cfg, workers=1, timeout=timeout, heap=heap, files=fl,
                       dfs=dfs, deadlock=False, allow_violation=True)
        return (res.ok, res)

    # ------------------------------------------------------------------ Go
    def harness_dir(self):
        """Scratch copy of /verif/harness (so parallel checks do not fight over go.mod/go.sum)."""
        if self._harness_copy is None:
            dst = self.path("harness")
            shutil.copytree(os.path.join(VERIF, "harness"), dst)
            shutil.copy(os.path.join(REPO, "go.sum"), os.path.join(dst, "go.sum"))
            gm = os.path.join(dst, "go.mod")
            txt = open(gm).read().replace("=> /repo", "=> " + REPO)
            open(gm, "w").write(txt)
            self._harness_copy = dst
        return self._harness_copy

    def make_overlay(self, families, extra=None):
        """Build an overlay json from the static shims under /verif/overlay/<family>/<repo-rel-path>
        plus `extra` (dict repo-rel-path -> replacement file path). Returns path or None."""
        repl = {}
        for fam in families:
            root = os.path.join(VERIF, "overlay", fam)
            if not os.path.isdir(root):
                raise InfraError("no overlay family %s" % fam)
            for d, _, fs in os.walk(root):
                for f in fs:
                    src = os.path.join(d, f)
                    rel = os.path.relpath(src, root)
                    repl[os.path.join(REPO, rel)] = src
        for rel, src in (extra or {}).items():
            repl[os.path.join(REPO, rel)] = src
        if not repl:
            return None
        p = self.path("overlay_%d.json" % len(os.listdir(self.scratch)))
        json.dump({"Replace": repl}, open(p, "w"), indent=1)
        return p

    def overlaygen(self, args, timeout=300):
        """Run tools/overlaygen (Go, std lib only) -> dict repo-rel-path -> generated file."""
        bin_ = self.path("overlaygen")
        if not os.path.exists(bin_):
            self.run(["go", "build", "-o", bin_, "."], cwd=os.path.join(VERIF, "tools", "overlaygen"),
                     env=go_env(), timeout=timeout)
        outdir = self.path("ovgen_%d" % len(os.listdir(self.scratch)))
        os.makedirs(outdir)
        p = self.run([bin_, "-repo", REPO, "-out", outdir] + list(args), timeout=timeout)
        try:
            m = json.loads(p.stdout.strip().splitlines()[-1])
        except Exception:
            raise InfraError("overlaygen output unparsable: %s" % p.stdout[-2000:])
        miss = m.pop("_missing_gates", "")
        self.missing_gates = [g for g in miss.split(";") if g]
        return m

    def go_build(self, cmd, tags=("verif",), overlay=None, timeout=1500, pkg=None, out=None):
        """Build harness/cmd/<cmd> (or arbitrary pkg path) with the overlay; returns binary path."""
        hd = self.harness_dir()
        out = out or self.path("bin_" + cmd.replace("/", "_"))
        args = ["go", "build", "-tags", ",".join(tags), "-o", out]
        if overlay:
            args += ["-overlay", overlay]
        args.append(pkg or ("./cmd/" + cmd))
        t = time.time()
        p = self.run(args, cwd=hd, env=go_env(), timeout=timeout, check=False)
        if p.returncode != 0:
            raise InfraError("go build %s failed:\n%s" % (cmd, (p.stdout or "")[-6000:]))
        self.log("built %s in %.1fs" % (cmd, time.time() - t))
        return out

    def go_build_arc(self, tags=("verif",), overlay=None, timeout=1800):
        """Build the (overlaid) arc server binary from /repo's working tree."""
        out = self.path("arc")
        args = ["go", "build", "-tags", ",".join(tags), "-o", out]
        if overlay:
            args += ["-overlay", overlay]
        args.append("./cmd/arc")
        env = go_env()
        # building inside /repo with -mod=mod may rewrite /repo/go.mod: use -mod=readonly there
        env["GOFLAGS"] = "-mod=readonly"
        t = time.time()
        p = self.run(args, cwd=REPO, env=env, timeout=timeout, check=False)
        if p.returncode != 0:
            raise InfraError("go build arc failed:\n%s" % (p.stdout or "")[-6000:])
        self.log("built arc in %.1fs" % (time.time() - t))
        return out

    # ------------------------------------------------------------------ accounting
    def count(self, evaluations=0, nontrivial_keys=()):
        self._evaluations += evaluations
        for k in nontrivial_keys:
            if len(self._nontrivial) < 2_000_000:
                self._nontrivial.add(k if isinstance(k, (str, int)) else json.dumps(k, sort_keys=True))

    def traces_validated(self, n):
        self._traces_validated += n

    def sample(self, obj, limit=6):
        if len(self.coverage["samples"]) < limit:
            self.coverage["samples"].append(obj)

    def assume(self, text):
        if text not in self.assumptions:
            self.assumptions.append(text)

    def note(self, key, value):
        self.coverage[key] = value

    def spec_drift(self, what):
        self.drift.append(what)
        print("SPEC-DRIFT: property=%s %s" % (self.pid, what), flush=True)

    # ------------------------------------------------------------------ verdicts
    def violation(self, signature, detail):
        """Record a real-code observation that breaks the property. `signature` names the
        mechanism (see DESIGN section 7); `detail` is a JSON-able witness used as the replay."""
        for k in self.known:
            if k.get("status") == "open" and k.get("signature") == signature:
                if signature not in self.known_hits:
                    self.known_hits[signature] = detail
                return False
        if not any(s == signature for s, _ in self.violations):
            self.violations.append((signature, detail))
        return True

    def _write_replay(self, signature, detail, kind):
        d = os.path.join(EVID, "replays", self.pid)
        os.makedirs(d, exist_ok=True)
        h = hashlib.sha1(signature.encode()).hexdigest()[:10]
        p = os.path.join(d, "%s_%s.json" % (kind, h))
        json.dump({"property": self.pid, "signature": signature, "tier": self.tier, "seed": self.seed,
                   "witness": detail}, open(p, "w"), indent=1, default=str)
        return p

    def finish(self):
        wall = time.time() - self.t0
        cov = self.coverage
        if self._states:
            cov["states"] = self._states
            cov["transitions"] = max(self._transitions, 1)
        cov["traces_validated_against_impl"] = self._traces_validated
        cov["evaluations"] = self._evaluations
        cov["distinct_nontrivial"] = len(self._nontrivial)
        if self.drift:
            cov["spec_drift"] = self.drift
        cov["known_findings_reproduced"] = sorted(self.known_hits)
        if not cov["samples"]:
            cov["samples"] = ["(no sample recorded)"]
        ev = {
            "property_id": self.pid,
            "tier": self.tier,
            "seed": self.seed,
            "level": self.level,
            "coverage": cov,
            "assumptions": self.assumptions,
            "wall_s": round(wall, 2),
            "violations": len(self.violations),
        }
        os.makedirs(EVID, exist_ok=True)
        tmp = os.path.join(EVID, ".%s.json.tmp" % self.pid)
        json.dump(ev, open(tmp, "w"), indent=1, default=str)
        os.replace(tmp, os.path.join(EVID, "%s.json" % self.pid))
        for sig, detail in sorted(self.known_hits.items()):
            self._write_replay(sig, detail, "known")
            print("KNOWN-FINDING: property=%s %s" % (self.pid, sig), flush=True)
        for k in self.known:
            if k.get("status") == "open" and k.get("signature") not in self.known_hits:
                print("NOTE: property=%s listed finding not reproduced in this run (tier=%s): %s"
                      % (self.pid, self.tier, k.get("signature")), flush=True)
        rc = 0
        for sig, detail in self.violations:
            p = self._write_replay(sig, detail, "violation")
            print("VIOLATION property=%s replay=%s" % (self.pid, p), flush=True)
            print("  signature: %s" % sig, flush=True)
            rc = 1
        self.log("done: tier=%s seed=%d evaluations=%d distinct_nontrivial=%d states=%d traces=%d violations=%d known=%d wall=%.1fs"
                 % (self.tier, self.seed, self._evaluations, len(self._nontrivial), self._states,
                    self._traces_validated, len(self.violations), len(self.known_hits), wall))
        return rc

    def cleanup(self):
        if not self.keep_scratch:
            shutil.rmtree(self.scratch, ignore_errors=True)
        else:
            self.log("scratch kept at %s" % self.scratch)


def read_ndjson(path):
    out = []
    with open(path) as fh:
        for line in fh:
            line = line.strip()
            if line:
                out.append(json.loads(line))
    return out


def write_ndjson(path, rows):
    with open(path, "w") as fh:
        for r in rows:
            fh.write(json.dumps(r, separators=(",", ":"), sort_keys=True))
            fh.write("\n")


def main(argv):
    import argparse
    import importlib.util
    ap = argparse.ArgumentParser()
    ap.add_argument("pid")
    ap.add_argument("--tier", default=os.environ.get("VERIF_TIER", "quick"), choices=["quick", "thorough"])
    ap.add_argument("--replay", default=None)
    a = ap.parse_args(argv)
    pid = a.pid.upper()
    seed = int(os.environ.get("VERIF_SEED", "1") or "1")
    modpath = os.path.join(VERIF, "checks", pid.lower() + ".py")
    if not os.path.exists(modpath):
        print("no check for %s" % pid)
        return 2
    spec = importlib.util.spec_from_file_location("check_" + pid.lower(), modpath)
    mod = importlib.util.module_from_spec(spec)
    sys.path.insert(0, os.path.join(VERIF, "tools"))
    sys.path.insert(0, os.path.join(VERIF, "checks"))
    # checks do `from vlib import InfraError`: make that the same class object as ours
    sys.modules.setdefault("vlib", sys.modules[__name__])
    spec.loader.exec_module(mod)
    ctx = Ctx(pid, a.tier, seed, getattr(mod, "LEVEL", "model_checking"), replay=a.replay)
    rc = 2
    try:
        mod.run(ctx)
        rc = ctx.finish()
    except InfraError as e:
        print("INFRA-FAILURE property=%s: %s" % (pid, e), flush=True)
        rc = 2
    except Exception:
        traceback.print_exc()
        print("INFRA-FAILURE property=%s: unexpected exception in the checker" % pid, flush=True)
        rc = 2
    finally:
        ctx.cleanup()
    return rc


if __name__ == "__main__":
    sys.exit(main(sys.argv[1:]))

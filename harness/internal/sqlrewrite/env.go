// Package sqlrewrite holds what the C16/C17/C18 drivers share: a real arc QueryHandler over a
// real local storage backend and arc's own DuckDB wrapper (sandboxed as in production), a
// second, plain DuckDB instance used to write parquet fixtures and as the reference engine,
// and result-set comparison helpers.
package sqlrewrite

import (
	"context"
	"database/sql"
	"fmt"
	"os"
	"path/filepath"
	"sort"
	"strings"
	"time"

	"github.com/basekick-labs/arc/internal/api"
	"github.com/basekick-labs/arc/internal/database"
	"github.com/basekick-labs/arc/internal/storage"
	_ "github.com/duckdb/duckdb-go/v2"
	"github.com/rs/zerolog"
)

type Env struct {
	Root    string // storage root (local backend base path)
	Tmp     string
	Arc     *database.DuckDB // arc's wrapper: executes what arc would execute
	Plain   *sql.DB          // reference engine and fixture writer
	Storage *storage.LocalBackend
	Logger  zerolog.Logger
}

func NewEnv(dir string) (*Env, error) {
	root := filepath.Join(dir, "data")
	tmp := filepath.Join(dir, "tmp")
	for _, d := range []string{root, tmp} {
		if err := os.MkdirAll(d, 0o700); err != nil {
			return nil, err
		}
	}
	lg := zerolog.Nop()
	st, err := storage.NewLocalBackend(root, lg)
	if err != nil {
		return nil, err
	}
	arcdb, err := database.New(&database.Config{MaxConnections: 2, MemoryLimit: "1GB", ThreadCount: 2,
		TempDirectory: tmp, LocalStorageRoot: st.GetBasePath(), PreserveInsertionOrder: true}, lg)
	if err != nil {
		return nil, fmt.Errorf("database.New: %w", err)
	}
	plain, err := sql.Open("duckdb", "")
	if err != nil {
		return nil, err
	}
	plain.SetMaxOpenConns(1)
	if _, err := plain.Exec("SET threads=2"); err != nil {
		return nil, err
	}
	return &Env{Root: st.GetBasePath(), Tmp: tmp, Arc: arcdb, Plain: plain, Storage: st, Logger: lg}, nil
}

func (e *Env) Close() {
	e.Plain.Close()
	e.Arc.Close()
}

// NewHandler builds a fresh real QueryHandler (fresh transform cache, fresh pruner caches).
func (e *Env) NewHandler() *api.QueryHandler {
	return api.NewQueryHandler(e.Arc, e.Storage, e.Logger, 0, 0)
}

// Rows is a result set rendered to strings (NULL -> "\x00NULL").
type Rows struct {
	Cols []string
	Data [][]string
	Err  string
}

func render(v interface{}) string {
	switch x := v.(type) {
	case nil:
		return "\x00NULL"
	case []byte:
		return string(x)
	case time.Time:
		return x.UTC().Format("2006-01-02T15:04:05.000000Z")
	default:
		return fmt.Sprintf("%v", x)
	}
}

// Query runs sql on db and renders every row. An execution error is returned in Rows.Err.
func Query(ctx context.Context, db *sql.DB, q string) Rows {
	ctx, cancel := context.WithTimeout(ctx, 120*time.Second)
	defer cancel()
	rs, err := db.QueryContext(ctx, q)
	if err != nil {
		return Rows{Err: err.Error()}
	}
	defer rs.Close()
	cols, _ := rs.Columns()
	out := Rows{Cols: cols}
	for rs.Next() {
		vals := make([]interface{}, len(cols))
		ptrs := make([]interface{}, len(cols))
		for i := range vals {
			ptrs[i] = &vals[i]
		}
		if err := rs.Scan(ptrs...); err != nil {
			return Rows{Err: err.Error()}
		}
		row := make([]string, len(cols))
		for i, v := range vals {
			row[i] = render(v)
		}
		out.Data = append(out.Data, row)
	}
	if err := rs.Err(); err != nil {
		return Rows{Err: err.Error()}
	}
	return out
}

func (r Rows) keys() []string {
	ks := make([]string, len(r.Data))
	for i, row := range r.Data {
		ks[i] = strings.Join(row, "\x1f")
	}
	return ks
}

// SameBag compares two result sets as multisets of rows (both failing counts as equal).
func SameBag(a, b Rows) bool {
	if a.Err != "" || b.Err != "" {
		return a.Err != "" && b.Err != ""
	}
	ka, kb := a.keys(), b.keys()
	if len(ka) != len(kb) {
		return false
	}
	sort.Strings(ka)
	sort.Strings(kb)
	for i := range ka {
		if ka[i] != kb[i] {
			return false
		}
	}
	return true
}

// SameSeq compares two result sets in order.
func SameSeq(a, b Rows) bool {
	if a.Err != "" || b.Err != "" {
		return a.Err != "" && b.Err != ""
	}
	ka, kb := a.keys(), b.keys()
	if len(ka) != len(kb) {
		return false
	}
	for i := range ka {
		if ka[i] != kb[i] {
			return false
		}
	}
	return true
}

// Brief renders at most n rows for a witness.
func (r Rows) Brief(n int) interface{} {
	if r.Err != "" {
		e := r.Err
		if len(e) > 300 {
			e = e[:300]
		}
		return map[string]interface{}{"error": e}
	}
	d := r.Data
	if len(d) > n {
		d = d[:n]
	}
	out := make([][]string, len(d))
	for i, row := range d {
		out[i] = make([]string, len(row))
		for j, c := range row {
			if c == "\x00NULL" {
				c = "NULL"
			}
			out[i][j] = c
		}
	}
	return map[string]interface{}{"rows": len(r.Data), "first": out}
}

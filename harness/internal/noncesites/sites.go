// Package noncesites carries the (retention, tolerance) expressions of the C26 sites as they
// are written in the arc working tree. zz_gen.go (build tag noncegen) is generated at check
// time by harness/cmd/noncegen and evaluated by the Go compiler; without it Gen is empty and
// the driver refuses to run.
package noncesites

import "time"

type Item struct {
	Kind    string // "ttl" (NewNonceCache argument), "next" (argument following it), "tol" (handler tolerance)
	Ctx     string // where the value flows to / which site
	Where   string // file:line in the arc tree
	Text    string // expression as written
	Dynamic bool   // not a constant expression: D is not valid
	D       time.Duration
}

var Gen []Item

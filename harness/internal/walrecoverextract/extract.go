// Package walrecoverextract copies function declarations verbatim out of a Go source file into a
// new file of another package (go/ast, std lib only). Used by the C05 check to bind the WAL
// recovery callbacks of cmd/arc/main.go (package main, not importable) without editing /repo.
package walrecoverextract

import (
	"bytes"
	"fmt"
	"go/ast"
	"go/parser"
	"go/token"
	"os"
	"path"
	"regexp"
	"strconv"
	"strings"
)

var versionSuffix = regexp.MustCompile(`^v[0-9]+$`)

func importName(spec *ast.ImportSpec) string {
	if spec.Name != nil {
		return spec.Name.Name
	}
	p, _ := strconv.Unquote(spec.Path.Value)
	b := path.Base(p)
	if versionSuffix.MatchString(b) {
		b = path.Base(path.Dir(p))
	}
	return strings.TrimPrefix(b, "go-")
}

// Extract writes package pkg with the named functions of srcFile and the given trailer.
func Extract(srcFile, pkg string, funcs []string, trailer string) ([]byte, error) {
	fset := token.NewFileSet()
	src, err := os.ReadFile(srcFile)
	if err != nil {
		return nil, err
	}
	f, err := parser.ParseFile(fset, srcFile, src, parser.ParseComments)
	if err != nil {
		return nil, err
	}
	want := map[string]bool{}
	for _, n := range funcs {
		want[n] = true
	}
	var decls []*ast.FuncDecl
	for _, d := range f.Decls {
		if fd, ok := d.(*ast.FuncDecl); ok && fd.Recv == nil && want[fd.Name.Name] {
			decls = append(decls, fd)
			delete(want, fd.Name.Name)
		}
	}
	if len(want) > 0 {
		return nil, fmt.Errorf("functions not found in %s: %v", srcFile, want)
	}
	used := map[string]bool{}
	for _, fd := range decls {
		ast.Inspect(fd, func(n ast.Node) bool {
			if se, ok := n.(*ast.SelectorExpr); ok {
				if id, ok := se.X.(*ast.Ident); ok {
					used[id.Name] = true
				}
			}
			return true
		})
	}
	var out bytes.Buffer
	fmt.Fprintf(&out, "//go:build verif\n\n// Code generated from %s by walrecoverextract; DO NOT EDIT.\n\npackage %s\n\nimport (\n", srcFile, pkg)
	for _, im := range f.Imports {
		if used[importName(im)] {
			if im.Name != nil {
				fmt.Fprintf(&out, "\t%s %s\n", im.Name.Name, im.Path.Value)
			} else {
				fmt.Fprintf(&out, "\t%s\n", im.Path.Value)
			}
		}
	}
	out.WriteString(")\n\n")
	for _, fd := range decls {
		start, end := fset.Position(fd.Pos()).Offset, fset.Position(fd.End()).Offset
		// the source text is copied byte for byte, not re-printed
		out.Write(src[start:end])
		out.WriteString("\n\n")
	}
	out.WriteString(trailer)
	return out.Bytes(), nil
}

package authkit

import (
	"github.com/basekick-labs/arc/internal/auth"
	clusterraft "github.com/basekick-labs/arc/internal/cluster/raft"
)

// Field-for-field copies of internal/cluster.ToAuth*Entry. The originals live in a package
// whose import pulls the DuckDB-linked half of arc into the driver (a 170 MB link per check);
// the conversions are pure field copies, so they are repeated here.

func toAuthToken(e *clusterraft.TokenEntry) auth.ClusterTokenEntry {
	return auth.ClusterTokenEntry{ID: e.ID, Name: e.Name, Description: e.Description, Permissions: e.Permissions,
		TokenHash: e.TokenHash, TokenPrefix: e.TokenPrefix, CreatedAtUnixNano: e.CreatedAtUnixNano,
		ExpiresAtUnixNano: e.ExpiresAtUnixNano, Enabled: e.Enabled, LSN: e.LSN}
}

func toAuthOrg(e *clusterraft.OrganizationEntry) auth.ClusterOrganizationEntry {
	return auth.ClusterOrganizationEntry{ID: e.ID, Name: e.Name, Description: e.Description,
		CreatedAtUnixNano: e.CreatedAtUnixNano, UpdatedAtUnixNano: e.UpdatedAtUnixNano, Enabled: e.Enabled, LSN: e.LSN}
}

func toAuthTeam(e *clusterraft.TeamEntry) auth.ClusterTeamEntry {
	return auth.ClusterTeamEntry{ID: e.ID, OrganizationID: e.OrganizationID, Name: e.Name, Description: e.Description,
		CreatedAtUnixNano: e.CreatedAtUnixNano, UpdatedAtUnixNano: e.UpdatedAtUnixNano, Enabled: e.Enabled, LSN: e.LSN}
}

func toAuthRole(e *clusterraft.RoleEntry) auth.ClusterRoleEntry {
	return auth.ClusterRoleEntry{ID: e.ID, TeamID: e.TeamID, DatabasePattern: e.DatabasePattern, Permissions: e.Permissions,
		CreatedAtUnixNano: e.CreatedAtUnixNano, LSN: e.LSN}
}

func toAuthMP(e *clusterraft.MeasurementPermissionEntry) auth.ClusterMeasurementPermissionEntry {
	return auth.ClusterMeasurementPermissionEntry{ID: e.ID, RoleID: e.RoleID, MeasurementPattern: e.MeasurementPattern,
		Permissions: e.Permissions, CreatedAtUnixNano: e.CreatedAtUnixNano, LSN: e.LSN}
}

func toAuthMembership(e *clusterraft.TokenMembershipEntry) auth.ClusterTokenMembershipEntry {
	return auth.ClusterTokenMembershipEntry{ID: e.ID, TokenID: e.TokenID, TeamID: e.TeamID, CreatedAtUnixNano: e.CreatedAtUnixNano, LSN: e.LSN}
}

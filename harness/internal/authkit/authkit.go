// Package authkit is shared by the auth family drivers (authrbac: C20, authverify: C21): a real
// AuthManager + RBACManager over a temp SQLite file, either in direct mode or in cluster-apply
// mode (a loop-back auth.RaftProposer feeding a real raft.ClusterFSM whose callbacks call the
// real Apply* functions, wired as cmd/arc/main.go wires them).
package authkit

import (
	"context"
	"crypto/pbkdf2"
	"crypto/sha256"
	"encoding/base64"
	"encoding/hex"
	"encoding/json"
	"fmt"
	"path/filepath"
	"sync"
	"time"

	"github.com/basekick-labs/arc/internal/auth"
	clusterraft "github.com/basekick-labs/arc/internal/cluster/raft"
	"github.com/basekick-labs/arc/internal/license"
	hraft "github.com/hashicorp/raft"
	"github.com/rs/zerolog"
)

// Loopback is an auth.RaftProposer with the semantics of raft.Node.Apply on a single-node
// cluster: the command is applied to the FSM (serially) before Propose returns, and an error
// returned by the apply function is returned to the proposer.
type Loopback struct {
	mu  sync.Mutex
	fsm *clusterraft.ClusterFSM
	idx uint64
}

func (l *Loopback) Propose(ctx context.Context, cmdType uint8, payload []byte, timeout time.Duration) error {
	data, err := json.Marshal(&clusterraft.Command{Type: clusterraft.CommandType(cmdType), Payload: payload})
	if err != nil {
		return err
	}
	l.mu.Lock()
	defer l.mu.Unlock()
	l.idx++
	resp := l.fsm.Apply(&hraft.Log{Index: l.idx, Data: data})
	if e, ok := resp.(error); ok && e != nil {
		return fmt.Errorf("%w: %w", auth.ErrApplyFailed, e)
	}
	return nil
}

func (l *Loopback) IsLeader() bool { return true }

type Env struct {
	Mode  string // "direct" | "apply"
	AM    *auth.AuthManager
	RM    *auth.RBACManager
	Fresh *auth.RBACManager // second manager on the same database; caches flushed before every use
	FSM   *clusterraft.ClusterFSM
	LB    *Loopback

	mu        sync.Mutex
	ApplyErrs []string // errors returned by Apply* inside FSM callbacks (main.go only logs them)
}

func (e *Env) applyErr(what string, err error) {
	if err != nil {
		e.mu.Lock()
		e.ApplyErrs = append(e.ApplyErrs, what+": "+err.Error())
		e.mu.Unlock()
	}
}

func (e *Env) TakeApplyErrs() []string {
	e.mu.Lock()
	defer e.mu.Unlock()
	r := e.ApplyErrs
	e.ApplyErrs = nil
	return r
}

// NewEnv opens a fresh auth database under dir. rbacLicence=false leaves RBAC disabled.
func NewEnv(dir, mode string, tokenCacheTTL time.Duration) (*Env, error) {
	lg := zerolog.Nop()
	am, err := auth.NewAuthManager(filepath.Join(dir, "auth.db"), tokenCacheTTL, 1000, lg)
	if err != nil {
		return nil, err
	}
	lic := license.VerifAuthNewClient(&license.License{LicenseKey: "verif", Tier: license.TierEnterprise,
		Features: []string{license.FeatureRBAC, license.FeatureClustering}, Status: "active",
		ExpiresAt: time.Now().Add(24 * time.Hour), DaysRemaining: 1})
	mk := func() *auth.RBACManager {
		return auth.NewRBACManager(&auth.RBACManagerConfig{DB: am.GetDB(), LicenseClient: lic, Logger: lg})
	}
	e := &Env{Mode: mode, AM: am, RM: mk(), Fresh: mk()}
	if !e.RM.IsRBACEnabled() {
		e.Close()
		return nil, fmt.Errorf("licence shim did not enable RBAC")
	}
	if mode == "apply" {
		fsm := clusterraft.NewClusterFSM(lg)
		e.FSM = fsm
		rm := e.RM
		// same closures as cmd/arc/main.go (which logs the errors; here they are collected)
		fsm.SetAuthCallbacks(
			func(t *clusterraft.TokenEntry) { e.applyErr("ApplyCreateToken", am.ApplyCreateToken(toAuthToken(t))) },
			func(t *clusterraft.TokenEntry) { e.applyErr("ApplyUpdateToken", am.ApplyUpdateToken(toAuthToken(t))) },
			func(id int64) { e.applyErr("ApplyRevokeToken", am.ApplyRevokeToken(id)) },
			func(id int64) { e.applyErr("ApplyDeleteToken", am.ApplyDeleteToken(id)) },
			func(id int64, h, p string, lsn uint64) { e.applyErr("ApplyRotateToken", am.ApplyRotateToken(id, h, p)) },
		)
		fsm.SetRBACCallbacks(
			func(x *clusterraft.OrganizationEntry) {
				e.applyErr("ApplyCreateOrganization", rm.ApplyCreateOrganization(toAuthOrg(x)))
			},
			func(x *clusterraft.OrganizationEntry) {
				e.applyErr("ApplyUpdateOrganization", rm.ApplyUpdateOrganization(toAuthOrg(x)))
			},
			func(id int64) { e.applyErr("ApplyDeleteOrganization", rm.ApplyDeleteOrganization(id)) },
			func(x *clusterraft.TeamEntry) { e.applyErr("ApplyCreateTeam", rm.ApplyCreateTeam(toAuthTeam(x))) },
			func(x *clusterraft.TeamEntry) { e.applyErr("ApplyUpdateTeam", rm.ApplyUpdateTeam(toAuthTeam(x))) },
			func(id int64) { e.applyErr("ApplyDeleteTeam", rm.ApplyDeleteTeam(id)) },
			func(x *clusterraft.RoleEntry) { e.applyErr("ApplyCreateRole", rm.ApplyCreateRole(toAuthRole(x))) },
			func(x *clusterraft.RoleEntry) { e.applyErr("ApplyUpdateRole", rm.ApplyUpdateRole(toAuthRole(x))) },
			func(id int64) { e.applyErr("ApplyDeleteRole", rm.ApplyDeleteRole(id)) },
			func(x *clusterraft.MeasurementPermissionEntry) {
				e.applyErr("ApplyCreateMeasurementPermission", rm.ApplyCreateMeasurementPermission(toAuthMP(x)))
			},
			func(id int64) {
				e.applyErr("ApplyDeleteMeasurementPermission", rm.ApplyDeleteMeasurementPermission(id))
			},
			func(x *clusterraft.TokenMembershipEntry) {
				e.applyErr("ApplyAddTokenToTeam", rm.ApplyAddTokenToTeam(toAuthMembership(x)))
			},
			func(tokenID, teamID int64) {
				e.applyErr("ApplyRemoveTokenFromTeam", rm.ApplyRemoveTokenFromTeam(tokenID, teamID))
			},
		)
		e.LB = &Loopback{fsm: fsm, idx: 100}
		am.SetRaftProposer(e.LB)
		rm.SetRaftProposer(e.LB)
	}
	return e, nil
}

func (e *Env) Close() {
	if e.RM != nil {
		e.RM.Close()
	}
	if e.Fresh != nil {
		e.Fresh.Close()
	}
	if e.AM != nil {
		e.AM.Close()
	}
}

// CheapHash is a well-formed $pbkdf2-sha256$ hash with an iteration count of 1: the modern
// verification path of VerifyToken is exercised without paying 600k iterations per cache miss.
func CheapHash(token string) string {
	salt := []byte("verif-salt-16byt")
	dk, err := pbkdf2.Key(sha256.New, token, salt, 1, 32)
	if err != nil {
		panic(err)
	}
	return fmt.Sprintf("$pbkdf2-sha256$1$%s$%s", base64.RawStdEncoding.EncodeToString(salt), base64.RawStdEncoding.EncodeToString(dk))
}

func Prefix(token string) string {
	h := sha256.Sum256([]byte(token))
	return hex.EncodeToString(h[:])[:16]
}

// CreateToken stores a token row for `value` with a cheap hash: in apply mode through a
// CreateToken command (FSM -> ApplyCreateToken), in direct mode through the same INSERT that
// ApplyCreateToken performs (explicit id). Returns the token id.
func (e *Env) CreateToken(name, value, perms string, id int64, expiresAt *time.Time) (int64, error) {
	var exp int64
	if expiresAt != nil {
		exp = expiresAt.UnixNano()
	}
	if e.Mode == "apply" {
		payload, _ := json.Marshal(map[string]interface{}{"token": map[string]interface{}{
			"name": name, "permissions": perms, "token_hash": CheapHash(value), "token_prefix": Prefix(value),
			"created_at_unix_nano": time.Now().UnixNano(), "expires_at_unix_nano": exp, "enabled": true}})
		if err := e.LB.Propose(context.Background(), auth.ProposalCommandCreateToken, payload, time.Second); err != nil {
			return 0, err
		}
		if errs := e.TakeApplyErrs(); len(errs) > 0 {
			return 0, fmt.Errorf("%v", errs)
		}
	} else {
		if err := e.AM.ApplyCreateToken(auth.ClusterTokenEntry{ID: id, Name: name, Permissions: perms, TokenHash: CheapHash(value),
			TokenPrefix: Prefix(value), CreatedAtUnixNano: time.Now().UnixNano(), ExpiresAtUnixNano: exp, Enabled: true}); err != nil {
			return 0, err
		}
	}
	toks, err := e.AM.ListTokens()
	if err != nil {
		return 0, err
	}
	for _, t := range toks {
		if t.Name == name {
			return t.ID, nil
		}
	}
	return 0, fmt.Errorf("token %s not found after create", name)
}

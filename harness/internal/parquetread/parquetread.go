// Package parquetread decodes a Parquet object (as written by arc's ArrowWriter) back into
// rows. Shared by the verification drivers that observe the storage backend.
package parquetread

import (
	"bytes"
	"context"
	"fmt"

	"github.com/apache/arrow-go/v18/arrow"
	"github.com/apache/arrow-go/v18/arrow/array"
	"github.com/apache/arrow-go/v18/arrow/memory"
	"github.com/apache/arrow-go/v18/parquet"
	"github.com/apache/arrow-go/v18/parquet/pqarrow"
)

// Table is a decoded Parquet object: column names in file order and one map per row.
// A NULL is a nil value. Timestamps are int64 in the column's unit (arc writes microseconds),
// integers int64, floats float64, strings string, booleans bool, decimals their string form.
type Table struct {
	Columns []string
	Types   map[string]string
	Rows    []map[string]interface{}
}

// Read decodes data.
func Read(data []byte) (*Table, error) {
	mem := memory.NewGoAllocator()
	tbl, err := pqarrow.ReadTable(context.Background(), bytes.NewReader(data), parquet.NewReaderProperties(mem),
		pqarrow.ArrowReadProperties{}, mem)
	if err != nil {
		return nil, fmt.Errorf("parquetread: %w", err)
	}
	defer tbl.Release()
	out := &Table{Types: map[string]string{}}
	n := int(tbl.NumRows())
	out.Rows = make([]map[string]interface{}, n)
	for i := range out.Rows {
		out.Rows[i] = map[string]interface{}{}
	}
	for c := 0; c < int(tbl.NumCols()); c++ {
		col := tbl.Column(c)
		name := col.Name()
		out.Columns = append(out.Columns, name)
		out.Types[name] = col.DataType().String()
		row := 0
		for _, chunk := range col.Data().Chunks() {
			for i := 0; i < chunk.Len(); i++ {
				v, err := value(chunk, i)
				if err != nil {
					return nil, fmt.Errorf("parquetread: column %s: %w", name, err)
				}
				out.Rows[row][name] = v
				row++
			}
		}
		if row != n {
			return nil, fmt.Errorf("parquetread: column %s has %d values, table has %d rows", name, row, n)
		}
	}
	return out, nil
}

func value(a arrow.Array, i int) (interface{}, error) {
	if a.IsNull(i) {
		return nil, nil
	}
	switch x := a.(type) {
	case *array.Int64:
		return x.Value(i), nil
	case *array.Int32:
		return int64(x.Value(i)), nil
	case *array.Uint64:
		return int64(x.Value(i)), nil
	case *array.Float64:
		return x.Value(i), nil
	case *array.Float32:
		return float64(x.Value(i)), nil
	case *array.String:
		return x.Value(i), nil
	case *array.LargeString:
		return x.Value(i), nil
	case *array.Binary:
		return string(x.Value(i)), nil
	case *array.Boolean:
		return x.Value(i), nil
	case *array.Timestamp:
		return int64(x.Value(i)), nil
	case *array.Decimal128:
		return x.ValueStr(i), nil
	case *array.Dictionary:
		return value(x.Dictionary(), x.GetValueIndex(i))
	}
	return nil, fmt.Errorf("unsupported arrow type %s", a.DataType())
}

// ReadSafe is Read for bytes that may not be a Parquet file at all (a corrupted object): the
// arrow reader can panic on such input; any panic is turned into an error.
func ReadSafe(data []byte) (tbl *Table, err error) {
	defer func() {
		if r := recover(); r != nil {
			tbl, err = nil, fmt.Errorf("parquetread: reader panicked on the object: %v", r)
		}
	}()
	return Read(data)
}

// Package rowdeletekit holds what the C10 (rowdelete) and C11 (retention) drivers share: a
// scratch storage root served by arc's real LocalBackend, arc's real sandboxed DuckDB instance
// (database.New with LocalStorageRoot = the root), Parquet fixtures written with DuckDB COPY
// through that instance, and a read-back of rows as strings.
package rowdeletekit

import (
	"database/sql"
	"fmt"
	"io"
	"os"
	"path/filepath"
	"sort"
	"strings"

	"github.com/basekick-labs/arc/internal/database"
	"github.com/basekick-labs/arc/internal/storage"
	"github.com/rs/zerolog"
)

type Env struct {
	Root    string
	Backend *storage.LocalBackend
	Duck    *database.DuckDB
	DB      *sql.DB
	Logger  zerolog.Logger
}

// NewEnv creates the storage root (under dir), the LocalBackend and the DuckDB instance.
func NewEnv(dir string) (*Env, error) {
	root, err := os.MkdirTemp(dir, "arcroot-")
	if err != nil {
		return nil, err
	}
	root, _ = filepath.EvalSymlinks(root)
	logger := zerolog.New(io.Discard).Level(zerolog.Disabled)
	be, err := storage.NewLocalBackend(root, logger)
	if err != nil {
		return nil, err
	}
	duck, err := database.New(&database.Config{
		MemoryLimit:      "1GB",
		ThreadCount:      2,
		MaxConnections:   2,
		LocalStorageRoot: root,
	}, logger)
	if err != nil {
		return nil, err
	}
	return &Env{Root: root, Backend: be, Duck: duck, DB: duck.DB(), Logger: logger}, nil
}

func (e *Env) Close() {
	if e.Duck != nil {
		e.Duck.Close()
	}
	os.RemoveAll(e.Root)
}

func Esc(p string) string { return strings.ReplaceAll(p, "'", "''") }

// WriteParquet writes `SELECT <selectList> FROM (VALUES <values>) t(<cols>)` to abs (ZSTD parquet).
func (e *Env) WriteParquet(abs, selectList, cols string, values []string) error {
	if err := os.MkdirAll(filepath.Dir(abs), 0o755); err != nil {
		return err
	}
	q := fmt.Sprintf("COPY (SELECT %s FROM (VALUES %s) t(%s)) TO '%s' (FORMAT PARQUET, COMPRESSION ZSTD)",
		selectList, strings.Join(values, ", "), cols, Esc(abs))
	_, err := e.DB.Exec(q)
	return err
}

// QueryStrings runs q and returns every row as strings; NULL is rendered as "~".
func (e *Env) QueryStrings(q string) ([][]string, error) {
	rows, err := e.DB.Query(q)
	if err != nil {
		return nil, err
	}
	defer rows.Close()
	cols, err := rows.Columns()
	if err != nil {
		return nil, err
	}
	var out [][]string
	for rows.Next() {
		vals := make([]sql.NullString, len(cols))
		ptrs := make([]any, len(cols))
		for i := range vals {
			ptrs[i] = &vals[i]
		}
		if err := rows.Scan(ptrs...); err != nil {
			return nil, err
		}
		r := make([]string, len(cols))
		for i, v := range vals {
			if v.Valid {
				r[i] = v.String
			} else {
				r[i] = "~"
			}
		}
		out = append(out, r)
	}
	return out, rows.Err()
}

// ListParquet returns the storage-relative paths of every *.parquet under rel (sorted); files in
// hidden directories (.tmp) are reported too so that a left-over staging file is noticed.
func (e *Env) ListParquet(rel string) ([]string, error) {
	var out []string
	base := filepath.Join(e.Root, rel)
	err := filepath.WalkDir(base, func(p string, d os.DirEntry, err error) error {
		if err != nil {
			if os.IsNotExist(err) {
				return nil
			}
			return err
		}
		if !d.IsDir() && strings.HasSuffix(p, ".parquet") {
			r, _ := filepath.Rel(e.Root, p)
			out = append(out, r)
		}
		return nil
	})
	sort.Strings(out)
	return out, err
}

// ReadFile returns the rows of one parquet file, each row = strings.Join(cols, "|"), sorted.
func (e *Env) ReadFile(rel, selectList string) ([]string, error) {
	rs, err := e.QueryStrings(fmt.Sprintf("SELECT %s FROM read_parquet('%s')", selectList, Esc(filepath.Join(e.Root, rel))))
	if err != nil {
		return nil, err
	}
	out := make([]string, len(rs))
	for i, r := range rs {
		out[i] = strings.Join(r, "|")
	}
	sort.Strings(out)
	return out, nil
}

func CopyFile(src, dst string) error {
	if err := os.MkdirAll(filepath.Dir(dst), 0o755); err != nil {
		return err
	}
	b, err := os.ReadFile(src)
	if err != nil {
		return err
	}
	return os.WriteFile(dst, b, 0o644)
}

// MultisetDiff returns a-b and b-a for sorted-or-not string multisets.
func MultisetDiff(a, b []string) (onlyA, onlyB []string) {
	m := map[string]int{}
	for _, x := range a {
		m[x]++
	}
	for _, x := range b {
		if m[x] > 0 {
			m[x]--
		} else {
			onlyB = append(onlyB, x)
		}
	}
	for _, x := range a {
		if m[x] > 0 {
			m[x]--
			onlyA = append(onlyA, x)
		}
	}
	sort.Strings(onlyA)
	sort.Strings(onlyB)
	return
}

// Package lineprotostore is shared by the C01 (lineproto) and C02 (msgpacktable) drivers:
// an in-memory storage.Backend that records every object the real ArrowBuffer writes, and
// an independent Parquet read-back (arrow-go's file/pqarrow reader, not arc's writer path).
package lineprotostore

import (
	"bytes"
	"context"
	"fmt"
	"io"
	"sort"
	"strings"
	"sync"

	"github.com/apache/arrow-go/v18/arrow"
	"github.com/apache/arrow-go/v18/arrow/array"
	"github.com/apache/arrow-go/v18/arrow/memory"
	"github.com/apache/arrow-go/v18/parquet/file"
	"github.com/apache/arrow-go/v18/parquet/pqarrow"
)

// Mem is an in-memory storage backend.
type Mem struct {
	mu    sync.Mutex
	Files map[string][]byte
}

func NewMem() *Mem { return &Mem{Files: map[string][]byte{}} }

func (m *Mem) Write(ctx context.Context, path string, data []byte) error {
	m.mu.Lock()
	defer m.mu.Unlock()
	m.Files[path] = append([]byte(nil), data...)
	return nil
}
func (m *Mem) WriteReader(ctx context.Context, path string, r io.Reader, size int64) error {
	b, err := io.ReadAll(r)
	if err != nil {
		return err
	}
	return m.Write(ctx, path, b)
}
func (m *Mem) Read(ctx context.Context, path string) ([]byte, error) {
	m.mu.Lock()
	defer m.mu.Unlock()
	b, ok := m.Files[path]
	if !ok {
		return nil, fmt.Errorf("not found: %s", path)
	}
	return append([]byte(nil), b...), nil
}
func (m *Mem) ReadTo(ctx context.Context, path string, w io.Writer) error {
	b, err := m.Read(ctx, path)
	if err != nil {
		return err
	}
	_, err = w.Write(b)
	return err
}
func (m *Mem) ReadToAt(ctx context.Context, path string, w io.Writer, off int64) error {
	b, err := m.Read(ctx, path)
	if err != nil {
		return err
	}
	if off < 0 || off >= int64(len(b)) {
		return fmt.Errorf("offset out of range")
	}
	_, err = w.Write(b[off:])
	return err
}
func (m *Mem) StatFile(ctx context.Context, path string) (int64, error) {
	m.mu.Lock()
	defer m.mu.Unlock()
	b, ok := m.Files[path]
	if !ok {
		return -1, nil
	}
	return int64(len(b)), nil
}
func (m *Mem) List(ctx context.Context, prefix string) ([]string, error) {
	m.mu.Lock()
	defer m.mu.Unlock()
	var out []string
	for k := range m.Files {
		if strings.HasPrefix(k, prefix) {
			out = append(out, k)
		}
	}
	sort.Strings(out)
	return out, nil
}
func (m *Mem) Delete(ctx context.Context, path string) error {
	m.mu.Lock()
	defer m.mu.Unlock()
	delete(m.Files, path)
	return nil
}
func (m *Mem) Exists(ctx context.Context, path string) (bool, error) {
	m.mu.Lock()
	defer m.mu.Unlock()
	_, ok := m.Files[path]
	return ok, nil
}
func (m *Mem) Close() error       { return nil }
func (m *Mem) Type() string       { return "verifmem" }
func (m *Mem) ConfigJSON() string { return "{}" }

// Snapshot returns path -> bytes of everything written so far and clears the store.
func (m *Mem) Snapshot() map[string][]byte {
	m.mu.Lock()
	defer m.mu.Unlock()
	out := m.Files
	m.Files = map[string][]byte{}
	return out
}

// Row is one stored row: column name -> value (nil = NULL). Values are int64 (incl. the
// timestamp in microseconds), float64, string, bool.
type Row map[string]interface{}

// Table is the content of one Parquet file.
type Table struct {
	Types map[string]string // column -> arrow type name
	Rows  []Row
}

// ReadParquet decodes a Parquet file with arrow-go's reader.
func ReadParquet(data []byte) (*Table, error) {
	pf, err := file.NewParquetReader(bytes.NewReader(data))
	if err != nil {
		return nil, err
	}
	defer pf.Close()
	fr, err := pqarrow.NewFileReader(pf, pqarrow.ArrowReadProperties{}, memory.DefaultAllocator)
	if err != nil {
		return nil, err
	}
	tbl, err := fr.ReadTable(context.Background())
	if err != nil {
		return nil, err
	}
	defer tbl.Release()
	out := &Table{Types: map[string]string{}}
	n := int(tbl.NumRows())
	out.Rows = make([]Row, n)
	for i := range out.Rows {
		out.Rows[i] = Row{}
	}
	for ci := 0; ci < int(tbl.NumCols()); ci++ {
		col := tbl.Column(ci)
		name := col.Name()
		out.Types[name] = col.DataType().Name()
		if ts, ok := col.DataType().(*arrow.TimestampType); ok {
			out.Types[name] = "timestamp[" + ts.Unit.String() + "]"
		}
		r := 0
		for _, ch := range col.Data().Chunks() {
			for k := 0; k < ch.Len(); k++ {
				v, err := valueAt(ch, k)
				if err != nil {
					return nil, fmt.Errorf("column %q: %w", name, err)
				}
				out.Rows[r][name] = v
				r++
			}
		}
		if r != n {
			return nil, fmt.Errorf("column %q has %d values, table has %d rows", name, r, n)
		}
	}
	return out, nil
}

func valueAt(a arrow.Array, k int) (interface{}, error) {
	if a.IsNull(k) {
		return nil, nil
	}
	switch c := a.(type) {
	case *array.Int64:
		return c.Value(k), nil
	case *array.Uint64:
		return c.Value(k), nil
	case *array.Int32:
		return int64(c.Value(k)), nil
	case *array.Float64:
		return c.Value(k), nil
	case *array.Float32:
		return float64(c.Value(k)), nil
	case *array.String:
		return c.Value(k), nil
	case *array.LargeString:
		return c.Value(k), nil
	case *array.Binary:
		return string(c.Value(k)), nil
	case *array.Boolean:
		return c.Value(k), nil
	case *array.Timestamp:
		return int64(c.Value(k)), nil
	case *array.Dictionary:
		return valueAt(c.Dictionary(), c.GetValueIndex(k))
	default:
		return nil, fmt.Errorf("unsupported arrow array %T", a)
	}
}

module github.com/basekick-labs/arc/verifharness

go 1.26

toolchain go1.26.4

require (
	github.com/Basekick-Labs/msgpack/v6 v6.1.0
	github.com/basekick-labs/arc v0.0.0
	github.com/rs/zerolog v1.34.0
)

require (
	github.com/mattn/go-colorable v0.1.14 // indirect
	github.com/mattn/go-isatty v0.0.20 // indirect
	github.com/vmihailenco/tagparser/v2 v2.0.0 // indirect
	golang.org/x/sys v0.46.0 // indirect
)

replace github.com/basekick-labs/arc => /repo

// Command walfile is the C06 replay driver: for every WAL layout enumerated by TLC
// (specs/walfile/WalFile.tla) it builds the files with the real wal.Writer, expands every
// abstract fault of the specification to every concrete byte offset (every truncation
// length, every offset x several byte values), runs the real Reader.ReadAll and
// Recovery.RecoverWithOptions and judges the result against the property (subsequence,
// unaltered, truncation hides nothing complete) and against the specification's prediction
// (drift detector).
package main

import (
	"context"
	"encoding/binary"
	"encoding/json"
	"flag"
	"fmt"
	"os"
	"path/filepath"
	"reflect"
	"sort"
	"strings"
	"sync/atomic"
	"time"

	"github.com/Basekick-Labs/msgpack/v6"
	"github.com/basekick-labs/arc/internal/wal"
	"github.com/rs/zerolog"
)

type scenario struct {
	Layout  [][]string         `json:"layout"`
	Allowed map[string][][]int `json:"allowed"` // fault key -> allowed outputs
}

type frameInfo struct {
	id, start, end, plen int
	pad                  int
	kind                 string
	dbLen                int
}

type fileInfo struct {
	path   string
	data   []byte
	frames []frameInfo
}

type witness struct {
	Layout    [][]string `json:"layout"`
	File      int        `json:"file"`
	Offset    int        `json:"offset"`
	Mutation  string     `json:"mutation"`
	FaultKey  string     `json:"fault_key"`
	Via       string     `json:"via"`
	Out       []int      `json:"out"`
	Predicted [][]int    `json:"predicted,omitempty"`
	Note      string     `json:"note,omitempty"`
}

type finding struct {
	Signature string  `json:"signature"`
	Witness   witness `json:"witness"`
}

type result struct {
	Layouts     int            `json:"layouts"`
	Mutations   int            `json:"mutations"`
	Reads       int            `json:"reads"`
	PerClass    map[string]int `json:"per_class"`
	FaultKeys   int            `json:"fault_keys_exercised"`
	FaultKeysTL int            `json:"fault_keys_predicted"`
	Violations  []finding      `json:"violations"`
	Drift       []finding      `json:"drift"`
	Samples     []witness      `json:"samples"`
	Infra       string         `json:"infra,omitempty"`
}

var logger = zerolog.Nop()

func payloadFor(kind string, id int, pad int) (raw []byte, records []map[string]interface{}) {
	padding := strings.Repeat("p", pad)
	switch kind {
	case "row":
		recs := []map[string]interface{}{
			{"measurement": fmt.Sprintf("m%d", id), "time": int64(1700000000000000 + id), "fields": map[string]interface{}{"v": int64(id*7 + 1), "s": fmt.Sprintf("row-%d%s", id, padding)}},
			{"measurement": fmt.Sprintf("m%d", id), "time": int64(1700000000000001 + id), "fields": map[string]interface{}{"v": int64(id*7 + 2)}},
		}
		return nil, recs
	default:
		m := map[string]interface{}{
			"m": fmt.Sprintf("m%d", id),
			"columns": map[string]interface{}{
				"time": []interface{}{int64(1700000000000000 + id), int64(1700000000000100 + id)},
				"v":    []interface{}{float64(id) + 0.5, float64(id) + 1.5},
				"tag":  []interface{}{fmt.Sprintf("t%d%s", id, padding), "x"},
			},
		}
		b, err := msgpack.Marshal(m)
		if err != nil {
			panic(err)
		}
		return b, nil
	}
}

func frameSize(kind string, id, pad int) int {
	raw, recs := payloadFor(kind, id, pad)
	n := 0
	if recs != nil {
		b, _ := msgpack.Marshal(recs)
		n = len(b)
	} else {
		n = len(raw)
	}
	if kind == "env" {
		n += 3 + len(dbName(id))
	}
	return wal.WALEntryHeaderSize + n
}

func dbName(id int) string { return fmt.Sprintf("db%d", id) }

const rotateAt = 640

type locker interface {
	VerifLock()
	VerifUnlock()
}

// scribble overwrites a buffer the driver handed to the writer: after Append* has returned the
// caller owns the slice again (the ingest path passes recycled request-body buffers).
func scribble(b []byte) {
	for i := range b {
		b[i] = 0xAA
	}
}

// buildLayout writes the layout with the real writer. A boundary after a non-empty file is a
// real size-triggered rotation (the last frame of the file is padded past MaxSizeBytes); a
// boundary after an empty file is a writer restart (NewWriter always opens a fresh file).
// While a writer session appends, the writer mutex is held through the overlay shim (when
// present) and every payload buffer is overwritten right after its Append call returned.
type breaker interface {
	VerifBreakFile()
}

// buildLayout: breakRotation selects how a boundary after a NON-EMPTY file is produced: false = size-triggered
// rotation (last frame padded past MaxSizeBytes); true = write-failure rotation (the current file handle is
// closed under the writer mutex, so the next entry's write fails, the writer rotates and must re-write THAT
// entry first in the new file while later entries are already queued behind it).
func buildLayout(dir string, layout [][]string, breakRotation bool) ([]int, error) {
	var pads []int
	newWriter := func() (*wal.Writer, error) {
		return wal.NewWriter(&wal.WriterConfig{WALDir: dir, SyncMode: wal.SyncModeAsync, MaxSizeBytes: rotateAt,
			MaxAge: time.Hour, BufferSize: 64, Logger: logger})
	}
	w, err := newWriter()
	if err != nil {
		return nil, err
	}
	locked := false
	lock := func() {
		if l, ok := interface{}(w).(locker); ok && !locked {
			l.VerifLock()
			locked = true
		}
	}
	unlock := func() {
		if l, ok := interface{}(w).(locker); ok && locked {
			l.VerifUnlock()
			locked = false
		}
	}
	waitFiles := func(n int) error {
		deadline := time.Now().Add(20 * time.Second)
		for {
			files, _ := filepath.Glob(filepath.Join(dir, "*.wal"))
			if len(files) >= n {
				return nil
			}
			if time.Now().After(deadline) {
				return fmt.Errorf("rotation to %d files did not happen", n)
			}
			time.Sleep(200 * time.Microsecond)
		}
	}
	if _, ok := interface{}(w).(breaker); !ok {
		breakRotation = false
	}
	if _, ok := interface{}(w).(locker); !ok {
		breakRotation = false
	}
	waitWritten := func(n int64) error {
		deadline := time.Now().Add(60 * time.Second)
		for atomic.LoadInt64(&w.TotalEntries) < n {
			if time.Now().After(deadline) {
				return fmt.Errorf("writer did not persist %d entries", n)
			}
			time.Sleep(100 * time.Microsecond)
		}
		return nil
	}
	var sessionEntries int64
	lock()
	id := 0
	for fi, file := range layout {
		size := wal.WALFileHeaderSize
		for j, kind := range file {
			id++
			pad := 0
			last := j == len(file)-1
			if last && fi < len(layout)-1 && !(breakRotation && len(layout[fi+1]) > 0) {
				// pad so that this write crosses the rotation threshold
				base := frameSize(kind, id, 0)
				if size+base < rotateAt {
					pad = rotateAt - size - base
				}
			}
			pads = append(pads, pad)
			raw, recs := payloadFor(kind, id, pad)
			switch kind {
			case "raw":
				err = w.AppendRaw(raw)
			case "env":
				err = w.AppendRawWithMeta(dbName(id), raw)
			case "row":
				err = w.Append(recs)
			default:
				err = fmt.Errorf("unknown kind %s", kind)
			}
			if err != nil {
				unlock()
				return nil, err
			}
			scribble(raw)
			size += frameSize(kind, id, pad)
			sessionEntries++
		}
		if fi < len(layout)-1 && len(file) > 0 && breakRotation && len(layout[fi+1]) > 0 {
			// let the writer persist everything appended so far, then break the file handle so that the
			// next entry's write fails while the entries of the following files queue up behind it
			unlock()
			if err := waitWritten(sessionEntries); err != nil {
				return nil, err
			}
			lock()
			interface{}(w).(breaker).VerifBreakFile()
		}
		if fi < len(layout)-1 && len(file) == 0 {
			// empty file: restart the writer
			unlock()
			if err := w.Close(); err != nil {
				return nil, err
			}
			time.Sleep(2 * time.Millisecond)
			if w, err = newWriter(); err != nil {
				return nil, err
			}
			sessionEntries = 0
			lock()
		}
	}
	unlock()
	if err := waitFilesAfterClose(w, dir, len(layout), waitFiles); err != nil {
		return nil, err
	}
	return pads, nil
}

// the async writer loop rotates while it drains; Close drains everything, after which the
// number of files must equal the layout's
func waitFilesAfterClose(w *wal.Writer, dir string, n int, wait func(int) error) error {
	if err := w.Close(); err != nil {
		return err
	}
	return wait(n)
}

// expectedFor is the driver's own, reader-independent decoding of what it appended.
func expectedFor(kind string, id, pad int) decoded {
	raw, recs := payloadFor(kind, id, pad)
	if kind == "row" {
		b, err := msgpack.Marshal(recs)
		if err != nil {
			panic(err)
		}
		var out []map[string]interface{}
		if err := msgpack.Unmarshal(b, &out); err != nil {
			panic(err)
		}
		return decoded{Records: out}
	}
	var m map[string]interface{}
	if err := msgpack.Unmarshal(raw, &m); err != nil {
		panic(err)
	}
	cols := map[string][]interface{}{}
	for k, v := range m["columns"].(map[string]interface{}) {
		cols[k] = v.([]interface{})
	}
	db := ""
	if kind == "env" {
		db = dbName(id)
	}
	return decoded{Columnar: &wal.ColumnarEntry{Database: db, Measurement: m["m"].(string), Columns: cols}}
}

func loadFiles(dir string, layout [][]string, pads []int) ([]fileInfo, error) {
	names, _ := filepath.Glob(filepath.Join(dir, "*.wal"))
	sort.Strings(names) // names embed the creation time (ns), so lexical order = creation order
	if len(names) != len(layout) {
		return nil, fmt.Errorf("layout has %d files, writer produced %d", len(layout), len(names))
	}
	var out []fileInfo
	id := 0
	base := time.Now().Add(-time.Hour)
	for i, n := range names {
		// make the mtime order explicit (findWALFiles sorts by mtime)
		_ = os.Chtimes(n, base.Add(time.Duration(i)*time.Second), base.Add(time.Duration(i)*time.Second))
		data, err := os.ReadFile(n)
		if err != nil {
			return nil, err
		}
		fi := fileInfo{path: n, data: data}
		off := wal.WALFileHeaderSize
		for _, kind := range layout[i] {
			id++
			if off+wal.WALEntryHeaderSize > len(data) {
				return nil, fmt.Errorf("file %d shorter than layout", i)
			}
			plen := int(binary.BigEndian.Uint32(data[off : off+4]))
			f := frameInfo{id: id, start: off, end: off + wal.WALEntryHeaderSize + plen, plen: plen, kind: kind}
			f.pad = pads[id-1]
			if f.end-f.start != frameSize(kind, id, f.pad) {
				return nil, fmt.Errorf("frame %d: size on disk %d, expected %d", id, f.end-f.start, frameSize(kind, id, f.pad))
			}
			if kind == "env" {
				f.dbLen = len(dbName(id))
			}
			fi.frames = append(fi.frames, f)
			off = f.end
		}
		if off != len(data) {
			return nil, fmt.Errorf("file %d: layout accounts for %d bytes, file has %d", i, off, len(data))
		}
		out = append(out, fi)
	}
	return out, nil
}

// canonical form of a decoded entry without the (unprotected) header timestamp
type decoded struct {
	Records  []map[string]interface{}
	Columnar *wal.ColumnarEntry
}

func canon(e wal.Entry) decoded { return decoded{Records: e.Records, Columnar: e.ColumnarData} }

func readDir(paths []string) ([]decoded, error) {
	var out []decoded
	for _, p := range paths {
		r := wal.NewReader(p, logger)
		es, err := r.ReadAll()
		if err != nil {
			continue // Recovery logs and continues with the next file
		}
		for _, e := range es {
			out = append(out, canon(e))
		}
	}
	return out, nil
}

func recoverDir(dir string) ([]decoded, error) {
	var out []decoded
	rec := wal.NewRecovery(dir, logger)
	_, err := rec.RecoverWithOptions(context.Background(),
		func(ctx context.Context, records []map[string]interface{}) error {
			out = append(out, decoded{Records: records})
			return nil
		},
		&wal.RecoveryOptions{ColumnarCallback: func(ctx context.Context, database, measurement string, columns map[string][]interface{}) error {
			out = append(out, decoded{Columnar: &wal.ColumnarEntry{Database: database, Measurement: measurement, Columns: columns}})
			return nil
		}})
	return out, err
}

func identify(ref []decoded, got []decoded) (ids []int, altered int) {
	for _, g := range got {
		found := 0
		for i, r := range ref {
			if reflect.DeepEqual(r, g) {
				found = i + 1
				break
			}
		}
		if found == 0 {
			altered++
			ids = append(ids, -1)
		} else {
			ids = append(ids, found)
		}
	}
	return
}

func keyOf(typ string, file, frame int, region string) string {
	return fmt.Sprintf("%s|%d|%d|%s", typ, file, frame, region)
}

func inAllowed(allowed [][]int, out []int) bool {
	for _, a := range allowed {
		if len(a) == len(out) {
			eq := true
			for i := range a {
				if a[i] != out[i] {
					eq = false
					break
				}
			}
			if eq {
				return true
			}
		}
	}
	return false
}

type mutation struct {
	off  int
	kind string // "trunc" or "set"
	val  byte
}

func classify(fi fileInfo, fileIdx int, m mutation) (key string, region string, ok bool) {
	if m.kind == "trunc" {
		if m.off < wal.WALFileHeaderSize {
			return keyOf("trunc", fileIdx, 0, "fhdr"), "trunc-fhdr", true
		}
		if m.off == wal.WALFileHeaderSize && len(fi.frames) > 0 {
			return keyOf("trunc", fileIdx, 0, "boundary"), "trunc-boundary", true
		}
		for j, f := range fi.frames {
			switch {
			case m.off == f.end && j < len(fi.frames)-1:
				return keyOf("trunc", fileIdx, j+1, "boundary"), "trunc-boundary", true
			case m.off > f.start && m.off < f.start+wal.WALEntryHeaderSize:
				return keyOf("trunc", fileIdx, j+1, "hdr"), "trunc-hdr", true
			case m.off >= f.start+wal.WALEntryHeaderSize && m.off < f.end:
				return keyOf("trunc", fileIdx, j+1, "payload"), "trunc-payload", true
			}
		}
		return "", "", false
	}
	if m.off < 4 {
		return keyOf("corrupt", fileIdx, 0, "magic"), "magic", true
	}
	if m.off < 6 {
		return keyOf("corrupt", fileIdx, 0, "version"), "version", true
	}
	if m.off < 7 {
		return keyOf("corrupt", fileIdx, 0, "cktype"), "cktype", true
	}
	for j, f := range fi.frames {
		if m.off < f.start || m.off >= f.end {
			continue
		}
		rel := m.off - f.start
		var region string
		switch {
		case rel < 4:
			var l [4]byte
			copy(l[:], fi.data[f.start:f.start+4])
			l[rel] = m.val
			nl := int(binary.BigEndian.Uint32(l[:]))
			switch {
			case nl > wal.MaxWALPayloadSize:
				region = "lenHuge"
			case nl > f.plen && f.start+wal.WALEntryHeaderSize+nl > len(fi.data):
				region = "lenUpShort"
			case nl > f.plen:
				region = "lenUpMis"
			default:
				region = "lenDown"
			}
		case rel < 12:
			region = "ts"
		case rel < 16:
			region = "crc"
		default:
			p := rel - 16
			region = "body"
			if f.kind == "env" {
				switch {
				case p == 0:
					region = "envMarker"
				case p < 3:
					region = "envLen"
				case p < 3+f.dbLen:
					region = "envName"
				}
			}
		}
		return keyOf("corrupt", fileIdx, j+1, region), region, true
	}
	return "", "", false
}

func main() {
	scen := flag.String("scenarios", "", "json file: list of {layout, allowed}")
	outp := flag.String("out", "", "result json")
	stride := flag.Int("recover-stride", 1, "run Recovery.RecoverWithOptions on every n-th mutation (ReadAll runs on all)")
	flag.Parse()
	var scs []scenario
	b, err := os.ReadFile(*scen)
	if err != nil {
		fatal(err)
	}
	if err := json.Unmarshal(b, &scs); err != nil {
		fatal(err)
	}
	res := result{PerClass: map[string]int{}}
	exercised := map[string]bool{}
	tmpBase := ""
	if st, err := os.Stat("/dev/shm"); err == nil && st.IsDir() {
		tmpBase = "/dev/shm"
	}
	tmp, err := os.MkdirTemp(tmpBase, "walfile-")
	if err != nil {
		fatal(err)
	}
	defer os.RemoveAll(tmp)

	addV := func(sig string, w witness) {
		for _, v := range res.Violations {
			if v.Signature == sig {
				return
			}
		}
		res.Violations = append(res.Violations, finding{sig, w})
	}
	addD := func(sig string, w witness) {
		if len(res.Drift) < 20 {
			for _, v := range res.Drift {
				if v.Signature == sig {
					return
				}
			}
			res.Drift = append(res.Drift, finding{sig, w})
		}
	}

	for si, sc := range scs {
		res.FaultKeysTL += len(sc.Allowed)
		dir := filepath.Join(tmp, fmt.Sprintf("l%d", si))
		pads, err := buildLayout(dir, sc.Layout, si%2 == 1)
		if err != nil {
			res.Infra = fmt.Sprintf("build layout %v: %v", sc.Layout, err)
			break
		}
		files, err := loadFiles(dir, sc.Layout, pads)
		if err != nil {
			// The writer did not produce the files the layout describes (frames in another order, other
			// sizes, another number of files). That is not an infrastructure problem: read the directory
			// as it is with the real reader and judge it against what was appended, in append order.
			names, _ := filepath.Glob(filepath.Join(dir, "*.wal"))
			sort.Strings(names)
			got, _ := readDir(names)
			var want []decoded
			id := 0
			for _, f := range sc.Layout {
				for _, kind := range f {
					id++
					want = append(want, expectedFor(kind, id, pads[id-1]))
				}
			}
			ids, altered := identify(want, got)
			w := witness{Layout: sc.Layout, File: 0, Offset: -1, Mutation: "none", FaultKey: "none|0|0|none", Via: "ReadAll", Out: ids, Note: err.Error()}
			inOrder := altered == 0 && len(ids) == len(want)
			for i, x := range ids {
				if x != i+1 {
					inOrder = false
				}
			}
			if inOrder {
				res.Infra = fmt.Sprintf("load layout %v: %v", sc.Layout, err)
				break
			}
			switch {
			case altered > 0:
				addV("intact-file-yields-entry-that-was-not-appended", w)
			case len(ids) != len(want):
				addV("intact-file-entries-missing", w)
			default:
				addV("intact-file-entries-out-of-order", w)
			}
			res.Layouts++
			os.RemoveAll(dir)
			continue
		}
		res.Layouts++
		var paths []string
		for _, f := range files {
			paths = append(paths, f.path)
		}
		// reference = the driver's own decoding of what it appended (independent of wal.Reader/Writer)
		var ref []decoded
		for _, f := range files {
			for _, fr := range f.frames {
				if fr.pad < 0 {
					res.Infra = fmt.Sprintf("frame %d smaller than its unpadded size", fr.id)
				}
				ref = append(ref, expectedFor(fr.kind, fr.id, fr.pad))
			}
		}
		pristine, _ := readDir(paths)
		total := len(ref)
		judge := func(w witness, got []decoded, allowed [][]int, complete []int, alteredFrame int) {
			ids, altered := identify(ref, got)
			w.Out = ids
			if altered > 0 {
				addV("altered-or-fabricated-entry:"+strings.SplitN(w.FaultKey, "|", 4)[3]+":"+w.Via, w)
			}
			last := 0
			for _, id := range ids {
				if id > 0 {
					if id <= last {
						addV("not-a-subsequence-in-append-order:"+w.Via, w)
					}
					last = id
					if id == alteredFrame {
						addV("altered-frame-yielded:"+w.Via, w)
					}
				}
			}
			for _, c := range complete {
				found := false
				for _, id := range ids {
					if id == c {
						found = true
					}
				}
				if !found {
					addV("truncation-hides-complete-entry:"+strings.SplitN(w.FaultKey, "|", 4)[3]+":"+w.Via, w)
					break
				}
			}
			if allowed != nil && altered == 0 && !inAllowed(allowed, ids) {
				w.Predicted = allowed
				addD("reader-output-differs-from-WalFile.tla:"+strings.SplitN(w.FaultKey, "|", 4)[3], w)
			}
		}
		// no fault
		{
			w := witness{Layout: sc.Layout, File: 0, Offset: -1, Mutation: "none", FaultKey: "none|0|0|none", Via: "ReadAll"}
			ids, altered := identify(ref, pristine)
			w.Out = ids
			if altered > 0 {
				addV("intact-file-yields-entry-that-was-not-appended", w)
			} else if len(pristine) != total {
				addV("intact-file-entries-missing", w)
			} else {
				for i, id := range ids {
					if id != i+1 {
						addV("intact-file-entries-out-of-order", w)
						break
					}
				}
			}
			exercised[fmt.Sprintf("%d/none|0|0|none", si)] = true
		}
		n := 0
		for fidx, f := range files {
			var muts []mutation
			for o := 0; o < len(f.data); o++ {
				muts = append(muts, mutation{off: o, kind: "trunc"})
				bv := f.data[o]
				seen := map[byte]bool{bv: true}
				for _, v := range []byte{bv ^ 0x01, bv ^ 0x80, 0x00, 0xFF, bv + 1} {
					if !seen[v] {
						seen[v] = true
						muts = append(muts, mutation{off: o, kind: "set", val: v})
					}
				}
			}
			for _, m := range muts {
				key, region, ok := classify(f, fidx+1, m)
				if !ok {
					continue
				}
				allowed, predicted := sc.Allowed[key]
				if !predicted {
					res.Infra = fmt.Sprintf("fault %s of layout %v not predicted by the specification", key, sc.Layout)
					break
				}
				exercised[fmt.Sprintf("%d/%s", si, key)] = true
				res.PerClass[region]++
				res.Mutations++
				n++
				// mutated copy of the directory
				mdir := filepath.Join(tmp, "m")
				os.RemoveAll(mdir)
				os.MkdirAll(mdir, 0o700)
				var mpaths []string
				base := time.Now().Add(-time.Hour)
				for k, g := range files {
					data := g.data
					if k == fidx {
						if m.kind == "trunc" {
							data = data[:m.off]
						} else {
							data = append([]byte(nil), data...)
							data[m.off] = m.val
						}
					}
					p := filepath.Join(mdir, filepath.Base(g.path))
					if err := os.WriteFile(p, data, 0o600); err != nil {
						fatal(err)
					}
					ts := base.Add(time.Duration(k) * time.Second)
					os.Chtimes(p, ts, ts)
					mpaths = append(mpaths, p)
				}
				// which entries are complete before a truncation; which frame's payload was altered
				var complete []int
				alteredFrame := 0
				if m.kind == "trunc" {
					for k, g := range files {
						for _, fr := range g.frames {
							if k != fidx || fr.end <= m.off {
								if k == fidx && m.off < wal.WALFileHeaderSize {
									continue
								}
								complete = append(complete, fr.id)
							}
						}
					}
				} else {
					for _, fr := range f.frames {
						if m.off >= fr.start+wal.WALEntryHeaderSize && m.off < fr.end {
							alteredFrame = fr.id
						}
					}
				}
				mutName := m.kind
				if m.kind == "set" {
					mutName = fmt.Sprintf("set:0x%02x", m.val)
				}
				w := witness{Layout: sc.Layout, File: fidx + 1, Offset: m.off, Mutation: mutName, FaultKey: key, Via: "ReadAll"}
				got, _ := readDir(mpaths)
				res.Reads++
				judge(w, got, allowed, complete, alteredFrame)
				if n%*stride == 0 {
					w.Via = "RecoverWithOptions"
					got2, err := recoverDir(mdir)
					res.Reads++
					if err != nil {
						w.Note = err.Error()
					}
					judge(w, got2, allowed, complete, alteredFrame)
				}
				if len(res.Samples) < 5 && n%977 == 1 {
					ids, _ := identify(ref, got)
					w.Out = ids
					w.Predicted = allowed
					res.Samples = append(res.Samples, w)
				}
			}
			if res.Infra != "" {
				break
			}
		}
		if res.Infra != "" {
			break
		}
		os.RemoveAll(dir)
	}
	res.FaultKeys = len(exercised)
	ob, _ := json.MarshalIndent(res, "", " ")
	if err := os.WriteFile(*outp, ob, 0o644); err != nil {
		fatal(err)
	}
}

func fatal(err error) {
	fmt.Fprintln(os.Stderr, "walfile:", err)
	os.Exit(2)
}

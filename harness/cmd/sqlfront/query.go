package main

// mode query (C14): every statement enumerated by TLC is posted to the REAL query handler
// (api.QueryHandler behind a fiber app, real sandboxed DuckDB over a scratch storage root, RBAC switched on
// through a recording RBACChecker that grants only database "allowed").  Two independent witnesses:
//   (i)  a 2xx response whose body contains the canary that exists only under foreign/...;
//   (ii) a 2xx response for a statement whose ORIGINAL text, parsed by DuckDB itself (json_serialize_sql),
//        contains a file-reading table function / a string in table position, or a base table whose
//        (database, measurement) the permission checker was never asked about.

import (
	"bytes"
	"database/sql"
	"encoding/json"
	"fmt"
	"io"
	"net/http/httptest"
	"os"
	"path/filepath"
	"sort"
	"strings"
	"sync"

	"github.com/basekick-labs/arc/internal/api"
	"github.com/basekick-labs/arc/internal/auth"
	"github.com/basekick-labs/arc/internal/database"
	"github.com/basekick-labs/arc/internal/storage"
	"github.com/gofiber/fiber/v2"
	"github.com/rs/zerolog"
)

const (
	canaryForeign = "CANARY_FOREIGN_7731"
	canaryAllowed = "canary_allowed_1189"
)

type recorder struct {
	mu    sync.Mutex
	asked []string
}

func (r *recorder) IsRBACEnabled() bool { return true }
func (r *recorder) CheckPermission(q *auth.PermissionCheckRequest) *auth.PermissionCheckResult {
	r.mu.Lock()
	r.asked = append(r.asked, strings.ToLower(q.Database)+"."+strings.ToLower(q.Measurement))
	r.mu.Unlock()
	// token 7 = the restricted caller (database `allowed` only); token 8 = the owner of database `default`
	own := "allowed"
	if q.TokenInfo != nil && q.TokenInfo.ID == 8 {
		own = "default"
	}
	if q.Database == own && q.Permission == "read" {
		return &auth.PermissionCheckResult{Allowed: true, Source: "rbac"}
	}
	return &auth.PermissionCheckResult{Allowed: false, Source: "denied", Reason: "verif: only database allowed"}
}
func (r *recorder) CheckPermissionsBatch(qs []*auth.PermissionCheckRequest) []*auth.PermissionCheckResult {
	out := make([]*auth.PermissionCheckResult, len(qs))
	for i, q := range qs {
		out[i] = r.CheckPermission(q)
	}
	return out
}
func (r *recorder) take() []string {
	r.mu.Lock()
	defer r.mu.Unlock()
	a := r.asked
	r.asked = nil
	return a
}

type queryWitness struct {
	Symbols   string   `json:"symbols"`
	SQL       string   `json:"sql"`
	HeaderDB  string   `json:"x_arc_database,omitempty"`
	Status    int      `json:"status"`
	Canary    bool     `json:"foreign_canary_in_response"`
	Asked     []string `json:"permission_checked"`
	Tables    []string `json:"duckdb_base_tables"`
	Functions []string `json:"duckdb_table_functions"`
	Unchecked []string `json:"unchecked_or_forbidden"`
	Class     string   `json:"disguise_class"`
	SubClass  string   `json:"denylist_subclass,omitempty"`
	Via       string   `json:"read_via,omitempty"`
	ArcHidden bool     `json:"arcnorm_predicted_hidden"`
	Body      string   `json:"body_head,omitempty"`
}

var fileFuncs = map[string]bool{"read_parquet": true, "parquet_scan": true, "read_csv": true, "read_csv_auto": true,
	"read_json": true, "read_json_auto": true, "read_text": true, "read_blob": true, "glob": true, "parquet_metadata": true,
	"parquet_schema": true, "read_ndjson": true, "sniff_csv": true}

// walk DuckDB's own parse tree of the original text
func walkRefs(v interface{}, tables, funcs *[]string) {
	switch x := v.(type) {
	case map[string]interface{}:
		if t, _ := x["type"].(string); t == "BASE_TABLE" {
			sch, _ := x["schema_name"].(string)
			tb, _ := x["table_name"].(string)
			*tables = append(*tables, strings.ToLower(sch)+"."+strings.ToLower(tb))
		} else if t == "TABLE_FUNCTION" {
			if f, ok := x["function"].(map[string]interface{}); ok {
				fn, _ := f["function_name"].(string)
				*funcs = append(*funcs, strings.ToLower(fn))
			}
		}
		for _, c := range x {
			walkRefs(c, tables, funcs)
		}
	case []interface{}:
		for _, c := range x {
			walkRefs(c, tables, funcs)
		}
	}
}

func cteNames(v interface{}, out map[string]bool) {
	switch x := v.(type) {
	case map[string]interface{}:
		if m, ok := x["cte_map"].(map[string]interface{}); ok {
			if l, ok := m["map"].([]interface{}); ok {
				for _, e := range l {
					if em, ok := e.(map[string]interface{}); ok {
						if k, ok := em["key"].(string); ok {
							out[strings.ToLower(k)] = true
						}
					}
				}
			}
		}
		for _, c := range x {
			cteNames(c, out)
		}
	case []interface{}:
		for _, c := range x {
			cteNames(c, out)
		}
	}
}

func runQuery(in *input, res *result) {
	root := in.Root
	if root == "" || !filepath.IsAbs(root) {
		res.Infra = "storage root missing"
		return
	}
	var err error
	duck, err = sql.Open("duckdb", "")
	if err != nil {
		res.Infra = "duckdb open: " + err.Error()
		return
	}
	defer duck.Close()
	// measurement files with canaries
	mk := func(db, canary string, v int) error {
		dir := filepath.Join(root, db, "cpu", "2024", "01", "01", "00")
		if err := os.MkdirAll(dir, 0o755); err != nil {
			return err
		}
		_, err := duck.Exec(fmt.Sprintf("COPY (SELECT TIMESTAMP '2024-01-01 00:00:00' AS time, '%s' AS tag, %d AS v) TO '%s' (FORMAT PARQUET)",
			canary, v, filepath.Join(dir, "f.parquet")))
		return err
	}
	if err := mk("allowed", canaryAllowed, 1); err != nil {
		res.Infra = "plant allowed: " + err.Error()
		return
	}
	if err := mk("default", canaryForeign, 3); err != nil { // another tenant's database, same measurement name
		res.Infra = "plant default: " + err.Error()
		return
	}
	if err := mk("foreign", canaryForeign, 2); err != nil {
		res.Infra = "plant foreign: " + err.Error()
		return
	}
	os.MkdirAll(filepath.Join(root, "_tmp"), 0o755)
	logger := zerolog.Nop()
	ddb, err := database.New(&database.Config{MaxConnections: 2, MemoryLimit: "1GB", ThreadCount: 2,
		LocalStorageRoot: root, TempDirectory: filepath.Join(root, "_tmp")}, logger)
	if err != nil {
		res.Infra = "database.New: " + err.Error()
		return
	}
	defer ddb.Close()
	backend, err := storage.NewLocalBackend(root, logger)
	if err != nil {
		res.Infra = "storage: " + err.Error()
		return
	}
	h := api.NewQueryHandler(ddb, backend, logger, 30, 0)
	rec := &recorder{}
	h.SetAuthAndRBAC(nil, rec)
	app := fiber.New(fiber.Config{DisableStartupMessage: true})
	app.Use(func(c *fiber.Ctx) error {
		id := int64(7)
		if c.Get("x-verif-token") == "8" {
			id = 8
		}
		c.Locals("token_info", &auth.TokenInfo{ID: id, Name: "verif-reader", Permissions: []string{"read"}, Enabled: true})
		return c.Next()
	})
	h.RegisterRoutes(app)

	asToken := ""
	post := func(text, hdr string) (int, string, error) {
		body, _ := json.Marshal(map[string]string{"sql": text})
		req := httptest.NewRequest("POST", "/api/v1/query", bytes.NewReader(body))
		req.Header.Set("Content-Type", "application/json")
		if hdr != "" {
			req.Header.Set("x-arc-database", hdr)
		}
		if asToken != "" {
			req.Header.Set("x-verif-token", asToken)
		}
		resp, err := app.Test(req, 60000)
		if err != nil {
			return 0, "", err
		}
		defer resp.Body.Close()
		b, _ := io.ReadAll(resp.Body)
		return resp.StatusCode, string(b), nil
	}
	// self-test of the rig: the granted measurement is readable, the foreign one is refused, and the
	// sandbox would let DuckDB read the foreign file if arc handed the statement over
	if st, body, err := post("SELECT tag FROM allowed.cpu", ""); err != nil || st != 200 || !strings.Contains(body, canaryAllowed) {
		res.Infra = fmt.Sprintf("rig: allowed.cpu not readable: %d %v %s", st, err, short(body))
		return
	}
	if asked := rec.take(); len(asked) != 1 || asked[0] != "allowed.cpu" {
		res.Infra = fmt.Sprintf("rig: permission checker saw %v", asked)
		return
	}
	if st, body, _ := post("SELECT tag FROM foreign.cpu", ""); st != 403 || strings.Contains(body, canaryForeign) {
		res.Infra = fmt.Sprintf("rig: foreign.cpu not refused: %d %s", st, short(body))
		return
	}
	rec.take()
	if st, body, _ := post("SELECT tag FROM cpu", "allowed"); st != 200 || !strings.Contains(body, canaryAllowed) {
		res.Infra = fmt.Sprintf("rig: header database not honoured: %d %s", st, short(body))
		return
	}
	rec.take()
	var probe string
	if err := ddb.DB().QueryRow("SELECT tag FROM read_parquet('" + filepath.Join(root, "foreign/cpu/2024/01/01/00/f.parquet") + "')").Scan(&probe); err != nil || probe != canaryForeign {
		res.Infra = fmt.Sprintf("rig: sandboxed DuckDB cannot read the foreign file directly: %v", err)
		return
	}

	keys := map[string]bool{}
	for _, tr := range in.Traces {
		text := conc(tr.S)
		symtxt := strings.Join(tr.S, " ")
		res.Strings++
		cls := tr.Lab
		hidden := !tr.Avis || !tr.AvisI
		if cls == "none" && tr.LabI != "none" && tr.LabI != "" {
			cls = "denylist-quote-deletion" // ioDenylistNormalise deletes " and ` before masking (sub-class tr.LabI)
		}
		if cls == "none" && tr.Shape != "" && tr.Shape != "none" {
			cls, hidden = tr.Shape, true // a shape the spec marks as invisible to the rewrite's CTE handling
		}
		if cls == "none" && !tr.Rt {
			cls, hidden = "placeholder-lookalike-unmask", true // the model's Unmask(Mask(s)) differs from s
		}
		if cls == "none" && tr.LabV != "none" {
			cls = "validate:" + tr.LabV
		}
		for _, mode := range []string{"", "allowed", "foreign", "seq"} {
			res.Evaluations++
			hdr := mode
			if mode == "seq" {
				// two-request sequence on the same handler: the owner of `default` runs the text without a header,
				// then the restricted caller runs the SAME text with x-arc-database: allowed; the second is judged
				asToken = "8"
				post(text, "")
				rec.take()
				asToken = ""
				hdr = "allowed"
			}
			st, body, err := post(text, hdr)
			asked := rec.take()
			if err != nil {
				res.Counts["request_error"]++
				continue
			}
			res.Counts[fmt.Sprintf("status_%d", st)]++
			if !hidden {
				res.Counts["predicted_visible"]++
			} else {
				res.Counts["predicted_hidden"]++
			}
			if st < 200 || st > 299 {
				if hidden {
					res.Counts["predicted_hidden_but_refused"]++
				}
				continue
			}
			res.Counts["accepted_2xx"]++
			w := queryWitness{Symbols: symtxt, SQL: text, HeaderDB: hdr, Status: st, Asked: asked, Class: cls,
				ArcHidden: hidden, Body: short(body)}
			w.Canary = strings.Contains(body, canaryForeign)
			ok, tree := parse(text)
			if ok {
				var v interface{}
				if json.Unmarshal([]byte(tree), &v) == nil {
					walkRefs(v, &w.Tables, &w.Functions)
					ctes := map[string]bool{}
					cteNames(v, ctes)
					askedSet := map[string]bool{}
					for _, a := range asked {
						askedSet[a] = true
					}
					for _, t := range w.Tables {
						parts := strings.SplitN(t, ".", 2)
						db, m := parts[0], parts[1]
						if db == "" {
							if ctes[m] {
								continue
							}
							db = "default"
							if hdr != "" {
								db = hdr
							}
						}
						if strings.HasSuffix(m, ".parquet") || strings.ContainsAny(m, "/*") {
							w.Unchecked = append(w.Unchecked, "replacement-scan:"+m)
						} else if !askedSet[db+"."+m] {
							w.Unchecked = append(w.Unchecked, "table:"+db+"."+m)
						}
					}
					for _, f := range w.Functions {
						if fileFuncs[f] {
							w.Unchecked = append(w.Unchecked, "file-function:"+f)
						}
					}
				}
			} else {
				res.Counts["accepted_but_unparsable_by_duckdb"]++
			}
			if !w.Canary && len(w.Unchecked) == 0 {
				res.Counts["accepted_clean"]++
				continue
			}
			kind := "unchecked-read"
			if w.Canary {
				kind = "foreign-rows-returned"
			}
			via := "other"
			if len(w.Unchecked) > 0 {
				via = strings.SplitN(w.Unchecked[0], ":", 2)[0]
			}
			// one signature per disguise class; the way the file is reached (via) is part of the witness
			sig := "disguise:" + cls
			if cls == "none" || !hidden {
				sig = "disguise-unmodelled:" + cls + "/" + via
			}
			if mode == "seq" && strings.HasPrefix(sig, "disguise-unmodelled:") {
				// (a modelled disguise works in any request order: same signature as in a single request)
				sig += "/after-owner-request"
				w.Symbols += " [second request of a sequence: first posted by the owner of `default` without header]"
			}
			w.Via, w.SubClass = via, tr.LabI
			res.Counts[kind]++
			res.Counts["via_"+via]++
			keys[sig+"|"+symtxt] = true
			res.PerSig[sig]++
			if res.PerSig[sig] == 1 || (w.Canary && res.PerSig["canary:"+sig] == 0) {
				if w.Canary {
					res.PerSig["canary:"+sig]++
				}
				// keep the strongest witness per signature: replace an earlier one without canary
				replaced := false
				for i := range res.Violations {
					if res.Violations[i].Signature == sig {
						res.Violations[i].Witness = w
						replaced = true
					}
				}
				if !replaced {
					res.Violations = append(res.Violations, finding{sig, w})
				}
				if len(res.Samples) < 6 {
					res.Samples = append(res.Samples, w)
				}
			}
		}
	}
	for k := range keys {
		res.Keys = append(res.Keys, k)
	}
	sort.Strings(res.Keys)
}

// Command sqlfront is the replay driver of the SqlFront specification (C15, C14).
//
//	-mode lex    every string enumerated by TLC (specs/sqlfront/SqlFront.tla) is concretised and run
//	             through the REAL MaskStringLiterals / UnmaskStringLiterals / stripSQLComments /
//	             MaskFromKeywordsInFunctionBodies; arc's view of the text (surviving code, delimited
//	             literals) is compared with DuckLex's view predicted by TLC, and a difference becomes a
//	             verdict only when the real DuckDB parser confirms DuckLex on that very string.
//	-mode query  statements enumerated by TLC are posted to the real query handler (see query.go).
package main

import (
	"database/sql"
	"encoding/json"
	"flag"
	"fmt"
	"os"
	"regexp"
	"sort"
	"strings"

	"github.com/basekick-labs/arc/internal/api"
	sqlutil "github.com/basekick-labs/arc/internal/sql"
	_ "github.com/duckdb/duckdb-go/v2"
)

// ---------------------------------------------------------------- input / output

type trace struct {
	T     int               `json:"t"`
	S     []string          `json:"s"`
	Dend  string            `json:"dend"`
	Dv    []string          `json:"dv"`
	Av    []string          `json:"av"`
	Lab   string            `json:"lab"`
	AvV   []string          `json:"avV"`
	LabV  string            `json:"labV"`
	Mk    []json.RawMessage `json:"mk"`
	St    []json.RawMessage `json:"st"`
	Nm    int               `json:"nm"`
	Rt    bool              `json:"rt"`
	Dlive bool              `json:"dlive"`
	Avis  bool              `json:"avis"`
	AvB   []string          `json:"avB"` // view predicted by the OTHER variant of the stripper (before/after b6c6321)
	LabB  string            `json:"labB"`
	AvisI bool              `json:"avisI"`
	LabI  string            `json:"labI"`
	Shape string            `json:"shape"`
}

type input struct {
	Syms   map[string]string `json:"syms"` // concretisation of macro / path symbols
	Traces []trace           `json:"traces"`
	Stride int               `json:"oracle_stride"`
	Root   string            `json:"root"`
	Seed   int64             `json:"seed"`
}

type finding struct {
	Signature string      `json:"signature"`
	Witness   interface{} `json:"witness"`
}

type lexWitness struct {
	Symbols  string `json:"symbols"`
	SQL      string `json:"sql"`
	Pipeline string `json:"pipeline"`
	Ideal    string `json:"duckdb_view"`
	Real     string `json:"arc_view"`
	Template string `json:"confirmed_in,omitempty"`
	Note     string `json:"note,omitempty"`
}

type result struct {
	Infra       string            `json:"infra,omitempty"`
	Strings     int               `json:"strings"`
	Evaluations int               `json:"evaluations"`
	Keys        []string          `json:"keys"`
	Violations  []finding         `json:"violations"`
	Drift       []finding         `json:"drift"`
	Counts      map[string]int    `json:"counts"`
	PerSig      map[string]int    `json:"per_signature"`
	Samples     []interface{}     `json:"samples"`
	Notes       map[string]string `json:"notes"`
}

var base = map[string]string{
	"q": "'", "d": "\"", "b": "`", "k": "\\", "D": "$", "E": "E", "m": "-", "s": "/", "a": "*",
	"n": "\n", "r": "\r", "_": "\t", "w": "z", "u": "é", "W": "Z", "9": "1", "U": "_", ";": ";", "P": "__STR_0__", "P1": "__STR_1__", "J": "__IDENT_0__", "~": " ",
}

var syms map[string]string

func conc(ss []string) string {
	var b strings.Builder
	for _, s := range ss {
		if v, ok := base[s]; ok {
			b.WriteString(v)
		} else if v, ok := syms[s]; ok {
			b.WriteString(v)
		} else {
			panic("unknown symbol " + s)
		}
	}
	return b.String()
}

// flat text predicted by TLC: symbols, with a placeholder written as "#", "S"|"I", k
func concFlat(raw []json.RawMessage) string {
	var b strings.Builder
	for i := 0; i < len(raw); i++ {
		var s string
		if err := json.Unmarshal(raw[i], &s); err != nil {
			panic(err)
		}
		if s == "#" {
			var cls string
			var k int
			json.Unmarshal(raw[i+1], &cls)
			json.Unmarshal(raw[i+2], &k)
			if cls == "I" {
				fmt.Fprintf(&b, "__IDENT_%d__", k)
			} else {
				fmt.Fprintf(&b, "__STR_%d__", k)
			}
			i += 2
			continue
		}
		b.WriteString(conc([]string{s}))
	}
	return b.String()
}

const (
	lb = "\x02"
	rb = "\x03"
)

// view predicted by TLC -> comparable string
func concView(v []string) string {
	var b strings.Builder
	for _, s := range v {
		switch s {
		case "[":
			b.WriteString(lb)
		case "]":
			b.WriteString(rb)
		case "~":
			b.WriteString(" ")
		default:
			b.WriteString(conc([]string{s}))
		}
	}
	return b.String()
}

func isWS(c byte) bool { return c == ' ' || c == '\t' || c == '\n' || c == '\r' }

// collapse whitespace runs OUTSIDE literals to one blank and trim
func collapse(s string) string {
	var b strings.Builder
	in := false
	pend := false
	for i := 0; i < len(s); i++ {
		c := s[i]
		if in {
			b.WriteByte(c)
			if c == rb[0] {
				in = false
			}
			continue
		}
		if isWS(c) {
			pend = b.Len() > 0
			continue
		}
		if pend {
			b.WriteByte(' ')
			pend = false
		}
		b.WriteByte(c)
		if c == lb[0] {
			in = true
		}
	}
	return b.String()
}

// ---------------------------------------------------------------- arc's real pipeline

type span struct{ lo, hi, k int } // sql[lo:hi] was replaced by the placeholder of masks[k]

type arcRun struct {
	masked, stripped string
	masks            []sqlutil.StringMask
	view             string // surviving code + delimited literals (rendered from the ORIGINAL text)
	roundTrip        string
	fromRoundTrip    bool
	err              string
}

// align walks the original and the masked text and recovers the masked spans. A mask's Original always
// begins with a quote, `$` or E, never with `_`, so a placeholder-shaped text typed by the user cannot be
// mistaken for a real placeholder.
func align(orig, masked string, masks []sqlutil.StringMask) ([]span, bool) {
	var spans []span
	i, j := 0, 0
	for j < len(masked) {
		matched := false
		for k, m := range masks {
			if strings.HasPrefix(masked[j:], m.Placeholder) && strings.HasPrefix(orig[i:], m.Original) && len(m.Original) > 0 {
				// ambiguity guard: the same bytes could also be plain text only if the original holds the placeholder text here
				if strings.HasPrefix(orig[i:], m.Placeholder) {
					continue
				}
				spans = append(spans, span{i, i + len(m.Original), k})
				i += len(m.Original)
				j += len(m.Placeholder)
				matched = true
				break
			}
		}
		if matched {
			continue
		}
		if i >= len(orig) || orig[i] != masked[j] {
			return nil, false
		}
		i++
		j++
	}
	return spans, i == len(orig)
}

// runArc executes the normalisation exactly as checkQueryPermissions / convertSQLToStoragePaths do
// (pipe "P") or as ValidateSQLRequest / normalizeSQLForShow do (pipe "V": backticks mapped first).
func runArc(sqlText, pipe string) arcRun {
	var r arcRun
	in := sqlText
	if pipe == "V" {
		in = api.VerifBackticksToDoubleQuotes(sqlText)
		if len(in) != len(sqlText) {
			r.err = "backtick mapping changed the length"
			return r
		}
	}
	hq, hd, hb := api.VerifScanSQLFeatures(in)
	masked, masks := sqlutil.MaskStringLiterals(in, hq)
	r.masked, r.masks = masked, masks
	r.roundTrip = sqlutil.UnmaskStringLiterals(masked, masks)
	fm, fmasks := sqlutil.MaskFromKeywordsInFunctionBodies(masked)
	r.fromRoundTrip = sqlutil.UnmaskFromKeywordsInFunctionBodies(fm, fmasks) == masked
	r.stripped = api.VerifStripSQLComments(masked, hd || hb)

	spans, ok := align(in, masked, masks)
	if !ok {
		r.err = "cannot align masked text with the original"
		return r
	}
	// tagged copy of the masked text: every REAL placeholder becomes a private token so that it can be
	// told apart from placeholder-shaped user text after stripping
	var tb strings.Builder
	pos := 0
	for n, sp := range spans {
		tb.WriteString(in[pos:sp.lo])
		tb.WriteString(lb + string(rune('A'+n)) + rb)
		pos = sp.hi
	}
	tb.WriteString(in[pos:])
	tagged := tb.String()
	ts := api.VerifStripSQLComments(tagged, hd || hb)
	// consistency: untagging the stripped tagged text must give the really stripped text
	var ub, vb strings.Builder
	for i := 0; i < len(ts); i++ {
		if ts[i] == lb[0] && i+2 < len(ts) && ts[i+2] == rb[0] {
			n := int(ts[i+1] - 'A')
			if n < 0 || n >= len(spans) {
				r.err = "bad tag"
				return r
			}
			ub.WriteString(masks[spans[n].k].Placeholder)
			vb.WriteString(lb + sqlText[spans[n].lo:spans[n].hi] + rb)
			i += 2
			continue
		}
		ub.WriteByte(ts[i])
		vb.WriteByte(ts[i])
	}
	if ub.String() != r.stripped {
		r.err = "tagged strip disagrees with the real strip"
		return r
	}
	r.view = collapse(vb.String())
	return r
}

// ---------------------------------------------------------------- DuckDB as judge of the oracle

var duck *sql.DB
var locRe = regexp.MustCompile(`"query_location":\d+,?`)
var parseCache = map[string]string{}

// parse returns ("ok", tree without locations) or ("err", "")
func parse(q string) (bool, string) {
	if v, ok := parseCache[q]; ok {
		return v != "", v
	}
	var out sql.NullString
	err := duck.QueryRow("SELECT json_serialize_sql('" + strings.ReplaceAll(q, "'", "''") + "')::VARCHAR").Scan(&out)
	v := ""
	if err == nil && out.Valid && !strings.Contains(out.String, `"error":true`) {
		v = locRe.ReplaceAllString(out.String, "")
	}
	if len(parseCache) < 400000 {
		parseCache[q] = v
	}
	return v != "", v
}

// canonical SQL for a DuckLex view: literals rewritten in the simplest spelling of the same VALUE,
// comments and whitespace as one blank
func canon(v []string) (string, bool) {
	var b strings.Builder
	for i := 0; i < len(v); i++ {
		switch v[i] {
		case "~":
			b.WriteString(" ")
		case "[":
			j := i + 1
			for j < len(v) && v[j] != "]" {
				j++
			}
			tok := v[i+1 : j]
			lit, ok := canonLit(tok)
			if !ok {
				return "", false
			}
			b.WriteString(" " + lit + " ")
			i = j
		default:
			b.WriteString(conc([]string{v[i]}))
		}
	}
	return b.String(), true
}

func canonLit(tok []string) (string, bool) {
	if len(tok) < 2 {
		return "", false
	}
	switch {
	case tok[0] == "q":
		body := conc(tok[1 : len(tok)-1])
		return "'" + body + "'", tok[len(tok)-1] == "q" // '' stays ''
	case tok[0] == "d":
		body := conc(tok[1 : len(tok)-1])
		return "\"" + body + "\"", tok[len(tok)-1] == "d"
	case tok[0] == "E" && len(tok) >= 3:
		body := conc(tok[2 : len(tok)-1])
		var v strings.Builder
		for i := 0; i < len(body); i++ {
			if body[i] == '\\' && i+1 < len(body) {
				i++
				v.WriteByte(body[i])
				continue
			}
			if body[i] == '\'' && i+1 < len(body) && body[i+1] == '\'' {
				i++
			}
			v.WriteByte(body[i])
		}
		return "'" + strings.ReplaceAll(v.String(), "'", "''") + "'", true
	case tok[0] == "D":
		j := 1
		for j < len(tok) && tok[j] != "D" {
			j++
		}
		dl := j + 1 // opener length
		if len(tok) < 2*dl {
			return "", false
		}
		body := conc(tok[dl : len(tok)-dl])
		return "'" + strings.ReplaceAll(body, "'", "''") + "'", true
	}
	return "", false
}

var lexTemplates = []string{"SELECT 1 ", "SELECT ", "SELECT 1 FROM t WHERE a = "}

// confirm: does DuckDB parse template+text exactly like template+canonical(DuckLex view)?
// returns the template that confirmed ("" if none) and whether any template REFUTED DuckLex
func confirm(text string, dv []string) (string, bool, bool) {
	c, ok := canon(dv)
	if !ok {
		return "", false, false
	}
	confirmed, refuted, anyOK := "", false, false
	for _, t := range lexTemplates {
		ok1, t1 := parse(t + text)
		ok2, t2 := parse(t + c)
		if ok1 || ok2 {
			anyOK = true
		}
		if ok1 && ok2 && t1 == t2 {
			if confirmed == "" {
				confirmed = t
			}
		} else if ok1 != ok2 || (ok1 && ok2 && t1 != t2) {
			refuted = true
		}
	}
	return confirmed, refuted, anyOK
}

// ---------------------------------------------------------------- mode lex

func short(s string) string {
	if len(s) > 300 {
		return s[:300] + "..."
	}
	return s
}

func runLex(in *input, res *result) {
	var err error
	duck, err = sql.Open("duckdb", "")
	if err != nil {
		res.Infra = "duckdb open: " + err.Error()
		return
	}
	defer duck.Close()
	duck.SetMaxOpenConns(1)
	keys := map[string]bool{}
	addV := func(sig string, w lexWitness) {
		res.PerSig[sig]++
		if res.PerSig[sig] == 1 {
			res.Violations = append(res.Violations, finding{sig, w})
		}
	}
	addD := func(sig string, w lexWitness) {
		res.PerSig["drift:"+sig]++
		if res.PerSig["drift:"+sig] == 1 {
			res.Drift = append(res.Drift, finding{sig, w})
		}
	}
	stride := in.Stride
	if stride <= 0 {
		stride = 1
	}
	for n, tr := range in.Traces {
		text := conc(tr.S)
		symtxt := strings.Join(tr.S, " ")
		res.Strings++
		complete := tr.Dend == "code" || tr.Dend == "line"
		pipes := []string{"P"}
		if strings.Contains(text, "`") {
			pipes = append(pipes, "V")
		}
		for _, pipe := range pipes {
			res.Evaluations++
			ar := runArc(text, pipe)
			if ar.err != "" {
				res.Counts["unjudged:"+ar.err]++
				// the round trip needs no alignment: judge it even when the spans cannot be recovered
				if pipe == "P" && ar.masked != "" && ar.roundTrip != text {
					cls := "other"
					if strings.Contains(text, "__STR_0__") {
						cls = "string-placeholder-lookalike"
					} else if strings.Contains(text, "__IDENT_0__") {
						cls = "identifier-placeholder-lookalike"
					}
					if tr.Rt {
						cls = "unmodelled:" + cls
					}
					addV("unmask-not-inverse:"+cls, lexWitness{Symbols: symtxt, SQL: text, Pipeline: pipe,
						Note: "Unmask(Mask(s)) = " + short(ar.roundTrip) + " (" + ar.err + ")"})
					keys["rt:"+cls+"|"+symtxt] = true
				}
				continue
			}
			pv, lab := tr.Av, tr.Lab
			if pipe == "V" {
				pv, lab = tr.AvV, tr.LabV
			}
			ideal := collapse(concView(tr.Dv))
			pred := collapse(concView(pv))
			w := lexWitness{Symbols: symtxt, SQL: text, Pipeline: pipe, Ideal: ideal, Real: ar.view}
			// conformance of the Impl model (never a verdict)
			if pipe == "P" {
				if ar.masked != concFlat(tr.Mk) {
					w2 := w
					w2.Note = "masked text: real " + short(ar.masked) + " predicted " + short(concFlat(tr.Mk))
					addD("mask-output-differs-from-ArcNorm", w2)
				} else if ar.stripped != concFlat(tr.St) {
					w2 := w
					w2.Note = "stripped text: real " + short(ar.stripped) + " predicted " + short(concFlat(tr.St))
					addD("strip-output-differs-from-ArcNorm", w2)
				}
				if len(ar.masks) != tr.Nm {
					addD("mask-count-differs-from-ArcNorm", w)
				}
			}
			modelled := ar.view == pred
			if !modelled {
				w2 := w
				w2.Note = "ArcNorm predicted view " + short(pred)
				addD("view-differs-from-ArcNorm", w2)
			}
			// round trip (needs no oracle): Unmask(Mask(s)) = s
			if pipe == "P" {
				if ar.roundTrip != text {
					cls := "other"
					if strings.Contains(text, "__STR_0__") {
						cls = "string-placeholder-lookalike"
					} else if strings.Contains(text, "__IDENT_0__") {
						cls = "identifier-placeholder-lookalike"
					}
					w2 := w
					w2.Note = "Unmask(Mask(s)) = " + short(ar.roundTrip)
					if tr.Rt {
						// the model of UnmaskStringLiterals (first occurrence for a string mask, all occurrences for an
						// identifier mask) predicts a faithful round trip here: a different mechanism
						cls = "unmodelled:" + cls
					}
					addV("unmask-not-inverse:"+cls, w2)
					keys["rt:"+cls] = true
				}
				if (ar.roundTrip == text) != tr.Rt {
					addD("roundtrip-differs-from-ArcNorm", w)
				}
				if !ar.fromRoundTrip {
					addV("from-mask-not-inverse", w)
				}
			}
			if ar.view == ideal {
				res.Counts["agree"]++
				// keep the oracle honest on a sample of the strings where nobody disagrees
				if pipe == "P" && complete && n%stride == 0 {
					tpl, refuted, anyOK := confirm(text, tr.Dv)
					switch {
					case refuted:
						res.Counts["oracle_refuted"]++
						if len(res.Notes) < 12 {
							res.Notes[fmt.Sprintf("oracle_refuted_%d", len(res.Notes))] = symtxt + " | " + text
						}
					case tpl != "":
						res.Counts["oracle_confirmed"]++
					case anyOK:
						res.Counts["oracle_unknown"]++
					default:
						res.Counts["oracle_unparsable"]++
					}
				}
				continue
			}
			// arc and DuckLex see different text
			res.Counts["differ"]++
			if !complete {
				res.Counts["differ_but_duckdb_rejects_lexically"]++
				continue
			}
			tpl, refuted, _ := confirm(text, tr.Dv)
			if refuted {
				res.Counts["oracle_refuted"]++
				res.Counts["differ_oracle_refuted"]++
				if len(res.Notes) < 12 {
					res.Notes[fmt.Sprintf("oracle_refuted_%d", len(res.Notes))] = symtxt + " | " + text
				}
				continue
			}
			if tpl == "" {
				res.Counts["differ_unconfirmed"]++
				continue
			}
			// the disagreement must persist on the statement DuckDB actually parsed
			full := runArc(tpl+text, pipe)
			if full.err != "" || full.view == collapse(tpl+" "+concView(tr.Dv)) {
				res.Counts["differ_not_in_statement"]++
				continue
			}
			res.Counts["oracle_confirmed"]++
			w.Template = tpl
			if pipe == "V" && modelled && tr.LabV == tr.Lab && tr.Lab != "none" {
				// same mechanism as in the plain pipeline (judged there); the backtick mapping plays no part
				res.Counts["validate_same_mechanism_as_plain"]++
				continue
			}
			sig := "lex:" + lab
			if pipe == "V" {
				sig = "lex-validate:" + lab
			}
			if !modelled && pipe == "P" && tr.LabB != "" && tr.LabB != "none" && ar.view == collapse(concView(tr.AvB)) {
				// the code behaves like the documented earlier variant of the model: name that mechanism
				sig = "lex:" + tr.LabB
				w.Note = "real arc output equals the pre-fix variant of ArcNorm (negative control), not the current model"
			} else if !modelled || lab == "none" {
				sig = "lex-unmodelled:" + lab
				w.Note = "real arc output differs from the ArcNorm model and from DuckDB"
			}
			keys[sig+"|"+strings.Join(tr.Dv, "")] = true
			addV(sig, w)
			if len(res.Samples) < 6 && res.PerSig[sig] == 1 {
				res.Samples = append(res.Samples, w)
			}
		}
	}
	for k := range keys {
		res.Keys = append(res.Keys, k)
	}
	sort.Strings(res.Keys)
}

func main() {
	mode := flag.String("mode", "lex", "lex | query")
	inp := flag.String("in", "", "input json")
	outp := flag.String("out", "", "result json")
	flag.Parse()
	res := &result{Counts: map[string]int{}, PerSig: map[string]int{}, Notes: map[string]string{}}
	var in input
	data, err := os.ReadFile(*inp)
	if err == nil {
		err = json.Unmarshal(data, &in)
	}
	if err != nil {
		res.Infra = "input: " + err.Error()
	} else {
		syms = in.Syms
		func() {
			defer func() {
				if p := recover(); p != nil {
					res.Infra = fmt.Sprint("panic: ", p)
				}
			}()
			switch *mode {
			case "lex":
				runLex(&in, res)
			case "query":
				runQuery(&in, res)
			default:
				res.Infra = "unknown mode"
			}
		}()
	}
	out, _ := json.MarshalIndent(res, "", " ")
	if err := os.WriteFile(*outp, out, 0o644); err != nil {
		fmt.Fprintln(os.Stderr, err)
		os.Exit(2)
	}
}

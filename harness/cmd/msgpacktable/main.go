// Command msgpacktable is the C02 driver. Every payload shape enumerated by TLC from
// specs/msgpacktable/MsgPackTable.tla is encoded to real MessagePack bytes with a hand-rolled
// encoder (every integer/float/string/bin/array/map width is reachable and rotated through),
// then the payload, every truncation of it and byte flips of it are decoded by the real
// MessagePackDecoder with the typed fast path ON and OFF and the two outcomes are compared:
// accepted or not, measurement, rows, column types, null positions (generated timestamps
// masked). For every original payload and a sample of the mutants the comparison is repeated
// on what ArrowBuffer.Write + FlushAll store as Parquet (read back with arrow-go). The verdict is
// this real-vs-real comparison; the specification's predicted generic outcome is only compared
// with the real generic outcome as a drift detector.
package main

import (
	"context"
	"encoding/binary"
	"encoding/json"
	"flag"
	"fmt"
	"math"
	"os"
	"regexp"
	"runtime/pprof"
	"sort"
	"strings"
	"time"

	"github.com/basekick-labs/arc/internal/config"
	"github.com/basekick-labs/arc/internal/ingest"
	"github.com/basekick-labs/arc/pkg/models"
	store "github.com/basekick-labs/arc/verifharness/internal/lineprotostore"
	"github.com/rs/zerolog"
)

type col struct {
	Name  string   `json:"name"`
	Shape string   `json:"shape"`
	Cells []string `json:"cells"`
}
type predCol struct {
	Name  string `json:"name"`
	Type  string `json:"type"`
	Nulls []int  `json:"nulls"`
}
type pred struct {
	Acc  string    `json:"acc"`
	Why  string    `json:"why"`
	Cols []predCol `json:"cols"`
}
type shape struct {
	Fam       string `json:"fam"`
	Top       string `json:"top"`
	M         string `json:"m"`
	Order     string `json:"order"`
	Dup       string `json:"dup"`
	Extra     string `json:"extra"`
	ColsKind  string `json:"colskind"`
	Cols      []col  `json:"cols"`
	Trailing  bool   `json:"trailing"`
	Typed     string `json:"typed"`
	Divergent bool   `json:"divergent"`
	Pred      pred   `json:"pred"`
}

// ---------------------------------------------------------------- hand-rolled encoder
type enc struct {
	b   []byte
	rot int
	// offsets of the most significant byte of a str32/bin32 length: the msgpack library allocates
	// the announced length before reading, so flipping these to 0x80.. costs 2 GiB per mutant
	big map[int]bool
	mid map[int]bool
}

func (e *enc) protect() {
	if e.big == nil {
		e.big = map[int]bool{}
	}
	e.big[len(e.b)] = true
}

// protect2: the two most significant bytes of an array32/map32 length (the generic decoder
// pre-allocates up to its cap for every such mutant, which costs milliseconds each)
func (e *enc) protect2() {
	e.protect()
	e.big[len(e.b)+1] = true
	e.big[len(e.b)+2] = true
}

// protectMid: the high byte of an array16/map16 length: only +-256 elements are tried (the
// generic decoder builds a map/slice sized by the announced length for every mutant)
func (e *enc) protectMid() {
	if e.mid == nil {
		e.mid = map[int]bool{}
	}
	e.mid[len(e.b)] = true
}

func (e *enc) pick(n int) int { e.rot++; return e.rot % n }
func (e *enc) u8(v byte)      { e.b = append(e.b, v) }
func (e *enc) u16(v uint16)   { e.b = binary.BigEndian.AppendUint16(e.b, v) }
func (e *enc) u32(v uint32)   { e.b = binary.BigEndian.AppendUint32(e.b, v) }
func (e *enc) u64(v uint64)   { e.b = binary.BigEndian.AppendUint64(e.b, v) }
func (e *enc) nilv()          { e.u8(0xc0) }
func (e *enc) boolean(v bool) {
	if v {
		e.u8(0xc3)
	} else {
		e.u8(0xc2)
	}
}

// intv encodes v with one of the encodings able to represent it (rotating), including
// non-minimal widths.
func (e *enc) intv(v int64) {
	type opt func()
	var opts []opt
	if v >= 0 && v <= 127 {
		opts = append(opts, func() { e.u8(byte(v)) })
	}
	if v < 0 && v >= -32 {
		opts = append(opts, func() { e.u8(byte(int8(v))) })
	}
	if v >= math.MinInt8 && v <= math.MaxInt8 {
		opts = append(opts, func() { e.u8(0xd0); e.u8(byte(int8(v))) })
	}
	if v >= math.MinInt16 && v <= math.MaxInt16 {
		opts = append(opts, func() { e.u8(0xd1); e.u16(uint16(int16(v))) })
	}
	if v >= math.MinInt32 && v <= math.MaxInt32 {
		opts = append(opts, func() { e.u8(0xd2); e.u32(uint32(int32(v))) })
	}
	opts = append(opts, func() { e.u8(0xd3); e.u64(uint64(v)) })
	if v >= 0 {
		if v <= math.MaxUint8 {
			opts = append(opts, func() { e.u8(0xcc); e.u8(byte(v)) })
		}
		if v <= math.MaxUint16 {
			opts = append(opts, func() { e.u8(0xcd); e.u16(uint16(v)) })
		}
		if v <= math.MaxUint32 {
			opts = append(opts, func() { e.u8(0xce); e.u32(uint32(v)) })
		}
		opts = append(opts, func() { e.u8(0xcf); e.u64(uint64(v)) })
	}
	opts[e.pick(len(opts))]()
}
func (e *enc) uint64v(v uint64) { e.u8(0xcf); e.u64(v) }
func (e *enc) f64(v float64)    { e.u8(0xcb); e.u64(math.Float64bits(v)) }
func (e *enc) f32(v float32)    { e.u8(0xca); e.u32(math.Float32bits(v)) }
func (e *enc) str(s string) {
	n := len(s)
	var opts []func()
	if n <= 31 {
		opts = append(opts, func() { e.u8(0xa0 | byte(n)) })
		opts = append(opts, func() { e.u8(0xa0 | byte(n)) }) // fixstr twice as likely
	}
	if n <= 255 {
		opts = append(opts, func() { e.u8(0xd9); e.u8(byte(n)) })
	}
	opts = append(opts, func() { e.u8(0xda); e.u16(uint16(n)) })
	opts = append(opts, func() { e.u8(0xdb); e.protect2(); e.u32(uint32(n)) })
	opts[e.pick(len(opts))]()
	e.b = append(e.b, s...)
}
func (e *enc) fixstr(s string) { e.u8(0xa0 | byte(len(s))); e.b = append(e.b, s...) }
func (e *enc) bin(s string) {
	switch e.pick(3) {
	case 0:
		e.u8(0xc4)
		e.u8(byte(len(s)))
	case 1:
		e.u8(0xc5)
		e.u16(uint16(len(s)))
	default:
		e.u8(0xc6)
		e.protect2()
		e.u32(uint32(len(s)))
	}
	e.b = append(e.b, s...)
}
func (e *enc) arr(n int) {
	switch k := e.pick(4); {
	case k <= 1 && n <= 15:
		e.u8(0x90 | byte(n))
	case k == 2:
		e.u8(0xdc)
		e.protectMid()
		e.u16(uint16(n))
	default:
		if n <= 15 && k <= 1 {
			e.u8(0x90 | byte(n))
		} else {
			e.u8(0xdd)
			e.protect2()
			e.u32(uint32(n))
		}
	}
}
func (e *enc) mapv(n int) {
	switch k := e.pick(4); {
	case k <= 1 && n <= 15:
		e.u8(0x80 | byte(n))
	case k == 2:
		e.u8(0xde)
		e.protectMid()
		e.u16(uint16(n))
	default:
		e.u8(0xdf)
		e.protect2()
		e.u32(uint32(n))
	}
}
func (e *enc) extUnknown() {
	switch e.pick(3) {
	case 0:
		e.u8(0xd4)
		e.u8(5)
		e.u8(0x01)
	case 1:
		e.u8(0xd6)
		e.u8(7)
		e.b = append(e.b, 1, 2, 3, 4)
	default:
		e.u8(0xc7)
		e.u8(3)
		e.u8(42)
		e.b = append(e.b, 9, 9, 9)
	}
}

// undecodable: a value msgpack.Unmarshal into interface{} cannot decode but Decoder.Skip passes
func (e *enc) undecodable() {
	if e.pick(3) == 0 {
		// nested map whose keys have different types
		e.u8(0x82)
		e.u8(0x01)
		e.u8(0x02)
		e.fixstr("a")
		e.u8(0x03)
		return
	}
	e.extUnknown()
}
func (e *enc) opaqueOK() {
	switch e.pick(3) {
	case 0:
		e.u8(0x82)
		e.fixstr("a")
		e.u8(0x93)
		e.u8(1)
		e.fixstr("s")
		e.nilv()
		e.fixstr("b")
		e.f64(1.5)
	case 1:
		e.str("just a string")
	default:
		e.intv(12345)
	}
}

func (e *enc) valueCell(c string) {
	switch c {
	case "i":
		vals := []int64{5, -3, -100, -3000, -100000, -5000000000, 200, 60000, 4000000000, 5000000000, 7, math.MaxInt64, math.MinInt64, 0, 127, -32, -33, 128}
		e.intv(vals[e.pick(len(vals))])
	case "ub":
		if e.pick(2) == 0 {
			e.uint64v(1 << 63)
		} else {
			e.uint64v(math.MaxUint64)
		}
	case "fi":
		switch e.pick(3) {
		case 0:
			e.f64(3.0)
		case 1:
			e.f32(4.0)
		default:
			e.f64(-2.0)
		}
	case "ff":
		switch e.pick(3) {
		case 0:
			e.f64(2.5)
		case 1:
			e.f32(1.25)
		default:
			e.f64(-0.75)
		}
	case "fh":
		switch e.pick(5) {
		case 0:
			e.f64(1e19)
		case 1:
			e.f64(-1e19)
		case 2:
			e.f32(1e30)
		case 3:
			e.f64(math.Inf(1))
		default:
			e.f64(9.3e18)
		}
	case "fn":
		if e.pick(2) == 0 {
			e.f64(math.NaN())
		} else {
			e.f32(float32(math.NaN()))
		}
	case "s":
		ss := []string{"ab", "", "hello world", "日本", strings.Repeat("x", 40)}
		e.str(ss[e.pick(len(ss))])
	case "sb":
		ss := []string{"\xff\xfe", "a\xc3", "ok\x80ok"}
		e.str(ss[e.pick(len(ss))])
	case "bin":
		e.bin("bytes")
	case "b":
		e.boolean(e.pick(2) == 0)
	case "n":
		e.nilv()
	case "ext":
		e.extUnknown()
	case "arr":
		if e.pick(2) == 0 {
			e.u8(0x92)
			e.u8(1)
			e.u8(2)
		} else {
			e.u8(0x90)
		}
	case "map":
		if e.pick(2) == 0 {
			e.u8(0x81)
			e.fixstr("a")
			e.u8(1)
		} else {
			e.u8(0x80)
		}
	default:
		panic("unknown value class " + c)
	}
}

func (e *enc) timeCell(c string, idx int) {
	d := int64(idx)
	switch c {
	case "sec":
		e.intv(1700000000 + d)
	case "ms":
		e.intv(1700000000000 + d)
	case "us":
		e.intv(1700000000000000 + d)
	case "ns":
		e.intv(1700000000000000000 + d*1000)
	case "b10lo":
		e.intv(9999999999)
	case "b10":
		e.intv(10000000000)
	case "b13lo":
		e.intv(9999999999999)
	case "b13":
		e.intv(10000000000000)
	case "b16lo":
		e.intv(9999999999999999)
	case "b16":
		e.intv(10000000000000000)
	case "neg":
		vals := []int64{-5, -100, -1700000000}
		e.intv(vals[e.pick(len(vals))])
	case "zero":
		e.intv(0)
	case "ub":
		e.uint64v(1<<63 + 12345)
	case "fsec":
		if e.pick(2) == 0 {
			e.f64(1700000000.75)
		} else {
			e.f32(1.7e9)
		}
	case "ffrac":
		e.f64(1.5)
	case "fh":
		if e.pick(2) == 0 {
			e.f64(1e19)
		} else {
			e.f64(-1e19)
		}
	case "fn":
		e.f64(math.NaN())
	case "s":
		e.str("2023-11-14T22:13:20Z")
	case "n":
		e.nilv()
	case "b":
		e.boolean(true)
	case "bin":
		e.bin("t")
	default:
		panic("unknown time class " + c)
	}
}

func (e *enc) column(c col) {
	if e.pick(5) == 0 {
		e.str(c.Name)
	} else {
		e.fixstr(c.Name)
	}
	switch c.Shape {
	case "cells":
		e.arr(len(c.Cells))
		for i, x := range c.Cells {
			if c.Name == "time" {
				e.timeCell(x, i)
			} else {
				e.valueCell(x)
			}
		}
	case "empty":
		e.arr(0)
	case "nonarray_ok":
		e.opaqueOK()
	case "nonarray_bad":
		e.undecodable()
	default:
		panic("unknown column shape " + c.Shape)
	}
}

func (e *enc) columnsMap(cs []col) {
	e.mapv(len(cs))
	for _, c := range cs {
		e.column(c)
	}
}

func (e *enc) measurement(kind, name string) {
	switch kind {
	case "str":
		e.fixstr(name)
	case "str8":
		e.u8(0xd9)
		e.u8(byte(len(name)))
		e.b = append(e.b, name...)
	case "int":
		vals := []int64{7, -4, 300, 70000, 5000000000}
		e.intv(vals[e.pick(len(vals))])
	case "ub":
		e.uint64v(1<<63 + 7)
	case "float":
		e.f64(1.5)
	case "nil":
		e.nilv()
	case "bin":
		e.bin(name)
	}
}

func (e *enc) columnarMap(s *shape, name string) {
	type kv func()
	var keys []kv
	mkey := func() {
		if s.M != "absent" {
			keys = append(keys, func() { e.fixstr("m"); e.measurement(s.M, name) })
		}
	}
	ckey := func() {
		keys = append(keys, func() {
			e.fixstr("columns")
			switch s.ColsKind {
			case "map":
				e.columnsMap(s.Cols)
			case "scalar":
				e.intv(5)
			case "emptymap":
				e.u8(0x80)
			}
		})
	}
	xkey := func() {
		switch s.Extra {
		case "opaque_ok":
			keys = append(keys, func() { e.fixstr("x"); e.opaqueOK() })
		case "opaque_bad":
			keys = append(keys, func() { e.fixstr("x"); e.undecodable() })
		case "intkey":
			keys = append(keys, func() { e.u8(5); e.u8(1) })
		}
	}
	if s.Order == "mfirst" {
		mkey()
		xkey()
		ckey()
	} else {
		ckey()
		xkey()
		mkey()
	}
	canon := []col{{Name: "time", Shape: "cells", Cells: []string{"us", "us"}}, {Name: "z", Shape: "cells", Cells: []string{"i", "i"}}}
	switch s.Dup {
	case "m":
		keys = append(keys, func() { e.fixstr("m"); e.fixstr(name + "2") })
	case "columns":
		keys = append(keys, func() { e.fixstr("columns"); e.columnsMap(canon) })
	case "batch_scalar":
		keys = append(keys, func() { e.fixstr("batch"); e.intv(5) })
	case "batch_arr":
		keys = append(keys, func() {
			e.fixstr("batch")
			e.arr(1)
			e.u8(0x82)
			e.fixstr("m")
			e.fixstr("b1")
			e.fixstr("columns")
			e.columnsMap(canon)
		})
	}
	e.mapv(len(keys))
	for _, k := range keys {
		k()
	}
}

func encode(s *shape, rot int) ([]byte, map[int]bool, map[int]bool) {
	e := &enc{rot: rot}
	switch s.Top {
	case "map":
		e.columnarMap(s, "cpu")
	case "array1":
		e.arr(1)
		e.columnarMap(s, "cpu")
	case "array2":
		e.arr(2)
		e.columnarMap(s, "cpu")
		e.columnarMap(s, "mem")
	case "array_mixed":
		e.arr(3)
		e.columnarMap(s, "cpu")
		e.intv(5)
		e.fixstr("x")
	case "scalar":
		e.intv(5)
	case "nil":
		e.nilv()
	case "emptymap":
		e.u8(0x80)
	case "row":
		e.mapv(4)
		e.fixstr("m")
		e.fixstr("cpu")
		e.fixstr("t")
		e.intv(1700000000000)
		e.fixstr("fields")
		e.u8(0x82)
		e.fixstr("a")
		e.f64(1.5)
		e.fixstr("b")
		e.fixstr("x")
		e.fixstr("tags")
		e.u8(0x81)
		e.fixstr("h")
		e.fixstr("y")
	default:
		panic("unknown top " + s.Top)
	}
	if s.Trailing {
		if e.pick(2) == 0 {
			e.u8(0xc0)
		} else {
			e.b = append(e.b, 0x01, 0xff)
		}
	}
	return e.b, e.big, e.mid
}

// ---------------------------------------------------------------- outcome of one configuration
type colOut struct {
	Type  string
	Cells []string // canonical text per row, "NULL" for nulls
}
type recOut struct {
	Measurement string
	Rows        int
	Cols        map[string]colOut
	RowFormat   string
}
type outcome struct {
	Accepted bool
	Stage    string // decode | convert | write | flush
	Err      string
	Recs     []recOut
}

type env struct {
	on, off          *ingest.MessagePackDecoder
	bufOn, bufOff    *ingest.ArrowBuffer
	memOn, memOff    *store.Mem
	t0               int64
	convertFailures  int
	panics           int
	panicSample      string
	storePanics      int
	storePanicSample string
}

func batchOut(b *ingest.TypedColumnBatch, n int) (map[string]colOut, error) {
	out := map[string]colOut{}
	for name, data := range b.Data {
		valid := b.Validity[name]
		co := colOut{}
		isNull := func(i int) bool { return valid != nil && i < len(valid) && !valid[i] }
		switch d := data.(type) {
		case []int64:
			co.Type = "int64"
			for i, v := range d {
				if isNull(i) {
					co.Cells = append(co.Cells, "NULL")
				} else {
					co.Cells = append(co.Cells, fmt.Sprintf("%d", v))
				}
			}
		case []float64:
			co.Type = "float64"
			for i, v := range d {
				if isNull(i) {
					co.Cells = append(co.Cells, "NULL")
				} else if math.IsNaN(v) {
					co.Cells = append(co.Cells, "NaN")
				} else {
					co.Cells = append(co.Cells, fmt.Sprintf("%x", math.Float64bits(v)))
				}
			}
		case []string:
			co.Type = "string"
			for i, v := range d {
				if isNull(i) {
					co.Cells = append(co.Cells, "NULL")
				} else {
					co.Cells = append(co.Cells, fmt.Sprintf("%q", v))
				}
			}
		case []bool:
			co.Type = "bool"
			for i, v := range d {
				if isNull(i) {
					co.Cells = append(co.Cells, "NULL")
				} else {
					co.Cells = append(co.Cells, fmt.Sprintf("%v", v))
				}
			}
		default:
			return nil, fmt.Errorf("unexpected typed column %T", data)
		}
		if name == "time" {
			co.Type = "time"
		}
		out[name] = co
	}
	return out, nil
}

// decodeOutcome runs Decode and brings the result to the comparable form (typed batches).
// safeDecode: a panic inside Decode (the msgpack library dereferences nil on some malformed
// maps) is a rejected request for this property (fiber's recover middleware answers 500); it is
// counted and reported separately.
func (v *env) safeDecode(dec *ingest.MessagePackDecoder, data []byte) (res interface{}, err error) {
	defer func() {
		if r := recover(); r != nil {
			v.panics++
			if v.panicSample == "" {
				v.panicSample = fmt.Sprintf("%x: %v", data, r)
			}
			res, err = nil, fmt.Errorf("PANIC in Decode: %v", r)
		}
	}()
	return dec.Decode(data)
}

func (v *env) decodeOutcome(dec *ingest.MessagePackDecoder, buf *ingest.ArrowBuffer, data []byte) (outcome, interface{}) {
	cp := append([]byte(nil), data...)
	res, err := v.safeDecode(dec, cp)
	if err != nil {
		return outcome{Stage: "decode", Err: err.Error()}, nil
	}
	list, ok := res.([]interface{})
	if !ok {
		return outcome{Stage: "write", Err: fmt.Sprintf("expected []interface{}, got %T", res)}, res
	}
	o := outcome{Accepted: true}
	for _, r := range list {
		switch x := r.(type) {
		case *ingest.TypedColumnarRecord:
			cols, err := batchOut(x.Batch, x.NumRecords)
			if err != nil {
				return outcome{Stage: "convert", Err: err.Error()}, res
			}
			o.Recs = append(o.Recs, recOut{Measurement: x.Measurement, Rows: x.NumRecords, Cols: cols})
		case *models.ColumnarRecord:
			b, n, err := buf.VerifConvertColumnsToTyped(x.Measurement, x.Columns)
			if err != nil {
				return outcome{Stage: "convert", Err: err.Error()}, res
			}
			cols, err := batchOut(b, n)
			if err != nil {
				return outcome{Stage: "convert", Err: err.Error()}, res
			}
			o.Recs = append(o.Recs, recOut{Measurement: x.Measurement, Rows: n, Cols: cols})
		case *models.Record:
			f, _ := json.Marshal(x.Fields)
			tg, _ := json.Marshal(x.Tags)
			o.Recs = append(o.Recs, recOut{Measurement: x.Measurement, Rows: 1, RowFormat: string(f) + string(tg)})
		default:
			return outcome{Stage: "write", Err: fmt.Sprintf("unknown record type %T", r)}, res
		}
	}
	return o, res
}

var numRe = regexp.MustCompile(`[0-9]+`)
var codeRe = regexp.MustCompile(`code=[0-9a-f]+`)
var quotedRe = regexp.MustCompile(`'[^']*'`)

func normErr(s string) string {
	s = codeRe.ReplaceAllString(s, "code=X")
	s = quotedRe.ReplaceAllString(s, "'_'")
	s = numRe.ReplaceAllString(s, "N")
	if len(s) > 90 {
		s = s[:90]
	}
	return s
}

// generated timestamps: both sides close to the wall clock of this run
func (v *env) nowish(s string) bool {
	var x int64
	if _, err := fmt.Sscanf(s, "%d", &x); err != nil {
		return false
	}
	return x >= v.t0-5_000_000 && x <= time.Now().UnixMicro()+5_000_000
}

// diff returns "" when the two outcomes are indistinguishable as far as the property goes.
func (v *env) diff(a, b outcome) string {
	if a.Accepted != b.Accepted {
		if a.Accepted {
			if b.Stage == "decode" && strings.HasPrefix(b.Err, "failed to unmarshal msgpack") {
				return "typed-accepts-generic-rejects:generic-unmarshal-fails-on-a-value-the-typed-path-skips"
			}
			return "typed-accepts-generic-rejects:" + b.Stage + ":" + normErr(b.Err)
		}
		return "generic-accepts-typed-rejects:" + a.Stage + ":" + normErr(a.Err)
	}
	if !a.Accepted {
		return ""
	}
	if len(a.Recs) != len(b.Recs) {
		return "stored-differs:record-count"
	}
	for i := range a.Recs {
		x, y := a.Recs[i], b.Recs[i]
		if x.Measurement != y.Measurement {
			return "stored-differs:measurement"
		}
		if x.RowFormat != y.RowFormat {
			return "stored-differs:row-format-record"
		}
		if x.Rows != y.Rows {
			return "stored-differs:row-count"
		}
		for name := range y.Cols {
			if _, ok := x.Cols[name]; !ok {
				return "stored-differs:column-set:typed-off-stores-a-column-typed-on-does-not"
			}
		}
		for name := range x.Cols {
			if _, ok := y.Cols[name]; !ok {
				return "stored-differs:column-set:typed-on-stores-a-column-typed-off-drops"
			}
		}
		// (the column sets are equal from here on; map iteration order cannot change the verdict:
		// the first differing column in NAME order is reported)
		names := make([]string, 0, len(x.Cols))
		for name := range x.Cols {
			names = append(names, name)
		}
		sort.Strings(names)
		for _, name := range names {
			cx := x.Cols[name]
			cy := y.Cols[name]
			if cx.Type != cy.Type {
				return "stored-differs:column-type:" + cx.Type + "-vs-" + cy.Type
			}
			if len(cx.Cells) != len(cy.Cells) {
				return "stored-differs:row-count"
			}
			for k := range cx.Cells {
				if cx.Cells[k] == cy.Cells[k] {
					continue
				}
				if (cx.Cells[k] == "NULL") != (cy.Cells[k] == "NULL") {
					return "stored-differs:null-positions:" + cx.Type
				}
				if name == "time" && v.nowish(cx.Cells[k]) && v.nowish(cy.Cells[k]) {
					continue
				}
				return "stored-differs:values:" + cx.Type
			}
		}
	}
	return ""
}

// storeOutcome: Decode + ArrowBuffer.Write + FlushAll + Parquet read-back.
func (v *env) storeOutcome(dec *ingest.MessagePackDecoder, buf *ingest.ArrowBuffer, mem *store.Mem, data []byte) (outcome, error) {
	cp := append([]byte(nil), data...)
	res, err := v.safeDecode(dec, cp)
	if err != nil {
		return outcome{Stage: "decode", Err: err.Error()}, nil
	}
	ctx := context.Background()
	var werr, ferr error
	panicked := ""
	func() {
		defer func() {
			if r := recover(); r != nil {
				panicked = fmt.Sprint(r)
			}
		}()
		werr = buf.Write(ctx, "verifdb", res)
		ferr = buf.FlushAll(ctx)
	}()
	files := mem.Snapshot()
	if panicked != "" {
		// a panic inside Write/FlushAll leaves the shard lock held: the caller replaces the buffer
		v.storePanics++
		if v.storePanicSample == "" {
			v.storePanicSample = fmt.Sprintf("%x: %s", data, panicked)
		}
		return outcome{Stage: "panic", Err: "PANIC in Write/FlushAll: " + panicked}, nil
	}
	if werr != nil {
		return outcome{Stage: "write", Err: werr.Error()}, nil
	}
	if ferr != nil {
		return outcome{Stage: "flush", Err: ferr.Error()}, nil
	}
	o := outcome{Accepted: true}
	byMeas := map[string]*recOut{}
	var paths []string
	for p := range files {
		paths = append(paths, p)
	}
	sort.Strings(paths)
	for _, p := range paths {
		parts := strings.Split(p, "/")
		if len(parts) < 3 {
			return o, fmt.Errorf("unexpected object %s", p)
		}
		tbl, err := store.ReadParquet(files[p])
		if err != nil {
			return o, fmt.Errorf("read back %s: %v", p, err)
		}
		r := byMeas[parts[1]]
		if r == nil {
			r = &recOut{Measurement: parts[1], Cols: map[string]colOut{}}
			byMeas[parts[1]] = r
		}
		// rows as sorted canonical strings per file, concatenated: compare as a multiset per measurement
		for _, row := range tbl.Rows {
			var names []string
			for k := range row {
				names = append(names, k)
			}
			sort.Strings(names)
			for _, k := range names {
				co := r.Cols[k]
				co.Type = tbl.Types[k]
				val := row[k]
				var txt string
				switch x := val.(type) {
				case nil:
					txt = "NULL"
				case float64:
					if math.IsNaN(x) {
						txt = "NaN"
					} else {
						txt = fmt.Sprintf("%x", math.Float64bits(x))
					}
				case string:
					txt = fmt.Sprintf("%q", x)
				default:
					txt = fmt.Sprintf("%v", x)
				}
				co.Cells = append(co.Cells, txt)
				r.Cols[k] = co
			}
			r.Rows++
		}
	}
	var ms []string
	for m := range byMeas {
		ms = append(ms, m)
	}
	sort.Strings(ms)
	for _, m := range ms {
		r := byMeas[m]
		// order rows canonically (the flush sorts by time; generated times may tie differently)
		n := r.Rows
		idx := make([]int, n)
		for i := range idx {
			idx[i] = i
		}
		var names []string
		for k, c := range r.Cols {
			if len(c.Cells) != n {
				return o, fmt.Errorf("ragged read-back for %s.%s", m, k)
			}
			if k != "time" {
				names = append(names, k)
			}
		}
		sort.Strings(names)
		key := func(i int) string {
			var sb strings.Builder
			for _, k := range names {
				sb.WriteString(r.Cols[k].Cells[i])
				sb.WriteByte('|')
			}
			if t, ok := r.Cols["time"]; ok && !v.nowish(t.Cells[i]) {
				sb.WriteString(t.Cells[i])
			}
			return sb.String()
		}
		sort.SliceStable(idx, func(a, b int) bool { return key(idx[a]) < key(idx[b]) })
		for k, c := range r.Cols {
			nc := make([]string, n)
			for i, j := range idx {
				nc[i] = c.Cells[j]
			}
			c.Cells = nc
			r.Cols[k] = c
		}
		o.Recs = append(o.Recs, *r)
	}
	return o, nil
}

type witness struct {
	Shape    *shape  `json:"shape"`
	Payload  string  `json:"payload_hex"`
	Mutation string  `json:"mutation"`
	Via      string  `json:"via"`
	TypedOn  outcome `json:"typed_on"`
	TypedOff outcome `json:"typed_off"`
}
type finding struct {
	Signature string  `json:"signature"`
	Witness   witness `json:"witness"`
	Count     int     `json:"count"`
}
type result struct {
	Shapes           int            `json:"shapes"`
	Payloads         int            `json:"payloads"`
	MutatedPayloads  int            `json:"payloads_mutated"`
	Mutants          int            `json:"mutants"`
	Comparisons      int            `json:"comparisons"`
	StoreCompares    int            `json:"parquet_comparisons"`
	BothAccept       int            `json:"both_accept"`
	BothReject       int            `json:"both_reject"`
	TypedHits        uint64         `json:"typed_hits"`
	TypedMisses      uint64         `json:"typed_misses"`
	PerFamily        map[string]int `json:"per_family"`
	Outcomes         map[string]int `json:"distinct_generic_outcomes"`
	FirstBytes       int            `json:"distinct_byte_values_in_payloads"`
	SkippedBombs     int            `json:"mutants_skipped_large_prealloc"`
	Panics           int            `json:"decode_panics_recovered"`
	PanicSample      string         `json:"decode_panic_sample,omitempty"`
	StorePanics      int            `json:"write_flush_panics_recovered"`
	StorePanicSample string         `json:"write_flush_panic_sample,omitempty"`
	Violations       []*finding     `json:"violations"`
	Drift            []string       `json:"drift"`
	Samples          []witness      `json:"samples"`
	Infra            string         `json:"infra,omitempty"`
}

func main() {
	scen := flag.String("scenarios", "", "json list of shapes")
	outp := flag.String("out", "", "result json")
	seed := flag.Int("seed", 1, "seed (rotation offset of the width choices)")
	flipVals := flag.Int("flip-values", 3, "byte values tried per offset (max 5)")
	storeEvery := flag.Int("store-every", 40, "every n-th mutant accepted by at least one side also goes through Write+Flush+Parquet")
	reps := flag.Int("reps", 1, "encodings (different width rotation) per shape")
	prof := flag.String("cpuprofile", "", "write a CPU profile")
	mutEvery := flag.Int("mutate-every", 8, "truncations/byte flips for every n-th payload (all payloads are compared unmutated)")
	flag.Parse()
	if *prof != "" {
		f, _ := os.Create(*prof)
		pprof.StartCPUProfile(f)
		defer pprof.StopCPUProfile()
	}
	b, err := os.ReadFile(*scen)
	if err != nil {
		fatal(err)
	}
	var shapes []*shape
	if err := json.Unmarshal(b, &shapes); err != nil {
		fatal(err)
	}
	logger := zerolog.Nop()
	mk := func() (*ingest.ArrowBuffer, *store.Mem) {
		mem := store.NewMem()
		cfg := &config.IngestConfig{MaxBufferSize: 1 << 30, MaxBufferAgeMS: 3600 * 1000, Compression: "snappy",
			FlushWorkers: 2, FlushQueueSize: 16, ShardCount: 4}
		return ingest.NewArrowBuffer(cfg, mem, logger), mem
	}
	v := &env{on: ingest.NewMessagePackDecoder(logger), off: ingest.NewMessagePackDecoder(logger), t0: time.Now().UnixMicro()}
	v.on.SetTypedDecodeEnabled(true)
	v.off.SetTypedDecodeEnabled(false)
	v.bufOn, v.memOn = mk()
	v.bufOff, v.memOff = mk()

	res := &result{PerFamily: map[string]int{}, Outcomes: map[string]int{}}
	bySig := map[string]*finding{}
	violate := func(sig string, w witness) {
		if f, ok := bySig[sig]; ok {
			f.Count++
			return
		}
		f := &finding{Signature: sig, Witness: w, Count: 1}
		bySig[sig] = f
		res.Violations = append(res.Violations, f)
	}
	driftSeen := map[string]bool{}
	firstBytes := map[byte]bool{}
	rot := *seed * 7919
	mutN := 0

	compare := func(s *shape, data []byte, mut string, viaStore bool) {
		a, _ := v.decodeOutcome(v.on, v.bufOn, data)
		bb, _ := v.decodeOutcome(v.off, v.bufOff, data)
		res.Comparisons++
		if a.Accepted && bb.Accepted {
			res.BothAccept++
		} else if !a.Accepted && !bb.Accepted {
			res.BothReject++
		}
		if d := v.diff(a, bb); d != "" {
			violate(d, witness{Shape: s, Payload: fmt.Sprintf("%x", data), Mutation: mut, Via: "Decode (+convertColumnsToTyped)", TypedOn: a, TypedOff: bb})
		}
		if viaStore {
			sa, err := v.storeOutcome(v.on, v.bufOn, v.memOn, data)
			if err != nil {
				res.Infra = err.Error()
				return
			}
			if sa.Stage == "panic" {
				v.bufOn, v.memOn = mk()
			}
			sb, err := v.storeOutcome(v.off, v.bufOff, v.memOff, data)
			if err != nil {
				res.Infra = err.Error()
				return
			}
			if sb.Stage == "panic" {
				v.bufOff, v.memOff = mk()
			}
			res.StoreCompares++
			if d := v.diff(sa, sb); d != "" {
				violate(d, witness{Shape: s, Payload: fmt.Sprintf("%x", data), Mutation: mut, Via: "ArrowBuffer.Write+FlushAll -> Parquet", TypedOn: sa, TypedOff: sb})
			}
			if mut == "none" {
				// drift detector: the specification's generic outcome vs the real generic outcome
				key := s.Pred.Acc + ":" + s.Pred.Why
				for _, c := range s.Pred.Cols {
					key += "," + c.Type
				}
				res.Outcomes[key]++
				if s.Pred.Acc == "yes" && !sb.Accepted || s.Pred.Acc == "no" && sb.Accepted {
					k := fmt.Sprintf("generic acceptance: spec says %s (%s), code says accepted=%v (%s %s) for %s/%s", s.Pred.Acc, s.Pred.Why, sb.Accepted, sb.Stage, normErr(sb.Err), s.Fam, s.Top)
					if !driftSeen[k] && len(res.Drift) < 12 {
						driftSeen[k] = true
						sj, _ := json.Marshal(s)
						res.Drift = append(res.Drift, k+" shape="+string(sj))
					}
				}
				if s.Pred.Acc == "yes" && sb.Accepted && len(s.Pred.Cols) > 0 && len(sb.Recs) == 1 {
					want := map[string]string{"int": "int64", "float": "float64", "string": "utf8", "nullstr": "utf8", "bool": "bool"}
					for _, c := range s.Pred.Cols {
						if c.Name == "time" {
							continue
						}
						got := sb.Recs[0].Cols[c.Name].Type
						if got != want[c.Type] {
							k := fmt.Sprintf("column type: spec says %s, stored %q", c.Type, got)
							if !driftSeen[k] && len(res.Drift) < 12 {
								driftSeen[k] = true
								sj, _ := json.Marshal(s)
								res.Drift = append(res.Drift, k+" shape="+string(sj))
							}
						}
					}
				}
				// typed hit/fallback as the specification says?
				if len(res.Samples) < 4 && res.Payloads%2500 == 7 {
					res.Samples = append(res.Samples, witness{Shape: s, Payload: fmt.Sprintf("%x", data), Mutation: mut, Via: "ArrowBuffer.Write+FlushAll -> Parquet", TypedOn: sa, TypedOff: sb})
				}
			}
		}
	}

	for _, s := range shapes {
		res.Shapes++
		res.PerFamily[s.Fam]++
		for rep := 0; rep < *reps; rep++ {
			rot += 13
			data, big, mid := encode(s, rot)
			res.Payloads++
			hitsBefore := v.on.GetStats()["typed_decode_hits"].(uint64)
			compare(s, data, "none", true)
			if res.Infra != "" {
				break
			}
			hitsAfter := v.on.GetStats()["typed_decode_hits"].(uint64)
			hit := hitsAfter > hitsBefore
			if (s.Typed == "hit") != hit {
				k := fmt.Sprintf("typed path: spec says %s, code hit=%v for %s", s.Typed, hit, s.Fam)
				if !driftSeen[k] && len(res.Drift) < 12 {
					driftSeen[k] = true
					sj, _ := json.Marshal(s)
					res.Drift = append(res.Drift, k+" shape="+string(sj)+" payload="+fmt.Sprintf("%x", data))
				}
			}
			for _, by := range data {
				firstBytes[by] = true
			}
			if (res.Payloads+*seed)%*mutEvery != 0 {
				continue
			}
			res.MutatedPayloads++
			// truncations
			for n := 0; n < len(data); n++ {
				mutN++
				res.Mutants++
				compare(s, data[:n], fmt.Sprintf("truncate@%d", n), mutN%(*storeEvery*4) == 0)
			}
			// byte flips
			for off := 0; off < len(data); off++ {
				bv := data[off]
				cands := []byte{bv ^ 0x01, bv ^ 0x80, bv + 1, 0xc1, 0x00}
				if big[off] || mid[off] {
					// oversized length headers: one moderate value, and only for every 16th payload
					cands = []byte{0x01}
					if res.Payloads%16 != 0 {
						cands = nil
					}
				}
				seen := map[byte]bool{bv: true}
				k := 0
				for _, nv := range cands {
					if seen[nv] || k >= *flipVals {
						continue
					}
					seen[nv] = true
					k++
					m := append([]byte(nil), data...)
					m[off] = nv
					if a := announced(m, off); a > 1<<18 || (a > 4096 && mutN%16 != 0) {
						// a byte turned into an array/map/str/bin header whose "length" is payload data: the
						// library pre-allocates by the announced length (up to milliseconds and MiB per
						// mutant); 1 in 16 of these is kept, the rest skipped for speed
						res.SkippedBombs++
						continue
					}
					mutN++
					res.Mutants++
					compare(s, m, fmt.Sprintf("set@%d=0x%02x", off, nv), mutN%*storeEvery == 0)
					if res.Infra != "" {
						break
					}
				}
			}
			if res.Infra != "" {
				break
			}
		}
		if res.Infra != "" {
			break
		}
	}
	res.FirstBytes = len(firstBytes)
	res.Panics = v.panics
	res.PanicSample = v.panicSample
	res.StorePanics = v.storePanics
	res.StorePanicSample = v.storePanicSample
	st := v.on.GetStats()
	res.TypedHits, _ = st["typed_decode_hits"].(uint64)
	res.TypedMisses, _ = st["typed_decode_misses"].(uint64)
	ob, _ := json.MarshalIndent(res, "", " ")
	if err := os.WriteFile(*outp, ob, 0o644); err != nil {
		fatal(err)
	}
}

// announced returns the element/byte count announced by a 16/32-bit length header at off (0 otherwise).
func announced(m []byte, off int) uint32 {
	switch m[off] {
	case 0xdc, 0xde, 0xc5, 0xda, 0xc8:
		if off+3 <= len(m) {
			return uint32(binary.BigEndian.Uint16(m[off+1 : off+3]))
		}
	case 0xdd, 0xdf, 0xc6, 0xdb, 0xc9:
		if off+5 <= len(m) {
			return binary.BigEndian.Uint32(m[off+1 : off+5])
		}
	}
	return 0
}

func fatal(err error) {
	fmt.Fprintln(os.Stderr, "msgpacktable:", err)
	os.Exit(2)
}

// Command fileimport is the C31 replay driver. Every scenario emitted by TLC from
// specs/fileimport/FileImport.tla (an abstract CSV or Parquet file + import options + the
// predicted outcome and column types) is made concrete (seeded choice of cell texts, instants,
// boundary values), uploaded through the REAL import handlers (multipart POST to
// /api/v1/import/csv|parquet on a fiber app with the real ImportHandler -> real ArrowBuffer ->
// local storage), and the Parquet files found under the target database/measurement are read
// back with DuckDB and compared, as a multiset of rows, with the table the upload was rendered
// from (the uploaded CSV bytes are re-parsed by a small independent RFC 4180 reader first, so the
// comparison really is "independent parse of the upload").  The judgement follows the property:
//
//	accepted (200)  => every data row stored exactly once, time = requested conversion to
//	                   microseconds, every other cell equal to its text read in the STORED type
//	                   (whatever type the code inferred), empty cell = NULL (or "" for strings)
//	refused (!=200) => nothing stored under the target measurement, also after the follow-up
//	                   FlushAll the driver issues after every upload (rows a refused request
//	                   left in the ArrowBuffer would surface there)
//
// The model's predictions (accepted/refused, column types) are a drift detector only.
package main

import (
	"bytes"
	"context"
	"encoding/json"
	"flag"
	"fmt"
	"io"
	"math"
	"math/big"
	"math/rand"
	"mime/multipart"
	"net/http/httptest"
	"net/url"
	"os"
	"path/filepath"
	"sort"
	"strconv"
	"strings"
	"time"

	"github.com/apache/arrow-go/v18/arrow"
	"github.com/apache/arrow-go/v18/arrow/array"
	"github.com/apache/arrow-go/v18/arrow/decimal128"
	"github.com/apache/arrow-go/v18/arrow/memory"
	"github.com/apache/arrow-go/v18/parquet"
	"github.com/apache/arrow-go/v18/parquet/pqarrow"
	"github.com/basekick-labs/arc/internal/api"
	"github.com/basekick-labs/arc/internal/config"
	"github.com/basekick-labs/arc/internal/database"
	"github.com/basekick-labs/arc/internal/ingest"
	"github.com/basekick-labs/arc/internal/storage"
	"github.com/gofiber/fiber/v2"
	"github.com/rs/zerolog"
)

const dbName = "impdb"

// noTime marks an uploaded time value for which no conversion to microseconds exists
const noTime = math.MinInt64

var logger = zerolog.Nop()

type pqSpec struct {
	Types []string `json:"types"`
	Nulls bool     `json:"nulls"`
	TType string   `json:"ttype"`
	Range string   `json:"range"`
	// Groups: row groups (2 = rows {0,1} | {2}); Bad "nulltime": the last row has a NULL time
	Groups int    `json:"groups"`
	Bad    string `json:"bad"`
}

type scenario struct {
	Mode    string     `json:"mode"`
	Cols    [][]string `json:"cols"`
	TFmt    string     `json:"tfmt"`
	TCls    string     `json:"tcls"`
	TUnit   string     `json:"tunit"`
	Bad     string     `json:"bad"`
	Skip    int        `json:"skip"`
	TName   string     `json:"tname"`
	TPos    string     `json:"tpos"`
	Delim   string     `json:"delim"`
	Pq      pqSpec     `json:"pq"`
	Types   []string   `json:"types"`
	Outcome string     `json:"outcome"`
}

type finding struct {
	Signature string      `json:"signature"`
	Witness   interface{} `json:"witness"`
}

type result struct {
	Files       int            `json:"files"`
	Accepted    int            `json:"accepted"`
	Refused     int            `json:"refused"`
	RowsChecked int            `json:"rows_compared"`
	CellsCmp    int            `json:"cells_compared"`
	Inexact     int            `json:"inexact_time_values_skipped"`
	PerMode     map[string]int `json:"per_mode"`
	StoredTypes map[string]int `json:"stored_types"`
	Violations  []finding      `json:"violations"`
	Drift       []finding      `json:"drift"`
	Samples     []interface{}  `json:"samples"`
	Keys        []string       `json:"keys"`
	Infra       string         `json:"infra,omitempty"`
}

// ---------------------------------------------------------------------------- environment

type env struct {
	root    string
	backend *storage.LocalBackend
	duck    *database.DuckDB
	buf     *ingest.ArrowBuffer
	app     *fiber.App
}

func newEnv() (*env, error) {
	tmpBase := ""
	if st, err := os.Stat("/dev/shm"); err == nil && st.IsDir() {
		tmpBase = "/dev/shm"
	}
	root, err := os.MkdirTemp(tmpBase, "fileimport-")
	if err != nil {
		return nil, err
	}
	e := &env{root: root}
	store := filepath.Join(root, "store")
	os.MkdirAll(store, 0o700)
	if e.backend, err = storage.NewLocalBackend(store, logger); err != nil {
		return nil, err
	}
	if e.duck, err = database.New(&database.Config{MaxConnections: 2, MemoryLimit: "512MB", ThreadCount: 2,
		LocalStorageRoot: e.backend.GetBasePath(), TempDirectory: filepath.Join(root, "ducktmp")}, logger); err != nil {
		return nil, fmt.Errorf("duckdb: %w", err)
	}
	e.buf = ingest.NewArrowBuffer(&config.IngestConfig{MaxBufferSize: 1 << 30, MaxBufferAgeMS: 3600 * 1000,
		Compression: "snappy", FlushWorkers: 2, FlushQueueSize: 16, ShardCount: 4, FlushTimeoutSeconds: 600}, e.backend, logger)
	h := api.NewImportHandler(logger)
	h.SetArrowBuffer(e.buf)
	e.app = fiber.New(fiber.Config{DisableStartupMessage: true, BodyLimit: 64 << 20})
	h.RegisterRoutes(e.app)
	return e, nil
}

func (e *env) close() {
	e.buf.Close()
	e.duck.Close()
	os.RemoveAll(e.root)
}

func (e *env) quiesce() error {
	ctx, cancel := context.WithTimeout(context.Background(), 600*time.Second)
	defer cancel()
	if err := e.buf.FlushAll(ctx); err != nil {
		return err
	}
	deadline := time.Now().Add(600 * time.Second)
	for {
		st := e.buf.GetStats()
		if fmt.Sprint(st["flush_queue_depth"]) == "0" && fmt.Sprint(st["active_buffers"]) == "0" &&
			fmt.Sprint(st["total_records_buffered"]) == fmt.Sprint(st["total_records_written"]) {
			return nil
		}
		if time.Now().After(deadline) {
			return fmt.Errorf("buffer not quiescent: %v", st)
		}
		time.Sleep(time.Millisecond)
	}
}

func (e *env) upload(kind, measurement string, q url.Values, data []byte) (int, string, error) {
	var body bytes.Buffer
	w := multipart.NewWriter(&body)
	fw, err := w.CreateFormFile("file", "upload."+kind)
	if err != nil {
		return 0, "", err
	}
	fw.Write(data)
	w.Close()
	q.Set("db", dbName)
	q.Set("measurement", measurement)
	req := httptest.NewRequest("POST", "/api/v1/import/"+kind+"?"+q.Encode(), &body)
	req.Header.Set("Content-Type", w.FormDataContentType())
	resp, err := e.app.Test(req, -1)
	if err != nil {
		return 0, "", err
	}
	defer resp.Body.Close()
	b, _ := io.ReadAll(resp.Body)
	return resp.StatusCode, string(b), nil
}

func parquetFiles(dir string) []string {
	var out []string
	filepath.Walk(dir, func(p string, info os.FileInfo, err error) error {
		if err == nil && !info.IsDir() && strings.HasSuffix(p, ".parquet") {
			out = append(out, p)
		}
		return nil
	})
	sort.Strings(out)
	return out
}

type storedTable struct {
	names []string // without time
	types map[string]string
	rows  []map[string]interface{} // "time" -> int64 micros (or nil), other columns raw driver values
	tType string
}

func (e *env) readBack(files []string) (*storedTable, error) {
	q := make([]string, len(files))
	for i, f := range files {
		q[i] = "'" + strings.ReplaceAll(f, "'", "''") + "'"
	}
	rows, err := e.duck.DB().Query(`SELECT epoch_us("time") AS "__t", typeof("time") AS "__tt", * EXCLUDE ("time") FROM read_parquet([` +
		strings.Join(q, ",") + `], union_by_name=true)`)
	if err != nil {
		return nil, err
	}
	defer rows.Close()
	cts, err := rows.ColumnTypes()
	if err != nil {
		return nil, err
	}
	st := &storedTable{types: map[string]string{}}
	for _, ct := range cts[2:] {
		st.names = append(st.names, ct.Name())
		st.types[ct.Name()] = strings.ToUpper(ct.DatabaseTypeName())
	}
	for rows.Next() {
		vals := make([]interface{}, len(cts))
		ptrs := make([]interface{}, len(cts))
		for i := range vals {
			ptrs[i] = &vals[i]
		}
		if err := rows.Scan(ptrs...); err != nil {
			return nil, err
		}
		r := map[string]interface{}{"time": vals[0]}
		st.tType = fmt.Sprint(vals[1])
		for i, n := range st.names {
			r[n] = vals[i+2]
		}
		st.rows = append(st.rows, r)
	}
	return st, rows.Err()
}

// ---------------------------------------------------------------------------- abstract table

type cell struct {
	class string // csv class or parquet type
	text  string // csv: the cell text (unquoted); parquet: canonical rendering of the exact value
	null  bool
}

type table struct {
	names   []string // data columns, file order
	tname   string
	times   []int64 // expected micros; badTime marks "no defined conversion"
	badRow  int     // index of the row with an unusable time cell, -1 if none
	ttext   []string
	cells   [][]cell // [col][row]
	inexact bool
}

var (
	intTexts   = []string{"42", "-7", "+13", "007", "9007199254740993", "-9223372036854775808", "123456789", "2"}
	b01Texts   = []string{"0", "1"}
	floatTexts = []string{"2.5", "-0.125", "1e3", "3.0", ".5", "1E-2", "-1.5e-3", "1234567.890625", "9007199254740993.0"}
	boolTexts  = []string{"true", "false", "TRUE", "False"}
	strTexts   = []string{"abc", "x y", "12abc", "tru", "1.2.3", "é☃", "-", " 5", "1,5e", "0x", "T", "yes"}
)

func pick(r *rand.Rand, l []string) string { return l[r.Intn(len(l))] }

func csvCellText(r *rand.Rand, class, delim string) string {
	switch class {
	case "int":
		return pick(r, intTexts)
	case "b01":
		return pick(r, b01Texts)
	case "float":
		return pick(r, floatTexts)
	case "boolw":
		return pick(r, boolTexts)
	case "str":
		s := pick(r, strTexts)
		if strings.Contains(s, delim) {
			return "abc"
		}
		return s
	case "empty":
		return ""
	case "qd":
		return []string{"a" + delim + "b", `say "hi"` + delim, "l1\nl2" + delim + "x", delim}[r.Intn(4)]
	}
	panic("class " + class)
}

func renderCell(r *rand.Rand, s, delim string, force bool) string {
	if force || strings.ContainsAny(s, "\"\r\n") || strings.Contains(s, delim) {
		return `"` + strings.ReplaceAll(s, `"`, `""`) + `"`
	}
	return s
}

var unitPerSec = map[string]int64{"s": 1, "ms": 1000, "us": 1000000, "ns": 1000000000}

// instants: row k of a file; whole seconds around an hour boundary so that a file spans two
// hourly partitions; "date" needs midnights
func instantsFor(r *rand.Rand, n int, tcls string) []time.Time {
	base := time.Date(2024, 5, 1+r.Intn(20), 10+r.Intn(3), 59, 58, 0, time.UTC)
	out := make([]time.Time, n)
	for k := range out {
		if tcls == "date" {
			out[k] = time.Date(2024, 5, 1+r.Intn(5)+6*k, 0, 0, 0, 0, time.UTC)
		} else {
			out[k] = base.Add(time.Duration(k) * time.Second)
		}
	}
	if n >= 2 && r.Intn(4) == 0 {
		out[1] = out[0] // two rows with the same timestamp are still two rows
	}
	return out
}

func timeText(r *rand.Rand, t time.Time, tcls, unit string, k int) (string, int64) {
	switch tcls {
	case "eint":
		sub := int64(0) // sub-second part in `unit`, kept a multiple of 1 microsecond
		switch unit {
		case "ms":
			sub = int64(100 + k)
		case "us":
			sub = int64(100000 + k)
		case "ns":
			sub = int64(100000+k) * 1000
		}
		v := t.Unix()*unitPerSec[unit] + sub
		return strconv.FormatInt(v, 10), t.Unix()*1000000 + sub*1000000/unitPerSec[unit]
	case "efrac":
		v := t.Unix()*unitPerSec[unit] + int64(k)
		return strconv.FormatInt(v, 10) + ".5", (t.Unix()*unitPerSec[unit]+int64(k))*(1000000/unitPerSec[unit]) + 500000/unitPerSec[unit]
	case "rfc":
		return t.Format(time.RFC3339), t.UnixMicro()
	case "rfcoff":
		return t.In(time.FixedZone("", 2*3600)).Format(time.RFC3339), t.UnixMicro()
	case "dt":
		if r.Intn(2) == 0 {
			return t.Format("2006-01-02 15:04:05") + ".250", t.UnixMicro() + 250000
		}
		return t.Format("2006-01-02 15:04:05"), t.UnixMicro()
	case "date":
		return t.Format("2006-01-02"), t.UnixMicro()
	}
	panic("tcls " + tcls)
}

func buildCSV(r *rand.Rand, sc *scenario) ([]byte, *table, url.Values) {
	delim := sc.Delim
	if delim == "tab" {
		delim = "\t"
	}
	n := len(sc.Cols[0])
	tb := &table{tname: sc.TName, badRow: -1}
	for i := range sc.Cols {
		tb.names = append(tb.names, fmt.Sprintf("c%d", i+1))
	}
	inst := instantsFor(r, n, sc.TCls)
	for k := 0; k < n; k++ {
		txt, us := timeText(r, inst[k], sc.TCls, sc.TUnit, k)
		tb.ttext = append(tb.ttext, txt)
		tb.times = append(tb.times, us)
	}
	if sc.Bad != "none" {
		tb.badRow = n - 1
		tb.ttext[n-1] = map[string]string{"garbage": "not-a-time", "empty": ""}[sc.Bad]
	}
	for _, col := range sc.Cols {
		var cs []cell
		for _, cl := range col {
			cs = append(cs, cell{class: cl, text: csvCellText(r, cl, delim)})
		}
		tb.cells = append(tb.cells, cs)
	}
	eol := []string{"\n", "\r\n"}[r.Intn(2)]
	var b strings.Builder
	if r.Intn(5) == 0 {
		b.WriteString("\xef\xbb\xbf")
	}
	for s := 0; s < sc.Skip; s++ {
		b.WriteString([]string{"# exported by some tool", "junk" + delim + "x" + delim + "y" + delim + "z"}[s%2] + eol)
	}
	hdr := append([]string{}, tb.names...)
	if sc.TPos == "first" {
		hdr = append([]string{sc.TName}, hdr...)
	} else {
		hdr = append(hdr, sc.TName)
	}
	b.WriteString(strings.Join(hdr, delim) + eol)
	for k := 0; k < n; k++ {
		var f []string
		for c := range tb.cells {
			f = append(f, renderCell(r, tb.cells[c][k].text, delim, tb.cells[c][k].class == "str" && r.Intn(3) == 0))
		}
		if sc.TPos == "first" {
			f = append([]string{tb.ttext[k]}, f...)
		} else {
			f = append(f, tb.ttext[k])
		}
		b.WriteString(strings.Join(f, delim))
		if k < n-1 || r.Intn(2) == 0 {
			b.WriteString(eol)
		}
	}
	q := url.Values{}
	if sc.TName != "time" || r.Intn(2) == 0 {
		q.Set("time_column", sc.TName)
	}
	if sc.TFmt != "" {
		q.Set("time_format", sc.TFmt)
	}
	if delim != "," || r.Intn(2) == 0 {
		q.Set("delimiter", delim)
	}
	if sc.Skip > 0 {
		q.Set("skip_rows", strconv.Itoa(sc.Skip))
	}
	return []byte(b.String()), tb, q
}

// parseCSV: minimal independent RFC 4180 reader (quotes, doubled quotes, embedded line breaks)
func parseCSV(data []byte, delim string) [][]string {
	s := strings.TrimPrefix(string(data), "\xef\xbb\xbf")
	var recs [][]string
	var rec []string
	var cur strings.Builder
	inq, started := false, false
	flushField := func() { rec = append(rec, cur.String()); cur.Reset() }
	flushRec := func() {
		flushField()
		recs = append(recs, rec)
		rec = nil
		started = false
	}
	for i := 0; i < len(s); i++ {
		ch := s[i]
		if inq {
			if ch == '"' {
				if i+1 < len(s) && s[i+1] == '"' {
					cur.WriteByte('"')
					i++
				} else {
					inq = false
				}
			} else {
				cur.WriteByte(ch)
			}
			continue
		}
		switch {
		case ch == '"' && cur.Len() == 0:
			inq, started = true, true
		case strings.HasPrefix(s[i:], delim):
			flushField()
			started = true
			i += len(delim) - 1
		case ch == '\r' && i+1 < len(s) && s[i+1] == '\n':
			i++
			flushRec()
		case ch == '\n':
			flushRec()
		default:
			cur.WriteByte(ch)
			started = true
		}
	}
	if started || cur.Len() > 0 || len(rec) > 0 {
		flushRec()
	}
	return recs
}

// ---------------------------------------------------------------------------- parquet files

var pool = memory.NewGoAllocator()

type pqCol struct {
	field arrow.Field
	arr   arrow.Array
	cells []cell
}

func i64s(v ...int64) []int64 { return v }

// intValues returns three values of the integer type (boundaries included)
func intValues(t, rng string) []*big.Int {
	b := func(s string) *big.Int { x, _ := new(big.Int).SetString(s, 10); return x }
	switch t {
	case "int8":
		return []*big.Int{b("-128"), b("5"), b("127")}
	case "int16":
		return []*big.Int{b("-32768"), b("5"), b("32767")}
	case "int32":
		return []*big.Int{b("-2147483648"), b("5"), b("2147483647")}
	case "int64":
		return []*big.Int{b("-9223372036854775808"), b("9007199254740993"), b("9223372036854775807")}
	case "uint8":
		return []*big.Int{b("0"), b("5"), b("255")}
	case "uint16":
		return []*big.Int{b("0"), b("5"), b("65535")}
	case "uint32":
		return []*big.Int{b("0"), b("5"), b("4294967295")}
	case "uint64":
		if rng == "top" {
			return []*big.Int{b("9223372036854775808"), b("5"), b("18446744073709551615")}
		}
		return []*big.Int{b("0"), b("5"), b("9223372036854775807")}
	}
	panic(t)
}

func buildDataCol(name, t string, nulls bool, rng string, n int) pqCol {
	valid := make([]bool, n)
	for k := range valid {
		valid[k] = !(nulls && k == 1)
	}
	pc := pqCol{}
	mk := func(dt arrow.DataType) { pc.field = arrow.Field{Name: name, Type: dt, Nullable: true} }
	cellsOf := func(texts []string) {
		for k, s := range texts {
			pc.cells = append(pc.cells, cell{class: t, text: s, null: !valid[k]})
		}
	}
	switch t {
	case "int8", "int16", "int32", "int64", "uint8", "uint16", "uint32", "uint64":
		vs := intValues(t, rng)
		var texts []string
		for _, v := range vs {
			texts = append(texts, v.String())
		}
		cellsOf(texts)
		switch t {
		case "int8":
			mk(arrow.PrimitiveTypes.Int8)
			b := array.NewInt8Builder(pool)
			for k, v := range vs {
				if valid[k] {
					b.Append(int8(v.Int64()))
				} else {
					b.AppendNull()
				}
			}
			pc.arr = b.NewArray()
		case "int16":
			mk(arrow.PrimitiveTypes.Int16)
			b := array.NewInt16Builder(pool)
			for k, v := range vs {
				if valid[k] {
					b.Append(int16(v.Int64()))
				} else {
					b.AppendNull()
				}
			}
			pc.arr = b.NewArray()
		case "int32":
			mk(arrow.PrimitiveTypes.Int32)
			b := array.NewInt32Builder(pool)
			for k, v := range vs {
				if valid[k] {
					b.Append(int32(v.Int64()))
				} else {
					b.AppendNull()
				}
			}
			pc.arr = b.NewArray()
		case "int64":
			mk(arrow.PrimitiveTypes.Int64)
			b := array.NewInt64Builder(pool)
			for k, v := range vs {
				if valid[k] {
					b.Append(v.Int64())
				} else {
					b.AppendNull()
				}
			}
			pc.arr = b.NewArray()
		case "uint8":
			mk(arrow.PrimitiveTypes.Uint8)
			b := array.NewUint8Builder(pool)
			for k, v := range vs {
				if valid[k] {
					b.Append(uint8(v.Uint64()))
				} else {
					b.AppendNull()
				}
			}
			pc.arr = b.NewArray()
		case "uint16":
			mk(arrow.PrimitiveTypes.Uint16)
			b := array.NewUint16Builder(pool)
			for k, v := range vs {
				if valid[k] {
					b.Append(uint16(v.Uint64()))
				} else {
					b.AppendNull()
				}
			}
			pc.arr = b.NewArray()
		case "uint32":
			mk(arrow.PrimitiveTypes.Uint32)
			b := array.NewUint32Builder(pool)
			for k, v := range vs {
				if valid[k] {
					b.Append(uint32(v.Uint64()))
				} else {
					b.AppendNull()
				}
			}
			pc.arr = b.NewArray()
		case "uint64":
			mk(arrow.PrimitiveTypes.Uint64)
			b := array.NewUint64Builder(pool)
			for k, v := range vs {
				if valid[k] {
					b.Append(v.Uint64())
				} else {
					b.AppendNull()
				}
			}
			pc.arr = b.NewArray()
		}
	case "float32":
		mk(arrow.PrimitiveTypes.Float32)
		vs := []float32{-0.125, 3.4028235e38, 16777217}
		b := array.NewFloat32Builder(pool)
		var texts []string
		for k, v := range vs {
			texts = append(texts, strconv.FormatFloat(float64(v), 'g', -1, 64))
			if valid[k] {
				b.Append(v)
			} else {
				b.AppendNull()
			}
		}
		cellsOf(texts)
		pc.arr = b.NewArray()
	case "float64":
		mk(arrow.PrimitiveTypes.Float64)
		vs := []float64{-0.125, 1.7976931348623157e308, 9007199254740993}
		b := array.NewFloat64Builder(pool)
		var texts []string
		for k, v := range vs {
			texts = append(texts, strconv.FormatFloat(v, 'g', -1, 64))
			if valid[k] {
				b.Append(v)
			} else {
				b.AppendNull()
			}
		}
		cellsOf(texts)
		pc.arr = b.NewArray()
	case "decimal":
		dt := &arrow.Decimal128Type{Precision: 10, Scale: 2}
		mk(dt)
		b := array.NewDecimal128Builder(pool, dt)
		un := []int64{1250, -325, 100}
		cellsOf([]string{"12.5", "-3.25", "1"})
		for k, v := range un {
			if valid[k] {
				b.Append(decimal128.FromI64(v))
			} else {
				b.AppendNull()
			}
		}
		pc.arr = b.NewArray()
	case "string", "binary", "fsb":
		texts := []string{"abc", "x,y", "é☃z"}
		if t == "fsb" {
			texts = []string{"abc", "x,y", "pqr"}
		}
		cellsOf(texts)
		switch t {
		case "string":
			mk(arrow.BinaryTypes.String)
			b := array.NewStringBuilder(pool)
			for k, v := range texts {
				if valid[k] {
					b.Append(v)
				} else {
					b.AppendNull()
				}
			}
			pc.arr = b.NewArray()
		case "binary":
			mk(arrow.BinaryTypes.Binary)
			b := array.NewBinaryBuilder(pool, arrow.BinaryTypes.Binary)
			for k, v := range texts {
				if valid[k] {
					b.Append([]byte(v))
				} else {
					b.AppendNull()
				}
			}
			pc.arr = b.NewArray()
		default:
			dt := &arrow.FixedSizeBinaryType{ByteWidth: 3}
			mk(dt)
			b := array.NewFixedSizeBinaryBuilder(pool, dt)
			for k, v := range texts {
				if valid[k] {
					b.Append([]byte(v))
				} else {
					b.AppendNull()
				}
			}
			pc.arr = b.NewArray()
		}
	case "bool":
		mk(arrow.FixedWidthTypes.Boolean)
		b := array.NewBooleanBuilder(pool)
		vs := []bool{true, false, true}
		cellsOf([]string{"true", "false", "true"})
		for k, v := range vs {
			if valid[k] {
				b.Append(v)
			} else {
				b.AppendNull()
			}
		}
		pc.arr = b.NewArray()
	case "ts_s", "ts_ms", "ts_us", "ts_ns":
		unit := map[string]arrow.TimeUnit{"ts_s": arrow.Second, "ts_ms": arrow.Millisecond, "ts_us": arrow.Microsecond, "ts_ns": arrow.Nanosecond}[t]
		per := unitPerSec[strings.TrimPrefix(t, "ts_")]
		dt := &arrow.TimestampType{Unit: unit, TimeZone: "UTC"}
		mk(dt)
		b := array.NewTimestampBuilder(pool, dt)
		var texts []string
		for k := 0; k < n; k++ {
			sec := int64(1714561200 + k)
			v := sec * per
			if per >= 1000 {
				v += per / 1000 * 7 // 7 ms
			}
			us := new(big.Int).Mul(big.NewInt(v), big.NewInt(1000000))
			us.Div(us, big.NewInt(per))
			texts = append(texts, us.String()) // stored as integer microseconds
			if valid[k] {
				b.Append(arrow.Timestamp(v))
			} else {
				b.AppendNull()
			}
		}
		cellsOf(texts)
		pc.arr = b.NewArray()
	case "date32":
		mk(arrow.FixedWidthTypes.Date32)
		b := array.NewDate32Builder(pool)
		cellsOf([]string{"19800", "19801", "19802"})
		for k := 0; k < n; k++ {
			if valid[k] {
				b.Append(arrow.Date32(19800 + k))
			} else {
				b.AppendNull()
			}
		}
		pc.arr = b.NewArray()
	default:
		panic("pq type " + t)
	}
	return pc
}

// buildTimeCol: returns the arrow column, the expected micros (nil entry = not exactly defined)
func buildTimeCol(name string, sc *scenario, n int) (arrow.Field, arrow.Array, []int64, bool) {
	tt := sc.Pq.TType
	nullLast := sc.Pq.Bad == "nulltime"
	secs := make([]int64, n)
	for k := range secs {
		secs[k] = 1714561198 + int64(k) // 2024-05-01T10:59:58Z ...: spans an hour boundary
	}
	exp := make([]int64, n)
	inexact := false
	switch tt {
	case "ts_s", "ts_ms", "ts_us", "ts_ns":
		unit := map[string]arrow.TimeUnit{"ts_s": arrow.Second, "ts_ms": arrow.Millisecond, "ts_us": arrow.Microsecond, "ts_ns": arrow.Nanosecond}[tt]
		per := unitPerSec[strings.TrimPrefix(tt, "ts_")]
		dt := &arrow.TimestampType{Unit: unit, TimeZone: "UTC"}
		b := array.NewTimestampBuilder(pool, dt)
		for k := range secs {
			v := secs[k] * per
			if per >= 1000 {
				v += per / 1000 * int64(3+k)
			}
			if nullLast && k == n-1 {
				b.AppendNull()
			} else {
				b.Append(arrow.Timestamp(v))
			}
			exp[k] = v/per*1000000 + (v%per)*1000000/per
		}
		return arrow.Field{Name: name, Type: dt, Nullable: true}, b.NewArray(), exp, false
	case "string", "binary", "fsb":
		var texts []string
		for k := range secs {
			texts = append(texts, time.Unix(secs[k], 0).UTC().Format(time.RFC3339))
			exp[k] = secs[k] * 1000000
		}
		switch tt {
		case "string":
			b := array.NewStringBuilder(pool)
			for k, t := range texts {
				if nullLast && k == n-1 {
					b.AppendNull()
				} else {
					b.Append(t)
				}
			}
			return arrow.Field{Name: name, Type: arrow.BinaryTypes.String, Nullable: true}, b.NewArray(), exp, false
		case "binary":
			b := array.NewBinaryBuilder(pool, arrow.BinaryTypes.Binary)
			for _, s := range texts {
				b.Append([]byte(s))
			}
			return arrow.Field{Name: name, Type: arrow.BinaryTypes.Binary}, b.NewArray(), exp, false
		default:
			dt := &arrow.FixedSizeBinaryType{ByteWidth: 20}
			b := array.NewFixedSizeBinaryBuilder(pool, dt)
			for _, s := range texts {
				b.Append([]byte(s))
			}
			return arrow.Field{Name: name, Type: dt}, b.NewArray(), exp, false
		}
	case "date32":
		b := array.NewDate32Builder(pool)
		for k := range secs {
			b.Append(arrow.Date32(19800 + k))
		}
		return arrow.Field{Name: name, Type: arrow.FixedWidthTypes.Date32}, b.NewArray(), exp, false
	}
	// numeric epochs in unit sc.TUnit; small types hold small epochs (1970)
	per := unitPerSec[sc.TUnit]
	vals := make([]int64, n)
	for k := range vals {
		switch tt {
		case "int8":
			vals[k] = int64(100 + k)
		case "int16":
			vals[k] = int64(30000 + k)
		case "int32", "uint32", "float32":
			if sc.TUnit == "s" {
				vals[k] = secs[k]
			} else {
				vals[k] = int64(2000000000 + k*1000)
			}
		default:
			vals[k] = secs[k]*per + int64(k)*(per/1000)*1 // + k ms when the unit allows
			if per == 1 {
				vals[k] = secs[k]
			}
		}
		if tt == "float32" {
			vals[k] = int64(float32(vals[k])) // what the file will really hold
		}
		// expected micros = value interpreted in the unit, exactly
		num := new(big.Int).Mul(big.NewInt(vals[k]), big.NewInt(1000000))
		quo, rem := new(big.Int).QuoRem(num, big.NewInt(per), new(big.Int))
		if rem.Sign() != 0 || (strings.HasPrefix(tt, "float") && !quo.IsInt64()) {
			inexact = true
		}
		exp[k] = quo.Int64()
	}
	if strings.HasPrefix(tt, "float") {
		// float64 arithmetic of the conversion is exact only when value and result are < 2^53
		for k := range vals {
			if math.Abs(float64(vals[k])) >= 1<<53 || math.Abs(float64(exp[k])) >= 1<<53 {
				inexact = true
			}
		}
	}
	switch tt {
	case "int64":
		b := array.NewInt64Builder(pool)
		for k, v := range vals {
			if nullLast && k == n-1 {
				b.AppendNull()
			} else {
				b.Append(v)
			}
		}
		return arrow.Field{Name: name, Type: arrow.PrimitiveTypes.Int64, Nullable: true}, b.NewArray(), exp, inexact
	case "int32":
		b := array.NewInt32Builder(pool)
		for _, v := range vals {
			b.Append(int32(v))
		}
		return arrow.Field{Name: name, Type: arrow.PrimitiveTypes.Int32}, b.NewArray(), exp, inexact
	case "int16":
		b := array.NewInt16Builder(pool)
		for _, v := range vals {
			b.Append(int16(v))
		}
		return arrow.Field{Name: name, Type: arrow.PrimitiveTypes.Int16}, b.NewArray(), exp, inexact
	case "int8":
		b := array.NewInt8Builder(pool)
		for _, v := range vals {
			b.Append(int8(v))
		}
		return arrow.Field{Name: name, Type: arrow.PrimitiveTypes.Int8}, b.NewArray(), exp, inexact
	case "uint64":
		b := array.NewUint64Builder(pool)
		for k, v := range vals {
			if sc.Pq.Range == "top" {
				b.Append(uint64(1)<<63 + uint64(k)) // no int64 can hold it: the file must be refused
				exp[k] = noTime
			} else {
				b.Append(uint64(v))
			}
		}
		return arrow.Field{Name: name, Type: arrow.PrimitiveTypes.Uint64}, b.NewArray(), exp, inexact && sc.Pq.Range != "top"
	case "uint32":
		b := array.NewUint32Builder(pool)
		for _, v := range vals {
			b.Append(uint32(v))
		}
		return arrow.Field{Name: name, Type: arrow.PrimitiveTypes.Uint32}, b.NewArray(), exp, inexact
	case "float64":
		b := array.NewFloat64Builder(pool)
		for _, v := range vals {
			b.Append(float64(v))
		}
		return arrow.Field{Name: name, Type: arrow.PrimitiveTypes.Float64}, b.NewArray(), exp, inexact
	case "float32":
		b := array.NewFloat32Builder(pool)
		for _, v := range vals {
			b.Append(float32(v))
		}
		return arrow.Field{Name: name, Type: arrow.PrimitiveTypes.Float32}, b.NewArray(), exp, inexact
	}
	panic("time type " + tt)
}

func buildParquet(r *rand.Rand, sc *scenario) ([]byte, *table, url.Values, error) {
	n := 3
	tb := &table{tname: sc.TName, badRow: -1}
	var fields []arrow.Field
	var arrs []arrow.Array
	for i, t := range sc.Pq.Types {
		pc := buildDataCol(fmt.Sprintf("c%d", i+1), t, sc.Pq.Nulls, sc.Pq.Range, n)
		fields = append(fields, pc.field)
		arrs = append(arrs, pc.arr)
		tb.names = append(tb.names, pc.field.Name)
		tb.cells = append(tb.cells, pc.cells)
	}
	tf, ta, exp, inexact := buildTimeCol(sc.TName, sc, n)
	tb.times, tb.inexact = exp, inexact
	if sc.TPos == "first" {
		fields = append([]arrow.Field{tf}, fields...)
		arrs = append([]arrow.Array{ta}, arrs...)
	} else {
		fields = append(fields, tf)
		arrs = append(arrs, ta)
	}
	schema := arrow.NewSchema(fields, nil)
	rec := array.NewRecord(schema, arrs, int64(n))
	defer rec.Release()
	tbl := array.NewTableFromRecords(schema, []arrow.Record{rec})
	defer tbl.Release()
	var buf bytes.Buffer
	chunk := int64(n)
	switch {
	case sc.Pq.Groups == 2:
		chunk = 2 // rows {0,1} | {2}: a bad last row sits alone in the last row group
	case sc.Pq.Groups == 1 && sc.Pq.Bad == "nulltime":
		chunk = int64(n)
	case r.Intn(2) == 0:
		chunk = 2 // two row groups -> chunked columns on the reading side
	}
	if sc.Pq.Bad == "nulltime" {
		tb.badRow = n - 1
	}
	if err := pqarrow.WriteTable(tbl, &buf, chunk, parquet.NewWriterProperties(parquet.WithDictionaryDefault(r.Intn(2) == 0)),
		pqarrow.NewArrowWriterProperties(pqarrow.WithStoreSchema())); err != nil {
		return nil, nil, nil, err
	}
	q := url.Values{}
	if sc.TName != "time" {
		q.Set("time_column", sc.TName)
	}
	if sc.TFmt != "" {
		q.Set("time_format", sc.TFmt)
	}
	return buf.Bytes(), tb, q, nil
}

// ---------------------------------------------------------------------------- judgement

// canonExpected renders the upload's cell as the value it denotes in the STORED column type.
func canonExpected(c cell, stored string, mode string) string {
	if c.null {
		if stored == "VARCHAR" {
			return "s:" // a NULL string and the empty string are not told apart (either way no text is lost)
		}
		return "null"
	}
	if mode == "csv" && c.text == "" {
		if stored == "VARCHAR" {
			return "s:"
		}
		return "null"
	}
	switch stored {
	case "BIGINT", "INTEGER", "SMALLINT", "TINYINT", "UBIGINT", "UINTEGER", "USMALLINT", "UTINYINT", "HUGEINT":
		if v, ok := new(big.Int).SetString(strings.TrimPrefix(c.text, "+"), 10); ok {
			return "i:" + v.String()
		}
	case "DOUBLE", "FLOAT":
		if f, err := strconv.ParseFloat(c.text, 64); err == nil {
			return "f:" + strconv.FormatFloat(f, 'g', -1, 64)
		}
	case "BOOLEAN":
		switch strings.ToLower(c.text) {
		case "true", "1":
			return "b:true"
		case "false", "0":
			return "b:false"
		}
	case "VARCHAR", "BLOB":
		return "s:" + c.text
	}
	return "unrepresentable(" + c.text + " as " + stored + ")"
}

func canonStored(v interface{}, stored string) string {
	if v == nil {
		if stored == "VARCHAR" {
			return "s:" // NULL and "" are the same CSV cell
		}
		return "null"
	}
	switch x := v.(type) {
	case int8, int16, int32, int64, int, uint8, uint16, uint32, uint64:
		return fmt.Sprintf("i:%d", x)
	case *big.Int:
		return "i:" + x.String()
	case float64:
		return "f:" + strconv.FormatFloat(x, 'g', -1, 64)
	case float32:
		return "f:" + strconv.FormatFloat(float64(x), 'g', -1, 64)
	case bool:
		return fmt.Sprintf("b:%v", x)
	case string:
		return "s:" + x
	case []byte:
		return "s:" + string(x)
	}
	return fmt.Sprintf("?%T:%v", v, v)
}

func main() {
	sp := flag.String("scenarios", "", "json list of scenarios")
	outp := flag.String("out", "", "result json")
	seed := flag.Int64("seed", 1, "")
	flag.Parse()
	var scs []scenario
	b, err := os.ReadFile(*sp)
	if err != nil {
		fatal(err)
	}
	if err := json.Unmarshal(b, &scs); err != nil {
		fatal(err)
	}
	e, err := newEnv()
	if err != nil {
		fatal(err)
	}
	defer e.close()
	res := result{PerMode: map[string]int{}, StoredTypes: map[string]int{}}
	add := func(list *[]finding, sig string, w interface{}) {
		for _, f := range *list {
			if f.Signature == sig {
				return
			}
		}
		if len(*list) < 40 {
			*list = append(*list, finding{sig, w})
		}
	}
	keys := map[string]bool{}

	for idx := range scs {
		sc := &scs[idx]
		r := rand.New(rand.NewSource(*seed*1000003 + int64(idx)))
		meas := fmt.Sprintf("m%d", idx)
		if idx > 0 {
			os.RemoveAll(filepath.Join(e.backend.GetBasePath(), dbName, fmt.Sprintf("m%d", idx-1)))
		}
		var data []byte
		var tb *table
		var q url.Values
		if sc.Mode == "csv" {
			data, tb, q = buildCSV(r, sc)
			// self-check of the rendering: an independent reader recovers the table
			delim := sc.Delim
			if delim == "tab" {
				delim = "\t"
			}
			recs := parseCSV(data, delim)
			if len(recs) != sc.Skip+1+len(tb.times) {
				res.Infra = fmt.Sprintf("scenario %d: independent CSV parse sees %d records, want %d: %q", idx, len(recs), sc.Skip+1+len(tb.times), data)
				break
			}
			okParse := true
			for k := range tb.times {
				rec := recs[sc.Skip+1+k]
				off := 0
				if sc.TPos == "first" {
					off = 1
				}
				for c := range tb.cells {
					if c+off >= len(rec) || rec[c+off] != tb.cells[c][k].text {
						okParse = false
					}
				}
			}
			if !okParse {
				res.Infra = fmt.Sprintf("scenario %d: independent CSV parse disagrees with the rendered table: %q -> %v", idx, data, recs)
				break
			}
		} else {
			data, tb, q, err = buildParquet(r, sc)
			if err != nil {
				res.Infra = fmt.Sprintf("scenario %d: cannot build parquet: %v", idx, err)
				break
			}
		}
		code, body, err := e.upload(sc.Mode, meas, q, data)
		if err != nil {
			res.Infra = fmt.Sprintf("scenario %d: upload: %v", idx, err)
			break
		}
		if err := e.quiesce(); err != nil {
			res.Infra = fmt.Sprintf("scenario %d: %v", idx, err)
			break
		}
		res.Files++
		res.PerMode[sc.Mode]++
		files := parquetFiles(filepath.Join(e.backend.GetBasePath(), dbName, meas))
		wit := map[string]interface{}{"scenario": sc, "query": q.Encode(), "http_status": code, "response": body, "stored_files": len(files)}
		if sc.Mode == "csv" {
			wit["upload"] = string(data)
		} else {
			wit["upload"] = fmt.Sprintf("<parquet %d bytes: columns %v time %s>", len(data), sc.Pq.Types, sc.Pq.TType)
		}
		keyOf := func() string {
			if sc.Mode == "csv" {
				return fmt.Sprintf("csv|%v|%s|%s|%s|%s|%d|%s|%s|%s", sc.Cols, sc.TFmt, sc.TCls, sc.TUnit, sc.Bad, sc.Skip, sc.TName, sc.TPos, sc.Delim)
			}
			return fmt.Sprintf("pq|%v|%v|%s|%s|%d|%s|%s|%s|%s|%s", sc.Pq.Types, sc.Pq.Nulls, sc.Pq.TType, sc.Pq.Range, sc.Pq.Groups, sc.Pq.Bad, sc.TFmt, sc.TUnit, sc.TName, sc.TPos)
		}
		keys[keyOf()] = true

		if code != 200 {
			res.Refused++
			if len(files) > 0 {
				add(&res.Violations, "refused-file-left-rows-in-storage:"+sc.Mode, wit)
			}
			if sc.Outcome != "rejected" {
				add(&res.Drift, fmt.Sprintf("refused-but-model-accepts:%s:%d", sc.Mode, code), wit)
			}
			os.RemoveAll(filepath.Join(e.backend.GetBasePath(), dbName, meas))
			continue
		}
		res.Accepted++
		if sc.Outcome != "stored" {
			add(&res.Drift, "accepted-but-model-refuses:"+sc.Mode, wit)
		}
		if len(files) == 0 {
			add(&res.Violations, "accepted-file-stored-nothing:"+sc.Mode, wit)
			continue
		}
		st, err := e.readBack(files)
		if err != nil {
			res.Infra = fmt.Sprintf("scenario %d: read back: %v", idx, err)
			break
		}
		wit["stored_types"] = st.types
		wit["stored_time_type"] = st.tType
		// column set
		sort.Strings(st.names)
		want := append([]string{}, tb.names...)
		sort.Strings(want)
		if strings.Join(st.names, ",") != strings.Join(want, ",") {
			add(&res.Violations, "stored-columns-differ-from-file-columns:"+sc.Mode, wit)
			continue
		}
		if !strings.HasPrefix(st.tType, "TIMESTAMP") {
			add(&res.Violations, "time-column-not-a-timestamp:"+sc.Mode, wit)
			continue
		}
		// predicted types (drift only)
		for i, n := range tb.names {
			res.StoredTypes[st.types[n]]++
			if i < len(sc.Types) {
				pred := map[string]string{"int": "BIGINT", "float": "DOUBLE", "bool": "BOOLEAN", "string": "VARCHAR"}[sc.Types[i]]
				if pred != st.types[n] {
					src := "?"
					if sc.Mode == "csv" {
						src = strings.Join(sc.Cols[i], "+")
					} else {
						src = sc.Pq.Types[i]
					}
					add(&res.Drift, fmt.Sprintf("column-type:%s:%s:model=%s:code=%s", sc.Mode, src, pred, st.types[n]), wit)
				}
			}
		}
		// multiset comparison
		var exp, got []string
		perRowExp := make([][]string, len(tb.times))
		for k := range tb.times {
			parts := []string{}
			if k == tb.badRow || tb.times[k] == noTime {
				parts = append(parts, "t:<no defined conversion>")
			} else if tb.inexact {
				parts = append(parts, "t:*")
			} else {
				parts = append(parts, fmt.Sprintf("t:%d", tb.times[k]))
			}
			for c, n := range tb.names {
				parts = append(parts, n+"="+canonExpected(tb.cells[c][k], st.types[n], sc.Mode))
			}
			perRowExp[k] = parts
			exp = append(exp, strings.Join(parts, "|"))
		}
		for _, row := range st.rows {
			parts := []string{}
			if tb.inexact {
				parts = append(parts, "t:*")
			} else {
				parts = append(parts, fmt.Sprintf("t:%v", row["time"]))
			}
			for _, n := range tb.names {
				parts = append(parts, n+"="+canonStored(row[n], st.types[n]))
			}
			got = append(got, strings.Join(parts, "|"))
		}
		if tb.inexact {
			res.Inexact++
		}
		sort.Strings(exp)
		sort.Strings(got)
		res.RowsChecked += len(exp)
		res.CellsCmp += len(exp) * (len(tb.names) + 1)
		wit["expected_rows"] = exp
		wit["stored_rows"] = got
		if len(res.Samples) < 5 && idx%613 == 7 {
			res.Samples = append(res.Samples, wit)
		}
		if strings.Join(exp, "\n") == strings.Join(got, "\n") {
			continue
		}
		// classify the difference
		switch {
		case len(got) < len(exp):
			add(&res.Violations, fmt.Sprintf("rows-missing:%s:stored=%d:file=%d", sc.Mode, len(got), len(exp)), wit)
		case len(got) > len(exp):
			add(&res.Violations, fmt.Sprintf("rows-duplicated:%s", sc.Mode), wit)
		default:
			// same number of rows: find which component differs
			expT, gotT := []string{}, []string{}
			for _, s := range exp {
				expT = append(expT, strings.SplitN(s, "|", 2)[0])
			}
			for _, s := range got {
				gotT = append(gotT, strings.SplitN(s, "|", 2)[0])
			}
			sort.Strings(expT)
			sort.Strings(gotT)
			if strings.Join(expT, ",") != strings.Join(gotT, ",") {
				if sc.Mode == "csv" {
					add(&res.Violations, fmt.Sprintf("time-conversion:csv:format=%s:cell=%s/%s", orAuto(sc.TFmt), sc.TCls, sc.TUnit), wit)
				} else {
					add(&res.Violations, fmt.Sprintf("time-conversion:parquet:format=%s:column=%s/%s", orAuto(sc.TFmt), sc.Pq.TType, sc.TUnit), wit)
				}
				break
			}
			found := false
			for c, n := range tb.names {
				var ec, gc []string
				for k := range tb.times {
					ec = append(ec, canonExpected(tb.cells[c][k], st.types[n], sc.Mode))
				}
				for _, row := range st.rows {
					gc = append(gc, canonStored(row[n], st.types[n]))
				}
				sort.Strings(ec)
				sort.Strings(gc)
				if strings.Join(ec, ",") != strings.Join(gc, ",") {
					src := ""
					if sc.Mode == "csv" {
						src = strings.Join(sc.Cols[c], "+")
					} else {
						src = sc.Pq.Types[c]
						if sc.Pq.Types[c] == "uint64" {
							src += "/" + map[string]string{"mid": "below-2^63", "top": "above-2^63-1"}[sc.Pq.Range]
						}
					}
					add(&res.Violations, fmt.Sprintf("value-changed:%s:%s-stored-as-%s", sc.Mode, src, st.types[n]), wit)
					found = true
				}
			}
			if !found {
				add(&res.Violations, "rows-recombined:"+sc.Mode, wit) // every column matches as a multiset but rows do not
			}
		}
		os.RemoveAll(filepath.Join(e.backend.GetBasePath(), dbName, meas))
	}
	for k := range keys {
		res.Keys = append(res.Keys, k)
	}
	sort.Strings(res.Keys)
	ob, _ := json.MarshalIndent(res, "", " ")
	if err := os.WriteFile(*outp, ob, 0o644); err != nil {
		fatal(err)
	}
}

func orAuto(s string) string {
	if s == "" {
		return "auto"
	}
	return s
}

func fatal(err error) {
	fmt.Fprintln(os.Stderr, "fileimport:", err)
	os.Exit(2)
}

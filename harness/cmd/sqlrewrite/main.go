// Command sqlrewrite is the replay driver of the sqlrewrite family (C16, C17, C18).
package main

import (
	"bufio"
	"context"
	"encoding/json"
	"flag"
	"fmt"
	"os"

	"github.com/basekick-labs/arc/internal/api"
	sr "github.com/basekick-labs/arc/verifharness/internal/sqlrewrite"
)

func main() {
	mode := flag.String("mode", "", "probe|c17|c18|c16")
	in := flag.String("in", "", "scenario file (JSON)")
	out := flag.String("out", "", "result file (JSON)")
	dir := flag.String("dir", "", "scratch directory")
	seed := flag.Int64("seed", 1, "")
	budget := flag.Int("budget", 0, "sampler budget")
	flag.Parse()
	_ = budget
	if *dir == "" {
		d, err := os.MkdirTemp("", "sqlrewrite")
		if err != nil {
			panic(err)
		}
		defer os.RemoveAll(d)
		*dir = d
	}
	env, err := sr.NewEnv(*dir)
	if err != nil {
		fmt.Fprintln(os.Stderr, "env:", err)
		os.Exit(2)
	}
	defer env.Close()
	switch *mode {
	case "probe":
		probe(env)
	case "c17":
		var inp c17Input
		mustLoad(*in, &inp)
		mustStore(*out, runC17(env, &inp, *seed))
	case "c16":
		var inp c16Input
		mustLoad(*in, &inp)
		mustStore(*out, runC16(env, &inp, *seed))
	case "c18":
		var inp c18Input
		mustLoad(*in, &inp)
		mustStore(*out, runC18(env, &inp, *seed))
	default:
		fmt.Fprintln(os.Stderr, "unknown mode")
		os.Exit(2)
	}
}

// probe: one JSON object per stdin line {"db":"plain|arc","sql":..} or {"rewrite":"tb|dt|rx|like","sql":..}
func probe(env *sr.Env) {
	sc := bufio.NewScanner(os.Stdin)
	sc.Buffer(make([]byte, 1<<20), 1<<20)
	enc := json.NewEncoder(os.Stdout)
	for sc.Scan() {
		var req map[string]string
		if err := json.Unmarshal(sc.Bytes(), &req); err != nil {
			fmt.Println("bad line:", err)
			continue
		}
		if rw := req["rewrite"]; rw != "" {
			s := req["sql"]
			switch rw {
			case "tb":
				s = api.VerifRewriteTimeBucket(s)
			case "dt":
				s = api.VerifRewriteDateTrunc(s)
			case "rx":
				s, _ = api.RewriteRegexToStringFuncs(s)
			case "like":
				s, _ = api.OptimizeLikePatterns(s)
			case "full":
				s = env.NewHandler().VerifTransformUncached(context.Background(), s, req["header"])
			}
			enc.Encode(map[string]string{"sql": s})
			continue
		}
		db := env.Plain
		if req["db"] == "arc" {
			db = env.Arc.DB()
		}
		r := sr.Query(context.Background(), db, req["sql"])
		enc.Encode(r.Brief(50))
	}
}

func mustLoad(p string, v interface{}) {
	b, err := os.ReadFile(p)
	if err == nil {
		err = json.Unmarshal(b, v)
	}
	if err != nil {
		fmt.Fprintln(os.Stderr, "input:", err)
		os.Exit(2)
	}
}

func mustStore(p string, v interface{}) {
	b, err := json.MarshalIndent(v, "", " ")
	if err == nil {
		err = os.WriteFile(p, b, 0o644)
	}
	if err != nil {
		fmt.Fprintln(os.Stderr, "output:", err)
		os.Exit(2)
	}
}

package main

// C18: partition pruning never changes query results.
//
// Every query TLC enumerated (specs/sqlrewrite/SqlRewritePrune.tla: WHERE tree x wrapper, with the range the
// pruner model extracts and, per layout, the predicted pruned / needed / lost files and the mechanism of each
// loss) is rendered to SQL, the layouts are written as real parquet partitions under a real local storage root,
// and the query is transformed twice by real QueryHandlers -- pruner enabled (clock fixed through the -clock
// overlay) and pruner disabled -- and both results are executed on arc's DuckDB.  Different rows = violation.
// The lost file is found by experiment (adding one left-out file back changes the pruned result); the mechanism
// label TLC attached to that file names the finding.  The model's pruned set is compared with the real path
// list as drift detector.

import (
	"context"
	"fmt"
	"math/rand"
	"os"
	"path/filepath"
	"regexp"
	"sort"
	"strings"
	"time"

	"github.com/basekick-labs/arc/internal/api"
	"github.com/basekick-labs/arc/internal/pruning"
	sr "github.com/basekick-labs/arc/verifharness/internal/sqlrewrite"
)

type pruneAtom struct {
	K  string `json:"k"`
	Op string `json:"op"`
	C  int    `json:"c"`
	C2 int    `json:"c2"`
	U  string `json:"u"` // R atoms: interval unit as written
	N  int    `json:"n"` // R atoms: interval amount as written
}

type pruneTree struct {
	Op string     `json:"op"`
	A  *pruneAtom `json:"a"`
	L  *pruneTree `json:"l"`
	R  *pruneTree `json:"r"`
}

type pruneLost struct {
	File string `json:"file"`
	Why  string `json:"why"`
}

type pruneCase struct {
	Files  []string    `json:"files"`
	Pruned []string    `json:"pruned"`
	Needed []string    `json:"needed"`
	Lost   []pruneLost `json:"lost"`
	LostAW []pruneLost `json:"lostaw"` // losses of the pruner as written before /repo 757b147
}

type pruneQuery struct {
	Tree   pruneTree   `json:"tree"`
	W      string      `json:"w"`
	Found  bool        `json:"found"`
	S      int         `json:"s"`
	E      int         `json:"e"`
	NBad   int         `json:"nbad"`
	Labels []string    `json:"labels"`
	Cases  []pruneCase `json:"cases"`
}

type c18Input struct {
	Queries []pruneQuery `json:"queries"`
}

type c18Result struct {
	Infra        string         `json:"infra,omitempty"`
	Queries      int            `json:"queries"`
	Executions   int            `json:"executions"`
	Layouts      int            `json:"layouts_on_disk"`
	Pruned       int            `json:"executions_where_pruning_applied"`
	Differ       int            `json:"executions_with_different_rows"`
	DifferBy     map[string]int `json:"different_rows_per_signature"`
	PredictedBad int            `json:"executions_predicted_lossy"`
	Evaluations  int            `json:"evaluations"`
	Keys         []string       `json:"nontrivial_keys"`
	Violations   []finding      `json:"violations"`
	Drift        []finding      `json:"drift"`
	Samples      []interface{}  `json:"samples"`
}

var (
	day0     = time.Date(2020, 1, 3, 0, 0, 0, 0, time.UTC)
	fixedNow = day0.Add(36 * time.Hour)
	fileHour = map[string]int{"hP": -91, "h1": 1, "h2": 2, "h23": 23, "h24": 24, "h25": 25, "hF": 108, "hM": -700, "hN": 770}
	fileIdx  = map[string]int{"hP": 1, "h1": 2, "h2": 3, "h23": 4, "h24": 5, "h25": 6, "hF": 7, "d0": 8, "d1": 9, "hM": 10, "hN": 11}
)

func hourTime(h int) time.Time { return day0.Add(time.Duration(h) * time.Hour) }

// partition directory of a file relative to <root>/<db>/<measurement>
func fileDir(f string) string {
	if f == "d0" || f == "d1" {
		d := day0
		if f == "d1" {
			d = day0.AddDate(0, 0, 1)
		}
		return d.Format("2006/01/02")
	}
	return hourTime(fileHour[f]).Format("2006/01/02/15")
}

func fileRowsSQL(f string) string {
	const tf = "2006-01-02 15:04:05"
	var t1, t2 time.Time
	if f == "d0" || f == "d1" {
		d := 0
		if f == "d1" {
			d = 1
		}
		t1 = hourTime(24 * d)
		t2 = hourTime(24*d + 13).Add(30 * time.Minute)
	} else {
		t1 = hourTime(fileHour[f])
		t2 = t1.Add(30 * time.Minute)
	}
	i := fileIdx[f] * 10
	return fmt.Sprintf("SELECT * FROM (VALUES (%d::BIGINT, TIMESTAMP '%s', 1, TIMESTAMP '%s'), (%d::BIGINT, TIMESTAMP '%s', 0, TIMESTAMP '%s')) v(id, time, x, event_time)",
		i+1, t1.Format(tf), t1.Add(24*time.Hour).Format(tf), i+2, t2.Format(tf), t2.Add(24*time.Hour).Format(tf))
}

func layoutName(files []string) string {
	s := append([]string(nil), files...)
	sort.Strings(s)
	if len(s) == len(fileIdx) {
		return "m_full"
	}
	return "m_" + strings.Join(s, "_")
}

func litFor(h int, style int) string {
	t := hourTime(h)
	switch style % 6 {
	case 1, 2:
		return t.Format("2006-01-02T15:04:05Z")
	case 3:
		return t.Format("2006-01-02 15:04")
	case 4:
		if t.Hour() == 0 {
			return t.Format("2006-01-02")
		}
	case 5:
		if t.Hour() == 0 {
			return t.Format("2006/01/02")
		}
	}
	return t.Format("2006-01-02 15:04:05")
}

var opText = map[string]string{"ge": ">=", "gt": ">", "lt": "<", "le": "<="}

func renderAtom(a *pruneAtom, p string, style int) string {
	switch a.K {
	case "T":
		return fmt.Sprintf("%stime %s '%s'", p, opText[a.Op], litFor(a.C, style))
	case "S":
		return fmt.Sprintf("%sevent_time %s '%s'", p, opText[a.Op], litFor(a.C, style))
	case "Z": // hour c in UTC, written with the digits of c+2 and a +02:00 offset
		return fmt.Sprintf("%stime %s '%s+02:00'", p, opText[a.Op], hourTime(a.C+2).Format("2006-01-02T15:04:05"))
	case "B":
		return fmt.Sprintf("%stime BETWEEN '%s' AND '%s'", p, litFor(a.C, style), litFor(a.C2, style))
	case "O":
		return p + "x = 1"
	case "R":
		now := "NOW()"
		if style%2 == 1 {
			now = "CURRENT_TIMESTAMP"
		}
		sign, amount, unit := "-", a.N, a.U
		if a.C < 0 {
			sign = "+"
		}
		if unit == "" {
			amount, unit = a.C, "hours"
		}
		if unit == "hours" && amount%24 == 0 && style%3 == 0 { // fixed-length units: same arithmetic, other regex alternative
			amount, unit = amount/24, "days"
		} else if unit == "hours" && style%3 == 1 {
			amount, unit = amount*60, "minutes"
		}
		if amount == 1 {
			unit = strings.TrimSuffix(unit, "s")
		}
		return fmt.Sprintf("%stime %s %s %s INTERVAL '%d %s'", p, opText[a.Op], now, sign, amount, unit)
	}
	return "TRUE"
}

func renderTree(t *pruneTree, p string, style int, top bool) string {
	switch t.Op {
	case "atom":
		return renderAtom(t.A, p, style)
	case "not":
		return "NOT (" + renderTree(t.L, p, style, true) + ")"
	default:
		s := renderTree(t.L, p, style+1, false) + " " + strings.ToUpper(t.Op) + " " + renderTree(t.R, p, style+2, false)
		if top {
			return s
		}
		return "(" + s + ")"
	}
}

func renderQuery(q *pruneQuery, m string, style int) string {
	switch q.W {
	case "subq":
		return fmt.Sprintf("SELECT id FROM %s WHERE x IN (SELECT x FROM %s WHERE %s)", m, m, renderTree(&q.Tree, "", style, true))
	case "join":
		return fmt.Sprintf("SELECT a.id AS aid, b.id AS bid FROM %s a JOIN %s b ON a.x = b.x WHERE %s", m, m, renderTree(&q.Tree, "a.", style, true))
	default:
		tail := []string{"", " ORDER BY id", " LIMIT 1000"}[style%3]
		return fmt.Sprintf("SELECT id, x FROM %s WHERE %s%s", m, renderTree(&q.Tree, "", style, true), tail)
	}
}

var (
	reReadParquet = regexp.MustCompile(`read_parquet\((\[[^\]]*\]|'[^']*')`)
	reNow         = regexp.MustCompile(`(?i)NOW\s*\(\s*\)|CURRENT_TIMESTAMP`)
)

func fixNow(sql string) string {
	return reNow.ReplaceAllString(sql, "TIMESTAMP '"+fixedNow.Format("2006-01-02 15:04:05")+"'")
}

func sameSet(a, b []string) bool {
	if len(a) != len(b) {
		return false
	}
	x := append([]string(nil), a...)
	y := append([]string(nil), b...)
	sort.Strings(x)
	sort.Strings(y)
	for i := range x {
		if x[i] != y[i] {
			return false
		}
	}
	return true
}

func runC18(env *sr.Env, in *c18Input, seed int64) *c18Result {
	res := &c18Result{DifferBy: map[string]int{}}
	ctx := context.Background()
	rng := rand.New(rand.NewSource(seed))
	pruning.VerifNow = func() time.Time { return fixedNow }
	hP := env.NewHandler()
	hU := env.NewHandler()
	hU.VerifPruner().VerifSetEnabled(false)
	var _ *api.QueryHandler = hP
	keys := map[string]bool{}
	seenV := map[string]bool{}
	seenD := map[string]bool{}
	made := map[string]bool{}
	ensure := func(files []string) (string, error) {
		m := layoutName(files)
		if made[m] {
			return m, nil
		}
		for _, f := range files {
			dir := filepath.Join(env.Root, "default", m, fileDir(f))
			if err := os.MkdirAll(dir, 0o700); err != nil {
				return "", err
			}
			p := filepath.Join(dir, fmt.Sprintf("%s_%s.parquet", m, f))
			if _, err := env.Plain.Exec(fmt.Sprintf("COPY (%s) TO '%s' (FORMAT PARQUET)", fileRowsSQL(f), p)); err != nil {
				return "", err
			}
		}
		made[m] = true
		res.Layouts++
		return m, nil
	}
	for qi := range in.Queries {
		q := &in.Queries[qi]
		res.Queries++
		for ci := range q.Cases {
			c := &q.Cases[ci]
			m, err := ensure(c.Files)
			if err != nil {
				res.Infra = "fixture: " + err.Error()
				return res
			}
			style := rng.Intn(1000)
			sqlText := renderQuery(q, m, style)
			header := ""
			if style%2 == 1 {
				header = "default"
			}
			tp, _, _ := hP.VerifTransform(ctx, sqlText, header)
			tu, _, _ := hU.VerifTransform(ctx, sqlText, header)
			if !strings.Contains(tu, "/**/*.parquet") || !strings.Contains(tp, "read_parquet") {
				res.Infra = fmt.Sprintf("unexpected transform: %s => %s / %s", sqlText, tp, tu)
				return res
			}
			rp := sr.Query(ctx, env.Arc.DB(), fixNow(tp))
			ru := sr.Query(ctx, env.Arc.DB(), fixNow(tu))
			res.Executions++
			res.Evaluations += 2
			if ru.Err != "" {
				res.Infra = fmt.Sprintf("unpruned query failed: %s: %s", tu, ru.Err)
				return res
			}
			keys[fmt.Sprintf("prune|%d|%s", qi, m)] = true
			// the files the real pruner kept, per table reference
			base := filepath.Join(env.Root, "default", m)
			refs := reReadParquet.FindAllStringSubmatch(tp, -1)
			var realPruned []string
			pruned := false
			if len(refs) > 0 && !strings.Contains(refs[0][1], "/**/") {
				pruned = true
				for _, f := range c.Files {
					if strings.Contains(refs[0][1], "'"+filepath.Join(base, fileDir(f), "*.parquet")+"'") {
						realPruned = append(realPruned, f)
					}
				}
			} else {
				realPruned = append(realPruned, c.Files...)
			}
			if pruned {
				res.Pruned++
			}
			if len(c.Lost) > 0 {
				res.PredictedBad++
			}
			w := map[string]interface{}{"sql": sqlText, "header_db": header, "layout": c.Files, "pruned_sql": shorten(tp, env.Root), "clock": fixedNow.Format(time.RFC3339),
				"real_pruned_files": realPruned, "spec_pruned_files": c.Pruned, "spec_needed_files": c.Needed,
				"pruned_result": rp.Brief(6), "unpruned_result": ru.Brief(6)}
			if !sameSet(realPruned, c.Pruned) && !seenD["p"] {
				seenD["p"] = true
				res.Drift = append(res.Drift, finding{"prune:pruned-file-set-not-as-modelled", w})
			}
			if sr.SameBag(rp, ru) {
				if len(res.Samples) < 3 && pruned {
					res.Samples = append(res.Samples, w)
				}
				continue
			}
			res.Differ++
			// which left-out file changes the result when it is added back?
			sigs := map[string]string{}
			if rp.Err != "" {
				sigs["prune:pruned-query-fails"] = ""
			} else {
				for _, f := range c.Files {
					in := false
					for _, g := range realPruned {
						if g == f {
							in = true
						}
					}
					if in {
						continue
					}
					plus := reReadParquet.ReplaceAllStringFunc(tp, func(mm string) string {
						var ps []string
						for _, g := range append(append([]string(nil), realPruned...), f) {
							ps = append(ps, "'"+filepath.Join(base, fileDir(g), "*.parquet")+"'")
						}
						return "read_parquet([" + strings.Join(ps, ", ") + "]"
					})
					rr := sr.Query(ctx, env.Arc.DB(), fixNow(plus))
					res.Evaluations++
					if rr.Err != "" || sr.SameBag(rr, rp) {
						continue
					}
					why := ""
					for _, l := range c.Lost {
						if l.File == f {
							why = l.Why
						}
					}
					if why == "" {
						for _, l := range c.LostAW { // a repaired mechanism is back: report it under its own name
							if l.File == f {
								why = l.Why
							}
						}
					}
					if why == "" {
						sigs["prune:unpredicted-loss:"+q.W] = f
					} else {
						sigs["prune:"+why] = f
					}
				}
				if len(sigs) == 0 {
					sigs["prune:unpredicted-difference:"+q.W] = ""
				}
			}
			for sig, f := range sigs {
				res.DifferBy[sig]++
				if !seenV[sig] {
					seenV[sig] = true
					ww := map[string]interface{}{}
					for k, v := range w {
						ww[k] = v
					}
					ww["lost_file"] = f
					if f != "" {
						ww["lost_file_partition"] = fileDir(f)
					}
					res.Violations = append(res.Violations, finding{sig, ww})
				}
			}
		}
	}
	for k := range keys {
		res.Keys = append(res.Keys, k)
	}
	sort.Strings(res.Keys)
	return res
}

func shorten(sql, root string) string {
	s := strings.ReplaceAll(sql, root, "<root>")
	if len(s) > 900 {
		s = s[:900] + "..."
	}
	return s
}

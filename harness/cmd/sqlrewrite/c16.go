package main

// C16: query answers match DuckDB's semantics for the same SQL.
//
// Every derivation TLC enumerated from the grammar specs/sqlrewrite/SqlRewriteRefs.tla (shape x references x
// join kind x style x header, with the ground-truth reference sites) is rendered to SQL text.  Accepted queries
// (ValidateSQLRequest, header rules of executeQuery) are transformed by the real getTransformedSQLForParallel and
// executed on arc's DuckDB over stored parquet files; the ORIGINAL text is executed on a plain DuckDB whose
// tables hold exactly the stored rows.  Different multisets, or one side failing, is the violation.  The
// structural comparison (read_parquet paths vs RefSites) only decides what is executed first.  A failing query
// is minimised feature by feature (each reset query is executed too) and the surviving features name the finding.

import (
	"context"
	"database/sql"
	"fmt"
	"math/rand"
	"os"
	"path/filepath"
	"regexp"
	"sort"
	"strings"

	"github.com/basekick-labs/arc/internal/api"
	sr "github.com/basekick-labs/arc/verifharness/internal/sqlrewrite"
)

type refT struct {
	DB   string `json:"db"`
	Name string `json:"name"`
	Q    bool   `json:"q"`
}

type siteT struct {
	DB   string `json:"db"`
	Name string `json:"name"`
}

type refsQuery struct {
	Shape    string   `json:"shape"`
	R1       refT     `json:"r1"`
	R2       refT     `json:"r2"`
	JK       string   `json:"jk"`
	Fn       string   `json:"fn"`
	Decoy    string   `json:"decoy"`
	Ws       string   `json:"ws"`
	Kw       string   `json:"kw"`
	Header   string   `json:"header"`
	Sites    []siteT  `json:"sites"`
	NonSites []string `json:"nonsites"`
}

type c16Input struct {
	Queries []refsQuery `json:"queries"`
	Budget  int         `json:"budget"` // executions beyond the structurally deviating ones (0 = all)
}

type c16Result struct {
	Infra       string         `json:"infra,omitempty"`
	Queries     int            `json:"queries"`
	Rejected    map[string]int `json:"not_accepted"`
	Deviating   int            `json:"structurally_deviating"`
	Executed    int            `json:"executed"`
	Differ      int            `json:"executed_with_different_result"`
	DifferBy    map[string]int `json:"different_per_signature"`
	Minimise    int            `json:"minimisation_executions"`
	Evaluations int            `json:"evaluations"`
	Keys        []string       `json:"nontrivial_keys"`
	Violations  []finding      `json:"violations"`
	Samples     []interface{}  `json:"samples"`
}

type c16Env struct {
	env      *sr.Env
	pDefault *sql.DB
	pDb2     *sql.DB
	h        *api.QueryHandler
}

type mrow struct {
	file      int
	ts, host  string
	v, n      string
	hasN      bool
	partition string
}

func c16Data() map[string][]mrow {
	mk := func(part string, file int, hasN bool, rows ...[4]string) []mrow {
		var out []mrow
		for _, r := range rows {
			out = append(out, mrow{file: file, ts: r[0], host: r[1], v: r[2], n: r[3], hasN: hasN, partition: part})
		}
		return out
	}
	d := map[string][]mrow{}
	d["default/cpu"] = append(append(
		mk("2024/05/01/10", 1, true, [4]string{"2024-05-01 10:05:00", "'h1'", "1.5", "10"}, [4]string{"2024-05-01 10:30:00", "'h2'", "NULL", "11"}, [4]string{"2024-05-01 10:45:00", "NULL", "3.25", "NULL"}),
		mk("2024/05/01/11", 2, false, [4]string{"2024-05-01 11:00:00", "'h1'", "2.5", "NULL"}, [4]string{"2024-05-01 11:20:00.5", "'h3'", "0.5", "NULL"})...),
		mk("2024/05/02/09", 3, true, [4]string{"2024-05-02 09:10:00", "'h2'", "7", "12"}, [4]string{"2024-05-02 09:10:00", "'h2'", "7", "12"}, [4]string{"2024-05-02 09:40:00", "'H1'", "-4", "0"})...)
	d["default/mem"] = append(
		mk("2024/05/01/10", 1, true, [4]string{"2024-05-01 10:05:00", "'h1'", "100", "1"}, [4]string{"2024-05-01 10:06:00", "'h4'", "200", "NULL"}),
		mk("2024/05/02", 2, true, [4]string{"2024-05-02 00:00:00", "'h2'", "NULL", "2"}, [4]string{"2024-05-02 13:00:00", "NULL", "5", "3"}, [4]string{"2024-05-02 23:59:59", "'h3'", "6", "4"})...)
	d["default/Sensor_Data"] = append(
		mk("2024/05/01/23", 1, true, [4]string{"2024-05-01 23:15:00", "'h1'", "20.5", "7"}, [4]string{"2024-05-01 23:16:00", "'h2'", "21", "NULL"}),
		mk("2024/05/02/00", 2, false, [4]string{"2024-05-02 00:01:00", "'h5'", "19", "NULL"}, [4]string{"2024-05-02 00:02:00", "NULL", "NULL", "NULL"})...)
	d["db2/cpu"] = append(
		mk("2024/05/01/10", 1, true, [4]string{"2024-05-01 10:05:00", "'h1'", "91.5", "910"}, [4]string{"2024-05-01 10:07:00", "'h9'", "92", "NULL"}),
		mk("2024/05/03/04", 2, true, [4]string{"2024-05-03 04:00:00", "'h2'", "1.25", "5"}, [4]string{"2024-05-03 04:30:00", "NULL", "2", "6"})...)
	d["db2/events"] = append(
		mk("2024/05/01/12", 1, true, [4]string{"2024-05-01 12:00:00", "'h1'", "1", "1"}, [4]string{"2024-05-01 12:01:00", "'h9'", "NULL", "2"}),
		mk("2024/05/02/12", 2, false, [4]string{"2024-05-02 12:00:00", "'h3'", "3", "NULL"})...)
	return d
}

func setupC16(env *sr.Env) (*c16Env, error) {
	ce := &c16Env{env: env, pDefault: env.Plain}
	p2, err := sql.Open("duckdb", "")
	if err != nil {
		return nil, err
	}
	p2.SetMaxOpenConns(1)
	ce.pDb2 = p2
	if _, err := ce.pDefault.Exec("CREATE SCHEMA IF NOT EXISTS db2"); err != nil {
		return nil, err
	}
	for key, rows := range c16Data() {
		db, m := strings.Split(key, "/")[0], strings.Split(key, "/")[1]
		var vals []string
		for _, r := range rows {
			n := r.n
			if !r.hasN {
				n = "NULL"
			}
			vals = append(vals, fmt.Sprintf("(%d, TIMESTAMP '%s', %s, %s::DOUBLE, %s::BIGINT)", r.file, r.ts, r.host, r.v, n))
		}
		stg := "stg_" + db + "_" + strings.ToLower(m)
		create := fmt.Sprintf("CREATE TABLE %s AS SELECT * FROM (VALUES %s) t(f, time, host, v, n)", stg, strings.Join(vals, ", "))
		if _, err := ce.pDefault.Exec(create); err != nil {
			return nil, fmt.Errorf("%s: %w", stg, err)
		}
		// reference tables: exactly the stored rows
		tgt := `"` + m + `"`
		if db == "db2" {
			if _, err := ce.pDefault.Exec(fmt.Sprintf("CREATE TABLE db2.%s AS SELECT time, host, v, n FROM %s", tgt, stg)); err != nil {
				return nil, err
			}
			if _, err := ce.pDb2.Exec(strings.Replace(create, stg, "stg", 1)); err != nil {
				return nil, err
			}
			if _, err := ce.pDb2.Exec(fmt.Sprintf("CREATE TABLE %s AS SELECT time, host, v, n FROM stg; DROP TABLE stg", tgt)); err != nil {
				return nil, err
			}
		} else if _, err := ce.pDefault.Exec(fmt.Sprintf("CREATE TABLE %s AS SELECT time, host, v, n FROM %s", tgt, stg)); err != nil {
			return nil, err
		}
		// stored files
		files := map[int]mrow{}
		for _, r := range rows {
			files[r.file] = r
		}
		for f, r := range files {
			dir := filepath.Join(env.Root, db, m, r.partition)
			if err := os.MkdirAll(dir, 0o700); err != nil {
				return nil, err
			}
			cols := "time, host, v, n"
			if !r.hasN {
				cols = "time, host, v"
			}
			if _, err := ce.pDefault.Exec(fmt.Sprintf("COPY (SELECT %s FROM %s WHERE f = %d) TO '%s' (FORMAT PARQUET)", cols, stg, f,
				filepath.Join(dir, fmt.Sprintf("%s_%d.parquet", strings.ToLower(m), f)))); err != nil {
				return nil, err
			}
		}
	}
	ce.h = env.NewHandler()
	return ce, nil
}

func kwCase(w, mode string) string {
	switch mode {
	case "lower":
		return strings.ToLower(w)
	case "mixed":
		b := []byte(strings.ToLower(w))
		for i := 0; i < len(b); i += 2 {
			if b[i] >= 'a' && b[i] <= 'z' {
				b[i] -= 32
			}
		}
		return string(b)
	}
	return w
}

var wsText = map[string]string{"sp": " ", "sp2": "  ", "nl": "\n", "tab": "\t", "nlsp": "\n   ", "cmt": " /* c */ ", "tight": " "}

func refText(r refT) string {
	n := r.Name
	if r.Q {
		n = `"` + n + `"`
	}
	if r.DB != "" {
		return r.DB + "." + n
	}
	return n
}

func renderC16(q *refsQuery) string {
	K := func(w string) string { return kwCase(w, q.Kw) }
	F := K("FROM") + wsText[q.Ws]
	fnItem := func(p string, agg bool) string {
		var e string
		switch q.Fn {
		case "extract":
			e = "EXTRACT(hour " + K("FROM") + " " + p + "time)"
		case "substring":
			e = "SUBSTRING(" + p + "host " + K("FROM") + " 1 FOR 2)"
		case "trim":
			e = "TRIM(BOTH 'h' " + K("FROM") + " " + p + "host)"
		case "substring_of_trim":
			e = "SUBSTRING(TRIM(" + p + "host) " + K("FROM") + " 1 FOR 2)"
		case "trim_nested_before":
			e = "TRIM(BOTH SUBSTRING(" + p + "host " + K("FROM") + " 1 FOR 1) " + K("FROM") + " " + p + "host)"
		case "trim_of_substring":
			e = "TRIM(BOTH 'h' " + K("FROM") + " SUBSTRING(" + p + "host " + K("FROM") + " 1 FOR 3))"
		default:
			return ""
		}
		if agg {
			e = "min(" + e + ")"
		}
		return e + " " + K("AS") + " fx, "
	}
	blk := ""
	if q.Decoy == "block" {
		blk = "/* FROM mem */ "
	}
	decoy := func(p, lead string) string {
		if q.Decoy == "string" {
			return " " + K(lead) + " " + p + "host <> 'x from mem y'"
		}
		if q.Decoy == "string_join" {
			return " " + K(lead) + " " + p + "host <> 'x join mem y'"
		}
		return ""
	}
	fxOut := func(p string) string {
		if q.Fn == "none" {
			return ""
		}
		return ", " + p + "fx"
	}
	r1, r2 := refText(q.R1), refText(q.R2)
	// "tight": no white space where SQL allows none (AS(  )SELECT  IN(  FROM( )
	op, cl := " (", ") "
	if q.Ws == "tight" {
		op, cl = "(", ")"
	}
	var s string
	switch q.Shape {
	case "single":
		s = K("SELECT") + " " + blk + fnItem("", false) + "host, v, n " + F + r1 + " " + K("WHERE") + " v > 1" + decoy("", "AND")
	case "join":
		sel := "a.host, a.v, b.v " + K("AS") + " bv"
		if strings.HasPrefix(q.JK, "SEMI") || strings.HasPrefix(q.JK, "ANTI") {
			sel = "a.host, a.v"
		}
		on := " " + K("ON") + " a.host = b.host"
		if strings.Contains(q.JK, "NATURAL") || strings.Contains(q.JK, "CROSS") {
			on = ""
		}
		s = K("SELECT") + " " + blk + fnItem("a.", false) + sel + " " + F + r1 + " a " + K(q.JK) + wsText[q.Ws] + r2 + " b" + on + decoy("a.", "WHERE")
	case "comma":
		s = K("SELECT") + " " + blk + fnItem("a.", false) + "a.host, b.n " + F + r1 + " a, " + r2 + " b " + K("WHERE") + " a.host = b.host" + decoy("a.", "AND")
	case "subq_from":
		s = K("SELECT") + " " + blk + "s.host, s.c" + fxOut("s.") + " " + strings.TrimRight(F, " ") + op + K("SELECT") + " " + fnItem("", true) + "host, count(*) " + K("AS") + " c " + F + r1 + decoy("", "WHERE") + " " + K("GROUP BY") + " host) s"
	case "subq_in":
		s = K("SELECT") + " " + blk + fnItem("", false) + "host, v " + F + r1 + " " + K("WHERE") + " host " + K("IN") + op + K("SELECT") + " host " + F + r2 + " " + K("WHERE") + " v IS NOT NULL)" + decoy("", "AND")
	case "cte":
		s = K("WITH") + " x " + K("AS") + op + K("SELECT") + " " + fnItem("", false) + "host, v " + F + r1 + cl + K("SELECT") + " " + blk + "x.host, x.v, b.n" + fxOut("x.") + " " + F + "x " + K("JOIN") + wsText[q.Ws] + r2 + " b " + K("ON") + " x.host = b.host" + decoy("x.", "WHERE")
	case "cte_shadow":
		s = K("WITH") + " " + q.R1.Name + " " + K("AS") + op + K("SELECT") + " " + fnItem("", false) + "host, v " + F + r2 + " " + K("WHERE") + " v IS NOT NULL" + cl + K("SELECT") + " " + blk + "host, v" + fxOut("") + " " + F + q.R1.Name + decoy("", "WHERE")
	case "union":
		s = K("SELECT") + " " + blk + fnItem("", false) + "host, v " + F + r1 + " " + K("UNION ALL") + " " + K("SELECT") + " " + fnItem("", false) + "host, v " + F + r2 + decoy("", "WHERE")
	}
	if q.Decoy == "line" {
		s += "\n-- JOIN mem"
	}
	return s
}

var reRP = regexp.MustCompile(`read_parquet\(\[?'([^']*)'`)

type c16Outcome struct {
	accepted bool
	reject   string
	deviates string // "" = structure as expected
	executed bool
	same     bool
	arcSQL   string
	arc, ref sr.Rows
}

func (ce *c16Env) hdr(q *refsQuery) string {
	if q.Header == "none" {
		return ""
	}
	return q.Header
}

// triage: accept + transform + structural comparison (no execution)
func (ce *c16Env) triage(q *refsQuery, sqlText string) c16Outcome {
	var o c16Outcome
	if err := api.ValidateSQLRequest(sqlText); err != nil {
		o.reject = "ValidateSQLRequest"
		return o
	}
	if q.Header != "none" && api.VerifHasCrossDatabaseSyntax(sqlText) {
		o.reject = "cross-database-syntax-with-header"
		return o
	}
	o.accepted = true
	o.arcSQL, _, _ = ce.h.VerifTransform(context.Background(), sqlText, ce.hdr(q))
	var got []string
	for _, m := range reRP.FindAllStringSubmatch(o.arcSQL, -1) {
		got = append(got, m[1])
	}
	var want []string
	for _, s := range q.Sites {
		want = append(want, ce.env.Root+"/"+s.DB+"/"+s.Name+"/**/*.parquet")
	}
	switch {
	case len(got) < len(want):
		o.deviates = "reference-left-unrewritten"
	case len(got) > len(want):
		o.deviates = "non-reference-rewritten"
	default:
		for i := range got {
			if got[i] != want[i] {
				o.deviates = "rewritten-to-another-measurement"
			}
		}
	}
	return o
}

func (ce *c16Env) execute(q *refsQuery, sqlText string, o *c16Outcome) {
	ctx := context.Background()
	p := ce.pDefault
	if q.Header == "db2" {
		p = ce.pDb2
	}
	o.arc = sr.Query(ctx, ce.env.Arc.DB(), o.arcSQL)
	o.ref = sr.Query(ctx, p, sqlText)
	o.executed = true
	o.same = sr.SameBag(o.arc, o.ref)
}

func runC16(env *sr.Env, in *c16Input, seed int64) *c16Result {
	res := &c16Result{Rejected: map[string]int{}, DifferBy: map[string]int{}}
	ce, err := setupC16(env)
	if err != nil {
		res.Infra = "fixture: " + err.Error()
		return res
	}
	defer ce.pDb2.Close()
	rng := rand.New(rand.NewSource(seed))
	memo := map[string]*c16Outcome{}
	run := func(q *refsQuery) *c16Outcome {
		text := renderC16(q)
		k := q.Header + "\x00" + text
		if o, ok := memo[k]; ok && o.executed {
			return o
		}
		o := ce.triage(q, text)
		if o.accepted {
			ce.execute(q, text, &o)
			res.Evaluations += 2
		}
		memo[k] = &o
		return &o
	}
	// sanity: the reference side must answer the plainest query of each header, otherwise the fixture is broken
	for _, h := range []string{"none", "default", "db2"} {
		q := refsQuery{Shape: "single", R1: refT{Name: "cpu"}, R2: refT{Name: "cpu"}, JK: "JOIN", Fn: "none", Decoy: "none", Ws: "sp", Kw: "upper", Header: h}
		db := h
		if h == "none" {
			db = "default"
		}
		q.Sites = []siteT{{db, "cpu"}}
		o := run(&q)
		if !o.accepted || o.ref.Err != "" || len(o.ref.Data) == 0 || o.arc.Err != "" {
			res.Infra = fmt.Sprintf("fixture sanity failed for header %s: ref=%v arc=%v", h, o.ref.Brief(1), o.arc.Brief(1))
			return res
		}
	}
	type item struct {
		q   *refsQuery
		dev bool
	}
	var dev, rest []*refsQuery
	keys := map[string]bool{}
	for i := range in.Queries {
		q := &in.Queries[i]
		res.Queries++
		o := ce.triage(q, renderC16(q))
		if !o.accepted {
			res.Rejected[o.reject]++
			continue
		}
		if o.deviates != "" {
			res.Deviating++
			dev = append(dev, q)
		} else {
			rest = append(rest, q)
		}
	}
	rng.Shuffle(len(rest), func(i, j int) { rest[i], rest[j] = rest[j], rest[i] })
	if in.Budget > 0 && len(rest) > in.Budget {
		rest = rest[:in.Budget]
	}
	seen := map[string]bool{}
	for _, q := range append(dev, rest...) {
		o := run(q)
		res.Executed++
		keys[fmt.Sprintf("refs|%s|%s|%s|%s|%s|%s|%s|%s|%s", q.Shape, refText(q.R1), refText(q.R2), q.JK, q.Fn, q.Decoy, q.Ws, q.Kw, q.Header)] = true
		if o.same {
			if len(res.Samples) < 3 && q.Ws != "sp" {
				res.Samples = append(res.Samples, map[string]interface{}{"sql": renderC16(q), "header": q.Header, "arc_sql": shorten(o.arcSQL, env.Root), "rows": len(o.ref.Data)})
			}
			continue
		}
		res.Differ++
		// minimise: reset one feature at a time to its default while the query keeps failing the same way
		cur := *q
		kind := o.deviates
		tryReset := func(mut func(c *refsQuery)) {
			c := cur
			mut(&c)
			if renderC16(&c) == renderC16(&cur) && c.Header == cur.Header {
				cur = c // the feature does not show in this shape's text: same query
				return
			}
			// recompute ground truth of the reset query
			c.Sites = sitesOf(&c)
			if c.Sites == nil {
				return
			}
			before := len(memo)
			oc := run(&c)
			if len(memo) > before {
				res.Minimise++
			}
			if oc.accepted && oc.executed && !oc.same && oc.deviates == kind {
				cur = c
			}
		}
		tryReset(func(c *refsQuery) { c.Fn = "none" })
		tryReset(func(c *refsQuery) { c.Decoy = "none" })
		tryReset(func(c *refsQuery) { c.Ws = "sp" })
		tryReset(func(c *refsQuery) { c.Kw = "upper" })
		tryReset(func(c *refsQuery) { c.JK = "JOIN" })
		tryReset(func(c *refsQuery) { c.R1.Q = false })
		tryReset(func(c *refsQuery) { c.R2.Q = false })
		if cur.Shape != "cte_shadow" {
			tryReset(func(c *refsQuery) { c.R2 = refT{Name: "cpu"} })
			tryReset(func(c *refsQuery) { c.R1 = refT{Name: "cpu"} })
		} else {
			tryReset(func(c *refsQuery) { c.R2.DB = "" })
			if cur.R1.Name == cur.R2.Name { // keep "the body reads the measurement it shadows", plainest names
				tryReset(func(c *refsQuery) { c.R1.Name = "cpu"; c.R2.Name = "cpu" })
			} else {
				tryReset(func(c *refsQuery) { c.R2 = refT{Name: "cpu"} })
			}
		}
		tryReset(func(c *refsQuery) { c.Header = "none" })
		var feats []string
		add := func(cond bool, f string) {
			if cond {
				feats = append(feats, f)
			}
		}
		add(cur.Fn != "none", "fn="+cur.Fn)
		add(cur.Decoy != "none", "decoy="+cur.Decoy)
		add(cur.Ws != "sp", "ws="+cur.Ws)
		add(cur.Kw != "upper", "kw="+cur.Kw)
		add(cur.JK != "JOIN", "jk="+strings.ReplaceAll(cur.JK, " ", "_"))
		add(cur.R1.Q || cur.R2.Q, "quoted-name")
		add(cur.R1.DB != "" || cur.R2.DB != "", "db-qualified")
		add(cur.R1.Name == "Sensor_Data" || cur.R2.Name == "Sensor_Data", "mixed-case-name")
		add(cur.Shape == "cte_shadow" && cur.R1.Name == cur.R2.Name && cur.R2.DB == "", "body-reads-shadowed-measurement")
		add(cur.Header != "none", "header")
		if kind == "" {
			kind = "structure-as-expected"
		}
		sig := "refs:" + kind + ":" + cur.Shape
		if len(feats) > 0 {
			sig += ":" + strings.Join(feats, ",")
		}
		res.DifferBy[sig]++
		if !seen[sig] {
			seen[sig] = true
			om := run(&cur)
			res.Violations = append(res.Violations, finding{sig, map[string]interface{}{
				"sql": renderC16(&cur), "header_db": ce.hdr(&cur), "ref_sites": cur.Sites, "arc_sql": shorten(om.arcSQL, env.Root),
				"arc_result": om.arc.Brief(4), "duckdb_result": om.ref.Brief(4), "first_seen_in": renderC16(q)}})
		}
	}
	for k := range keys {
		res.Keys = append(res.Keys, k)
	}
	sort.Strings(res.Keys)
	return res
}

// sitesOf recomputes RefSites for a query obtained by resetting features of an enumerated one (same rules as
// SqlRewriteRefs.tla: text order, header resolution); nil when a reference does not denote a stored measurement.
func sitesOf(q *refsQuery) []siteT {
	stored := map[string]bool{"default/cpu": true, "default/mem": true, "default/Sensor_Data": true, "db2/cpu": true, "db2/events": true}
	res := func(r refT) (siteT, bool) {
		db := r.DB
		if db == "" {
			db = q.Header
			if db == "none" {
				db = "default"
			}
		} else if q.Header != "none" {
			return siteT{}, false
		}
		return siteT{db, r.Name}, stored[db+"/"+r.Name]
	}
	a, okA := res(q.R1)
	b, okB := res(q.R2)
	switch q.Shape {
	case "single", "subq_from":
		if !okA {
			return nil
		}
		return []siteT{a}
	case "cte_shadow":
		if !okB {
			return nil
		}
		return []siteT{b}
	}
	if !okA || !okB {
		return nil
	}
	return []siteT{a, b}
}

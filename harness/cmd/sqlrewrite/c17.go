package main

// C17: performance rewrites do not change query results.
//
// time part  : every point TLC enumerated (specs/sqlrewrite/SqlRewriteTime.tla, Time_Gen.cfg) is made
//              concrete (bases in 1011 .. 9999, micro-second jitter inside its class), stored as a real
//              parquet measurement, and  SELECT id, epoch_us(<time_bucket|date_trunc>(.., t))  is executed
//              (a) unchanged on a plain DuckDB and (b) through arc's real transform on arc's DuckDB.
//              Any differing row is a violation; the class TLC assigned to the point names it.
// like part  : every WHERE shape TLC enumerated (SqlRewriteLike.tla) is rendered to SQL over a table that
//              holds every valuation of its factors; original vs the real OptimizeLikePatterns output.
// url part   : fixed-budget differential sampler (not covered by a specification).

import (
	"context"
	"fmt"
	"math/rand"
	"os"
	"path/filepath"
	"sort"
	"strings"
	"time"

	"github.com/basekick-labs/arc/internal/api"
	sr "github.com/basekick-labs/arc/verifharness/internal/sqlrewrite"
)

type timePoint struct {
	Fn     string `json:"fn"`
	Unit   string `json:"unit"`
	Amount int    `json:"amount"`
	Amt    string `json:"amt"` // interval amount as written ("7", "2.5")
	Origin string `json:"origin"`
	Era    int    `json:"era"`
	S      int64  `json:"s"`
	Ro     int64  `json:"ro"`
	OoSub  int64  `json:"oosub"`
	X      int64  `json:"x"`
	Frac   string `json:"frac"`
	Cls    string `json:"cls"`
	Orig   int64  `json:"orig"`
	Rew    int64  `json:"rew"`
}

type likeFactor struct {
	K  string `json:"k"`
	ID int    `json:"id"`
}

type likeShape struct {
	Orig    [][]likeFactor `json:"orig"`
	Rew     [][]likeFactor `json:"rew"`
	Tail    string         `json:"tail"`
	Fired   []string       `json:"fired"`
	NDis    int            `json:"ndis"`
	Witness []string       `json:"witness"`
	Cls     string         `json:"cls"`
	RewAW   [][]likeFactor `json:"rewaw"` // what like_optimizer.go produced before /repo 9f6402e
	ClsAW   string         `json:"clsaw"`
}

type c17Input struct {
	Time      []timePoint `json:"time"`
	Like      []likeShape `json:"like"`
	URLBudget int         `json:"url_budget"`
	TPS       int64       `json:"tps"`
}

type finding struct {
	Signature string      `json:"signature"`
	Witness   interface{} `json:"witness"`
}

type c17Result struct {
	Infra        string         `json:"infra,omitempty"`
	TimeCases    int            `json:"time_cases"`
	TimeRows     int            `json:"time_rows"`
	TimePoints   int            `json:"time_points"`
	TimeDiffRows int            `json:"time_diff_rows"`
	TimeClasses  map[string]int `json:"time_rows_per_class"`
	TimeDiffBy   map[string]int `json:"time_diff_rows_per_signature"`
	Rewritten    map[string]int `json:"rewrite_applied"`
	LikeShapes   int            `json:"like_shapes"`
	LikeExecuted int            `json:"like_executed"`
	LikeChanged  int            `json:"like_text_changed"`
	LikeDiff     int            `json:"like_shapes_with_different_rows"`
	URLCases     int            `json:"url_cases"`
	URLDiff      int            `json:"url_diff_rows"`
	URLDiffBy    map[string]int `json:"url_diff_rows_per_signature"`
	Evaluations  int            `json:"evaluations"`
	Keys         []string       `json:"nontrivial_keys"`
	Violations   []finding      `json:"violations"`
	Drift        []finding      `json:"drift"`
	Samples      []interface{}  `json:"samples"`
}

const fortnight = int64(1209600) // a multiple of every supported width (seconds)

func basesFor(era int) []int64 {
	switch era {
	case 1:
		return []int64{fortnight * 1409, fortnight * 6000, fortnight * 209490} // 2024, 2199, 9999
	case 0:
		return []int64{0}
	default:
		return []int64{-fortnight * 3, -fortnight * 1800, -fortnight * 25000} // 1969, 1901, 1011
	}
}

func jitters(x, tps int64) []int64 {
	f := ((x % tps) + tps) % tps
	q := 1000000 / tps // micro-seconds per tick
	switch {
	case f == 0:
		return []int64{0, 1}
	case 2*f < tps:
		return []int64{0, q - 1}
	case 2*f == tps:
		return []int64{0}
	default:
		return []int64{-(q - 1), 0, q - 1}
	}
}

func tsLiteral(sec int64, subTicks, tps int64) string {
	t := time.Unix(sec, 0).UTC()
	s := t.Format("2006-01-02 15:04:05")
	if subTicks != 0 {
		s += fmt.Sprintf(".%06d", subTicks*1000000/tps)
		s = strings.TrimRight(s, "0")
	}
	return s
}

type caseKey struct {
	Fn, Unit, Origin, Amt string
	Era                   int
}

func (k caseKey) String() string {
	return fmt.Sprintf("%s/%s %s/origin=%s/era=%d", k.Fn, k.Amt, k.Unit, k.Origin, k.Era)
}

type concRow struct {
	id   int64
	us   int64
	base int64
	p    *timePoint
	fp   bool // within 1 us of a half second at |epoch| >= 2^34 s: epoch()'s DOUBLE cannot hold the micro-seconds
}

func writeMeasurement(env *sr.Env, db, name string, create string, hourDir string) (string, error) {
	// create = SELECT statement producing the rows, evaluated on the plain DuckDB
	dir := filepath.Join(env.Root, db, name, hourDir)
	if err := os.MkdirAll(dir, 0o700); err != nil {
		return "", err
	}
	f := filepath.Join(dir, name+"_fixture.parquet")
	os.Remove(f)
	_, err := env.Plain.Exec(fmt.Sprintf("COPY (%s) TO '%s' (FORMAT PARQUET)", create, f))
	return f, err
}

func runC17(env *sr.Env, in *c17Input, seed int64) *c17Result {
	res := &c17Result{TimeClasses: map[string]int{}, TimeDiffBy: map[string]int{}, URLDiffBy: map[string]int{}, Rewritten: map[string]int{}}
	if in.TPS == 0 {
		in.TPS = 4
	}
	rng := rand.New(rand.NewSource(seed))
	keys := map[string]bool{}
	seenSig := map[string]bool{}
	addViolation := func(sig string, w interface{}) {
		if !seenSig[sig] {
			seenSig[sig] = true
			res.Violations = append(res.Violations, finding{sig, w})
		}
	}
	seenDrift := map[string]bool{}
	addDrift := func(sig string, w interface{}) {
		if !seenDrift[sig] {
			seenDrift[sig] = true
			res.Drift = append(res.Drift, finding{sig, w})
		}
	}
	if err := c17Time(env, in, res, keys, addViolation, addDrift); err != nil {
		res.Infra = "time: " + err.Error()
		return res
	}
	if err := c17Like(env, in, res, keys, rng, addViolation, addDrift); err != nil {
		res.Infra = "like: " + err.Error()
		return res
	}
	if err := c17URL(env, in, res, keys, rng, addViolation); err != nil {
		res.Infra = "url: " + err.Error()
		return res
	}
	for k := range keys {
		res.Keys = append(res.Keys, k)
	}
	sort.Strings(res.Keys)
	return res
}

func c17Time(env *sr.Env, in *c17Input, res *c17Result, keys map[string]bool,
	addViolation, addDrift func(string, interface{})) error {
	ctx := context.Background()
	tps := in.TPS
	usPerTick := 1000000 / tps
	groups := map[caseKey][]*timePoint{}
	var order []caseKey
	for i := range in.Time {
		p := &in.Time[i]
		if p.Amt == "" {
			p.Amt = fmt.Sprint(p.Amount)
		}
		k := caseKey{p.Fn, p.Unit, p.Origin, p.Amt, p.Era}
		if _, ok := groups[k]; !ok {
			order = append(order, k)
		}
		groups[k] = append(groups[k], p)
	}
	res.TimePoints = len(in.Time)
	h := env.NewHandler()
	for ci, k := range order {
		pts := groups[k]
		res.TimeCases++
		p0 := pts[0]
		var rows []concRow
		id := int64(0)
		for _, b := range basesFor(k.Era) {
			for _, p := range pts {
				for _, j := range jitters(p.X, tps) {
					id++
					us := b*1000000 + p.X*usPerTick + j
					abs := us
					if abs < 0 {
						abs = -abs
					}
					nearHalf := (j == usPerTick-1 || j == -(usPerTick-1)) && (p.Frac != "half")
					rows = append(rows, concRow{id: id, us: us, base: b, p: p, fp: nearHalf && abs >= (int64(1)<<34)*1000000})
				}
			}
		}
		// fixture: plain table + real parquet measurement default/<tbl>; a fresh name per case, because arc's
		// DuckDB caches parquet metadata per path and a file rewritten in place could be read stale
		tbl := fmt.Sprintf("tpts%d", ci)
		if ci > 0 {
			prev := fmt.Sprintf("tpts%d", ci-1)
			env.Plain.Exec("DROP TABLE IF EXISTS " + prev)
			os.RemoveAll(filepath.Join(env.Root, "default", prev))
		}
		if _, err := env.Plain.Exec("CREATE TABLE " + tbl + "(id BIGINT, b BIGINT, t TIMESTAMP)"); err != nil {
			return err
		}
		for i := 0; i < len(rows); i += 2000 {
			var sb strings.Builder
			sb.WriteString("INSERT INTO " + tbl + " VALUES ")
			for j := i; j < len(rows) && j < i+2000; j++ {
				if j > i {
					sb.WriteByte(',')
				}
				fmt.Fprintf(&sb, "(%d,%d,make_timestamp(%d::BIGINT))", rows[j].id, rows[j].base, rows[j].us)
			}
			if _, err := env.Plain.Exec(sb.String()); err != nil {
				return fmt.Errorf("insert: %w", err)
			}
		}
		if _, err := writeMeasurement(env, "default", tbl, "SELECT * FROM "+tbl+" ORDER BY id", "2024/01/01/00"); err != nil {
			return fmt.Errorf("fixture: %w", err)
		}
		// one query per base for the 3-argument form (the origin literal moves with the base)
		type q struct {
			base  int64
			all   bool
			exprs string
		}
		var qs []q
		unit := k.Unit
		if k.Amt != "1" {
			unit += "s"
		}
		switch k.Fn {
		case "time_bucket2":
			qs = []q{{all: true, exprs: fmt.Sprintf("time_bucket(INTERVAL '%s %s', t)", k.Amt, unit)}}
		case "date_trunc":
			qs = []q{{all: true, exprs: fmt.Sprintf("date_trunc('%s', t)", k.Unit)}}
		case "time_bucket3":
			for _, b := range basesFor(k.Era) {
				qs = append(qs, q{base: b, exprs: fmt.Sprintf("time_bucket(INTERVAL '%s %s', t, TIMESTAMP '%s')",
					k.Amt, unit, tsLiteral(b+p0.Ro, p0.OoSub, tps))})
			}
		}
		byID := map[int64]*concRow{}
		for i := range rows {
			byID[rows[i].id] = &rows[i]
		}
		for qi, qq := range qs {
			where := ""
			if !qq.all {
				where = fmt.Sprintf(" WHERE b = %d", qq.base)
			}
			sqlText := fmt.Sprintf("SELECT id, epoch_us(%s) AS v FROM %s%s ORDER BY id", qq.exprs, tbl, where)
			header := ""
			if (ci+qi)%2 == 1 {
				header = "default" // alternate between convertSQLToStoragePaths and ...WithHeaderDB
			}
			rewritten, _, _ := h.VerifTransform(ctx, sqlText, header)
			if !strings.Contains(rewritten, "read_parquet") {
				return fmt.Errorf("transform did not produce a read_parquet query: %s", rewritten)
			}
			applied := !strings.Contains(strings.ToLower(rewritten), "time_bucket") && !strings.Contains(strings.ToLower(rewritten), "date_trunc")
			if applied {
				res.Rewritten[k.Fn]++
			} else {
				res.Rewritten[k.Fn+":left-unrewritten"]++
			}
			o := sr.Query(ctx, env.Plain, sqlText)
			r := sr.Query(ctx, env.Arc.DB(), rewritten)
			res.Evaluations += 2
			if o.Err != "" {
				return fmt.Errorf("original failed on plain DuckDB: %s: %s", sqlText, o.Err)
			}
			if r.Err != "" {
				addViolation("epoch-rewrite:rewritten-sql-fails:"+k.Fn, map[string]interface{}{"case": k.String(), "sql": sqlText, "rewritten": rewritten, "error": r.Err})
				continue
			}
			if len(o.Data) != len(r.Data) && len(r.Data) == 0 {
				return fmt.Errorf("fixture not visible to arc's DuckDB (0 rows from %s)", rewritten)
			}
			if len(o.Data) != len(r.Data) {
				addViolation("epoch-rewrite:row-count-differs:"+k.Fn, map[string]interface{}{"case": k.String(), "sql": sqlText, "rewritten": rewritten,
					"original_rows": len(o.Data), "rewritten_rows": len(r.Data)})
				continue
			}
			for i := range o.Data {
				if o.Data[i][0] != r.Data[i][0] {
					return fmt.Errorf("row order mismatch")
				}
				var rid int64
				fmt.Sscan(o.Data[i][0], &rid)
				cr := byID[rid]
				res.TimeRows++
				res.TimeClasses[cr.p.Cls]++
				keys[fmt.Sprintf("time|%s|%s|%s|b%d", k.String(), cr.p.Cls, cr.p.Frac, cr.base)] = true
				expO := fmt.Sprint(cr.base*1000000 + cr.p.Orig*usPerTick)
				expR := fmt.Sprint(cr.base*1000000 + cr.p.Rew*usPerTick)
				w := map[string]interface{}{"case": k.String(), "sql": sqlText, "rewritten": rewritten, "t_epoch_us": cr.us,
					"t": time.UnixMicro(cr.us).UTC().Format("2006-01-02 15:04:05.000000"), "class": cr.p.Cls,
					"duckdb_original_epoch_us": o.Data[i][1], "rewritten_epoch_us": r.Data[i][1],
					"spec_original": expO, "spec_rewritten": expR, "header_db": header}
				if o.Data[i][1] != expO {
					addDrift("time:duckdb-original-differs-from-floor-semantics:"+k.Fn, w)
				}
				if applied && r.Data[i][1] != expR && !cr.fp {
					addDrift("time:rewritten-value-not-as-modelled:"+k.Fn, w)
				}
				if o.Data[i][1] != r.Data[i][1] {
					res.TimeDiffRows++
					// the arithmetic template is shared by the three rewrite sites: the class names the defect
					sig := "epoch-rewrite:" + cr.p.Cls
					if strings.HasPrefix(cr.p.Cls, "agree:") {
						if cr.fp {
							sig = "epoch-rewrite:float-epoch-loses-microseconds-near-half-second"
						} else {
							sig = "epoch-rewrite:unpredicted-difference:" + k.Fn + ":" + strings.TrimPrefix(cr.p.Cls, "agree:")
						}
					} else if r.Data[i][1] != expR && !cr.fp {
						sig += ":rewritten-value-not-as-modelled:" + k.Fn
					}
					res.TimeDiffBy[sig]++
					addViolation(sig, w)
				} else if len(res.Samples) < 3 && cr.us%7 == 0 {
					res.Samples = append(res.Samples, w)
				}
			}
		}
	}
	return nil
}

// ---------------------------------------------------------------------------------------------- LIKE

var likeVariants = map[string][]string{
	"L":  {"a%d LIKE '%%x%%'", "a%d NOT LIKE '%%x%%'", "a%d LIKE 'ax%%'"},
	"E":  {"c%d <> ''", "c%d<>''"},
	"X":  {"d%d = 1", "NOT d%d = 1", "(d%d = 1)", "NOT c%d <> ''", "(c%d <> '')", "(d%[1]d = 1 AND c%[1]d <> '')"},
	"XL": {"NOT a%d NOT LIKE '%%x%%'", "(a%d LIKE '%%x%%')", "(a%[1]d LIKE '%%x%%' AND d%[1]d = 1)", "NOT (a%[1]d NOT LIKE '%%x%%')"},
	"XP": {"NOT (a%[1]d LIKE '%%x%%' AND c%[1]d <> '')", "NOT (d%[1]d = 1 AND a%[1]d NOT LIKE '%%x%%' AND c%[1]d <> '')",
		"id IN (SELECT id FROM lk WHERE d%[1]d = 1 AND a%[1]d LIKE '%%x%%' AND c%[1]d <> '')", "(a%[1]d LIKE '%%x%%' AND c%[1]d <> '')"},
	"XO": {"(a%[1]d LIKE '%%x%%' OR d%[1]d = 1)", "NOT (a%[1]d NOT LIKE '%%x%%' OR c%[1]d = '')", "(a%[1]d LIKE '%%x%%' or a%[1]d LIKE 'ax%%')"},
}

func renderWhere(ch [][]likeFactor, variant map[int]int) string {
	var ors []string
	for _, c := range ch {
		var ands []string
		for _, f := range c {
			v := likeVariants[f.K][variant[f.ID]%len(likeVariants[f.K])]
			ands = append(ands, fmt.Sprintf(v, f.ID))
		}
		ors = append(ors, strings.Join(ands, " AND "))
	}
	return strings.Join(ors, " OR ")
}

func squash(s string) string { return strings.Join(strings.Fields(s), " ") }

func c17Like(env *sr.Env, in *c17Input, res *c17Result, keys map[string]bool, rng *rand.Rand,
	addViolation, addDrift func(string, interface{})) error {
	if len(in.Like) == 0 {
		return nil
	}
	ctx := context.Background()
	maxID := 0
	for _, s := range in.Like {
		for _, c := range s.Orig {
			for _, f := range c {
				if f.ID > maxID {
					maxID = f.ID
				}
			}
		}
	}
	// table holding every valuation: digit i of the row number decides factor i (0 -> TRUE, 1 -> FALSE, 2 -> NULL)
	n := 1
	for i := 0; i < maxID; i++ {
		n *= 3
	}
	var cols, sel []string
	for i := 1; i <= maxID; i++ {
		cols = append(cols, fmt.Sprintf("a%d VARCHAR, c%d VARCHAR, d%d INTEGER", i, i, i))
		div := 1
		for j := 1; j < i; j++ {
			div *= 3
		}
		dg := fmt.Sprintf("((r // %d) %% 3)", div)
		sel = append(sel, fmt.Sprintf("CASE %[1]s WHEN 0 THEN 'axb' WHEN 1 THEN 'q' END, CASE %[1]s WHEN 0 THEN 'z' WHEN 1 THEN '' END, CASE %[1]s WHEN 0 THEN 1 WHEN 1 THEN 0 END", dg))
	}
	env.Plain.Exec("DROP TABLE IF EXISTS lk")
	if _, err := env.Plain.Exec(fmt.Sprintf("CREATE TABLE lk(id BIGINT, %s)", strings.Join(cols, ", "))); err != nil {
		return err
	}
	if _, err := env.Plain.Exec(fmt.Sprintf("INSERT INTO lk SELECT r, %s FROM range(%d) t(r)", strings.Join(sel, ", "), n)); err != nil {
		return err
	}
	tails := map[string][]string{"end": {"", " "}, "kw": {" ORDER BY id", " GROUP BY id", " LIMIT 100000", " order by id"}, "semi": {";"}}
	for si, s := range in.Like {
		res.LikeShapes++
		variant := map[int]int{}
		nf := 0
		for _, c := range s.Orig {
			for _, f := range c {
				variant[f.ID] = rng.Intn(8)
				nf++
			}
		}
		tl := tails[s.Tail][rng.Intn(len(tails[s.Tail]))]
		head := "SELECT id FROM lk WHERE "
		orig := head + renderWhere(s.Orig, variant) + tl
		pred := head + renderWhere(s.Rew, variant) + tl
		predAW := head + renderWhere(s.RewAW, variant) + tl
		real, _ := api.OptimizeLikePatterns(orig)
		res.Evaluations++
		keys[fmt.Sprintf("like|%d|%s", si, s.Cls)] = true
		changed := real != orig
		if changed {
			res.LikeChanged++
		}
		w := map[string]interface{}{"original": orig, "rewritten": real, "spec_rewritten": pred, "class": s.Cls, "rules_fired": s.Fired}
		if squash(real) != squash(pred) {
			addDrift("like:rewritten-text-not-as-modelled", w)
		}
		if !changed {
			continue
		}
		res.LikeExecuted++
		o := sr.Query(ctx, env.Plain, orig)
		r := sr.Query(ctx, env.Plain, real)
		res.Evaluations += 2
		if o.Err != "" {
			return fmt.Errorf("original failed: %s: %s", orig, o.Err)
		}
		if sr.SameBag(o, r) {
			continue
		}
		res.LikeDiff++
		sig := "like-reorder:" + s.Cls
		if strings.HasPrefix(s.Cls, "agree:") || squash(real) != squash(pred) {
			sig = "like-reorder:unpredicted-difference"
			if s.ClsAW != "" && squash(real) == squash(predAW) {
				sig = "like-reorder:" + s.ClsAW // the behaviour repaired by /repo 9f6402e is back
			}
		}
		w["original_rows"] = len(o.Data)
		w["rewritten_result"] = r.Brief(3)
		// a row on which the decisions differ
		om := map[string]bool{}
		for _, row := range o.Data {
			om[row[0]] = true
		}
		rm := map[string]bool{}
		for _, row := range r.Data {
			rm[row[0]] = true
			if !om[row[0]] && w["row_only_in_rewritten"] == nil {
				w["row_only_in_rewritten"] = sr.Query(ctx, env.Plain, "SELECT * FROM lk WHERE id = "+row[0]).Brief(1)
			}
		}
		for _, row := range o.Data {
			if !rm[row[0]] {
				w["row_only_in_original"] = sr.Query(ctx, env.Plain, "SELECT * FROM lk WHERE id = "+row[0]).Brief(1)
				break
			}
		}
		// drift: number of valuations on which the decision differs
		if r.Err == "" {
			diff := 0
			for k := range om {
				if !rm[k] {
					diff++
				}
			}
			for k := range rm {
				if !om[k] {
					diff++
				}
			}
			scale := 1
			for i := nf; i < maxID; i++ {
				scale *= 3
			}
			if diff != s.NDis*scale && squash(real) == squash(pred) && s.Tail != "kw" {
				addDrift("like:number-of-differing-valuations-not-as-modelled", map[string]interface{}{"original": orig, "real": diff, "spec": s.NDis * scale})
			}
		}
		addViolation(sig, w)
	}
	return nil
}

// ---------------------------------------------------------------------------------------------- URL

type urlPattern struct {
	kind, fn, pat, third string
}

func c17URL(env *sr.Env, in *c17Input, res *c17Result, keys map[string]bool, rng *rand.Rand,
	addViolation func(string, interface{})) error {
	if in.URLBudget <= 0 {
		return nil
	}
	ctx := context.Background()
	// input classes: scheme x www x host x rest
	type part struct{ name, text string }
	schemes := []part{{"https", "https://"}, {"http", "http://"}, {"upper-scheme", "HTTPS://"}, {"mixed-scheme", "Http://"}, {"other-scheme", "ftp://"}, {"no-scheme", ""}, {"scheme-inside", "x https://"}}
	wwws := []part{{"www", "www."}, {"bare", ""}, {"upper-www", "WWW."}, {"mixed-www", "Www."}}
	hosts := []string{"example.com", "a.b.co.uk", "localhost:8080", "xn--d1acufc.xn--p1ai", "user@host.io", "EXAMPLE.org", "www2.site.net", "1.2.3.4"}
	rests := []part{{"no-slash-after-host", ""}, {"root-slash", "/"}, {"path", "/a/b.html"}, {"query", "/s?q=http://other.com/x"}, {"query-no-path", "?q=1"}, {"fragment-no-path", "#top"}, {"newline-in-path", "/a\nb"}, {"double-slash", "//x"}}
	env.Plain.Exec("DROP TABLE IF EXISTS urls")
	if _, err := env.Plain.Exec("CREATE TABLE urls(id BIGINT, cls VARCHAR, u VARCHAR)"); err != nil {
		return err
	}
	id := 0
	ins := func(cls, u string, null bool) error {
		id++
		if null {
			_, err := env.Plain.Exec("INSERT INTO urls VALUES (?, ?, NULL)", id, cls)
			return err
		}
		_, err := env.Plain.Exec("INSERT INTO urls VALUES (?, ?, ?)", id, cls, u)
		return err
	}
	if err := ins("null", "", true); err != nil {
		return err
	}
	ins("empty", "", false)
	for n := 0; n < in.URLBudget; n++ {
		var s, w, r part
		if n < len(schemes)*len(wwws)*len(rests) { // first the full grid of classes, then random repeats
			s, w, r = schemes[n%len(schemes)], wwws[(n/len(schemes))%len(wwws)], rests[(n/(len(schemes)*len(wwws)))%len(rests)]
		} else {
			s, w, r = schemes[rng.Intn(len(schemes))], wwws[rng.Intn(len(wwws))], rests[rng.Intn(len(rests))]
		}
		hst := hosts[rng.Intn(len(hosts))]
		if err := ins(s.name+"/"+w.name+"/"+r.name, s.text+w.text+hst+r.text, false); err != nil {
			return err
		}
	}
	pats := []urlPattern{
		{"domain-with-path", "REGEXP_REPLACE", `^https?://(?:www\.)?([^/]+)/.*$`, `'\1'`},
		{"domain-prefix", "REGEXP_EXTRACT", `^https?://(?:www\.)?([^/]+)`, `1`},
		{"domain-keep-www", "REGEXP_EXTRACT", `^https?://([^/]+)`, `1`},
		{"path-capture", "REGEXP_REPLACE", `^https?://[^/]+(/.*)$`, `'\1'`},
		{"https-only", "REGEXP_EXTRACT", `^https://(?:www\.)?([^/]+)`, `1`},
	}
	for _, p := range pats {
		orig := fmt.Sprintf("SELECT id, %s(u, '%s', %s) AS v FROM urls ORDER BY id", p.fn, p.pat, p.third)
		real, did := api.RewriteRegexToStringFuncs(orig)
		res.Evaluations++
		if !did {
			continue // pattern does not trigger the rewrite: out of the property's quantifier
		}
		o := sr.Query(ctx, env.Plain, orig)
		r := sr.Query(ctx, env.Plain, real)
		res.Evaluations += 2
		if o.Err != "" {
			return fmt.Errorf("original failed: %s: %s", orig, o.Err)
		}
		if r.Err != "" {
			addViolation("url-domain-rewrite:rewritten-sql-fails", map[string]interface{}{"sql": orig, "rewritten": real, "error": r.Err})
			continue
		}
		cls := sr.Query(ctx, env.Plain, fmt.Sprintf("SELECT id, cls, u, regexp_matches(u, '%s') FROM urls ORDER BY id", p.pat))
		if cls.Err != "" {
			return fmt.Errorf("classification query: %s", cls.Err)
		}
		for i := range o.Data {
			res.URLCases++
			c := cls.Data[i][1]
			keys["url|"+p.kind+"|"+c] = true
			if o.Data[i][1] == r.Data[i][1] {
				continue
			}
			res.URLDiff++
			// signature: which pattern triggered the rewrite + whether the original regex matches the input at all
			m := "regex-does-not-match-input"
			if cls.Data[i][3] == "true" {
				m = "regex-matches-input"
			}
			sig := "url-domain-rewrite:" + p.kind + ":" + m
			res.URLDiffBy[sig+" ["+c+"]"]++
			show := func(s string) string {
				if s == "\x00NULL" {
					return "NULL"
				}
				return s
			}
			addViolation(sig, map[string]interface{}{"sql": orig, "rewritten": real, "input": show(cls.Data[i][2]), "input_class": c,
				"duckdb_original": show(o.Data[i][1]), "rewritten_value": show(r.Data[i][1])})
		}
	}
	return nil
}

// noncegen extracts, from the CURRENT working tree of arc, the duration expressions that
// configure every validate-then-track site of property C26 and writes them into a Go file
// (package noncesites, build tag noncegen) so that the Go compiler -- not this tool --
// evaluates them against the real packages:
//
//   - the argument of every security.NewNonceCache(...) call under cmd/arc (retention), with
//     the context it flows into (api.NewCacheInvalidateHandler argument, the Replay field of
//     api.EdgeSyncHandlerConfig; one level of local-variable indirection is followed) and, for
//     a constructor call, the argument that follows it (the tolerance);
//   - the tolerance argument (last argument) of the security.Validate*HMAC* call in each
//     handler listed in handlerCalls.
//
// Package-level constants of the source package that the expression uses are copied
// (prefixed) transitively. An expression that is not a constant expression over imports and
// package-level constants (h.tolerance, cfg.X) is emitted as Dynamic.
//
//	noncegen -repo /repo -out DIR/zz_gen.go
package main

import (
	"bytes"
	"flag"
	"fmt"
	"go/ast"
	"go/parser"
	"go/printer"
	"go/token"
	"os"
	"path/filepath"
	"sort"
	"strings"
)

type pkgInfo struct {
	dir    string
	prefix string
	fset   *token.FileSet
	files  map[string]*ast.File // rel path -> file
	consts map[string]ast.Expr  // package-level const name -> value expr
}

var handlerCalls = []struct{ file, fn, callee, site string }{
	{"internal/cluster/coordinator.go", "handleReplicateSync", "security.ValidateReplicateSyncHMAC", "repl-sync"},
	{"internal/cluster/forward_apply.go", "handleForwardApply", "security.ValidateForwardHMAC", "forward-apply"},
	{"internal/api/edgesync.go", "receiveFile", "security.ValidateSyncFileHMACWithReplay", "edgesync-file"},
	{"internal/api/edgesync.go", "reconcile", "security.ValidateSyncReconcileHMACWithReplay", "edgesync-reconcile"},
}

type item struct {
	Kind, Ctx, Where, Text, Expr string
	Dynamic                      bool
}

var (
	repo     string
	imports  = map[string]string{} // alias -> path
	constOut = map[string]string{} // prefixed name -> expr text
	items    []item
)

func loadPkg(dir, prefix string) (*pkgInfo, error) {
	p := &pkgInfo{dir: dir, prefix: prefix, fset: token.NewFileSet(), files: map[string]*ast.File{}, consts: map[string]ast.Expr{}}
	ents, err := os.ReadDir(filepath.Join(repo, dir))
	if err != nil {
		return nil, err
	}
	for _, e := range ents {
		n := e.Name()
		if e.IsDir() || !strings.HasSuffix(n, ".go") || strings.HasSuffix(n, "_test.go") {
			continue
		}
		f, err := parser.ParseFile(p.fset, filepath.Join(repo, dir, n), nil, 0)
		if err != nil {
			return nil, err
		}
		p.files[filepath.Join(dir, n)] = f
		for _, d := range f.Decls {
			gd, ok := d.(*ast.GenDecl)
			if !ok || gd.Tok != token.CONST {
				continue
			}
			for _, s := range gd.Specs {
				vs := s.(*ast.ValueSpec)
				for i, nm := range vs.Names {
					if i < len(vs.Values) {
						p.consts[nm.Name] = vs.Values[i]
					}
				}
			}
		}
	}
	return p, nil
}

func exprText(fset *token.FileSet, e ast.Node) string {
	var b bytes.Buffer
	printer.Fprint(&b, fset, e)
	return b.String()
}

func fileImports(f *ast.File) map[string]string {
	m := map[string]string{}
	for _, im := range f.Imports {
		path := strings.Trim(im.Path.Value, `"`)
		name := filepath.Base(path)
		if im.Name != nil {
			name = im.Name.Name
		}
		// version suffix directories (v2) are not used by the expressions we care about
		m[name] = path
	}
	return m
}

// render returns a compilable copy of e (package constants prefixed and queued for copying)
// or ok=false when e is not an expression over imports/package constants (it is evaluated in init()).
func render(p *pkgInfo, f *ast.File, e ast.Expr, depth int) (string, bool) {
	if depth > 8 {
		return "", false
	}
	imps := fileImports(f)
	ok := true
	var rw func(n ast.Expr) ast.Expr
	rw = func(n ast.Expr) ast.Expr {
		switch t := n.(type) {
		case *ast.BasicLit:
			return t
		case *ast.ParenExpr:
			return &ast.ParenExpr{X: rw(t.X)}
		case *ast.UnaryExpr:
			return &ast.UnaryExpr{Op: t.Op, X: rw(t.X)}
		case *ast.BinaryExpr:
			return &ast.BinaryExpr{X: rw(t.X), Op: t.Op, Y: rw(t.Y)}
		case *ast.SelectorExpr:
			if id, isID := t.X.(*ast.Ident); isID {
				if path, isImp := imps[id.Name]; isImp {
					imports[id.Name] = path
					return t
				}
			}
			ok = false
			return t
		case *ast.Ident:
			if v, isConst := p.consts[t.Name]; isConst {
				name := p.prefix + t.Name
				if _, done := constOut[name]; !done {
					constOut[name] = "0" // cycle guard
					// the const may live in another file of the package: find its file for imports
					vf := f
					for _, cand := range p.files {
						if cand.Pos() <= v.Pos() && v.End() <= cand.End() {
							vf = cand
						}
					}
					txt, vok := render(p, vf, v, depth+1)
					if !vok {
						ok = false
					}
					constOut[name] = txt
				}
				return ast.NewIdent(name)
			}
			ok = false
			return t
		case *ast.CallExpr: // conversion or call of an imported function: time.Duration(x), security.F(x)
			if sel, isSel := t.Fun.(*ast.SelectorExpr); isSel {
				if id, isID := sel.X.(*ast.Ident); isID {
					if path, isImp := imps[id.Name]; isImp {
						imports[id.Name] = path
						args := make([]ast.Expr, len(t.Args))
						for i, a := range t.Args {
							args[i] = rw(a)
						}
						return &ast.CallExpr{Fun: t.Fun, Args: args}
					}
				}
			}
			ok = false
			return t
		}
		ok = false
		return n
	}
	out := rw(e)
	if !ok {
		return "", false
	}
	return exprText(token.NewFileSet(), out), true
}

func add(p *pkgInfo, rel string, f *ast.File, kind, ctx string, e ast.Expr) {
	pos := p.fset.Position(e.Pos())
	it := item{Kind: kind, Ctx: ctx, Where: fmt.Sprintf("%s:%d", rel, pos.Line), Text: exprText(p.fset, e)}
	if txt, ok := render(p, f, e, 0); ok {
		it.Expr = txt
	} else {
		it.Dynamic = true
	}
	items = append(items, it)
}

func isCallTo(fset *token.FileSet, n ast.Node, callee string) (*ast.CallExpr, bool) {
	c, ok := n.(*ast.CallExpr)
	if !ok {
		return nil, false
	}
	return c, exprText(fset, c.Fun) == callee
}

// context of the node at the top of the stack (stack[len-1] is the value expression)
func contextOf(p *pkgInfo, rel string, f *ast.File, stack []ast.Node, val ast.Expr, ttl ast.Expr, follow bool) bool {
	for i := len(stack) - 2; i >= 0; i-- {
		switch par := stack[i].(type) {
		case *ast.ParenExpr:
			continue
		case *ast.CallExpr:
			for ai, a := range par.Args {
				if a == stack[i+1] {
					callee := exprText(p.fset, par.Fun)
					add(p, rel, f, "ttl", fmt.Sprintf("%s#%d", callee, ai), ttl)
					if ai+1 < len(par.Args) {
						add(p, rel, f, "next", fmt.Sprintf("%s#%d", callee, ai+1), par.Args[ai+1])
					}
					return true
				}
			}
			return false
		case *ast.KeyValueExpr:
			if par.Value != stack[i+1] || i == 0 {
				return false
			}
			if cl, ok := stack[i-1].(*ast.CompositeLit); ok && cl.Type != nil {
				add(p, rel, f, "ttl", exprText(p.fset, cl.Type)+"."+exprText(p.fset, par.Key), ttl)
				return true
			}
			return false
		case *ast.AssignStmt:
			if !follow {
				return false
			}
			for ri, r := range par.Rhs {
				if r == stack[i+1] && ri < len(par.Lhs) {
					if id, ok := par.Lhs[ri].(*ast.Ident); ok {
						return followIdent(p, rel, f, stack[:i], id.Name, ttl)
					}
				}
			}
			return false
		case *ast.ValueSpec:
			if !follow {
				return false
			}
			for ri, r := range par.Values {
				if r == stack[i+1] && ri < len(par.Names) {
					return followIdent(p, rel, f, stack[:i], par.Names[ri].Name, ttl)
				}
			}
			return false
		default:
			return false
		}
	}
	return false
}

// followIdent looks, in the innermost enclosing function, for uses of the local variable as
// a call argument or composite-literal field value.
func followIdent(p *pkgInfo, rel string, f *ast.File, stack []ast.Node, name string, ttl ast.Expr) bool {
	var fn ast.Node
	for i := len(stack) - 1; i >= 0; i-- {
		switch stack[i].(type) {
		case *ast.FuncDecl, *ast.FuncLit:
			fn = stack[i]
		}
		if fn != nil {
			break
		}
	}
	if fn == nil {
		return false
	}
	found := false
	var st []ast.Node
	ast.Inspect(fn, func(n ast.Node) bool {
		if n == nil {
			st = st[:len(st)-1]
			return true
		}
		st = append(st, n)
		if id, ok := n.(*ast.Ident); ok && id.Name == name && len(st) >= 2 {
			switch st[len(st)-2].(type) {
			case *ast.CallExpr, *ast.KeyValueExpr:
				if contextOf(p, rel, f, st, id, ttl, false) {
					found = true
				}
			}
		}
		return true
	})
	return found
}

func main() {
	out := flag.String("out", "", "")
	flag.StringVar(&repo, "repo", "/repo", "")
	flag.Parse()
	if *out == "" {
		fmt.Fprintln(os.Stderr, "need -out")
		os.Exit(2)
	}
	// 1. construction sites under cmd/arc
	mainPkg, err := loadPkg("cmd/arc", "main_")
	if err != nil {
		fmt.Fprintln(os.Stderr, "noncegen:", err)
		os.Exit(2)
	}
	rels := make([]string, 0, len(mainPkg.files))
	for rel := range mainPkg.files {
		rels = append(rels, rel)
	}
	sort.Strings(rels)
	for _, rel := range rels {
		f := mainPkg.files[rel]
		var st []ast.Node
		ast.Inspect(f, func(n ast.Node) bool {
			if n == nil {
				st = st[:len(st)-1]
				return true
			}
			st = append(st, n)
			if c, ok := isCallTo(mainPkg.fset, n, "security.NewNonceCache"); ok && len(c.Args) == 1 {
				if !contextOf(mainPkg, rel, f, st, c, c.Args[0], true) {
					add(mainPkg, rel, f, "ttl", "unbound", c.Args[0])
				}
			}
			return true
		})
	}
	// 2. handler tolerances
	pkgs := map[string]*pkgInfo{}
	for _, h := range handlerCalls {
		dir := filepath.Dir(h.file)
		p := pkgs[dir]
		if p == nil {
			p, err = loadPkg(dir, filepath.Base(dir)+"_")
			if err != nil {
				fmt.Fprintln(os.Stderr, "noncegen:", err)
				os.Exit(2)
			}
			pkgs[dir] = p
		}
		f := p.files[h.file]
		if f == nil {
			continue
		}
		for _, d := range f.Decls {
			fd, ok := d.(*ast.FuncDecl)
			if !ok || fd.Name.Name != h.fn || fd.Body == nil {
				continue
			}
			ast.Inspect(fd.Body, func(n ast.Node) bool {
				if c, ok := isCallTo(p.fset, n, h.callee); ok && len(c.Args) > 0 {
					add(p, h.file, f, "tol", h.site, c.Args[len(c.Args)-1])
				}
				return true
			})
		}
	}

	var b bytes.Buffer
	b.WriteString("//go:build noncegen\n\n// Code generated by noncegen from the arc working tree; DO NOT EDIT.\npackage noncesites\n\nimport (\n")
	imports["time"] = "time"
	al := make([]string, 0, len(imports))
	for a := range imports {
		al = append(al, a)
	}
	sort.Strings(al)
	for _, a := range al {
		fmt.Fprintf(&b, "\t%s %q\n", a, imports[a])
	}
	b.WriteString(")\n\nvar _ = time.Second\n\n")
	cn := make([]string, 0, len(constOut))
	for n := range constOut {
		cn = append(cn, n)
	}
	sort.Strings(cn)
	for _, n := range cn {
		fmt.Fprintf(&b, "const %s = %s\n", n, constOut[n])
	}
	b.WriteString("\nfunc init() {\n\tGen = []Item{\n")
	for _, it := range items {
		d := "0"
		if !it.Dynamic {
			d = "time.Duration(" + it.Expr + ")"
		}
		fmt.Fprintf(&b, "\t\t{Kind: %q, Ctx: %q, Where: %q, Text: %q, Dynamic: %v, D: %s},\n", it.Kind, it.Ctx, it.Where, it.Text, it.Dynamic, d)
	}
	b.WriteString("\t}\n}\n")
	if err := os.WriteFile(*out, b.Bytes(), 0o644); err != nil {
		fmt.Fprintln(os.Stderr, "noncegen:", err)
		os.Exit(2)
	}
	fmt.Printf("noncegen: %d items\n", len(items))
}

// Command compaction is the C09 driver (compaction never loses or duplicates rows, even
// across crashes).
//
// Roles of this one binary:
//
//	compaction -scenarios s.json -out r.json [-arc /path/to/overlaid/arc] [-parallel N]
//	    splits the scenarios over N worker processes and merges their results.
//	compaction worker -in slice.json -out res.json -work DIR [-arc ...]
//	    for every scenario (a kill schedule enumerated by TLC from specs/compaction/Compaction.tla
//	    + an input recipe): writes a partition of small Parquet files with arc's real
//	    ingest.ArrowWriter into a LocalBackend tree, runs a REAL compaction.Manager (hourly tier)
//	    for the scheduled number of cycles, and records the storage-level mutations (gates in
//	    LocalBackend, see overlay/compaction/internal/verifc09) plus a DuckDB scan of the
//	    partition after each cycle as a trace for TLC (CompactionTrace.tla / CompactionProp.tla).
//	compaction compact --job-stdin
//	    this is what compaction.RunJobInSubprocess re-executes (os.Executable()): the real
//	    subprocess role. It does exactly what cmd/arc's runCompactSubcommand does (decode the
//	    config, compaction.RunSubprocessJob, encode the result) with the kill gate installed, or,
//	    when C09_ARC is set, exec()s the overlaid arc binary itself as `arc compact --job-stdin`.
package main

import (
	"context"
	"database/sql"
	"encoding/json"
	"flag"
	"fmt"
	"io"
	"math/rand"
	"os"
	"os/exec"
	"path/filepath"
	"sort"
	"strconv"
	"strings"
	"sync"
	"syscall"
	"time"

	"github.com/basekick-labs/arc/internal/compaction"
	"github.com/basekick-labs/arc/internal/config"
	"github.com/basekick-labs/arc/internal/ingest"
	"github.com/basekick-labs/arc/internal/storage"
	"github.com/basekick-labs/arc/internal/verifc09"
	"github.com/rs/zerolog"
)

const (
	dbName    = "db"
	measName  = "m"
	partition = "db/m/2024/01/15/10"
	hourUS    = int64(1705312800000000) // 2024-01-15T10:00:00Z in microseconds
)

type jobPred struct {
	N      int `json:"n"`
	Depth  int `json:"depth"`
	Gate   int `json:"gate"`
	NValid int `json:"nvalid"`
}

type cyclePlan struct {
	Jobs    []jobPred `json:"jobs"`
	Verdict string    `json:"verdict"` // predicted by the specification
	Clean   int       `json:"clean"`
	Vis     int       `json:"vis"`
	Parts   int       `json:"parts"`
}

type scenario struct {
	ID       int         `json:"id"`
	NFiles   int         `json:"nfiles"`
	MinFiles int         `json:"minfiles"`
	MaxBatch int         `json:"maxbatch"`
	Dedup    string      `json:"dedup"` // none | tags | dedup_time | mixed
	Seed     int64       `json:"seed"`
	Cycles   []cyclePlan `json:"cycles"`
	Label    string      `json:"label"`
}

type jobObs struct {
	Cycle  int `json:"cycle"`
	Job    int `json:"job"`
	Gates  int `json:"gates"`
	KillAt int `json:"kill_at"`
	Killed int `json:"killed"` // gate at which the kill fired (0 = none)
}

type verdict struct {
	Code      int                    `json:"code"` // 0 ok, 1 unsafe delete, 2 dup, 3 lost, 4 foreign/altered
	Signature string                 `json:"signature,omitempty"`
	Detail    map[string]interface{} `json:"detail,omitempty"`
}

type scenResult struct {
	ID       int                      `json:"id"`
	Label    string                   `json:"label"`
	Trace    []map[string]interface{} `json:"trace"`
	Go       verdict                  `json:"go"`
	Drift    []string                 `json:"drift"`
	Jobs     []jobObs                 `json:"jobs"`
	Rows     int                      `json:"rows"`
	DupKeys  int                      `json:"dup_keys"` // keys shared by >1 original row
	Events   []map[string]interface{} `json:"events"`   // raw observation log
	Infra    string                   `json:"infra,omitempty"`
	CycleObs []map[string]interface{} `json:"cycle_obs"`
}

func main() {
	if len(os.Args) >= 2 && os.Args[1] == "compact" {
		childMain()
		return
	}
	if len(os.Args) >= 2 && os.Args[1] == "worker" {
		workerMain(os.Args[2:])
		return
	}
	driverMain()
}

// ---------------------------------------------------------------------------------------
// subprocess role

func childMain() {
	if arc := os.Getenv("C09_ARC"); arc != "" {
		// the real binary, the real subcommand; its verif init() installs the same gate
		err := syscall.Exec(arc, []string{arc, "compact", "--job-stdin"}, os.Environ())
		fmt.Fprintf(os.Stderr, "error: exec %s: %v\n", arc, err)
		os.Exit(1)
	}
	verifc09.InstallChild()
	// from here on: cmd/arc/main.go runCompactSubcommand, --job-stdin arm
	configData, err := io.ReadAll(os.Stdin)
	if err != nil {
		fmt.Fprintf(os.Stderr, "error: failed to read config from stdin: %v\n", err)
		os.Exit(1)
	}
	var cfg compaction.SubprocessJobConfig
	if err := json.Unmarshal(configData, &cfg); err != nil {
		fmt.Fprintf(os.Stderr, "error: invalid job config: %v\n", err)
		os.Exit(1)
	}
	result, err := compaction.RunSubprocessJob(&cfg)
	if err != nil {
		fmt.Fprintf(os.Stderr, "error: %v\n", err)
		os.Exit(1)
	}
	if err := json.NewEncoder(os.Stdout).Encode(result); err != nil {
		fmt.Fprintf(os.Stderr, "error: failed to encode result: %v\n", err)
		os.Exit(1)
	}
}

// ---------------------------------------------------------------------------------------
// driver role

func driverMain() {
	scenPath := flag.String("scenarios", "", "")
	outPath := flag.String("out", "", "")
	arc := flag.String("arc", "", "overlaid arc binary used as the compaction subprocess")
	par := flag.Int("parallel", 4, "")
	work := flag.String("work", "", "scratch directory")
	flag.Parse()
	var scs []scenario
	b, err := os.ReadFile(*scenPath)
	must(err)
	must(json.Unmarshal(b, &scs))
	if *par < 1 {
		*par = 1
	}
	if *par > len(scs) {
		*par = len(scs)
	}
	self, err := os.Executable()
	must(err)
	slices := make([][]scenario, *par)
	for i, s := range scs {
		slices[i%*par] = append(slices[i%*par], s)
	}
	results := make([][]scenResult, *par)
	errs := make([]error, *par)
	var wg sync.WaitGroup
	for w := 0; w < *par; w++ {
		wg.Add(1)
		go func(w int) {
			defer wg.Done()
			wd := filepath.Join(*work, fmt.Sprintf("w%d", w))
			os.MkdirAll(wd, 0o755)
			in := filepath.Join(wd, "in.json")
			out := filepath.Join(wd, "out.json")
			jb, _ := json.Marshal(slices[w])
			os.WriteFile(in, jb, 0o644)
			args := []string{"worker", "-in", in, "-out", out, "-work", wd}
			if *arc != "" {
				args = append(args, "-arc", *arc)
			}
			cmd := exec.Command(self, args...)
			cmd.Stderr = os.Stderr
			if err := cmd.Run(); err != nil {
				errs[w] = fmt.Errorf("worker %d: %v", w, err)
				return
			}
			rb, err := os.ReadFile(out)
			if err != nil {
				errs[w] = err
				return
			}
			errs[w] = json.Unmarshal(rb, &results[w])
		}(w)
	}
	wg.Wait()
	var all []scenResult
	infra := ""
	for w := range results {
		if errs[w] != nil {
			infra = errs[w].Error()
		}
		all = append(all, results[w]...)
	}
	sort.Slice(all, func(i, j int) bool { return all[i].ID < all[j].ID })
	ob, _ := json.Marshal(map[string]interface{}{"results": all, "infra": infra})
	must(os.WriteFile(*outPath, ob, 0o644))
}

func must(err error) {
	if err != nil {
		fmt.Fprintln(os.Stderr, "compaction driver:", err)
		os.Exit(2)
	}
}

// ---------------------------------------------------------------------------------------
// worker role

func workerMain(args []string) {
	fs := flag.NewFlagSet("worker", flag.ExitOnError)
	in := fs.String("in", "", "")
	out := fs.String("out", "", "")
	work := fs.String("work", "", "")
	arc := fs.String("arc", "", "")
	fs.Parse(args)
	var scs []scenario
	b, err := os.ReadFile(*in)
	must(err)
	must(json.Unmarshal(b, &scs))
	if *arc != "" {
		os.Setenv("C09_ARC", *arc)
	}
	db, err := sql.Open("duckdb", "")
	must(err)
	defer db.Close()
	db.Exec("SET threads=1")
	var res []scenResult
	for _, sc := range scs {
		dir := filepath.Join(*work, fmt.Sprintf("sc%d", sc.ID))
		r := runScenario(sc, dir, db)
		if os.Getenv("VERIF_KEEP") == "" {
			os.RemoveAll(dir)
		}
		res = append(res, r)
	}
	ob, _ := json.Marshal(res)
	must(os.WriteFile(*out, ob, 0o644))
}

type rowInfo struct {
	rid     int64
	key     string
	file    string
	content string
	host    string // "\x00" = NULL / column absent
	region  string
	t       int64
	mult    int // number of fully identical copies of this row in the original partition
}

// takeRow / putRow copy one row across every column (and its validity) of a columnar batch.
func takeRow(cols map[string]interface{}, validity map[string][]bool, r int) (map[string]interface{}, map[string]bool) {
	vals, valid := map[string]interface{}{}, map[string]bool{}
	for name, c := range cols {
		switch t := c.(type) {
		case []int64:
			vals[name] = t[r]
		case []float64:
			vals[name] = t[r]
		case []string:
			vals[name] = t[r]
		case []bool:
			vals[name] = t[r]
		}
		valid[name] = true
		if v, ok := validity[name]; ok {
			valid[name] = v[r]
		}
	}
	return vals, valid
}

func putRow(cols map[string]interface{}, validity map[string][]bool, r int, vals map[string]interface{}, valid map[string]bool) {
	for name, c := range cols {
		switch t := c.(type) {
		case []int64:
			t[r] = vals[name].(int64)
		case []float64:
			t[r] = vals[name].(float64)
		case []string:
			t[r] = vals[name].(string)
		case []bool:
			t[r] = vals[name].(bool)
		}
		if v, ok := validity[name]; ok {
			v[r] = valid[name]
		}
	}
}

// genFiles writes the partition with arc's real Arrow/Parquet writer.
func genFiles(sc scenario, backend storage.Backend) (map[int64]*rowInfo, error) {
	rng := rand.New(rand.NewSource(sc.Seed*1000003 + int64(sc.ID)))
	w := ingest.NewArrowWriter(&config.IngestConfig{Compression: []string{"snappy", "zstd", "gzip"}[rng.Intn(3)],
		UseDictionary: rng.Intn(2) == 0, WriteStatistics: true}, zerolog.Nop())
	rows := map[int64]*rowInfo{}
	hosts := []string{"a", "b", "c"}
	regions := []string{"eu", "us"}
	times := make([]int64, 3+rng.Intn(3))
	for i := range times {
		times[i] = hourUS + int64(rng.Intn(3600))*1000000 + int64(rng.Intn(3))
	}
	// "mixed": files without metadata next to files with it. The tag-column set is then the same in every file (so
	// that "identical tag values" means the same thing for every subset of files the adaptive retry may compact).
	mixedRegion := rng.Intn(2) == 0
	// "<mode>_clones": files 1 and 2 share one column set; file 1 holds a row twice (identical in EVERY column, incl.
	// rid, with a NULL in "v") and file 2 holds a third copy of it
	clone := strings.HasSuffix(sc.Dedup, "_clones")
	base := strings.TrimSuffix(sc.Dedup, "_clones")
	var saved map[string]interface{}
	var savedValid map[string]bool
	rid := int64(sc.ID) * 1000
	ctx := context.Background()
	for i := 1; i <= sc.NFiles; i++ {
		n := 1 + rng.Intn(4)
		withTagsMeta := base == "tags" || base == "tags_evolve" || (base == "mixed" && (i%2 == 1))
		hasHost := base != "dedup_time"
		hasRegion := hasHost && rng.Intn(2) == 0
		if base == "mixed" {
			hasRegion = mixedRegion
		}
		fixed := clone && i <= 2
		pick := func(random, forced bool) bool {
			if fixed {
				return forced
			}
			return random
		}
		hasRegion = pick(hasRegion, false)
		if fixed && i == 1 && n < 2 {
			n = 2
		}
		// directed recipe (open finding 3): the first two files declare the extra tag "region" and file 1 holds two
		// rows that differ only in it; the remaining files have no such column and declare only "host"
		evolve := base == "tags_evolve"
		if evolve {
			hasRegion = i <= sc.NFiles/2
			if i == 1 && n < 2 {
				n = 2
			}
		}
		cols := map[string]interface{}{}
		validity := map[string][]bool{}
		tcol := make([]int64, n)
		ridc := make([]int64, n)
		hostc := make([]string, n)
		hostv := make([]bool, n)
		regc := make([]string, n)
		for r := 0; r < n; r++ {
			tcol[r] = times[rng.Intn(len(times))]
			rid++
			ridc[r] = rid
			hostc[r] = hosts[rng.Intn(len(hosts))]
			hostv[r] = rng.Intn(6) != 0
			if !hostv[r] {
				hostc[r] = ""
			}
			regc[r] = regions[rng.Intn(len(regions))]
		}
		if evolve && i == 1 {
			tcol[1] = tcol[0]
			hostc[0], hostc[1], hostv[0], hostv[1] = "a", "a", true, true
			regc[0], regc[1] = "eu", "us"
		}
		// the writer expects time-sorted input like the ingest buffer produces; order is irrelevant to the property
		cols["time"] = tcol
		cols["rid"] = ridc
		var tags []string
		if hasHost {
			cols["host"] = hostc
			validity["host"] = hostv
			tags = append(tags, "host")
		}
		if hasRegion {
			cols["region"] = regc
			tags = append(tags, "region")
		}
		if pick(rng.Intn(3) != 0, true) {
			v := make([]float64, n)
			vv := make([]bool, n)
			for r := range v {
				v[r] = float64(rng.Intn(1000)) / 8
				vv[r] = rng.Intn(4) != 0
			}
			cols["v"] = v
			validity["v"] = vv
		}
		if pick(rng.Intn(2) == 0, false) {
			c := make([]int64, n)
			for r := range c {
				c[r] = int64(rng.Intn(5)) - 2
			}
			cols["cnt"] = c
		}
		if pick(rng.Intn(2) == 0, true) {
			c := make([]string, n)
			cv := make([]bool, n)
			for r := range c {
				c[r] = []string{"x", "it's", "a,b", ""}[rng.Intn(4)]
				cv[r] = rng.Intn(5) != 0
			}
			cols["note"] = c
			validity["note"] = cv
		}
		if pick(rng.Intn(3) == 0, false) {
			c := make([]bool, n)
			for r := range c {
				c[r] = rng.Intn(2) == 0
			}
			cols["ok"] = c
		}
		if fixed {
			if i == 1 {
				validity["v"][0] = false
				saved, savedValid = takeRow(cols, validity, 0)
				putRow(cols, validity, 1, saved, savedValid)
			} else {
				putRow(cols, validity, 0, saved, savedValid)
			}
		}
		var metaTags []string
		if withTagsMeta {
			metaTags = tags
		}
		data, err := w.WriteParquetColumnar(ctx, measName, cols, validity, metaTags, base == "dedup_time", nil)
		if err != nil {
			return nil, fmt.Errorf("WriteParquetColumnar: %w", err)
		}
		name := fmt.Sprintf("%s_20240115_10%02d%02d_%d.parquet", measName, i/60, i%60, 1705312800000000000+int64(i))
		if err := backend.Write(ctx, partition+"/"+name, data); err != nil {
			return nil, err
		}
		for r := 0; r < n; r++ {
			key := "rid:" + strconv.FormatInt(ridc[r], 10)
			if base != "none" {
				h, g := "\x00", "\x00"
				if hasHost && hostv[r] {
					h = hostc[r]
				}
				if hasRegion {
					g = regc[r]
				}
				key = fmt.Sprintf("%s|%s|%d", h, g, tcol[r])
			}
			if prev := rows[ridc[r]]; prev != nil {
				prev.mult++ // another copy of the same row
				continue
			}
			ri := &rowInfo{rid: ridc[r], key: key, file: name, host: "\x00", region: "\x00", t: tcol[r], mult: 1}
			if hasHost && hostv[r] {
				ri.host = hostc[r]
			}
			if hasRegion {
				ri.region = regc[r]
			}
			rows[ridc[r]] = ri
		}
	}
	return rows, nil
}

// scanRows reads rows with DuckDB and returns rid -> count and rid -> canonical content.
func scanRows(db *sql.DB, src string) (map[int64]int, map[int64]string, error) {
	counts := map[int64]int{}
	content := map[int64]string{}
	q := fmt.Sprintf("SELECT * FROM read_parquet('%s', union_by_name=true)", strings.ReplaceAll(src, "'", "''"))
	rs, err := db.Query(q)
	if err != nil {
		return nil, nil, err
	}
	defer rs.Close()
	cols, _ := rs.Columns()
	order := make([]int, len(cols))
	for i := range order {
		order[i] = i
	}
	sort.Slice(order, func(a, b int) bool { return cols[order[a]] < cols[order[b]] })
	for rs.Next() {
		vals := make([]interface{}, len(cols))
		ptrs := make([]interface{}, len(cols))
		for i := range vals {
			ptrs[i] = &vals[i]
		}
		if err := rs.Scan(ptrs...); err != nil {
			return nil, nil, err
		}
		var rid int64 = -1
		var sb strings.Builder
		for _, i := range order {
			v := vals[i]
			if v == nil {
				continue // NULL and "column absent in that file" are the same observation
			}
			var s string
			switch t := v.(type) {
			case time.Time:
				s = strconv.FormatInt(t.UnixMicro(), 10)
			case float64:
				s = strconv.FormatFloat(t, 'g', -1, 64)
			case []byte:
				s = strconv.Quote(string(t))
			case string:
				s = strconv.Quote(t)
			default:
				s = fmt.Sprintf("%v", t)
			}
			if cols[i] == "rid" {
				switch t := v.(type) {
				case int64:
					rid = t
				case int32:
					rid = int64(t)
				}
			}
			sb.WriteString(cols[i] + "=" + s + ";")
		}
		counts[rid]++
		if prev, ok := content[rid]; ok && prev != sb.String() {
			content[rid] = prev + " <> " + sb.String()
		} else {
			content[rid] = sb.String()
		}
	}
	return counts, content, rs.Err()
}

func scanPartition(db *sql.DB, root string) (map[int64]int, map[int64]string, error) {
	dir := filepath.Join(root, partition)
	m, _ := filepath.Glob(filepath.Join(dir, "*.parquet"))
	if len(m) == 0 {
		return map[int64]int{}, map[int64]string{}, nil
	}
	counts, content, err := scanRows(db, filepath.Join(dir, "*.parquet"))
	if err == nil {
		return counts, content, nil
	}
	// the glob failed (an unreadable final object, or a file vanished under the scan): read file by file and count
	// only rows that can actually be read; the row-multiset judgement decides what that means
	counts, content = map[int64]int{}, map[int64]string{}
	for _, f := range m {
		c, ct, err := scanRows(db, f)
		if err != nil {
			continue
		}
		for rid, n := range c {
			counts[rid] += n
			if prev, ok := content[rid]; ok && prev != ct[rid] {
				content[rid] = prev + " <> " + ct[rid]
			} else {
				content[rid] = ct[rid]
			}
		}
	}
	return counts, content, nil
}

func pairs(m map[int64]int, remap func(int64) int) [][]int {
	out := [][]int{}
	keys := make([]int64, 0, len(m))
	for k := range m {
		keys = append(keys, k)
	}
	sort.Slice(keys, func(i, j int) bool { return keys[i] < keys[j] })
	for _, k := range keys {
		out = append(out, []int{remap(k), m[k]})
	}
	return out
}

func readEvents(obs string) []map[string]interface{} {
	var evs []map[string]interface{}
	b, err := os.ReadFile(filepath.Join(obs, "events.ndjson"))
	if err != nil {
		return nil
	}
	for _, line := range strings.Split(string(b), "\n") {
		if strings.TrimSpace(line) == "" {
			continue
		}
		var e map[string]interface{}
		if json.Unmarshal([]byte(line), &e) == nil {
			evs = append(evs, e)
		}
	}
	return evs
}

func num(v interface{}) int {
	if f, ok := v.(float64); ok {
		return int(f)
	}
	return 0
}

func runScenario(sc scenario, dir string, db *sql.DB) (res scenResult) {
	res = scenResult{ID: sc.ID, Label: sc.Label}
	fail := func(f string, a ...interface{}) scenResult {
		res.Infra = fmt.Sprintf(f, a...)
		return res
	}
	root := filepath.Join(dir, "storage")
	obs := filepath.Join(dir, "obs")
	tmp := filepath.Join(dir, "tmp")
	for _, d := range []string{root, obs, tmp} {
		if err := os.MkdirAll(d, 0o755); err != nil {
			return fail("mkdir: %v", err)
		}
	}
	backend, err := storage.NewLocalBackend(root, zerolog.Nop())
	if err != nil {
		return fail("backend: %v", err)
	}
	rows, err := genFiles(sc, backend)
	if err != nil {
		return fail("generate: %v", err)
	}
	verifc09.Configure(obs, root, partition)
	verifc09.Mark(map[string]interface{}{"ev": "init"})

	count0, content0, err := scanPartition(db, root)
	if err != nil {
		return fail("initial scan: %v", err)
	}
	if len(count0) != len(rows) {
		return fail("initial scan shows %d rows, generated %d", len(count0), len(rows))
	}
	for rid, n := range count0 {
		if rows[rid] == nil || n != rows[rid].mult {
			return fail("initial scan: rid %d shown %d times", rid, n)
		}
		rows[rid].content = content0[rid]
	}
	res.Rows = len(rows)
	// small integer ids for TLC
	ridIdx := map[int64]int{}
	var rids []int64
	for rid := range rows {
		rids = append(rids, rid)
	}
	sort.Slice(rids, func(i, j int) bool { return rids[i] < rids[j] })
	for i, rid := range rids {
		ridIdx[rid] = i + 1
	}
	foreign := 0
	remap := func(rid int64) int {
		if i, ok := ridIdx[rid]; ok {
			return i
		}
		foreign++
		return 100000 + foreign
	}
	keyIdx := map[string]int{}
	keyCount := map[string]int{}
	origPairs := [][]int{}
	multPairs := [][]int{}
	exact := strings.TrimSuffix(sc.Dedup, "_clones") == "none" // no file carries dedup metadata: row counts must be preserved
	for _, rid := range rids {
		k := rows[rid].key
		if _, ok := keyIdx[k]; !ok {
			keyIdx[k] = len(keyIdx) + 1
		}
		keyCount[k]++
		origPairs = append(origPairs, []int{ridIdx[rid], keyIdx[k]})
		multPairs = append(multPairs, []int{ridIdx[rid], rows[rid].mult})
	}
	for _, n := range keyCount {
		if n > 1 {
			res.DupKeys++
		}
	}

	tier := compaction.NewHourlyTier(&compaction.HourlyTierConfig{StorageBackend: backend, MinAgeHours: 1,
		MinFiles: sc.MinFiles, Enabled: true, Logger: zerolog.Nop()})
	mgr := compaction.NewManager(&compaction.ManagerConfig{StorageBackend: backend, LockManager: compaction.NewLockManager(),
		MinAgeHours: 1, MinFiles: sc.MinFiles, MaxFilesPerBatch: sc.MaxBatch, MaxConcurrent: 1, TempDirectory: tmp,
		MemoryLimit: "256MB", Threads: 1, Tiers: []compaction.Tier{tier}, Logger: zerolog.Nop()})

	var scans []scanRec
	clockBase := time.Now().Truncate(time.Second)
	for ci, cp := range sc.Cycles {
		plan := map[string]int{}
		planned := 0
		for ji, j := range cp.Jobs {
			if j.Gate > 0 {
				plan[strconv.Itoa(ji+1)] = j.Gate
				planned++
			}
		}
		pb, _ := json.Marshal(plan)
		os.WriteFile(filepath.Join(obs, "plan.json"), pb, 0o644)
		os.WriteFile(filepath.Join(obs, "jobseq"), []byte("0"), 0o644)
		// the controlled clock of this cycle's jobs: one fixed second per cycle (see verifc09.InstallChild)
		os.WriteFile(filepath.Join(obs, "clock"), []byte(strconv.FormatInt(clockBase.Add(time.Duration(ci)*time.Second).UnixNano(), 10)), 0o644)
		verifc09.Mark(map[string]interface{}{"ev": "cycle_start", "cycle": ci + 1})
		// generous deadline: exceeding it is an infrastructure failure, never an (unplanned) kill that gets judged
		ctx, cancel := context.WithTimeout(context.Background(), 60*time.Minute)
		_, err := mgr.RunCompactionCycleForTiers(ctx, []string{"hourly"})
		expired := ctx.Err() != nil
		cancel()
		if err != nil {
			return fail("cycle %d: %v", ci+1, err)
		}
		if expired {
			return fail("cycle %d: deadline exceeded (machine overloaded?)", ci+1)
		}
		counts, content, err := scanPartition(db, root)
		if err != nil {
			return fail("scan after cycle %d: %v", ci+1, err)
		}
		// what happened in this cycle
		evs := readEvents(obs)
		start := 0
		for i, e := range evs {
			if e["ev"] == "cycle_start" && num(e["cycle"]) == ci+1 {
				start = i
			}
		}
		jobs := map[int]*jobObs{}
		var order []int
		fired := 0
		for _, e := range evs[start:] {
			switch e["ev"] {
			case "jobstart":
				j := &jobObs{Cycle: ci + 1, Job: num(e["job"]), KillAt: num(e["kill_at"])}
				jobs[j.Job] = j
				order = append(order, j.Job)
			case "gate":
				if j := jobs[num(e["job"])]; j != nil {
					j.Gates = num(e["n"])
				}
			case "kill":
				if j := jobs[num(e["job"])]; j != nil {
					j.Killed = num(e["n"])
					fired++
				}
			}
		}
		for _, jn := range order {
			res.Jobs = append(res.Jobs, *jobs[jn])
		}
		// drift against the specification's prediction (never a verdict)
		if len(order) != len(cp.Jobs) {
			res.Drift = append(res.Drift, fmt.Sprintf("cycle %d: spec predicts %d subprocess jobs, real manager started %d", ci+1, len(cp.Jobs), len(order)))
		} else {
			for ji, jp := range cp.Jobs {
				j := jobs[order[ji]]
				want := jp.NValid + 4
				if jp.NValid == 0 {
					want = 0
				}
				if jp.Gate > 0 {
					want = jp.Gate
				}
				if j.Gates != want || j.Killed != jp.Gate {
					res.Drift = append(res.Drift, fmt.Sprintf("cycle %d job %d: spec predicts %d storage mutations (kill at %d), observed %d (kill at %d)",
						ci+1, ji+1, want, jp.Gate, j.Gates, j.Killed))
				}
			}
		}
		clean := fired == 0
		var altered []int
		for rid, c := range content {
			if r := rows[rid]; r != nil && r.content != c {
				altered = append(altered, ridIdx[rid])
			}
		}
		sort.Ints(altered)
		verifc09.Mark(map[string]interface{}{"ev": "cycle_end", "cycle": ci + 1, "clean": clean, "planned_kills": planned, "fired_kills": fired})
		scans = append(scans, scanRec{clean, counts, altered})
		nvis, _ := filepath.Glob(filepath.Join(root, partition, "*.parquet"))
		nall, _ := os.ReadDir(filepath.Join(root, partition))
		res.CycleObs = append(res.CycleObs, map[string]interface{}{"cycle": ci + 1, "clean": clean, "visible_files": len(nvis), "other_entries": len(nall) - len(nvis)})
		if clean && cp.Clean == 1 && (len(nvis) != cp.Vis || len(nall)-len(nvis) != cp.Parts) {
			res.Drift = append(res.Drift, fmt.Sprintf("cycle %d: spec predicts %d visible files + %d .part, observed %d + %d", ci+1, cp.Vis, cp.Parts, len(nvis), len(nall)-len(nvis)))
		}
	}

	// ---- build the TLC trace from the observation log
	evs := readEvents(obs)
	res.Events = evs
	tr := []map[string]interface{}{{"ev": "start", "sc": sc.ID, "rows": origPairs, "mult": multPairs, "exact": exact}}
	ci := 0
	for _, e := range evs {
		switch e["ev"] {
		case "put":
			name := e["f"].(string)
			link := e["link"].(string)
			counts, _, err := scanRows(db, link)
			if err != nil {
				// a partial / truncated / overwritten-in-flight object holds no row a query could read
				counts = map[int64]int{}
			}
			tr = append(tr, map[string]interface{}{"ev": "put", "sc": sc.ID, "f": name, "vis": strings.HasSuffix(name, ".parquet"),
				"rows": pairs(counts, remap), "by": e["by"], "unreadable": err != nil})
		case "del":
			tr = append(tr, map[string]interface{}{"ev": "del", "sc": sc.ID, "f": e["f"], "by": e["by"]})
		case "cycle_end":
			s := scans[ci]
			ci++
			alt := s.altered
			if alt == nil {
				alt = []int{}
			}
			tr = append(tr, map[string]interface{}{"ev": "cycle", "sc": sc.ID, "clean": s.clean, "scan": pairs(s.counts, remap), "altered": alt})
		default:
			tr = append(tr, map[string]interface{}{"ev": "aux", "sc": sc.ID, "what": e["ev"], "info": e})
		}
	}
	tr = append(tr, map[string]interface{}{"ev": "end", "sc": sc.ID})
	res.Trace = tr
	res.Go = judge(sc, rows, evs, scans, db)
	return res
}

type scanRec struct {
	clean   bool
	counts  map[int64]int
	altered []int
}

// judge re-evaluates the property on the Go side only to NAME the mechanism (signature) of a
// violation; the verdict itself is TLC's (CompactionTrace.tla). Disagreement between the two is
// reported by the check as an infrastructure error.
func judge(sc scenario, rows map[int64]*rowInfo, evs []map[string]interface{}, scans []scanRec, db *sql.DB) verdict {
	// replay the data-file events for the delete-safety clause
	files := map[string]map[int64]int{}
	visKeys := func() map[string]bool {
		ks := map[string]bool{}
		for n, rs := range files {
			if !strings.HasSuffix(n, ".parquet") {
				continue
			}
			for rid, c := range rs {
				if c > 0 {
					if r := rows[rid]; r != nil {
						ks[r.key] = true
					} else {
						ks["foreign"] = true
					}
				}
			}
		}
		return ks
	}
	// a lost key whose (time + a proper subset of its tag values) is still shown: the rows were collapsed by a dedup
	// on fewer tag columns than the partition's files declare
	newestOutput := "" // the most recently published compaction output
	// narrowed: the lost key's (time + a proper subset of its tag values) is still shown, i.e. the rows were collapsed
	// by a dedup on fewer tag columns. viaCompacted: the lost row or its surviving sibling sat in an EARLIER compaction
	// output (a file without arc:tags) that was an input of the collapsing job.
	narrowed := func(key string, deleting string) (bool, bool) {
		var lost *rowInfo
		for _, r := range rows {
			if r.key == key {
				lost = r
				break
			}
		}
		if lost == nil || strings.TrimSuffix(sc.Dedup, "_clones") == "none" {
			return false, false
		}
		isOld := func(n string) bool { return strings.HasSuffix(n, "_compacted.parquet") && n != newestOutput }
		found, via := false, isOld(deleting)
		for n, rs := range files {
			if !strings.HasSuffix(n, ".parquet") {
				continue
			}
			for rid, c := range rs {
				if r := rows[rid]; c > 0 && r != nil && r.key != key && r.t == lost.t && (r.host == lost.host || r.region == lost.region) {
					found = true
					if isOld(n) {
						via = true
					}
				}
			}
		}
		return found, found && via
	}
	const narrowSig = "lost-rows:compacted-output-carries-no-arc:tags>later-job-dedups-on-narrower-tag-set>rows-differing-only-in-a-dropped-tag-collapse"
	const rawNarrowSig = "lost-rows:job-dedups-on-fewer-tags-than-its-own-raw-inputs-declare>rows-differing-only-in-the-omitted-tag-collapse"
	published := map[string]bool{} // "jobN" of the current cycle -> has published an output
	// facts used for the signature
	type jobFact struct {
		cycle, job, killed int
		manifest           string
		manifestAlive      bool // its crash-recovery manifest existed when it was killed
	}
	live := map[string]bool{}
	var jobsF []*jobFact
	cur := map[int]*jobFact{}
	cycle := 0
	partSeen := map[string]bool{}
	partConsumed := false
	si := 0
	for _, e := range evs {
		switch e["ev"] {
		case "cycle_start":
			cycle = num(e["cycle"])
			cur = map[int]*jobFact{}
			published = map[string]bool{}
		case "jobstart":
			j := &jobFact{cycle: cycle, job: num(e["job"])}
			cur[j.job] = j
			jobsF = append(jobsF, j)
		case "kill":
			if j := cur[num(e["job"])]; j != nil {
				j.killed = num(e["n"])
				j.manifestAlive = j.manifest != "" && live[j.manifest]
			}
		case "mput":
			m := fmt.Sprint(e["m"])
			live[m] = true
			who := strings.SplitN(fmt.Sprint(e["by"]), ":", 2)[0]
			if strings.HasPrefix(who, "job") {
				if n, err := strconv.Atoi(strings.TrimPrefix(who, "job")); err == nil && cur[n] != nil && cur[n].manifest == "" {
					cur[n].manifest = m
				}
			}
		case "mdel":
			delete(live, fmt.Sprint(e["m"]))
		case "put":
			name := e["f"].(string)
			counts, _, err := scanRows(db, e["link"].(string))
			if err != nil {
				counts = map[int64]int{}
			}
			files[name] = counts
			if strings.HasSuffix(name, ".part") {
				partSeen[name] = true
			} else {
				published[strings.SplitN(fmt.Sprint(e["by"]), ":", 2)[0]] = true
				if strings.HasSuffix(name, "_compacted.parquet") {
					newestOutput = name
				}
			}
		case "del":
			name := e["f"].(string)
			before := visKeys()
			if strings.HasSuffix(name, ".part") && partSeen[name] && !strings.Contains(fmt.Sprint(e["by"]), "wr.rename") {
				// a .part removed by a Delete (not by its own rename): it was consumed as a compaction input
				if files[name] != nil {
					if _, renamed := files[strings.TrimSuffix(name, ".part")]; !renamed {
						partConsumed = true
					}
				}
			}
			before0 := files[name]
			delete(files, name)
			after := visKeys()
			for k := range before {
				if !after[k] {
					who := strings.SplitN(fmt.Sprint(e["by"]), ":", 2)[0]
					sig := "unsafe-delete:file-deleted-by-compaction-job-before-it-published-an-output"
					files[name] = before0 // judge against the directory as it was before this delete
					nar, via := narrowed(k, name)
					delete(files, name)
					switch {
					case e["replaced"] == true:
						sig = "lost-rows:published-file-overwritten-in-place-by-a-later-upload-with-the-same-name"
					case nar && via:
						// the rows sat in an earlier compaction output (which carries no arc:tags) when they collapsed
						sig = narrowSig
					case nar:
						// the rows sat in a raw file that itself declares the tag the job's dedup key left out
						sig = rawNarrowSig
					case who == "parent":
						sig = "unsafe-delete:file-deleted-by-manifest-recovery-while-its-rows-are-in-no-visible-file"
					case published[who]:
						sig = "unsafe-delete:input-deleted-but-published-output-lacks-its-rows"
					}
					return verdict{Code: 1, Signature: sig, Detail: map[string]interface{}{"file": name, "by": e["by"], "key": k, "cycle": cycle, "dedup": sc.Dedup}}
				}
			}
		case "cycle_end":
			if si >= len(scans) {
				continue
			}
			s := scans[si]
			si++
			if !s.clean {
				continue
			}
			if len(s.altered) > 0 {
				return verdict{Code: 4, Signature: "altered-row-content-after-compaction", Detail: map[string]interface{}{"cycle": cycle, "rows": s.altered}}
			}
			shown := map[string]int{}
			var dup []int64
			for rid, c := range s.counts {
				r := rows[rid]
				if r == nil {
					return verdict{Code: 4, Signature: "row-that-was-never-written-appears", Detail: map[string]interface{}{"cycle": cycle, "rid": rid}}
				}
				shown[r.key] += c
				if c > r.mult {
					dup = append(dup, rid)
				}
			}
			if len(dup) > 0 {
				sort.Slice(dup, func(i, j int) bool { return dup[i] < dup[j] })
				// mechanism
				killedAfterUpload, retried := false, false
				for _, j := range jobsF {
					if j.killed >= 4 && j.manifestAlive {
						killedAfterUpload = true
						for _, k := range jobsF {
							if k.cycle == j.cycle && k.job > j.job {
								retried = true
							}
						}
					}
				}
				sig := "dup-rows:unclassified"
				switch {
				case partConsumed:
					sig = "dup-rows:kill-between-upload-copy-and-rename>complete-.part-file-listed-as-input>recompacted-next-to-its-own-inputs"
				case killedAfterUpload && retried:
					sig = "dup-rows:kill-after-upload>adaptive-split-retry-recompacts-same-inputs>recovery-keeps-orphaned-output"
				}
				holders := map[string]int{}
				for n, rs := range files {
					if strings.HasSuffix(n, ".parquet") && rs[dup[0]] > 0 {
						holders[n] = rs[dup[0]]
					}
				}
				return verdict{Code: 2, Signature: sig, Detail: map[string]interface{}{"cycle": cycle, "duplicated_rows": len(dup),
					"example_rid": dup[0], "example_row": rows[dup[0]].content, "held_by": holders, "dedup": sc.Dedup}}
			}
			for _, r := range rows {
				if shown[r.key] == 0 {
					sig := "lost-rows:key-shown-before-is-in-no-visible-file-after-clean-cycle"
					if nar, via := narrowed(r.key, ""); nar && via {
						sig = narrowSig
					} else if nar {
						sig = rawNarrowSig
					}
					return verdict{Code: 3, Signature: sig,
						Detail: map[string]interface{}{"cycle": cycle, "rid": r.rid, "row": r.content, "was_in": r.file, "dedup": sc.Dedup}}
				}
			}
			if strings.TrimSuffix(sc.Dedup, "_clones") == "none" {
				// no dedup metadata anywhere: nothing may collapse, not even rows that are equal in every column
				for _, r := range rows {
					if s.counts[r.rid] < r.mult {
						return verdict{Code: 3, Signature: "lost-rows:copies-of-a-row-identical-in-every-column-disappeared-from-a-partition-without-dedup-metadata",
							Detail: map[string]interface{}{"cycle": cycle, "rid": r.rid, "row": r.content, "copies_before": r.mult,
								"copies_after": s.counts[r.rid], "dedup": sc.Dedup}}
					}
				}
			}
		}
	}
	return verdict{Code: 0}
}
